(* C24: icegatherer.go -- the OnCandidate callback registered by Gather, the
   candidate pool, flushCandidates and ICE restarts, as an interleaving model.

   Threads: TAgent = the ICE agent's notifier goroutine (it delivers what is
   queued, one callback at a time: assumed contract of pion/ice); TFlush j =
   the j-th flushCandidates call (one per SetLocalDescription); TRestart = an
   ICE restart (ICETransport.restart: agent.Restart, then Gather again): it
   starts the next gathering cycle.  Atomic blocks are the code between the
   yield points gather.cb.{enter,emit,nil-pool} and gather.flush.emit.

   Every delivery carries, as a ghost, the number of the gathering cycle it
   belongs to (the code does not see it): "per gathering cycle" properties are
   stated on the handler sequence filtered by that tag.

   [fx]: true = the code after "fix: the flush that is reporting pooled
   candidates reports the end of candidates" (candidatePoolFlushing), false =
   the code before it, kept for the recorded witness.
   Part B is the code before the first repair (flush emitted nil whenever the
   state was complete).  No proofs here. *)
From Coq Require Import List Arith Bool.
Import ListNotations.

Definition cand := nat.
Notation tcand := (nat * cand)%type (only parsing).          (* cycle tag, candidate *)
Notation item := (nat * option cand)%type (only parsing).    (* cycle tag, candidate or nil *)

Inductive gst := GGathering | GComplete.

(* where the agent's goroutine is *)
Inductive aphase :=
| AEnter                          (* between callbacks *)
| ACandEmit (k : nat) (c : cand)  (* candidate not pooled; before onLocalCandidateHandler(&c) *)
| ANilPool (k : nat)              (* nil: state stored complete; before the pool lock *)
| ANilEmit (k : nat).             (* nil not kept back; before onLocalCandidateHandler(nil) *)

(* where a flushCandidates call is *)
Inductive fphase :=
| FStart
| FEmit (cs : list tcand) (na : option nat)
      (* before reporting the head of cs; na: (fx = false only) the kept-back nil taken at the start *)
| FNil (k : nat)                  (* before reporting nil *)
| FDone.

Record st := {
  gstate : gst;                   (* g.state (atomic) *)
  pool   : option (list tcand);   (* g.candidatePool; None = nil slice *)
  psize  : nat;                   (* g.iceCandidatePoolSize *)
  nilp   : option nat;            (* g.candidatePoolComplete (Some k: the end of cycle k is kept back) *)
  flushing : nat;                 (* g.candidatePoolFlushing *)
  out    : list item;             (* OnLocalCandidate invocations so far *)
  a_queue : list item;            (* what the agent will still deliver, in this order *)
  a_ph   : aphase;
  fl     : list fphase;
  ncyc   : nat;                   (* ghost: gathering cycles started so far *)
  cycles : list (list cand * bool)
      (* cycles the restarts still to come will start: candidates that get
         delivered, and whether the cycle completes (delivers nil) or is cancelled
         by the next restart before it does *)
}.

Definition pool_active (s : st) : bool :=
  match pool s with Some _ => Nat.ltb 0 (psize s) | None => false end.

Definition cycle_items (k : nat) (c : list cand * bool) : list item :=
  map (fun x => (k, Some x)) (fst c) ++ (if snd c then [(k, None)] else []).

Fixpoint set_nth {A} (i : nat) (x : A) (l : list A) {struct l} : list A :=
  match l, i with
  | [], _ => []
  | _ :: t, O => x :: t
  | a :: t, S j => a :: set_nth j x t
  end.

Definition upd (s : st) (g : gst) (p : option (list tcand)) (ps : nat) (np : option nat) (f : nat)
    (o : list item) (q : list item) (a : aphase) (l : list fphase) : st :=
  {| gstate := g; pool := p; psize := ps; nilp := np; flushing := f; out := o; a_queue := q;
     a_ph := a; fl := l; ncyc := ncyc s; cycles := cycles s |}.

(* ---------- agent ---------- *)
Definition agent_step (fx : bool) (s : st) : option st :=
  match a_ph s with
  | AEnter =>
      match a_queue s with
      | [] => None
      | (k, Some c) :: r =>
          (* candidate != nil: lock; pool active -> append, return *)
          if pool_active s then
            Some (upd s (gstate s)
                    (match pool s with Some l => Some (l ++ [(k, c)]) | None => None end)
                    (psize s) (nilp s) (flushing s) (out s) r AEnter (fl s))
          else Some (upd s (gstate s) (pool s) (psize s) (nilp s) (flushing s) (out s) r
                       (ACandEmit k c) (fl s))
      | (k, None) :: r =>
          (* candidate == nil: setState(complete); onGatheringCompleteHandler() *)
          Some (upd s GComplete (pool s) (psize s) (nilp s) (flushing s) (out s) r (ANilPool k) (fl s))
      end
  | ACandEmit k c =>
      Some (upd s (gstate s) (pool s) (psize s) (nilp s) (flushing s) (out s ++ [(k, Some c)])
              (a_queue s) AEnter (fl s))
  | ANilPool k =>
      (* lock; pool active (fx: or a flush is reporting) -> keep the nil back, return *)
      if pool_active s || (fx && Nat.ltb 0 (flushing s)) then
        Some (upd s (gstate s) (pool s) (psize s) (Some k) (flushing s) (out s) (a_queue s) AEnter (fl s))
      else Some (upd s (gstate s) (pool s) (psize s) (nilp s) (flushing s) (out s) (a_queue s)
                   (ANilEmit k) (fl s))
  | ANilEmit k =>
      Some (upd s (gstate s) (pool s) (psize s) (nilp s) (flushing s) (out s ++ [(k, None)])
              (a_queue s) AEnter (fl s))
  end.

(* ---------- flushCandidates ---------- *)
(* fx: all candidates reported: lock; flushing--; the last flush takes the kept-back nil *)
Definition flush_finish (s : st) (j : nat) : st :=
  let f := pred (flushing s) in
  match nilp s with
  | Some k =>
      if Nat.eqb f 0
      then upd s (gstate s) (pool s) (psize s) None f (out s) (a_queue s) (a_ph s) (set_nth j (FNil k) (fl s))
      else upd s (gstate s) (pool s) (psize s) (nilp s) f (out s) (a_queue s) (a_ph s) (set_nth j FDone (fl s))
  | None => upd s (gstate s) (pool s) (psize s) None f (out s) (a_queue s) (a_ph s) (set_nth j FDone (fl s))
  end.

(* position after the candidates taken at the start (fx = false) *)
Definition fnextp (cs : list tcand) (na : option nat) : fphase :=
  match cs with
  | _ :: _ => FEmit cs na
  | [] => match na with Some k => FNil k | None => FDone end
  end.

Definition flush_step (fx : bool) (s : st) (j : nat) : option st :=
  match nth_error (fl s) j with
  | Some FStart =>
      (* lock; candidates := pool; pool = nil; size = 0; ... unlock *)
      let cs := match pool s with Some l => l | None => [] end in
      if fx then
        let s1 := upd s (gstate s) None 0 (nilp s) (S (flushing s)) (out s) (a_queue s) (a_ph s)
                    (set_nth j (FEmit cs None) (fl s)) in
        match cs with
        | [] => Some (flush_finish s1 j)     (* nothing to report: straight on to the end *)
        | _ :: _ => Some s1
        end
      else
        Some (upd s (gstate s) None 0 None (flushing s) (out s) (a_queue s) (a_ph s)
                (set_nth j (fnextp cs (nilp s)) (fl s)))
  | Some (FEmit (c :: r) na) =>
      let s1 := upd s (gstate s) (pool s) (psize s) (nilp s) (flushing s)
                  (out s ++ [(fst c, Some (snd c))]) (a_queue s) (a_ph s) (fl s) in
      if fx then
        match r with
        | [] => Some (flush_finish s1 j)
        | _ :: _ => Some (upd s1 (gstate s1) (pool s1) (psize s1) (nilp s1) (flushing s1) (out s1)
                            (a_queue s1) (a_ph s1) (set_nth j (FEmit r na) (fl s1)))
        end
      else
        Some (upd s1 (gstate s1) (pool s1) (psize s1) (nilp s1) (flushing s1) (out s1)
                (a_queue s1) (a_ph s1) (set_nth j (fnextp r na) (fl s1)))
  | Some (FEmit [] _) =>   (* not a position of the code *)
      Some (upd s (gstate s) (pool s) (psize s) (nilp s) (flushing s) (out s) (a_queue s) (a_ph s)
              (set_nth j FDone (fl s)))
  | Some (FNil k) =>
      Some (upd s (gstate s) (pool s) (psize s) (nilp s) (flushing s) (out s ++ [(k, None)])
              (a_queue s) (a_ph s) (set_nth j FDone (fl s)))
  | Some FDone | None => None
  end.

(* ---------- ICE restart: agent.Restart(); Gather(): setState(gathering), a new
   callback, GatherCandidates() ---------- *)
Definition restart_step (s : st) : option st :=
  match cycles s with
  | [] => None
  | c :: rest =>
      Some {| gstate := GGathering; pool := pool s; psize := psize s; nilp := nilp s;
              flushing := flushing s; out := out s;
              a_queue := a_queue s ++ cycle_items (ncyc s) c;
              a_ph := a_ph s; fl := fl s; ncyc := S (ncyc s); cycles := rest |}
  end.

Inductive tid := TAgent | TFlush (j : nat) | TRestart.

Definition step (fx : bool) (s : st) (t : tid) : option st :=
  match t with
  | TAgent => agent_step fx s
  | TFlush j => flush_step fx s j
  | TRestart => restart_step s
  end.

Fixpoint run (fx : bool) (s : st) (sch : list tid) : st :=
  match sch with
  | [] => s
  | t :: rest => match step fx s t with
                 | Some s' => run fx s' rest
                 | None => run fx s rest
                 end
  end.

Fixpoint run_trace (fx : bool) (s : st) (sch : list tid) : st * list bool :=
  match sch with
  | [] => (s, [])
  | t :: rest => match step fx s t with
                 | Some s' => let r := run_trace fx s' rest in (fst r, true :: snd r)
                 | None => let r := run_trace fx s rest in (fst r, false :: snd r)
                 end
  end.

(* pool size 1: NewPeerConnection starts gathering (cycle 0) with an empty pool.
   pool size 0: gathering starts in the first SetLocalDescription, after its
   flushCandidates call (pool nil, size 0).
   [first]: cycle 0; [more]: the cycles started by the restarts. *)
Definition init (poolsize : nat) (first : list cand * bool) (more : list (list cand * bool))
    (nflush : nat) : st :=
  {| gstate := GGathering;
     pool := if Nat.ltb 0 poolsize then Some [] else None;
     psize := poolsize; nilp := None; flushing := 0; out := [];
     a_queue := cycle_items 0 first; a_ph := AEnter; fl := repeat FStart nflush;
     ncyc := 1; cycles := more |}.

(* one gathering cycle that completes, no restart *)
Definition init1 (poolsize : nat) (cands : list cand) (nflush : nat) : st :=
  init poolsize (cands, true) [] nflush.

Definition fdone (f : fphase) : bool := match f with FDone => true | _ => false end.
Definition adone (s : st) : bool :=
  match a_ph s, a_queue s, cycles s with AEnter, [], [] => true | _, _, _ => false end.
Definition quiescent (s : st) : bool := adone s && forallb fdone (fl s).

(* ---------- the property on the sequence of handler invocations ---------- *)
(* what the application saw of gathering cycle k *)
Definition view (k : nat) (o : list item) : list (option cand) :=
  map snd (filter (fun e => Nat.eqb (fst e) k) o).
(* ... and of all of them *)
Definition untagged (o : list item) : list (option cand) := map snd o.

Definition emitted (o : list (option cand)) : list cand :=
  flat_map (fun e => match e with Some c => [c] | None => [] end) o.
Definition nil_count (o : list (option cand)) : nat :=
  List.length (filter (fun e => match e with None => true | Some _ => false end) o).
(* no candidate after the end-of-candidates marker (and no second marker) *)
Fixpoint nil_last (o : list (option cand)) : bool :=
  match o with
  | [] => true
  | None :: t => match t with [] => true | _ => false end
  | Some _ :: t => nil_last t
  end.

(* ---------- the guard of c24_cycles_full: an ICE restart happens when nothing
   is pooled or being flushed (after the first SetLocalDescription, and not
   concurrently with one that is still reporting pooled candidates) ---------- *)
Definition stepG (s : st) (t : tid) : option st :=
  match t with
  | TRestart => if pool_active s || Nat.ltb 0 (flushing s) then None else restart_step s
  | _ => step true s t
  end.

Fixpoint runG (s : st) (sch : list tid) : st :=
  match sch with
  | [] => s
  | t :: rest => match stepG s t with
                 | Some s' => runG s' rest
                 | None => runG s rest
                 end
  end.

(* ------------------------------------------------------------------ *)
(* Part B: flushCandidates before the repair                           *)
(* ------------------------------------------------------------------ *)
(* The flush read g.State() after releasing the pool lock (its own atomic
   block, between the yield points gather.flush.taken and gather.flush.emit)
   and emitted nil when it read complete; the nil path only returned when the
   pool was active. *)
Inductive aphase0 :=
| BEnter | BCandEmit (c : cand) | BNilPool | BNilEmit | BDone.

Inductive fphase0 :=
| F0Start
| F0Taken (cs : list cand)
| F0Emit (cs : list cand) (nil_after : bool)
| F0Done.

Record st0 := {
  gstate0 : gst; pool0 : option (list cand); psize0 : nat;
  out0 : list (option cand); a_rest0 : list cand; a_ph0 : aphase0; fl0 : list fphase0
}.

Definition pool_active0 (s : st0) : bool :=
  match pool0 s with Some _ => Nat.ltb 0 (psize0 s) | None => false end.

Definition fnext0 (cs : list cand) (b : bool) : fphase0 :=
  match cs with
  | _ :: _ => F0Emit cs b
  | [] => if b then F0Emit [] true else F0Done
  end.

Definition step0 (s : st0) (t : nat) : option st0 :=
  match t with
  | O =>
      match a_ph0 s with
      | BEnter =>
          match a_rest0 s with
          | c :: r =>
              if pool_active0 s then
                Some {| gstate0 := gstate0 s;
                        pool0 := match pool0 s with Some l => Some (l ++ [c]) | None => None end;
                        psize0 := psize0 s; out0 := out0 s; a_rest0 := r; a_ph0 := BEnter; fl0 := fl0 s |}
              else Some {| gstate0 := gstate0 s; pool0 := pool0 s; psize0 := psize0 s; out0 := out0 s;
                           a_rest0 := r; a_ph0 := BCandEmit c; fl0 := fl0 s |}
          | [] => Some {| gstate0 := GComplete; pool0 := pool0 s; psize0 := psize0 s; out0 := out0 s;
                          a_rest0 := []; a_ph0 := BNilPool; fl0 := fl0 s |}
          end
      | BCandEmit c =>
          Some {| gstate0 := gstate0 s; pool0 := pool0 s; psize0 := psize0 s; out0 := out0 s ++ [Some c];
                  a_rest0 := a_rest0 s; a_ph0 := BEnter; fl0 := fl0 s |}
      | BNilPool =>
          Some {| gstate0 := gstate0 s; pool0 := pool0 s; psize0 := psize0 s; out0 := out0 s;
                  a_rest0 := a_rest0 s; a_ph0 := if pool_active0 s then BDone else BNilEmit; fl0 := fl0 s |}
      | BNilEmit =>
          Some {| gstate0 := gstate0 s; pool0 := pool0 s; psize0 := psize0 s; out0 := out0 s ++ [None];
                  a_rest0 := a_rest0 s; a_ph0 := BDone; fl0 := fl0 s |}
      | BDone => None
      end
  | S j =>
      match nth_error (fl0 s) j with
      | Some F0Start =>
          let cs := match pool0 s with Some l => l | None => [] end in
          Some {| gstate0 := gstate0 s; pool0 := None; psize0 := 0; out0 := out0 s;
                  a_rest0 := a_rest0 s; a_ph0 := a_ph0 s; fl0 := set_nth j (F0Taken cs) (fl0 s) |}
      | Some (F0Taken cs) =>
          (* currentState := g.State() *)
          let b := match gstate0 s with GComplete => true | GGathering => false end in
          Some {| gstate0 := gstate0 s; pool0 := pool0 s; psize0 := psize0 s; out0 := out0 s;
                  a_rest0 := a_rest0 s; a_ph0 := a_ph0 s; fl0 := set_nth j (fnext0 cs b) (fl0 s) |}
      | Some (F0Emit (c :: r) b) =>
          Some {| gstate0 := gstate0 s; pool0 := pool0 s; psize0 := psize0 s; out0 := out0 s ++ [Some c];
                  a_rest0 := a_rest0 s; a_ph0 := a_ph0 s; fl0 := set_nth j (fnext0 r b) (fl0 s) |}
      | Some (F0Emit [] _) =>
          Some {| gstate0 := gstate0 s; pool0 := pool0 s; psize0 := psize0 s; out0 := out0 s ++ [None];
                  a_rest0 := a_rest0 s; a_ph0 := a_ph0 s; fl0 := set_nth j F0Done (fl0 s) |}
      | Some F0Done | None => None
      end
  end.

Fixpoint run_trace0 (s : st0) (sch : list nat) : st0 * list bool :=
  match sch with
  | [] => (s, [])
  | t :: rest => match step0 s t with
                 | Some s' => let r := run_trace0 s' rest in (fst r, true :: snd r)
                 | None => let r := run_trace0 s rest in (fst r, false :: snd r)
                 end
  end.

Definition init0 (poolsize : nat) (cands : list cand) (nflush : nat) : st0 :=
  {| gstate0 := GGathering;
     pool0 := if Nat.ltb 0 poolsize then Some [] else None;
     psize0 := poolsize; out0 := [];
     a_rest0 := cands; a_ph0 := BEnter; fl0 := repeat F0Start nflush |}.
