(* Reference transcriptions of pion/rtp's depacketizers
   codecs.H264Packet.Unmarshal (parseBody) and codecs.H265Depacketizer.Unmarshal
   (single NAL, aggregation, fragmentation; no DONL, no PACI).  pion/rtp is
   outside /repo: the writers' theorems take the depacketizer as a parameter
   (Model/H26xWriter.v).  These transcriptions serve two purposes: they let the
   check run the writer model on concrete packets (their agreement with
   pion/rtp is then part of the correspondence run), and they are an instance
   for which the contract premise of c35_reader_sees_nals is proved
   (Proofs/H26xDepack.v).  No proofs here. *)
From Coq Require Import List ZArith NArith String Bool.
Import ListNotations.
From Verif Require Import Common.V Common.Base Common.Media1Util Model.H26xWriter.
Open Scope N_scope.

Definition sc4 : list N := [0; 0; 0; 1].

(* ---------- codecs.H264Packet.parseBody ---------- *)

Fixpoint stapa_walk (fuel : nat) (body : list N) (acc : list N) : result (list N) :=
  match fuel with
  | O => Err "out-of-fuel"
  | S f =>
      match body with
      | [] => Ok acc
      | s0 :: s1 :: rest =>
          let size := be_val [s0; s1] in
          if lenN rest <? size then Err "short"
          else stapa_walk f (dropN size rest) (acc ++ sc4 ++ takeN size rest)
      | _ => Ok acc                                  (* fewer than 2 bytes left: break *)
      end
  end.

Definition unm264 (fua : list N) (p : list N) : list N * result (list N) :=
  match p with
  | [] => (fua, Err "short")
  | b0 :: rest =>
      let t := N.land b0 31 in
      if (0 <? t) && (t <? 24) then (fua, Ok (sc4 ++ p))
      else if t =? 24 then (fua, stapa_walk (S (List.length rest)) rest [])
      else if t =? 28 then
        match rest with
        | [] => (fua, Err "short")
        | fu :: frag =>
            let buf := fua ++ frag in
            if negb (N.land fu 64 =? 0)
            then ([], Ok (sc4 ++ N.lor (N.land b0 96) (N.land fu 31) :: buf))
            else (buf, Ok [])
        end
      else (fua, Err "unhandled")
  end.

(* ---------- codecs.H265Depacketizer.Unmarshal ---------- *)

(* a stored fragment: payload header bytes, FU header, fragment bytes *)
Definition frag265 : Type := N * N * N * list N.

Definition single265_ok (u : list N) : bool :=
  match u with
  | b0 :: _ :: _ :: _ => (N.land b0 128 =? 0) && negb ((type265 b0 =? 48) || (type265 b0 =? 49) || (type265 b0 =? 50))
  | _ => false                                       (* len <= 2: short packet *)
  end.

Fixpoint ap_split (fuel : nat) (body : list N) : option (list (list N)) :=
  match fuel with
  | O => None
  | S f =>
      match body with
      | [] => Some []
      | s0 :: s1 :: rest =>
          let size := be_val [s0; s1] in
          if lenN rest <? size then None
          else if negb (single265_ok (takeN size rest)) then None
          else match ap_split f (dropN size rest) with
               | Some us => Some (takeN size rest :: us)
               | None => None
               end
      | _ => None
      end
  end.

Definition unm265 (parts : list frag265) (p : list N) : list frag265 * result (list N) :=
  match p with
  | b0 :: b1 :: rest =>
      let t := type265 b0 in
      if t =? 49 then
        match rest with
        | [] => (parts, Err "short")
        | fu :: frag =>
            if negb (N.land fu 64 =? 0) then                            (* E *)
              match parts with
              | [] => (parts, Ok [])
              | (h0, h1, fu0, _) :: _ =>
                  if N.land fu0 128 =? 0 then ([], Err "first-missing")
                  else
                    let body := flat_map (fun fr => snd fr) (parts ++ [(b0, b1, fu, frag)]) in
                    let hdr0 := N.lor (N.land h0 129) (N.shiftl (N.land fu0 63) 1) in
                    ([], Ok (sc4 ++ hdr0 :: h1 :: body))
              end
            else if negb (N.land fu 128 =? 0) then ([(b0, b1, fu, frag)], Ok [])   (* S: restart *)
            else match parts with
                 | [] => (parts, Err "expect-start")
                 | _ => (parts ++ [(b0, b1, fu, frag)], Ok [])
                 end
        end
      else if t =? 48 then
        if lenN p <? 6 then (parts, Err "short")
        else match ap_split (S (List.length rest)) rest with
             | Some us => if (List.length us <? 2)%nat then ([], Err "not-enough")
                          else ([], Ok (flat_map (fun u => sc4 ++ u) us))
             | None => ([], Err "short")
             end
      else if t =? 50 then (parts, Err "paci")
      else if single265_ok p then ([], Ok (sc4 ++ p))
      else (parts, Err "short")
  | _ => (parts, Err "short")
  end.

