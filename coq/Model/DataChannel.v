(* C19. Model of the in-repo data-channel logic:
     datachannel.go      DataChannel.open (DCEP channel type + reliability
                         parameter), Send/SendText/ensureOpen, readLoop
     sctptransport.go    acceptDataChannels (the inverse mapping)
     peerconnection.go   CreateDataChannel (the both-limits check)
   pion/sctp and pion/datachannel are outside /repo: they enter as an abstract
   transport (type T with write/peek/pop) whose FIFO law is the contract
   [fifo_contract] below, assumed by the theorems, exercised by the harness.
   Definitions only; proofs are in Proofs/DataChannel.v. *)
From Coq Require Import List ZArith NArith String Bool.
Import ListNotations.
From Verif Require Import Common.V Common.Base.
Open Scope N_scope.

(* ---------- channel parameters (DataChannelParameters / getters) ---------- *)

Record dc_params : Type := {
  p_label : string;
  p_protocol : string;
  p_ordered : bool;
  p_max_plt : option N;       (* MaxPacketLifeTime *uint16 *)
  p_max_rtx : option N;       (* MaxRetransmits    *uint16 *)
  p_negotiated : bool
}.

(* the two pointer fields are *uint16 in Go *)
Definition opt_u16_ok (o : option N) : Prop :=
  match o with None => True | Some v => v < 65536 end.
Definition params_ok (p : dc_params) : Prop :=
  opt_u16_ok (p_max_plt p) /\ opt_u16_ok (p_max_rtx p).
Definition both_limits (p : dc_params) : bool :=
  match p_max_plt p, p_max_rtx p with Some _, Some _ => true | _, _ => false end.

(* pion/datachannel Config as far as webrtc sets / reads it *)
Record dcep_cfg : Type := {
  c_type : N;                 (* datachannel.ChannelType, one byte *)
  c_rel : N;                  (* ReliabilityParameter, uint32 *)
  c_label : string;
  c_protocol : string;
  c_negotiated : bool
}.

Definition ChReliable : N := 0.                   (* 0x00 *)
Definition ChReliableUnordered : N := 128.        (* 0x80 *)
Definition ChRexmit : N := 1.                     (* 0x01 *)
Definition ChRexmitUnordered : N := 129.          (* 0x81 *)
Definition ChTimed : N := 2.                      (* 0x02 *)
Definition ChTimedUnordered : N := 130.           (* 0x82 *)

(* DataChannel.open: the switch, in the code's case order
     case maxPacketLifeTime == nil && maxRetransmits == nil
     case maxRetransmits != nil         (so it wins when both are set)
     default                            (only maxPacketLifeTime set) *)
Definition open_type_rel (p : dc_params) : N * N :=
  match p_max_plt p, p_max_rtx p with
  | None, None =>
      (if p_ordered p then ChReliable else ChReliableUnordered, 0)
  | _, Some r =>
      (if p_ordered p then ChRexmit else ChRexmitUnordered, u32 r)
  | Some t, None =>
      (if p_ordered p then ChTimed else ChTimedUnordered, u32 t)
  end.

Definition open_params (p : dc_params) : dcep_cfg :=
  let tr := open_type_rel p in
  {| c_type := fst tr; c_rel := snd tr;
     c_label := p_label p; c_protocol := p_protocol p;
     c_negotiated := p_negotiated p |}.

(* acceptDataChannels: val := uint16(ReliabilityParameter); switch on the
   channel type, default arm = ordered, no limits *)
Definition accept_params (c : dcep_cfg) : dc_params :=
  let val := u16 (c_rel c) in
  let t := c_type c in
  let '(ordered, rtx, plt) :=
    if t =? ChReliable then (true, None, None)
    else if t =? ChReliableUnordered then (false, None, None)
    else if t =? ChRexmit then (true, Some val, None)
    else if t =? ChRexmitUnordered then (false, Some val, None)
    else if t =? ChTimed then (true, None, Some val)
    else if t =? ChTimedUnordered then (false, None, Some val)
    else (true, None, None) in
  {| p_label := c_label c; p_protocol := c_protocol c; p_ordered := ordered;
     p_max_plt := plt; p_max_rtx := rtx; p_negotiated := c_negotiated c |}.

(* PeerConnection.CreateDataChannel, step 16: both limits => TypeError.
   (The ORTC constructor API.NewDataChannel has no such check and goes
   straight to open, where maxRetransmits wins.) *)
Definition create_check (p : dc_params) : result dc_params :=
  if both_limits p then Err "retransmits-or-packet-lifetime" else Ok p.

(* what pion/datachannel puts on the wire for a Config (contract, see
   Client/Server in pion/datachannel): a negotiated channel sends no
   DATA_CHANNEL_OPEN; otherwise type, reliability, label and protocol travel
   and the accepting side's Config.Negotiated stays false. *)
Definition dcep_wire (c : dcep_cfg) : option dcep_cfg :=
  if c_negotiated c then None
  else Some {| c_type := c_type c; c_rel := c_rel c; c_label := c_label c;
               c_protocol := c_protocol c; c_negotiated := false |}.

(* ---------- messages, readyState ---------- *)

Inductive dc_state : Type := DcConnecting | DcOpen | DcClosing | DcClosed.
Definition dc_state_eqb (a b : dc_state) : bool :=
  match a, b with
  | DcConnecting, DcConnecting | DcOpen, DcOpen
  | DcClosing, DcClosing | DcClosed, DcClosed => true
  | _, _ => false
  end.

(* the contract of the pion/datachannel stream under Send and readLoop, as a
   predicate on an abstract transport; [contents] is a ghost view *)
Record fifo_contract {M T : Type}
  (t_write : T -> M -> T) (t_peek : T -> option M) (t_pop : T -> T)
  (contents : T -> list M) : Prop := {
  fc_write : forall t m, contents (t_write t m) = contents t ++ [m];
  fc_peek : forall t, t_peek t = hd_error (contents t);
  fc_pop : forall t, contents (t_pop t) = tl (contents t)
}.

Definition readloop_initial_buffer : N := 65535. (* sctpMaxMessageSizeUnsetValue *)

Section Channel.
  Variable A : Type.              (* payload: the bytes of one message *)
  Variable plen : A -> N.         (* len(payload) *)
  Definition msg : Type := (A * bool)%type.   (* (data, isString) *)

  Variable T : Type.              (* the pion/datachannel stream, one direction *)
  Variable t_write : T -> msg -> T.          (* WriteDataChannel(data, isString) *)
  Variable t_peek : T -> option msg.         (* head message, None = Read blocks *)
  Variable t_pop : T -> T.
  (* ReadDataChannel on io.ErrShortBuffer returns this n (pion/datachannel
     v1.6.2 returns 0 together with every error) *)
  Variable short_n : N.
  Variable max_msg : N.           (* settingEngine.getSCTPMaxMessageSize() *)

  (* one direction of one channel: sending peer's readyState, the stream, the
     receiving peer's read loop *)
  Record chan : Type := {
    ch_send_state : dc_state;     (* sender's DataChannel.readyState *)
    ch_stream : T;
    ch_buf : N;                   (* len(buffer) in readLoop *)
    ch_loop_live : bool;          (* readLoop goroutine still running *)
    ch_recv_state : dc_state;     (* receiver's readyState *)
    ch_delivered : list msg;      (* OnMessage calls, in order *)
    ch_accepted : list msg;       (* ghost: sends that returned nil *)
    ch_results : list bool        (* per Send/SendText: true = nil error *)
  }.

  Inductive op : Type :=
  | OpSend (m : msg)              (* Send(data) / SendText(s) on the sender *)
  | OpSetSendState (s : dc_state) (* open / close transitions on the sender *)
  | OpRead                        (* one iteration of the receiver's readLoop *)
  | OpReadErr.                    (* the stream reports EOF / an error *)

  (* Send / SendText: ensureOpen, then WriteDataChannel *)
  Definition do_send (c : chan) (m : msg) : chan :=
    if dc_state_eqb (ch_send_state c) DcOpen then
      {| ch_send_state := ch_send_state c; ch_stream := t_write (ch_stream c) m;
         ch_buf := ch_buf c; ch_loop_live := ch_loop_live c;
         ch_recv_state := ch_recv_state c; ch_delivered := ch_delivered c;
         ch_accepted := ch_accepted c ++ [m]; ch_results := ch_results c ++ [true] |}
    else (* io.ErrClosedPipe, nothing written *)
      {| ch_send_state := ch_send_state c; ch_stream := ch_stream c;
         ch_buf := ch_buf c; ch_loop_live := ch_loop_live c;
         ch_recv_state := ch_recv_state c; ch_delivered := ch_delivered c;
         ch_accepted := ch_accepted c; ch_results := ch_results c ++ [false] |}.

  Definition set_send_state (c : chan) (s : dc_state) : chan :=
    {| ch_send_state := s; ch_stream := ch_stream c; ch_buf := ch_buf c;
       ch_loop_live := ch_loop_live c; ch_recv_state := ch_recv_state c;
       ch_delivered := ch_delivered c; ch_accepted := ch_accepted c;
       ch_results := ch_results c |}.

  Definition loop_exit (c : chan) : chan :=
    {| ch_send_state := ch_send_state c; ch_stream := ch_stream c; ch_buf := ch_buf c;
       ch_loop_live := false; ch_recv_state := DcClosed;
       ch_delivered := ch_delivered c; ch_accepted := ch_accepted c;
       ch_results := ch_results c |}.

  (* one pass through the for-loop body of readLoop:
       n, isString, err := ReadDataChannel(buffer)
       ErrShortBuffer && n < maxMessageSize -> buffer doubled, continue
       other error -> readyState closed, return
       else onMessage({append([]byte{}, buffer[:n]...), isString}) *)
  Definition do_read (c : chan) : chan :=
    if negb (ch_loop_live c) then c else
    match t_peek (ch_stream c) with
    | None => c                                   (* Read blocks *)
    | Some (a, s) =>
        if plen a <=? ch_buf c then
          {| ch_send_state := ch_send_state c; ch_stream := t_pop (ch_stream c);
             ch_buf := ch_buf c; ch_loop_live := true;
             ch_recv_state := ch_recv_state c;
             ch_delivered := ch_delivered c ++ [(a, s)];
             ch_accepted := ch_accepted c; ch_results := ch_results c |}
        else if short_n <? max_msg then
          {| ch_send_state := ch_send_state c; ch_stream := ch_stream c;
             ch_buf := ch_buf c + ch_buf c; ch_loop_live := true;
             ch_recv_state := ch_recv_state c; ch_delivered := ch_delivered c;
             ch_accepted := ch_accepted c; ch_results := ch_results c |}
        else loop_exit c
    end.

  Definition do_read_err (c : chan) : chan :=
    if ch_loop_live c then loop_exit c else c.

  Definition step (c : chan) (o : op) : chan :=
    match o with
    | OpSend m => do_send c m
    | OpSetSendState s => set_send_state c s
    | OpRead => do_read c
    | OpReadErr => do_read_err c
    end.

  Definition run (c : chan) (ops : list op) : chan := fold_left step ops c.

  Definition chan_init (t0 : T) : chan :=
    {| ch_send_state := DcConnecting; ch_stream := t0;
       ch_buf := readloop_initial_buffer; ch_loop_live := true;
       ch_recv_state := DcOpen; ch_delivered := []; ch_accepted := [];
       ch_results := [] |}.

  (* spec side: the messages "sent while the channel is open", read off the
     operation list alone *)
  Fixpoint sent_while_open (st : dc_state) (ops : list op) : list msg :=
    match ops with
    | [] => []
    | OpSend m :: r =>
        if dc_state_eqb st DcOpen then m :: sent_while_open st r else sent_while_open st r
    | OpSetSendState s :: r => sent_while_open s r
    | _ :: r => sent_while_open st r
    end.

  Definition no_read_err (ops : list op) : Prop := ~ In OpReadErr ops.

  (* k more iterations of the read loop, nothing else happening *)
  Fixpoint reads (k : nat) (c : chan) : chan :=
    match k with O => c | S k' => reads k' (do_read c) end.

  (* iterations that suffice to deliver messages of the given lengths from a
     buffer of at least one byte: per message one delivering iteration plus at
     most size(len) doublings *)
  Definition drain_fuel (ms : list msg) : nat :=
    fold_right (fun m acc => (S (N.to_nat (N.size (plen (fst m)))) + acc)%nat) O ms.
End Channel.

Arguments ch_send_state {A T} c.
Arguments ch_stream {A T} c.
Arguments ch_buf {A T} c.
Arguments ch_loop_live {A T} c.
Arguments ch_recv_state {A T} c.
Arguments ch_delivered {A T} c.
Arguments ch_accepted {A T} c.
Arguments ch_results {A T} c.
Arguments OpSend {A} m.
Arguments OpSetSendState {A} s.
Arguments OpRead {A}.
Arguments OpReadErr {A}.

(* ---------- pion/datachannel's empty-message encoding ----------
   webrtc's Send/SendText do not special-case len(data)==0; pion/datachannel
   does (WriteDataChannel / ReadDataChannel): an empty message travels as one
   zero byte under the PPID "String Empty"/"Binary Empty". Modelled so the
   FIFO contract can be read one layer lower (a FIFO of (PPID, bytes)). *)
Definition PpidString : N := 51.
Definition PpidBinary : N := 53.
Definition PpidStringEmpty : N := 56.
Definition PpidBinaryEmpty : N := 57.

Definition ppid_encode (m : list N * bool) : N * list N :=
  match m with
  | ([], true) => (PpidStringEmpty, [0])
  | ([], false) => (PpidBinaryEmpty, [0])
  | (d, true) => (PpidString, d)
  | (d, false) => (PpidBinary, d)
  end.

Definition ppid_decode (w : N * list N) : list N * bool :=
  let '(ppi, d) := w in
  let d' := if orb (ppi =? PpidBinaryEmpty) (ppi =? PpidStringEmpty) then [] else d in
  (d', orb (ppi =? PpidString) (ppi =? PpidStringEmpty)).

(* ---------- the list instance used by the correspondence runner ---------- *)
Definition lw {M} (t : list M) (m : M) : list M := t ++ [m].
Definition lpeek {M} (t : list M) : option M := hd_error t.
Definition lpop {M} (t : list M) : list M := tl t.
