(* C33: pkg/media/oggwriter/oggwriter.go and pkg/media/oggreader/oggreader.go
   transcribed statement by statement.  No proofs here.

   Modelled: the two CRC table generators and the CRC update, the page
   builders (createPagesForSerial / packetPageHeaderType /
   createPageForSerialWithSegments), per-track state and writePage with the
   last-page memo used for close-time rewrites, the Opus TOC -> sample count
   functions, OpusHead / OpusTags builders, the single-track writer (OggWriter)
   and the multi-track writer (Writer/Track) with startLocked ordering and
   Close in its four variants, the reader's ParseNextPage (with and without
   checksum), NewWith's header checks, ParseOpusHead and ParseOpusTags.

   Outside the model: option validation that only refuses configurations
   (utf8.ValidString, duplicate SSRC / serial, tracks added after start), the
   random serial (the harness passes the serial in use), I/O errors of the
   output, and pion/rtp's OpusPacket.Unmarshal, which returns its argument
   unchanged for every non-empty payload. *)
From Coq Require Import String List NArith Bool.
Import ListNotations.
From Verif Require Import Common.V Common.Base Model.Ivf.
Open Scope N_scope.

(* ------------------------------------------------------------------ *)
(* CRC-32, polynomial 0x04c11db7, no reflection, initial value 0 *)

Definition crc_poly : N := 79764919.

(* oggwriter.generateChecksumTable: one table entry *)
Fixpoint crc_bits_w (n : nat) (remainder : N) : N :=
  match n with
  | O => remainder
  | S k =>
      crc_bits_w k (if negb (N.land remainder 2147483648 =? 0)
                    then N.lxor (u32 (N.shiftl remainder 1)) crc_poly
                    else u32 (N.shiftl remainder 1))
  end.
Definition crc_entry_w (i : N) : N := N.land (crc_bits_w 8 (u32 (N.shiftl i 24))) 4294967295.

(* oggreader.generateChecksumTable: the same loop, written again over there *)
Fixpoint crc_bits_r (n : nat) (r : N) : N :=
  match n with
  | O => r
  | S k =>
      crc_bits_r k (if negb (N.land r 2147483648 =? 0)
                    then N.lxor (u32 (N.shiftl r 1)) crc_poly
                    else u32 (N.shiftl r 1))
  end.
Definition crc_entry_r (i : N) : N := N.land (crc_bits_r 8 (u32 (N.shiftl i 24))) 4294967295.

Fixpoint upto (n : nat) : list N :=
  match n with O => [] | S k => upto k ++ [N.of_nat k] end.

Definition writer_table : list N := Eval vm_compute in map crc_entry_w (upto 256).
Definition reader_table : list N := Eval vm_compute in map crc_entry_r (upto 256).

(* truncation to uint8 / uint32 as a mask (the same function as Base.u8 / u32,
   Proofs/Ogg.v m8_u8, m32_u32; the mask evaluates much faster than mod) *)
Definition m8 (x : N) : N := N.land x 255.
Definition m32 (x : N) : N := N.land x 4294967295.

(* checksum = (checksum << 8) ^ table[byte(checksum>>24) ^ v]; the table is a
   [256]uint32 indexed by a byte *)
Definition crc_update (table : list N) (crc : N) (v : N) : option N :=
  match nth_error table (N.to_nat (N.lxor (m8 (N.shiftr crc 24)) (m8 v))) with
  | Some e => Some (N.lxor (m32 (N.shiftl crc 8)) e)
  | None => None
  end.

Fixpoint crc_fold (table : list N) (crc : N) (l : list N) : option N :=
  match l with
  | [] => Some crc
  | v :: t => match crc_update table crc v with
              | Some c => crc_fold table c t
              | None => None
              end
  end.

(* ------------------------------------------------------------------ *)
(* pages *)

Definition ht_continuation : N := 1.
Definition ht_bos : N := 2.
Definition ht_eos : N := 4.
Definition no_granule : N := 18446744073709551615.
Definition max_segments : nat := 255.

Definition sig_oggs : list N := [79; 103; 103; 83].

(* createPageForSerialWithSegments; None = table index out of range (cannot
   happen with a 256-entry table, Proofs/Ogg.v) *)
Definition page_bytes (table : list N) (payload segs : list N) (htype granule serial index : N)
  : option (list N) :=
  let raw := sig_oggs ++ [0] ++ [u8 htype] ++ le_bytes 8 granule ++ le_bytes 4 serial
             ++ le_bytes 4 index ++ [0; 0; 0; 0] ++ [u8 (N.of_nat (length segs))]
             ++ segs ++ payload in
  match crc_fold table 0 raw with
  | Some c => Some (firstn 22 raw ++ le_bytes 4 c ++ skipn 26 raw)
  | None => None
  end.

(* packetPageHeaderType *)
Definition packet_page_htype (htype : N) (first_page complete : bool) : N :=
  if first_page then
    if complete then htype else N.ldiff htype ht_eos
  else
    if complete then N.lor ht_continuation (N.land htype ht_eos) else ht_continuation.

(* inner loop of createPagesForSerial: fill the segment table *)
Fixpoint build_segs (room : nat) (remaining : N) : list N * N * bool :=
  match room with
  | O => ([], remaining, false)
  | S r =>
      if 255 <=? remaining then
        let '(t, rem', c) := build_segs r (remaining - 255) in (255 :: t, rem', c)
      else ([remaining], 0, true)
  end.

Definition sumN (l : list N) : N := fold_left N.add l 0.

Record opage := mkOpage {
  pg_data : list N;      (* the page as written *)
  pg_payload : list N;
  pg_segs : list N;      (* ghost: the segment table (also inside pg_data) *)
  pg_htype : N;
  pg_granule : N;
  pg_index : N
}.

(* createPagesForSerial.  [rest] is payload[payloadOffset:], remaining its
   length; every round but the last consumes 255*255 bytes, so S (length
   payload) rounds are enough (Proofs/Ogg.v). *)
Fixpoint create_pages (fuel : nat) (table : list N) (rest : list N) (remaining : N)
         (htype granule serial index : N) (first_page : bool) : result (list opage) :=
  match fuel with
  | O => Err "out-of-fuel"
  | S f =>
      let '(segs, remaining', complete) := build_segs max_segments remaining in
      let size := sumN segs in
      let page_payload := firstn (N.to_nat size) rest in
      let ht := packet_page_htype htype first_page complete in
      let gr := if complete then granule else no_granule in
      match page_bytes table page_payload segs ht gr serial index with
      | None => Panic
      | Some data =>
          let pg := mkOpage data page_payload segs ht gr index in
          if complete then Ok [pg]
          else
            match create_pages f table (skipn (N.to_nat size) rest) remaining'
                               htype granule serial (u32 (index + 1)) false with
            | Ok more => Ok (pg :: more)
            | e => e
            end
      end
  end.

Definition create_pages_for (table payload : list N) (htype granule serial index : N)
  : result (list opage) :=
  create_pages (S (length payload)) table payload (N.of_nat (length payload))
               htype granule serial index true.

(* ------------------------------------------------------------------ *)
(* Opus TOC -> samples *)

(* opusSamplesPerFrame *)
Definition opus_samples_per_frame (toc : N) : N :=
  if negb (N.land toc 128 =? 0) then
    u32 (N.shiftl 48000 (N.land (N.shiftr toc 3) 3)) / 400
  else if N.land toc 96 =? 96 then
    if negb (N.land toc 8 =? 0) then 48000 / 50 else 48000 / 100
  else
    let frame_size := N.land (N.shiftr toc 3) 3 in
    if frame_size =? 3 then 48000 * 60 / 1000
    else u32 (N.shiftl 48000 frame_size) / 100.

(* opusPacketFrameCount (payload non-empty) *)
Definition opus_frame_count (payload : list N) : result N :=
  match payload with
  | [] => Panic
  | toc :: tl =>
      match N.land toc 3 with
      | 0 => Ok 1
      | 1 | 2 => Ok 2
      | _ =>
          match tl with
          | [] => Err "opus"
          | b1 :: _ => let c := N.land b1 63 in if c =? 0 then Err "opus" else Ok c
          end
      end
  end.

Definition max_opus_samples : N := 5760.

(* opusPacketSampleCount *)
Definition opus_sample_count (payload : list N) : result N :=
  match payload with
  | [] => Err "opus"
  | toc :: _ =>
      match opus_frame_count payload with
      | Ok c =>
          let n := opus_samples_per_frame toc * c in
          if max_opus_samples <? n then Err "opus" else Ok n
      | Err e => Err e
      | Panic => Panic
      end
  end.

(* ------------------------------------------------------------------ *)
(* headers *)

Record chmap := mkChmap {
  cm_family : N; cm_channels : N; cm_streams : N; cm_coupled : N; cm_mapping : list N
}.

Record tags := mkTags { t_vendor : list N; t_comments : list (list N * list N) }.

Definition sig_opushead : list N := [79; 112; 117; 115; 72; 101; 97; 100].
Definition sig_opustags : list N := [79; 112; 117; 115; 84; 97; 103; 115].

(* buildIDHeader: copy(oggIDHeader[21:], mapping) into a buffer of
   21 + channelCount bytes *)
Definition fit (n : nat) (l : list N) : list N :=
  firstn n l ++ repeat 0 (n - length l).

Definition build_id_header (cm : chmap) (preskip rate : N) : list N :=
  sig_opushead ++ [1] ++ [u8 (cm_channels cm)] ++ le_bytes 2 preskip ++ le_bytes 4 rate
  ++ le_bytes 2 0 ++ [u8 (cm_family cm)]
  ++ (if cm_family cm =? 0 then []
      else [u8 (cm_streams cm); u8 (cm_coupled cm)]
           ++ fit (N.to_nat (u8 (cm_channels cm))) (cm_mapping cm)).

Definition comment_field (c : list N * list N) : list N :=
  le_bytes 4 (u32 (N.of_nat (length (fst c) + 1 + length (snd c)))) ++ fst c ++ [61] ++ snd c.

(* buildCommentHeader *)
Definition build_comment_header (t : tags) : list N :=
  sig_opustags ++ le_bytes 4 (u32 (N.of_nat (length (t_vendor t)))) ++ t_vendor t
  ++ le_bytes 4 (u32 (N.of_nat (length (t_comments t))))
  ++ flat_map comment_field (t_comments t).

(* defaultChannelMapping *)
Definition default_chmap (channels : N) : option chmap :=
  match channels with
  | 1 => Some (mkChmap 0 1 1 0 [])
  | 2 => Some (mkChmap 0 2 1 1 [])
  | _ => None
  end.

(* validateChannelMapping (WithChannelMapping) *)
Definition validate_chmap (family streams coupled : N) (mapping : list N) : option chmap :=
  if negb ((family =? 1) || (family =? 2) || (family =? 255)) then None
  else if (N.of_nat (length mapping) =? 0) || (255 <? N.of_nat (length mapping)) then None
  else if negb (streams =? 1) then None
  else if streams <? coupled then None
  else if negb (forallb (fun ch => (ch =? 255) || (ch <? streams + coupled)) mapping) then None
  else if (family =? 1) &&
          negb (match mapping with
                | [m0] => (streams =? 1) && (coupled =? 0) && (m0 =? 0)
                | [m0; m1] => (streams =? 1) && (coupled =? 1) && (m0 =? 0) && (m1 =? 1)
                | _ => false
                end) then None
  else if (family =? 2) &&
          negb (match mapping with
                | [m0] => (streams =? 1) && (coupled =? 0) && (m0 =? 0)
                | _ => false
                end) then None
  else Some (mkChmap family (u8 (N.of_nat (length mapping))) streams coupled mapping).

(* isValidCommentName *)
Definition valid_comment_name (name : list N) : bool :=
  negb (is_nil name) && forallb (fun b => negb (b <? 32) && negb (125 <? b) && negb (b =? 61)) name.

(* utf8.ValidString: well-formed UTF-8 (Unicode table 3-7): no overlong
   forms, no surrogates, nothing above U+10FFFF *)
Definition utf8_cont (b : N) : bool := (128 <=? b) && (b <=? 191).
Fixpoint valid_utf8 (l : list N) : bool :=
  match l with
  | [] => true
  | b0 :: t =>
      if b0 <? 128 then valid_utf8 t
      else if (194 <=? b0) && (b0 <=? 223) then
        match t with
        | b1 :: t1 => utf8_cont b1 && valid_utf8 t1
        | _ => false
        end
      else if (224 <=? b0) && (b0 <=? 239) then
        match t with
        | b1 :: b2 :: t2 =>
            (if b0 =? 224 then (160 <=? b1) && (b1 <=? 191)
             else if b0 =? 237 then (128 <=? b1) && (b1 <=? 159)
             else utf8_cont b1)
            && utf8_cont b2 && valid_utf8 t2
        | _ => false
        end
      else if (240 <=? b0) && (b0 <=? 244) then
        match t with
        | b1 :: b2 :: b3 :: t3 =>
            (if b0 =? 240 then (144 <=? b1) && (b1 <=? 191)
             else if b0 =? 244 then (128 <=? b1) && (b1 <=? 143)
             else utf8_cont b1)
            && utf8_cont b2 && utf8_cont b3 && valid_utf8 t3
        | _ => false
        end
      else false
  end.

(* validateOpusTags: vendor, then each comment (name, value); the 2^32 length
   limits cannot be reached by a list that is actually built *)
Definition validate_tags (t : tags) : bool :=
  valid_utf8 (t_vendor t) &&
  forallb (fun c => valid_comment_name (fst c) && valid_utf8 (snd c)) (t_comments t).

(* which of the two channel errors validateChannelMapping returns:
   family first (errInvalidChannelMap), then the length of the mapping
   (errInvalidChannelCount), everything after that errInvalidChannelMap *)
Definition chmap_err (family : N) (mapping : list N) : string :=
  if negb ((family =? 1) || (family =? 2) || (family =? 255)) then "channel-map"
  else if (N.of_nat (length mapping) =? 0) || (255 <? N.of_nat (length mapping)) then "channel-count"
  else "channel-map".

(* ------------------------------------------------------------------ *)
(* per-track state, writePage *)

Record lastpage := mkLast {
  lp_offset : N; lp_payload : list N; lp_granule : N; lp_index : N; lp_htype : N
}.

Record track := mkTrack {
  tr_rate : N; tr_map : chmap; tr_preskip : N; tr_serial : N; tr_tags : tags;
  tr_page_index : N;             (* uint32 *)
  tr_prev_granule : N;           (* uint64 *)
  tr_last : option lastpage      (* lastPageWritten and the five memo fields *)
}.

Definition default_preskip : N := 3840.

Definition new_track (rate : N) (cm : chmap) (serial : N) (t : tags) : track :=
  mkTrack rate cm default_preskip serial t 0 0 None.

(* Writer.NewTrack(ssrc, WithSerial, WithSampleRate, WithChannelCount |
   WithChannelMapping, WithVendor, WithUserComments): duplicate SSRC, the
   options in that order, validateOpusTags, duplicate serial.  used = (ssrc,
   serial) of the tracks registered so far. *)
Record tcfg := mkTcfg {
  tc_ssrc : N; tc_serial : N; tc_rate : N;
  tc_family : N;          (* 0: WithChannelCount(tc_channels), else WithChannelMapping *)
  tc_channels : N; tc_streams : N; tc_coupled : N; tc_mapping : list N;
  tc_tags : tags
}.

Definition new_track_checked (used : list (N * N)) (c : tcfg) : result track :=
  if existsb (fun u => fst u =? tc_ssrc c) used then Err "dup-ssrc"
  else
    match (if tc_family c =? 0
           then match default_chmap (tc_channels c) with Some m => Ok m | None => Err "channel-count" end
           else match validate_chmap (tc_family c) (tc_streams c) (tc_coupled c) (tc_mapping c) with
                | Some m => Ok m
                | None => Err (chmap_err (tc_family c) (tc_mapping c))
                end) with
    | Ok cm =>
        if negb (validate_tags (tc_tags c)) then Err "tags"
        else if existsb (fun u => snd u =? tc_serial c) used then Err "dup-serial"
        else Ok (new_track (tc_rate c) cm (tc_serial c) (tc_tags c))
    | Err e => Err e
    | Panic => Panic
    end.

(* successive NewTrack calls: the result of each, and the tracks registered *)
Fixpoint add_tracks (used : list (N * N)) (cs : list tcfg) : list (result track) :=
  match cs with
  | [] => []
  | c :: rest =>
      let r := new_track_checked used c in
      r :: add_tracks (match r with Ok _ => used ++ [(tc_ssrc c, tc_serial c)] | _ => used end) rest
  end.

Definition set_pages (tr : track) (idx : N) (last : option lastpage) : track :=
  mkTrack (tr_rate tr) (tr_map tr) (tr_preskip tr) (tr_serial tr) (tr_tags tr)
          idx (tr_prev_granule tr) last.

Definition set_granule (tr : track) (g : N) : track :=
  mkTrack (tr_rate tr) (tr_map tr) (tr_preskip tr) (tr_serial tr) (tr_tags tr)
          (tr_page_index tr) g (tr_last tr).

(* the write loop of writePage: append each page; with a rewriter remember
   where the last one went *)
Fixpoint emit_pages (rewriter : bool) (out : list N) (pages : list opage) (last : option lastpage)
  : list N * option lastpage :=
  match pages with
  | [] => (out, last)
  | pg :: more =>
      let offset := N.of_nat (length out) in   (* rewriter.Seek(0, SeekCurrent) + bytes written since *)
      let out' := out ++ pg_data pg in
      let last' :=
        if rewriter then
          match more with
          | [] => Some (mkLast offset (pg_payload pg) (pg_granule pg) (pg_index pg) (pg_htype pg))
          | _ => last
          end
        else last in
      emit_pages rewriter out' more last'
  end.

(* writePage *)
Definition write_page (table : list N) (rewriter : bool) (out : list N) (tr : track)
           (payload : list N) (htype granule : N) : result (list N * track) :=
  match create_pages_for table payload htype granule (tr_serial tr) (tr_page_index tr) with
  | Ok pages =>
      let '(out', last') := emit_pages rewriter out pages (tr_last tr) in
      Ok (out', set_pages tr (u32 (tr_page_index tr + N.of_nat (length pages))) last')
  | Err e => Err e
  | Panic => Panic
  end.

(* writeOpusPayload *)
Definition write_opus_payload (table : list N) (rewriter : bool) (out : list N) (tr : track)
           (payload : list N) : result (list N * track) :=
  match opus_sample_count payload with
  | Ok n =>
      let tr1 := set_granule tr (u64 (tr_prev_granule tr + n)) in
      write_page table rewriter out tr1 payload 0 (tr_prev_granule tr1)
  | Err e => Err e
  | Panic => Panic
  end.

Definition write_id_header (table : list N) (rewriter : bool) (out : list N) (tr : track) :=
  write_page table rewriter out tr
             (build_id_header (tr_map tr) (tr_preskip tr) (tr_rate tr)) ht_bos 0.

Definition write_comment_header (table : list N) (rewriter : bool) (out : list N) (tr : track) :=
  write_page table rewriter out tr (build_comment_header (tr_tags tr)) 0 0.

(* markTrackEndOfStream: rebuild the remembered last page with EOS set and
   WriteAt it over the old one *)
Definition mark_eos (table : list N) (out : list N) (tr : track) : result (list N) :=
  match tr_last tr with
  | None => Ok out
  | Some lp =>
      match create_pages_for table (lp_payload lp) (N.lor (lp_htype lp) ht_eos) (lp_granule lp)
                             (tr_serial tr) (lp_index lp) with
      | Ok pages => Ok (patch out (N.to_nat (lp_offset lp)) (flat_map pg_data pages))
      | Err e => Err e
      | Panic => Panic
      end
  end.

(* writeNilEndOfStreamPage *)
Definition write_nil_eos (table : list N) (out : list N) (tr : track) : result (list N * track) :=
  if tr_page_index tr =? 0 then Ok (out, tr)
  else
    match page_bytes table [] [] ht_eos (tr_prev_granule tr) (tr_serial tr) (tr_page_index tr) with
    | None => Panic
    | Some data => Ok (out ++ data, set_pages tr (u32 (tr_page_index tr + 1)) (tr_last tr))
    end.

(* ------------------------------------------------------------------ *)
(* single-track writer (OggWriter) *)

Record swriter := mkSw { sw_out : list N; sw_track : track; sw_fd : bool }.

(* newWith: ID header page, then comment header page *)
Definition new_single (fd : bool) (rate : N) (cm : chmap) (serial : N) (t : tags) : result swriter :=
  let tr := new_track rate cm serial t in
  match write_id_header writer_table fd [] tr with
  | Ok (out1, tr1) =>
      match write_comment_header writer_table fd out1 tr1 with
      | Ok (out2, tr2) => Ok (mkSw out2 tr2 fd)
      | Err e => Err e
      | Panic => Panic
      end
  | Err e => Err e
  | Panic => Panic
  end.

(* WriteRTP over the RTP payload; status as in Ivf: SOk / SErr / SPanic *)
Definition single_write (w : swriter) (payload : list N) : swriter * status :=
  match payload with
  | [] => (w, SOk)
  | _ =>
      match write_opus_payload writer_table (sw_fd w) (sw_out w) (sw_track w) payload with
      | Ok (out, tr) => (mkSw out tr (sw_fd w), SOk)
      | Err _ => (w, SErr)
      | Panic => (w, SPanic)
      end
  end.

(* Close.  Without a file: append the nil EOS page (fix 3ad4cd0; before it
   nothing was written).  With a file: rewrite the last page. *)
Definition close_single (w : swriter) : result (list N) :=
  if sw_fd w then mark_eos writer_table (sw_out w) (sw_track w)
  else match write_nil_eos writer_table (sw_out w) (sw_track w) with
       | Ok (out, _) => Ok out
       | Err e => Err e
       | Panic => Panic
       end.

(* ------------------------------------------------------------------ *)
(* multi-track writer (Writer / Track) *)

Record mwriter := mkMw {
  mw_out : list N; mw_tracks : list track (* trackOrder *); mw_started : bool; mw_rewriter : bool
}.

Definition new_multi (rewriter : bool) (tracks : list track) : mwriter :=
  mkMw [] tracks false rewriter.

(* one loop of startLocked over trackOrder *)
Fixpoint each_track (f : list N -> track -> result (list N * track)) (out : list N)
         (trs : list track) : result (list N * list track) :=
  match trs with
  | [] => Ok (out, [])
  | tr :: rest =>
      match f out tr with
      | Ok (out1, tr1) =>
          match each_track f out1 rest with
          | Ok (out2, rest') => Ok (out2, tr1 :: rest')
          | e => e
          end
      | Err e => Err e
      | Panic => Panic
      end
  end.

(* startLocked: all ID headers, then all comment headers *)
Definition start_locked (w : mwriter) : result mwriter :=
  if mw_started w then Ok w
  else
    match each_track (write_id_header writer_table (mw_rewriter w)) (mw_out w) (mw_tracks w) with
    | Ok (out1, trs1) =>
        match each_track (write_comment_header writer_table (mw_rewriter w)) out1 trs1 with
        | Ok (out2, trs2) => Ok (mkMw out2 trs2 true (mw_rewriter w))
        | Err e => Err e
        | Panic => Panic
        end
    | Err e => Err e
    | Panic => Panic
    end.

Fixpoint replace_nth {A} (l : list A) (i : nat) (x : A) : list A :=
  match l, i with
  | [], _ => []
  | _ :: t, O => x :: t
  | h :: t, S j => h :: replace_nth t j x
  end.

(* Track.WriteRTP on track number i of trackOrder *)
Definition multi_write (w : mwriter) (i : nat) (payload : list N) : mwriter * status :=
  match payload with
  | [] => (w, SOk)
  | _ =>
      match start_locked w with
      | Ok w1 =>
          match nth_error (mw_tracks w1) i with
          | None => (w1, SPanic)
          | Some tr =>
              match write_opus_payload writer_table (mw_rewriter w1) (mw_out w1) tr payload with
              | Ok (out, tr') =>
                  (mkMw out (replace_nth (mw_tracks w1) i tr') true (mw_rewriter w1), SOk)
              | Err _ => (w1, SErr)
              | Panic => (w1, SPanic)
              end
          end
      | Err _ => (w, SErr)
      | Panic => (w, SPanic)
      end
  end.

Fixpoint mark_all (out : list N) (trs : list track) : result (list N) :=
  match trs with
  | [] => Ok out
  | tr :: rest =>
      match mark_eos writer_table out tr with
      | Ok out1 => mark_all out1 rest
      | e => e
      end
  end.

(* Writer.Close *)
Definition close_multi (w : mwriter) : result (list N) :=
  match start_locked w with
  | Ok w1 =>
      if mw_rewriter w1 then mark_all (mw_out w1) (mw_tracks w1)
      else match each_track (write_nil_eos writer_table) (mw_out w1) (mw_tracks w1) with
           | Ok (out, _) => Ok out
           | Err e => Err e
           | Panic => Panic
           end
  | Err e => Err e
  | Panic => Panic
  end.

(* ------------------------------------------------------------------ *)
(* reader *)

Record phdr := mkPhdr {
  ph_sig : list N; ph_version : N; ph_htype : N; ph_granule : N; ph_serial : N;
  ph_index : N; ph_nsegs : N
}.

Record rpage := mkRpage { rp_hdr : phdr; rp_segs : list N; rp_payload : list N }.

Definition zero_crc_field (hdr : list N) : list N :=
  firstn 22 hdr ++ [0; 0; 0; 0] ++ skipn 26 hdr.

(* ParseNextPage.  io.ReadFull's two failures are io.EOF and
   io.ErrUnexpectedEOF; both are returned as they are. *)
Definition parse_next_page (do_checksum : bool) (l : list N) : result (rpage * list N) :=
  match read_full 27 l with
  | RdEOF => Err "EOF"
  | RdShort => Err "unexpected-EOF"
  | RdOk h rest =>
      let hdr := mkPhdr (sub h 0 4) (le_val (sub h 4 5)) (le_val (sub h 5 6)) (le_val (sub h 6 14))
                        (le_val (sub h 14 18)) (le_val (sub h 18 22)) (le_val (sub h 26 27)) in
      match read_full (ph_nsegs hdr) rest with
      | RdEOF => Err "EOF"
      | RdShort => Err "unexpected-EOF"
      | RdOk segs rest1 =>
          match read_full (sumN segs) rest1 with
          | RdEOF => Err "EOF"
          | RdShort => Err "unexpected-EOF"
          | RdOk payload rest2 =>
              if do_checksum then
                match crc_fold reader_table 0 (zero_crc_field h ++ segs ++ payload) with
                | None => Panic
                | Some c =>
                    if le_val (sub h 22 26) =? c then Ok (mkRpage hdr segs payload, rest2)
                    else Err "checksum"
                end
              else Ok (mkRpage hdr segs payload, rest2)
          end
      end
  end.

Record ohead := mkOhead {
  oh_version : N; oh_channels : N; oh_preskip : N; oh_rate : N; oh_gain : N;
  oh_family : N; oh_streams : N; oh_coupled : N; oh_mapping : list N
}.

Definition byte_at (l : list N) (i : nat) : result N :=
  match nth_error l i with Some b => Ok b | None => Panic end.

(* parseBasicHeaderFields + parseChannelMapping (payload has at least 19 bytes
   at both call sites; every index is still checked here) *)
Definition parse_head_fields (payload : list N) : result ohead :=
  rbind (byte_at payload 8) (fun version =>
  rbind (byte_at payload 9) (fun channels =>
  rbind (byte_at payload 18) (fun family =>
  match slice payload 10 12, slice payload 12 16, slice payload 16 18 with
  | Some ps, Some rt, Some gn =>
      let base := mkOhead version channels (le_val ps) (le_val rt) (le_val gn) family 0 0 [] in
      if family =? 0 then
        if Nat.eqb (length payload) 19 then Ok base else Err "id-length"
      else if (family =? 1) || (family =? 2) || (family =? 255) then
        let expected := (21 + N.to_nat channels)%nat in
        if negb (Nat.eqb (length payload) expected) then Err "id-length"
        else
          rbind (byte_at payload 19) (fun streams =>
          rbind (byte_at payload 20) (fun coupled =>
          match slice payload 21 expected with
          | Some m => Ok (mkOhead version channels (le_val ps) (le_val rt) (le_val gn) family
                                  streams coupled m)
          | None => Panic
          end))
      else Err "unsupported-family"
  | _, _, _ => Panic
  end))).

(* ParseOpusHead *)
Definition parse_opus_head (payload : list N) : result ohead :=
  if Nat.ltb (length payload) 19 then Err "id-length" else parse_head_fields payload.

(* opusPayloadSignature *)
Definition payload_signature (payload : list N) : N :=  (* 0 none, 1 OpusHead, 2 OpusTags *)
  if Nat.ltb (length payload) 8 then 0
  else if list_N_eqb (firstn 8 payload) sig_opushead then 1
  else if list_N_eqb (firstn 8 payload) sig_opustags then 2
  else 0.

(* OggPageHeader.HeaderType *)
Definition header_type_class (h : phdr) (payload : list N) : N :=
  let s := payload_signature payload in
  if (s =? 0) || ((s =? 1) && negb (ph_htype h =? ht_bos)) then 0 else s.

(* NewWith: readOpusHeader *)
Definition reader_new (l : list N) : result (ohead * list N) :=
  match parse_next_page true l with
  | Ok (pg, rest) =>
      if negb (list_N_eqb (ph_sig (rp_hdr pg)) sig_oggs) then Err "id-signature"
      else if negb (ph_htype (rp_hdr pg) =? ht_bos) then Err "id-type"
      else if Nat.ltb (length (rp_payload pg)) 19 then Err "id-length"
      else if negb (payload_signature (rp_payload pg) =? 1) then Err "id-payload-signature"
      else match parse_head_fields (rp_payload pg) with
           | Ok h => Ok (h, rest)
           | Err e => Err e
           | Panic => Panic
           end
  | Err e => Err e
  | Panic => Panic
  end.

(* strings.SplitN(comment, "=", 2) *)
Fixpoint split_eq (l : list N) : option (list N * list N) :=
  match l with
  | [] => None
  | b :: t => if b =? 61 then Some ([], t)
              else match split_eq t with
                   | Some (a, v) => Some (b :: a, v)
                   | None => None
                   end
  end.

(* parseSingleUserComment, count times *)
Fixpoint parse_comments (count : nat) (payload : list N) (pos : nat)
  : result (list (list N * list N)) :=
  match count with
  | O => Ok []
  | S k =>
      if Nat.ltb (length payload) (pos + 4) then Err "tags"
      else
        match slice payload pos (pos + 4) with
        | None => Panic
        | Some lb =>
            let clen := le_val lb in
            let pos1 := (pos + 4)%nat in
            if N.of_nat (length payload) <? N.of_nat pos1 + clen then Err "tags"
            else
              match slice payload pos1 (pos1 + N.to_nat clen) with
              | None => Panic
              | Some c =>
                  match split_eq c with
                  | None => Err "tags"
                  | Some kv =>
                      match parse_comments k payload (pos1 + N.to_nat clen) with
                      | Ok more => Ok (kv :: more)
                      | e => e
                      end
                  end
              end
        end
  end.

(* ParseOpusTags *)
Definition parse_opus_tags (payload : list N) : result tags :=
  let len := length payload in
  if Nat.ltb len 16 then Err "tags"
  else if negb (list_N_eqb (firstn 8 payload) sig_opustags) then Err "tags"
  else
    match slice payload 8 12 with
    | None => Panic
    | Some vb =>
        let vlen := le_val vb in
        if N.of_nat (len - 16) <? vlen then Err "tags"
        else
          let vend := (12 + N.to_nat vlen)%nat in
          if Nat.ltb len (vend + 4) then Err "tags"
          else
            match slice payload 12 vend, slice payload vend (vend + 4) with
            | Some vendor, Some cb =>
                let count := le_val cb in
                if N.of_nat (Nat.div (len - vend) 4) <? count then Err "tags"
                else
                  match parse_comments (N.to_nat count) payload (vend + 4) with
                  | Ok cs => Ok (mkTags vendor cs)
                  | Err e => Err e
                  | Panic => Panic
                  end
            | _, _ => Panic
            end
    end.

(* ParseNextPage until it fails; every successful call consumes at least 27
   bytes, so S (length l) rounds are enough *)
Fixpoint read_pages (fuel : nat) (do_checksum : bool) (l : list N) : list rpage * string :=
  match fuel with
  | O => ([], "out-of-fuel"%string)
  | S f =>
      match parse_next_page do_checksum l with
      | Ok (pg, rest) => let (pgs, e) := read_pages f do_checksum rest in (pg :: pgs, e)
      | Err e => ([], e)
      | Panic => ([], "panic"%string)
      end
  end.
