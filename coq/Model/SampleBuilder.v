(* C31: pkg/media/samplebuilder (samplebuilder.go, sampleSequenceLocation.go)
   transcribed statement by statement.  No proofs here.

   - the two 65536-slot rings (buffer, preparedSamples) are association maps
     keyed by the u16 index; a nil slot is an absent key;
   - uint16 / uint32 arithmetic carries its wrap (w16, sub16, inc16, w32, sub32);
   - the depacketizer is an assumed contract: three pure functions of the
     packet's marker bit and payload (Section variables);
   - index loops whose body does work (the scan of buildSample, the merge
     loop, the purge loop) run on explicit binary fuel (iter_pos) and raise
     fault 1 when it runs out; Go nil dereferences raise fault 2; fault 3 marks a
     sample built although fetchTimestamp(active) had no data (behaviour unchanged).  The three
     "find the first / last non-nil slot in a range" loops (tooOld, the
     afterTimestamp scan) are written as a search over the finite map for the
     key with the least / greatest offset, which is what those loops compute;
   - ghost fields (released, built, evlog) only log what happened. *)
From Coq Require Import List ZArith NArith Bool.
Import ListNotations.
From Verif Require Import Common.V Common.Base.
Open Scope N_scope.

Record packet := mkPacket {
  p_id : N;            (* identity: index of the Push that supplied it *)
  p_seq : N; p_ts : N; p_marker : bool; p_payload : list N }.

(* ---------- sampleSequenceLocation.go ---------- *)
Record loc := mkLoc { l_head : N; l_tail : N }.
Inductive cmp := CVoid | CBefore | CInside | CAfter.
Definition cmp_eqb (a b : cmp) : bool :=
  match a, b with
  | CVoid, CVoid | CBefore, CBefore | CInside, CInside | CAfter, CAfter => true
  | _, _ => false
  end.

(* x mod m, written so that the common case (x already < m, or one wrap) costs a
   comparison instead of a division; equal to N.modulo for every x
   (Proofs/SampleBuilderArith.v: wmod_spec) *)
Definition wmod (m x : N) : N :=
  if x <? m then x else if x <? m + m then x - m else x mod m.
Definition w16 (x : N) : N := wmod 65536 x.   (* uint16(x) *)
Definition w32 (x : N) : N := wmod 4294967296 x. (* uint32(x) *)
Definition sub16 (a b : N) : N := w16 (a + 65536 - w16 b).  (* a - b in uint16 *)
Definition sub32 (a b : N) : N := w32 (a + 4294967296 - w32 b).
Definition inc16 (a : N) : N := w16 (a + 1).

Definition l_empty (l : loc) : bool := l_head l =? l_tail l.
Definition l_hasData (l : loc) : bool := negb (l_head l =? l_tail l).

(* diff := int16(x - y); if diff < 0 { return uint16(-diff) }; return uint16(diff) *)
Definition seqnumDistance (x y : N) : N :=
  let d := sub16 x y in
  if 32768 <=? d then w16 (65536 - d) else d.
Definition timestampDistance (x y : N) : N :=
  let d := sub32 x y in
  if 2147483648 <=? d then w32 (4294967296 - d) else d.

Definition l_count (l : loc) : N := seqnumDistance (l_head l) (l_tail l).

Definition compare (l : loc) (pos : N) : cmp :=
  if l_head l =? l_tail l then CVoid
  else
    let ba := if sub16 (l_head l) pos <=? sub16 pos (l_tail l) then CBefore else CAfter in
    if l_head l <? l_tail l then
      (if (l_head l <=? pos) && (pos <? l_tail l) then CInside else ba)
    else
      (if (l_head l <=? pos) || (pos <? l_tail l) then CInside else ba).

(* ---------- rings as association maps ---------- *)
Definition bget {A} (k : N) (m : list (N * A)) : option A :=
  match find (fun e => fst e =? k) m with Some e => Some (snd e) | None => None end.
Definition bdel {A} (k : N) (m : list (N * A)) : list (N * A) :=
  filter (fun e => negb (fst e =? k)) m.
Definition bset {A} (k : N) (v : A) (m : list (N * A)) : list (N * A) :=
  (k, v) :: bdel k m.

(* ---------- explicit fuel: binary iteration with early exit ----------
   step returns (state, continue?).  iter_pos p runs at most p steps and
   returns continue? = true only when the fuel ran out first. *)
Fixpoint iter_pos {S} (p : positive) (f : S -> S * bool) (s : S) : S * bool :=
  match p with
  | xH => f s
  | xO q =>
      let r := iter_pos q f s in
      if snd r then iter_pos q f (fst r) else r
  | xI q =>
      let r0 := f s in
      if snd r0 then
        (let r := iter_pos q f (fst r0) in
         if snd r then iter_pos q f (fst r) else r)
      else r0
  end.

(* ---------- media.Sample ---------- *)
Record sample := mkSample {
  s_data : list N;
  s_ts : N;              (* PacketTimestamp *)
  s_samples : N;         (* afterTimestamp - sampleTimestamp (uint32): Duration = s_samples / sampleRate *)
  s_dropped : N;         (* PrevDroppedPackets *)
  s_meta : option N;     (* Metadata: what the head handler returned (its call number) *)
  s_pkts : list packet   (* ghost: the packets merged; RTPHeaders are their headers *)
}.

Record cfg := mkCfg {
  c_maxLate : N; c_maxLateTs : N; c_rate : N;
  c_headHandler : bool;  (* WithPacketHeadHandler installed *)
  c_rtpHeaders : bool    (* WithRTPHeaders(true) *)
}.

(* WithMaxTimeDelay: uint32(int64(sampleRate) * totalMillis / 1000), millis >= 0 *)
Definition max_time_delay (rate millis : N) : N := w32 (rate * millis / 1000).

(* ghost events: every change of active.head *)
Inductive ev :=
| EvAnchor (a h : N) (lag : bool) (* active = filled: active.head was a, is now h = filled.head;
                                 lag: a packet of an already built sample is still buffered *)
| EvMove (kind : N) (h t : N) (* active.head = consume.tail; kind 0 sample built,
                                 1 run dropped (not a partition head), 2 Unmarshal error *)
| EvSkip (h : N).             (* active.head++ in purgeBuffers *)

Record st := mkSt {
  buf : list (N * packet);
  prep : list (N * sample);
  filled : loc; active : loc; prepared : loc;
  lastTs : option N;
  dropped : N; padding : N;
  headCalls : N;
  released : list packet;  (* ghost log of the release handler, newest first *)
  built : list sample;     (* ghost log of every sample built, newest first *)
  evlog : list ev;         (* ghost, newest first *)
  fault : N                (* 0 none, 1 out of fuel, 2 nil dereference, 3 sample built over an empty active window *)
}.

Definition st0 : st :=
  mkSt [] [] (mkLoc 0 0) (mkLoc 0 0) (mkLoc 0 0) None 0 0 0 [] [] [] 0.

Definition set_buf s v := mkSt v (prep s) (filled s) (active s) (prepared s) (lastTs s) (dropped s) (padding s) (headCalls s) (released s) (built s) (evlog s) (fault s).
Definition set_filled s v := mkSt (buf s) (prep s) v (active s) (prepared s) (lastTs s) (dropped s) (padding s) (headCalls s) (released s) (built s) (evlog s) (fault s).
Definition set_active s v := mkSt (buf s) (prep s) (filled s) v (prepared s) (lastTs s) (dropped s) (padding s) (headCalls s) (released s) (built s) (evlog s) (fault s).
Definition set_dropped s v := mkSt (buf s) (prep s) (filled s) (active s) (prepared s) (lastTs s) v (padding s) (headCalls s) (released s) (built s) (evlog s) (fault s).
Definition set_padding s v := mkSt (buf s) (prep s) (filled s) (active s) (prepared s) (lastTs s) (dropped s) v (headCalls s) (released s) (built s) (evlog s) (fault s).
Definition set_headCalls s v := mkSt (buf s) (prep s) (filled s) (active s) (prepared s) (lastTs s) (dropped s) (padding s) v (released s) (built s) (evlog s) (fault s).
Definition set_fault s v := mkSt (buf s) (prep s) (filled s) (active s) (prepared s) (lastTs s) (dropped s) (padding s) (headCalls s) (released s) (built s) (evlog s) v.
Definition log_ev s e := mkSt (buf s) (prep s) (filled s) (active s) (prepared s) (lastTs s) (dropped s) (padding s) (headCalls s) (released s) (built s) (e :: evlog s) (fault s).
Definition raise (s : st) (f : N) : st := if fault s =? 0 then set_fault s f else s.

(* ghost: some buffered packet is part of a sample built earlier (consumed, not yet released) *)
Definition consumed_ids (s : st) : list N := flat_map (fun x => map p_id (s_pkts x)) (built s).
Definition lagging (s : st) : bool :=
  existsb (fun e => existsb (N.eqb (p_id (snd e))) (consumed_ids s)) (buf s).

(* ---------- searches standing for the "first / last non-nil slot" loops ---------- *)
(* for i := head; i != tail; i++ { if buffer[i] != nil { found; break } } *)
Definition first_present (m : list (N * packet)) (l : loc) : option packet :=
  let span := sub16 (l_tail l) (l_head l) in
  snd (fold_left (fun acc e =>
         let off := sub16 (fst e) (l_head l) in
         if (off <? span) && (off <? fst acc) then (off, Some (snd e)) else acc)
       m (65536, None)).
(* for i := tail - 1; i != head; i-- { if buffer[i] != nil { found; break } } *)
Definition last_present (m : list (N * packet)) (l : loc) : option packet :=
  let span := sub16 (l_tail l) (l_head l) in
  snd (fold_left (fun acc e =>
         let off := sub16 (fst e) (l_head l) in
         if (0 <? off) && (off <? span) && (fst acc <? off) then (off, Some (snd e)) else acc)
       m (0, None)).
(* for i := from; i < to; i++ { if buffer[i] != nil { found; break } }   (numeric <, no wrap) *)
Definition first_in_range (m : list (N * packet)) (from to : N) : option packet :=
  snd (fold_left (fun acc e =>
         let k := fst e in
         if (from <=? k) && (k <? to) && (k <? fst acc) then (k, Some (snd e)) else acc)
       m (65536, None)).

Section Builder.
  (* rtp.Depacketizer, assumed pure *)
  Variable is_head : list N -> bool.            (* IsPartitionHead(payload) *)
  Variable is_tail : bool -> list N -> bool.    (* IsPartitionTail(marker, payload) *)
  Variable unmarshal : list N -> option (list N). (* Unmarshal(payload); None = error *)
  Variable c : cfg.

  Definition tooOld (s : st) (l : loc) : bool :=
    if c_maxLateTs c =? 0 then false
    else match first_present (buf s) l with
         | None => false
         | Some fh =>
             match last_present (buf s) l with
             | None => false
             | Some ft => c_maxLateTs c <? timestampDistance (p_ts fh) (p_ts ft)
             end
         end.

  Definition fetchTimestamp (s : st) (l : loc) : N * bool :=
    if l_empty l then (0, false)
    else match bget (l_head l) (buf s) with
         | None => (0, false)
         | Some p => (p_ts p, true)
         end.

  Definition releasePacket (s : st) (i : N) : st :=
    match bget i (buf s) with
    | Some p =>
        mkSt (bdel i (buf s)) (prep s) (filled s) (active s) (prepared s) (lastTs s)
             (dropped s) (padding s) (headCalls s) (p :: released s) (built s) (evlog s) (fault s)
    | None => s
    end.

  (* s.releasePacket(s.filled.head); s.filled.head++ *)
  Definition release_filled_head (s : st) : st :=
    let s1 := releasePacket s (l_head (filled s)) in
    set_filled s1 (mkLoc (inc16 (l_head (filled s1))) (l_tail (filled s1))).

  Definition purgeConsumedLocation (s : st) (consume : loc) (force : bool) : st :=
    if negb (l_hasData (filled s)) then s
    else match compare consume (l_head (filled s)) with
         | CInside => if force then release_filled_head s else s
         | CBefore => release_filled_head s
         | _ => s
         end.

  Definition purgeConsumedBuffers (s : st) : st := purgeConsumedLocation s (active s) false.

  (* the scan of buildSample:
     for i := active.head; buffer[i] != nil && active.compare(i) != After; i++ *)
  Definition scan_step (s : st) (x : N * loc) : (N * loc) * bool :=
    let i := fst x in
    match bget i (buf s) with
    | None => (x, false)
    | Some p =>
        if cmp_eqb (compare (active s) i) CAfter then (x, false)
        else if is_tail (p_marker p) (p_payload p)
        then ((i, mkLoc (l_head (active s)) (inc16 i)), false)
        else
          let ht := fetchTimestamp s (active s) in
          if snd ht && negb (p_ts p =? fst ht)
          then ((i, mkLoc (l_head (active s)) i), false)
          else ((inc16 i, snd x), true)
    end.
  Definition scan (s : st) : loc * bool :=
    let r := iter_pos 65537%positive (scan_step s) (l_head (active s), mkLoc 0 0) in
    (snd (fst r), snd r).

  (* buffer[consume.head], ..., buffer[consume.tail-1] (for i := head; i != tail; i++) *)
  Definition collect_step (s : st) (t : N) (x : N * list (option packet)) : (N * list (option packet)) * bool :=
    if fst x =? t then (x, false)
    else ((inc16 (fst x), bget (fst x) (buf s) :: snd x), true).
  Definition collect (s : st) (l : loc) : list (option packet) * bool :=
    let r := iter_pos 65537%positive (collect_step s (l_tail l)) (l_head l, []) in
    (rev (snd (fst r)), snd r).

  Fixpoint all_some {A} (l : list (option A)) : option (list A) :=
    match l with
    | [] => Some []
    | None :: _ => None
    | Some a :: t => match all_some t with Some r => Some (a :: r) | None => None end
    end.

  Definition is_padding (s : st) (pk : packet) : bool :=
    match lastTs s with
    | Some t => (t =? p_ts pk) && (match p_payload pk with [] => true | _ => false end)
    | None => false
    end.

  Definition buildSample (purging : bool) (s0 : st) : st * option sample :=
    let s1 := if l_empty (active s0)
              then log_ev (set_active s0 (filled s0)) (EvAnchor (l_head (active s0)) (l_head (filled s0)) (lagging s0)) else s0 in
    if l_empty (active s1) then (s1, None)
    else
      let s2 := if cmp_eqb (compare (filled s1) (l_tail (active s1))) CInside
                then set_active s1 (mkLoc (l_head (active s1)) (l_tail (filled s1))) else s1 in
      let sc := scan s2 in
      if snd sc then (raise s2 1, None)
      else
        let consume := fst sc in
        if l_empty consume then (s2, None)
        else if negb purging && (match bget (l_tail consume) (buf s2) with None => true | Some _ => false end)
        then (s2, None)
        else
          (* sampleTimestamp, _ := s.fetchTimestamp(s.active).  hasData is false only when
             extending active.tail emptied the window; the Go code carries on with timestamp 0
             and so does the model, but it flags the history (fault 3) *)
          let sampleTs := fst (fetchTimestamp s2 (active s2)) in
          let s2r := if snd (fetchTimestamp s2 (active s2)) then s2 else raise s2 3 in
          let afterTs := match first_in_range (buf s2) (l_tail consume) (l_tail (active s2)) with
                         | Some p => p_ts p | None => sampleTs end in
          (* the head set of packets is now fully consumed: active.head = consume.tail *)
          let s3 := set_active s2r (mkLoc (l_tail consume) (l_tail (active s2))) in
          let mv := fun k => EvMove k (l_head consume) (l_tail consume) in
          let col := collect s2 consume in
          if snd col then (raise (log_ev s3 (mv 2)) 1, None)
          else
            match all_some (fst col) with
            | None => (raise (log_ev s3 (mv 2)) 2, None)      (* s.buffer[i].Payload on a nil slot *)
            | Some [] => (raise (log_ev s3 (mv 2)) 2, None)
            | Some (hp :: rest) =>
                if negb (is_head (p_payload hp)) then
                  let s3 := log_ev s3 (mv 1) in
                  let isPadding := existsb (is_padding s3) (hp :: rest) in
                  let s4 := set_dropped s3 (w16 (dropped s3 + l_count consume)) in
                  let s5 := if isPadding then set_padding s4 (w16 (padding s4 + l_count consume)) else s4 in
                  (purgeConsumedBuffers (purgeConsumedLocation s5 consume true), None)
                else
                  match unmarshal (p_payload hp) with
                  | None => (log_ev s3 (mv 2), None)
                  | Some d0 =>
                      (* i == consume.head && packetHeadHandler != nil: metadata = handler(...) *)
                      let s4 := if c_headHandler c then set_headCalls s3 (headCalls s3 + 1) else s3 in
                      let meta := if c_headHandler c then Some (headCalls s4) else None in
                      match all_some (map (fun pk => unmarshal (p_payload pk)) rest) with
                      | None => (log_ev s4 (mv 2), None)
                      | Some ds =>
                          let smp := mkSample (d0 ++ concat ds) sampleTs (sub32 afterTs sampleTs)
                                              (dropped s4) meta (hp :: rest) in
                          let s5 := mkSt (buf s4) (bset (l_tail (prepared s4)) smp (prep s4))
                                         (filled s4) (active s4)
                                         (mkLoc (l_head (prepared s4)) (inc16 (l_tail (prepared s4))))
                                         (Some sampleTs) 0 0 (headCalls s4) (released s4)
                                         (smp :: built s4) (mv 0 :: evlog s4) (fault s4) in
                          (purgeConsumedBuffers (purgeConsumedLocation s5 consume true), Some smp)
                      end
                  end
            end.

  (* for (tooOld(filled) || filled.count() > maxLate || flush) && filled.hasData() { ... } *)
  Definition purge_cond (flush : bool) (s : st) : bool :=
    (tooOld s (filled s) || (c_maxLate c <? l_count (filled s)) || flush) && l_hasData (filled s).

  Definition purge_body (s0 : st) : st :=
    let s1 := if l_empty (active s0)
              then log_ev (set_active s0 (filled s0)) (EvAnchor (l_head (active s0)) (l_head (filled s0)) (lagging s0)) else s0 in
    if l_hasData (active s1) && (l_head (active s1) =? l_head (filled s1)) then
      let r := buildSample true s1 in
      match snd r with
      | Some _ => fst r
      | None =>
          let s2 := fst r in
          let s3 := log_ev (set_active s2 (mkLoc (inc16 (l_head (active s2))) (l_tail (active s2))))
                           (EvSkip (l_head (active s2))) in
          let s4 := set_dropped s3 (w16 (dropped s3 + 1)) in
          release_filled_head s4
      end
    else release_filled_head s1.

  Definition purge_step (flush : bool) (s : st) : st * bool :=
    if purge_cond flush s then (purge_body s, true) else (s, false).

  (* every iteration strictly decreases  |buffer| * 65536 + (filled.tail - filled.head) *)
  Definition purge_measure (s : st) : N :=
    N.of_nat (List.length (buf s)) * 65536 + sub16 (l_tail (filled s)) (l_head (filled s)).

  Definition purgeBuffers (flush : bool) (s : st) : st :=
    let s1 := purgeConsumedBuffers s in
    let r := iter_pos (N.succ_pos (purge_measure s1)) (purge_step flush) s1 in
    if snd r then raise (fst r) 1 else fst r.

  Definition push (pk : packet) (s : st) : st :=
    let q := p_seq pk in
    let s1 := set_buf s (bset q pk (buf s)) in
    let f := filled s1 in
    let s2 := match compare f q with
              | CVoid => set_filled s1 (mkLoc q (inc16 q))
              | CBefore => set_filled s1 (mkLoc q (l_tail f))
              | CAfter => set_filled s1 (mkLoc (l_head f) (inc16 q))
              | CInside => s1
              end in
    purgeBuffers false s2.

  Definition flush (s : st) : st := purgeBuffers true s.

  Definition pop (s : st) : st * option sample :=
    let s1 := fst (buildSample false s) in
    if l_empty (prepared s1) then (s1, None)
    else
      let h := l_head (prepared s1) in
      (mkSt (buf s1) (bdel h (prep s1)) (filled s1) (active s1)
            (mkLoc (inc16 h) (l_tail (prepared s1))) (lastTs s1) (dropped s1) (padding s1)
            (headCalls s1) (released s1) (built s1) (evlog s1) (fault s1),
       bget h (prep s1)).

  Inductive op := OPush (pk : packet) | OPop | OFlush.

  Definition step (s : st) (o : op) : st * option sample :=
    match o with
    | OPush pk => (push pk s, None)
    | OPop => pop s
    | OFlush => (flush s, None)
    end.

  (* a history: state after, samples returned by the Pops (oldest first) *)
  Definition run_from (s : st) (ops : list op) : st * list sample :=
    fold_left (fun acc o =>
                 let r := step (fst acc) o in
                 (fst r, match snd r with Some x => snd acc ++ [x] | None => snd acc end))
              ops (s, []).
  Definition run (ops : list op) : st * list sample := run_from st0 ops.
End Builder.

(* the harness gives the k-th Push the identity k *)
Fixpoint number_from (k : N) (ops : list op) : list op :=
  match ops with
  | [] => []
  | OPush pk :: t => OPush (mkPacket k (p_seq pk) (p_ts pk) (p_marker pk) (p_payload pk)) :: number_from (k + 1) t
  | o :: t => o :: number_from k t
  end.

(* ---------- the harness's depacketizer, also used for witnesses ----------
   payload = [flags; chunk...]; flags bit0 partition head, bit1 partition
   tail, bit2 Unmarshal fails; Unmarshal returns the chunk.  An empty payload
   is neither head nor tail and does not unmarshal. *)
Definition fk_is_head (p : list N) : bool :=
  match p with [] => false | f :: _ => N.testbit f 0 end.
Definition fk_is_tail (_ : bool) (p : list N) : bool :=
  match p with [] => false | f :: _ => N.testbit f 1 end.
Definition fk_unmarshal (p : list N) : option (list N) :=
  match p with [] => None | f :: d => if N.testbit f 2 then None else Some d end.
