(* C38: the JSON / text / PEM forms of pion/webrtc's public value types.

   Layers.
   1. In-repo logic, transcribed here: every enum's String() and its
      new…/New…/UnmarshalJSON/UnmarshalText switch (cases in source order,
      including the default arm), the MarshalJSON/UnmarshalJSON pair of
      ICEServer (iceserver.go), the struct shapes of SessionDescription and
      ICECandidateInit (their `json:"…"` tags), the type/kind dispatch of
      UnmarshalStatsJSON (stats.go), and the block loop of
      CertificateFromPEM / PEM (certificate.go).
   2. Assumed, not modelled: encoding/json as a bijection between JSON text
      and the abstract tree [json] for the shapes used here (objects without
      duplicate keys, strings that are valid UTF-8, integers, finite floats);
      its reflection-driven struct coding (a field is found by its tag, an
      absent member leaves the zero value); encoding/pem + crypto/x509 as
      bijections between text, block lists and certificates / keys.  These
      enter theorems as Section variables with hypotheses (Proofs/Serial.v).
   No proofs in this file. *)
From Coq Require Import List ZArith NArith String Ascii Bool.
Import ListNotations.
From Verif Require Import Common.V Common.Base Common.SerialUtil.
Open Scope string_scope.
Open Scope Z_scope.

(* ------------------------------------------------------------------ *)
(* strings: ASCII case mapping from Common/SerialUtil.v (strings.ToLower /
   strings.EqualFold agree with it on ASCII input; the non-ASCII folds —
   U+212A KELVIN SIGN to k, U+017F to s — are outside the model and never
   produced by an encoder) *)

(* errors.go: ErrUnknownType = errors.New("unknown"); every String() returns
   ErrUnknownType.Error() in its default arm *)
Definition unknown_str : string := "unknown".

(* ------------------------------------------------------------------ *)
(* abstract JSON tree *)

Inductive json : Type :=
| JNull
| JBool (b : bool)
| JNum (z : Z)
| JStr (s : string)
| JArr (l : list json)
| JObj (l : list (string * json)).

(* Go: a later duplicate member overwrites an earlier one (map assignment and
   struct field assignment alike) *)
Fixpoint field (k : string) (l : list (string * json)) : option json :=
  match l with
  | [] => None
  | (k', v) :: t =>
      match field k t with
      | Some later => Some later
      | None => if String.eqb k k' then Some v else None
      end
  end.

(* ------------------------------------------------------------------ *)
(* enums *)

(* how a decoder compares its input with the case constants *)
Inductive matching :=
| Exact          (* switch raw { case const: … } *)
| FoldEach       (* switch { case strings.EqualFold(const, raw): … } *)
| LowerFirst.    (* switch strings.ToLower(raw) { case const: … } *)

Inductive dflt := DfltVal (z : Z) | DfltErr (e : string).

Record decoder := {
  d_cases : list (string * Z);   (* case arms in source order *)
  d_match : matching;
  d_default : dflt               (* the default arm *)
}.

Record enum := {
  e_name : string;
  e_declared : list Z;             (* the const block *)
  e_strings : list (Z * string);   (* String(): arms in source order; default arm = "unknown" *)
  e_text : option decoder;         (* new…(raw) / New…(raw) *)
  e_json : option decoder          (* Some d: the type has MarshalJSON or MarshalText (JSON string),
                                      decoded by d; None: encoding/json writes the integer *)
}.

Fixpoint val_lookup (tbl : list (Z * string)) (v : Z) : option string :=
  match tbl with
  | [] => None
  | (v', s) :: t => if Z.eqb v v' then Some s else val_lookup t v
  end.

Definition to_string (e : enum) (v : Z) : string :=
  match val_lookup (e_strings e) v with Some s => s | None => unknown_str end.

Fixpoint case_lookup (eq : string -> string -> bool) (tbl : list (string * Z)) (raw : string)
  : option Z :=
  match tbl with
  | [] => None
  | (c, v) :: t => if eq c raw then Some v else case_lookup eq t raw
  end.

Definition decode (d : decoder) (raw : string) : result Z :=
  let hit :=
    match d_match d with
    | Exact => case_lookup String.eqb (d_cases d) raw
    | FoldEach => case_lookup eqfold (d_cases d) raw
    | LowerFirst => case_lookup String.eqb (d_cases d) (lower raw)
    end in
  match hit with
  | Some v => Ok v
  | None => match d_default d with DfltVal z => Ok z | DfltErr e => Err e end
  end.

Definition of_text (e : enum) (raw : string) : option (result Z) :=
  match e_text e with Some d => Some (decode d raw) | None => None end.

Definition enum_to_json (e : enum) (v : Z) : json :=
  match e_json e with Some _ => JStr (to_string e v) | None => JNum v end.

(* shapes other than the one the encoder emits are not produced by any case of
   the correspondence run; they are mapped to one error class and no theorem
   depends on them *)
Definition enum_of_json (e : enum) (j : json) : result Z :=
  match e_json e, j with
  | Some d, JStr s => decode d s
  | None, JNum z => Ok z
  | _, _ => Err "json-shape"
  end.

Definition lenient (cases : list (string * Z)) (z : Z) : decoder :=
  {| d_cases := cases; d_match := Exact; d_default := DfltVal z |}.
Definition strict (cases : list (string * Z)) (e : string) : decoder :=
  {| d_cases := cases; d_match := Exact; d_default := DfltErr e |}.

(* sdptype.go.  NewSDPType is lenient; UnmarshalJSON lower-cases and rejects. *)
Definition sdptype_cases := [("offer", 1); ("pranswer", 2); ("answer", 3); ("rollback", 4)].
Definition E_SDPType : enum := {|
  e_name := "SDPType"; e_declared := [0; 1; 2; 3; 4];
  e_strings := [(1, "offer"); (2, "pranswer"); (3, "answer"); (4, "rollback")];
  e_text := Some (lenient sdptype_cases 0);
  e_json := Some {| d_cases := sdptype_cases; d_match := LowerFirst;
                    d_default := DfltErr "unknown-type" |} |}.

(* signalingstate.go *)
Definition E_SignalingState : enum := {|
  e_name := "SignalingState"; e_declared := [0; 1; 2; 3; 4; 5; 6];
  e_strings := [(1, "stable"); (2, "have-local-offer"); (3, "have-remote-offer");
                (4, "have-local-pranswer"); (5, "have-remote-pranswer"); (6, "closed")];
  e_text := Some (lenient [("stable", 1); ("have-local-offer", 2); ("have-remote-offer", 3);
                           ("have-local-pranswer", 4); ("have-remote-pranswer", 5);
                           ("closed", 6)] 0);
  e_json := None |}.

(* iceconnectionstate.go *)
Definition E_ICEConnectionState : enum := {|
  e_name := "ICEConnectionState"; e_declared := [0; 1; 2; 3; 4; 5; 6; 7];
  e_strings := [(1, "new"); (2, "checking"); (3, "connected"); (4, "completed");
                (5, "disconnected"); (6, "failed"); (7, "closed")];
  e_text := Some (lenient [("new", 1); ("checking", 2); ("connected", 3); ("completed", 4);
                           ("disconnected", 5); ("failed", 6); ("closed", 7)] 0);
  e_json := None |}.

(* icegatheringstate.go *)
Definition E_ICEGatheringState : enum := {|
  e_name := "ICEGatheringState"; e_declared := [0; 1; 2; 3];
  e_strings := [(1, "new"); (2, "gathering"); (3, "complete")];
  e_text := Some (lenient [("new", 1); ("gathering", 2); ("complete", 3)] 0);
  e_json := None |}.

(* icegathererstate.go: String only *)
Definition E_ICEGathererState : enum := {|
  e_name := "ICEGathererState"; e_declared := [0; 1; 2; 3; 4];
  e_strings := [(1, "new"); (2, "gathering"); (3, "complete"); (4, "closed")];
  e_text := None; e_json := None |}.

(* icetransportstate.go: MarshalText / UnmarshalText *)
Definition icetransportstate_dec :=
  lenient [("new", 1); ("checking", 2); ("connected", 3); ("completed", 4); ("failed", 5);
           ("disconnected", 6); ("closed", 7)] 0.
Definition E_ICETransportState : enum := {|
  e_name := "ICETransportState"; e_declared := [0; 1; 2; 3; 4; 5; 6; 7];
  e_strings := [(1, "new"); (2, "checking"); (3, "connected"); (4, "completed");
                (5, "failed"); (6, "disconnected"); (7, "closed")];
  e_text := Some icetransportstate_dec; e_json := Some icetransportstate_dec |}.

(* icerole.go: MarshalText / UnmarshalText *)
Definition icerole_dec := lenient [("controlling", 1); ("controlled", 2)] 0.
Definition E_ICERole : enum := {|
  e_name := "ICERole"; e_declared := [0; 1; 2];
  e_strings := [(1, "controlling"); (2, "controlled")];
  e_text := Some icerole_dec; e_json := Some icerole_dec |}.

(* icecomponent.go *)
Definition E_ICEComponent : enum := {|
  e_name := "ICEComponent"; e_declared := [0; 1; 2];
  e_strings := [(1, "rtp"); (2, "rtcp")];
  e_text := Some (lenient [("rtp", 1); ("rtcp", 2)] 0); e_json := None |}.

(* iceprotocol.go: NewICEProtocol folds case and rejects *)
Definition E_ICEProtocol : enum := {|
  e_name := "ICEProtocol"; e_declared := [0; 1; 2];
  e_strings := [(1, "udp"); (2, "tcp")];
  e_text := Some {| d_cases := [("udp", 1); ("tcp", 2)]; d_match := FoldEach;
                    d_default := DfltErr "unknown-protocol" |};
  e_json := None |}.

(* icecandidatetype.go: MarshalText / UnmarshalText through NewICECandidateType, which rejects *)
Definition icecandidatetype_dec :=
  strict [("host", 1); ("srflx", 2); ("prflx", 3); ("relay", 4)] "unknown-candidate-type".
Definition E_ICECandidateType : enum := {|
  e_name := "ICECandidateType"; e_declared := [0; 1; 2; 3; 4];
  e_strings := [(1, "host"); (2, "srflx"); (3, "prflx"); (4, "relay")];
  e_text := Some icecandidatetype_dec; e_json := Some icecandidatetype_dec |}.

(* icecredentialtype.go: no Unknown constant; zero is password *)
Definition icecredentialtype_dec :=
  strict [("password", 0); ("oauth", 1)] "invalid-credential-type".
Definition E_ICECredentialType : enum := {|
  e_name := "ICECredentialType"; e_declared := [0; 1];
  e_strings := [(0, "password"); (1, "oauth")];
  e_text := Some icecredentialtype_dec; e_json := Some icecredentialtype_dec |}.

(* icetransportpolicy.go: zero is "all"; the default arm of the decoder is all *)
Definition icetransportpolicy_dec := lenient [("nohost", 2); ("relay", 1)] 0.
Definition E_ICETransportPolicy : enum := {|
  e_name := "ICETransportPolicy"; e_declared := [0; 1; 2];
  e_strings := [(2, "nohost"); (1, "relay"); (0, "all")];
  e_text := Some icetransportpolicy_dec; e_json := Some icetransportpolicy_dec |}.

(* dtlstransportstate.go: MarshalText / UnmarshalText *)
Definition dtlstransportstate_dec :=
  lenient [("new", 1); ("connecting", 2); ("connected", 3); ("closed", 4); ("failed", 5)] 0.
Definition E_DTLSTransportState : enum := {|
  e_name := "DTLSTransportState"; e_declared := [0; 1; 2; 3; 4; 5];
  e_strings := [(1, "new"); (2, "connecting"); (3, "connected"); (4, "closed"); (5, "failed")];
  e_text := Some dtlstransportstate_dec; e_json := Some dtlstransportstate_dec |}.

(* dtlsrole.go: String only *)
Definition E_DTLSRole : enum := {|
  e_name := "DTLSRole"; e_declared := [0; 1; 2; 3];
  e_strings := [(1, "auto"); (2, "client"); (3, "server")];
  e_text := None; e_json := None |}.

(* sctptransportstate.go *)
Definition E_SCTPTransportState : enum := {|
  e_name := "SCTPTransportState"; e_declared := [0; 1; 2; 3];
  e_strings := [(1, "connecting"); (2, "connected"); (3, "closed")];
  e_text := Some (lenient [("connecting", 1); ("connected", 2); ("closed", 3)] 0);
  e_json := None |}.

(* datachannelstate.go: MarshalText / UnmarshalText *)
Definition datachannelstate_dec :=
  lenient [("connecting", 1); ("open", 2); ("closing", 3); ("closed", 4)] 0.
Definition E_DataChannelState : enum := {|
  e_name := "DataChannelState"; e_declared := [0; 1; 2; 3; 4];
  e_strings := [(1, "connecting"); (2, "open"); (3, "closing"); (4, "closed")];
  e_text := Some datachannelstate_dec; e_json := Some datachannelstate_dec |}.

(* peerconnectionstate.go *)
Definition E_PeerConnectionState : enum := {|
  e_name := "PeerConnectionState"; e_declared := [0; 1; 2; 3; 4; 5; 6];
  e_strings := [(1, "new"); (2, "connecting"); (3, "connected"); (4, "disconnected");
                (5, "failed"); (6, "closed")];
  e_text := Some (lenient [("new", 1); ("connecting", 2); ("connected", 3); ("disconnected", 4);
                           ("failed", 5); ("closed", 6)] 0);
  e_json := None |}.

(* bundlepolicy.go: MarshalJSON / UnmarshalJSON through newBundlePolicy *)
Definition bundlepolicy_dec := lenient [("balanced", 1); ("max-compat", 2); ("max-bundle", 3)] 0.
Definition E_BundlePolicy : enum := {|
  e_name := "BundlePolicy"; e_declared := [0; 1; 2; 3];
  e_strings := [(1, "balanced"); (2, "max-compat"); (3, "max-bundle")];
  e_text := Some bundlepolicy_dec; e_json := Some bundlepolicy_dec |}.

(* rtcpmuxpolicy.go *)
Definition rtcpmuxpolicy_dec := lenient [("negotiate", 1); ("require", 2)] 0.
Definition E_RTCPMuxPolicy : enum := {|
  e_name := "RTCPMuxPolicy"; e_declared := [0; 1; 2];
  e_strings := [(1, "negotiate"); (2, "require")];
  e_text := Some rtcpmuxpolicy_dec; e_json := Some rtcpmuxpolicy_dec |}.

(* sdpsemantics.go: zero is unified-plan; default arm of the decoder is unified-plan *)
Definition sdpsemantics_dec := lenient [("plan-b", 1); ("unified-plan-with-fallback", 2)] 0.
Definition E_SDPSemantics : enum := {|
  e_name := "SDPSemantics"; e_declared := [0; 1; 2];
  e_strings := [(2, "unified-plan-with-fallback"); (0, "unified-plan"); (1, "plan-b")];
  e_text := Some sdpsemantics_dec; e_json := Some sdpsemantics_dec |}.

(* rtptransceiverdirection.go *)
Definition E_RTPTransceiverDirection : enum := {|
  e_name := "RTPTransceiverDirection"; e_declared := [0; 1; 2; 3; 4];
  e_strings := [(1, "sendrecv"); (2, "sendonly"); (3, "recvonly"); (4, "inactive")];
  e_text := Some (lenient [("sendrecv", 1); ("sendonly", 2); ("recvonly", 3); ("inactive", 4)] 0);
  e_json := None |}.

(* networktype.go: NewNetworkType rejects *)
Definition E_NetworkType : enum := {|
  e_name := "NetworkType"; e_declared := [0; 1; 2; 3; 4];
  e_strings := [(1, "udp4"); (2, "udp6"); (3, "tcp4"); (4, "tcp6")];
  e_text := Some (strict [("udp4", 1); ("udp6", 2); ("tcp4", 3); ("tcp6", 4)] "unknown-network-type");
  e_json := None |}.

(* sessiondescription.go: ICETrickleCapability, String only (its default arm is
   the literal "unknown", the same text as ErrUnknownType) *)
Definition E_ICETrickleCapability : enum := {|
  e_name := "ICETrickleCapability"; e_declared := [0; 1; 2];
  e_strings := [(1, "supported"); (2, "unsupported")];
  e_text := None; e_json := None |}.

(* rtpcodec.go: NewRTPCodecType folds case, default RTPCodecType(0) *)
Definition E_RTPCodecType : enum := {|
  e_name := "RTPCodecType"; e_declared := [0; 1; 2];
  e_strings := [(1, "audio"); (2, "video")];
  e_text := Some {| d_cases := [("audio", 1); ("video", 2)]; d_match := FoldEach;
                    d_default := DfltVal 0 |};
  e_json := None |}.

Definition all_enums : list enum :=
  [E_SDPType; E_SignalingState; E_ICEConnectionState; E_ICEGatheringState;
   E_ICEGathererState; E_ICETransportState; E_ICERole; E_ICEComponent; E_ICEProtocol;
   E_ICECandidateType; E_ICECredentialType; E_ICETransportPolicy; E_DTLSTransportState;
   E_DTLSRole; E_SCTPTransportState; E_DataChannelState; E_PeerConnectionState;
   E_BundlePolicy; E_RTCPMuxPolicy; E_SDPSemantics; E_RTPTransceiverDirection;
   E_NetworkType; E_ICETrickleCapability; E_RTPCodecType].

Fixpoint find_enum (l : list enum) (name : string) : option enum :=
  match l with
  | [] => None
  | e :: t => if String.eqb (e_name e) name then Some e else find_enum t name
  end.

(* round trips of one enum value; an absent decoder is vacuous *)
Definition text_roundtrip_b (e : enum) (v : Z) : bool :=
  match of_text e (to_string e v) with
  | None => true
  | Some (Ok v') => Z.eqb v' v
  | Some _ => false
  end.
Definition json_roundtrip_b (e : enum) (v : Z) : bool :=
  match enum_of_json e (enum_to_json e v) with Ok v' => Z.eqb v' v | _ => false end.

(* the declared Unknown constant of an enum whose decoder has an error default *)
Definition rejecting (d : option decoder) : bool :=
  match d with
  | Some d' => match d_default d' with DfltErr _ => true | DfltVal _ => false end
  | None => false
  end.
Definition unknown_value (e : enum) (v : Z) : bool :=
  andb (Z.eqb v 0) (match val_lookup (e_strings e) 0 with None => true | Some _ => false end).

(* ------------------------------------------------------------------ *)
(* SessionDescription (sessiondescription.go): `json:"type"`, `json:"sdp"` *)

Record session_description := { sd_type : Z; sd_sdp : string }.

Definition sd_encode (d : session_description) : json :=
  JObj [("type", enum_to_json E_SDPType (sd_type d)); ("sdp", JStr (sd_sdp d))].

Definition str_member (k : string) (fs : list (string * json)) : result string :=
  match field k fs with
  | None => Ok ""
  | Some (JStr s) => Ok s
  | Some _ => Err "json-shape"
  end.

Definition sd_decode (j : json) : result session_description :=
  match j with
  | JObj fs =>
      rbind (match field "type" fs with
             | None => Ok 0
             | Some t => enum_of_json E_SDPType t
             end) (fun ty =>
      rbind (str_member "sdp" fs) (fun s =>
      Ok {| sd_type := ty; sd_sdp := s |}))
  | _ => Err "json-shape"
  end.

(* ------------------------------------------------------------------ *)
(* ICECandidateInit (icecandidateinit.go): three pointer members, written as
   null when nil *)

Record candidate_init := {
  ci_candidate : string;
  ci_mid : option string;
  ci_idx : option Z;          (* *uint16 *)
  ci_ufrag : option string
}.

Definition opt_str_json (o : option string) : json :=
  match o with None => JNull | Some s => JStr s end.
Definition opt_num_json (o : option Z) : json :=
  match o with None => JNull | Some z => JNum z end.

Definition ci_encode (c : candidate_init) : json :=
  JObj [("candidate", JStr (ci_candidate c)); ("sdpMid", opt_str_json (ci_mid c));
        ("sdpMLineIndex", opt_num_json (ci_idx c));
        ("usernameFragment", opt_str_json (ci_ufrag c))].

Definition opt_str_member (k : string) (fs : list (string * json)) : result (option string) :=
  match field k fs with
  | None | Some JNull => Ok None
  | Some (JStr s) => Ok (Some s)
  | Some _ => Err "json-shape"
  end.
Definition opt_u16_member (k : string) (fs : list (string * json)) : result (option Z) :=
  match field k fs with
  | None | Some JNull => Ok None
  | Some (JNum z) => if andb (Z.leb 0 z) (Z.ltb z 65536) then Ok (Some z) else Err "json-shape"
  | Some _ => Err "json-shape"
  end.

Definition ci_decode (j : json) : result candidate_init :=
  match j with
  | JObj fs =>
      rbind (str_member "candidate" fs) (fun c =>
      rbind (opt_str_member "sdpMid" fs) (fun m =>
      rbind (opt_u16_member "sdpMLineIndex" fs) (fun i =>
      rbind (opt_str_member "usernameFragment" fs) (fun u =>
      Ok {| ci_candidate := c; ci_mid := m; ci_idx := i; ci_ufrag := u |}))))
  | _ => Err "json-shape"
  end.

(* ------------------------------------------------------------------ *)
(* ICEServer (iceserver.go): hand-written MarshalJSON / UnmarshalJSON over
   map[string]any *)

Inductive credential :=
| CredNone                          (* nil interface *)
| CredStr (s : string)              (* string *)
| CredOAuth (mac token : string)    (* OAuthCredential *)
| CredRaw (j : json).               (* any other decoded JSON value (map, number, …) *)

Record ice_server := {
  is_urls : option (list string);   (* None = nil slice, Some [] = empty non-nil slice *)
  is_username : string;
  is_credential : credential;
  is_credtype : Z
}.

(* json.Marshal(any) of the credential: OAuthCredential has no tags, so its
   members are MACKey, AccessToken in declaration order *)
Definition cred_json (c : credential) : json :=
  match c with
  | CredNone => JNull
  | CredStr s => JStr s
  | CredOAuth m t => JObj [("MACKey", JStr m); ("AccessToken", JStr t)]
  | CredRaw j => j
  end.

(* MarshalJSON builds a map; encoding/json writes map keys sorted:
   credential < credentialType < urls < username *)
Definition server_encode (s : ice_server) : json :=
  JObj ((match is_credential s with
         | CredNone => []                               (* if s.Credential != nil *)
         | c => [("credential", cred_json c)]
         end)
        ++ [("credentialType", enum_to_json E_ICECredentialType (is_credtype s))]
        ++ [("urls", match is_urls s with
                     | None => JNull                     (* nil slice marshals as null *)
                     | Some l => JArr (map JStr l)
                     end)]
        ++ (if String.eqb (is_username s) "" then [] else [("username", JStr (is_username s))])).

Definition err_invalid_server : string := "invalid-ice-server".

(* iceserverUnmarshalUrls, after the repair: a JSON null gives back the nil
   slice (before the repair null fell into the !ok arm: errInvalidICEServer) *)
Fixpoint all_strings (l : list json) : option (list string) :=
  match l with
  | [] => Some []
  | JStr s :: t => match all_strings t with Some r => Some (s :: r) | None => None end
  | _ :: _ => None
  end.
Definition unmarshal_urls (val : json) : result (option (list string)) :=
  match val with
  | JNull => Ok None
  | JArr l => match all_strings l with
              | Some r => Ok (Some r)
              | None => Err err_invalid_server
              end
  | _ => Err err_invalid_server
  end.

(* iceserverUnmarshalOauth: c["MACKey"].(string), c["AccessToken"].(string) *)
Definition unmarshal_oauth (val : json) : result credential :=
  match val with
  | JObj c =>
      match field "MACKey" c with
      | Some (JStr m) =>
          match field "AccessToken" c with
          | Some (JStr t) => Ok (CredOAuth m t)
          | _ => Err err_invalid_server
          end
      | _ => Err err_invalid_server
      end
  | _ => Err err_invalid_server
  end.

(* s.Credential = val for the password type: the decoded `any` *)
Definition raw_credential (val : json) : credential :=
  match val with
  | JNull => CredNone
  | JStr s => CredStr s
  | j => CredRaw j
  end.

(* iceserverUnmarshalFields, statement by statement; decoding starts from the
   zero ICEServer *)
Definition server_decode_fields (fs : list (string * json)) : result ice_server :=
  rbind (match field "urls" fs with
         | Some val => unmarshal_urls val
         | None => Ok (Some [])                          (* s.URLs = []string{} *)
         end) (fun urls =>
  rbind (match field "username" fs with
         | Some (JStr u) => Ok u
         | Some _ => Err err_invalid_server
         | None => Ok ""
         end) (fun user =>
  rbind (match field "credentialType" fs with
         | Some (JStr ct) => decode icecredentialtype_dec ct
         | Some _ => Err err_invalid_server
         | None => Ok 0                                  (* ICECredentialTypePassword *)
         end) (fun ct =>
  rbind (match field "credential" fs with
         | Some val =>
             if Z.eqb ct 0 then Ok (raw_credential val)
             else if Z.eqb ct 1 then unmarshal_oauth val
             else Err "invalid-credential-type"
         | None => Ok CredNone
         end) (fun cred =>
  Ok {| is_urls := urls; is_username := user; is_credential := cred; is_credtype := ct |})))).

Definition server_decode (j : json) : result ice_server :=
  match j with
  | JObj fs => server_decode_fields fs
  | _ => Err err_invalid_server
  end.

(* ------------------------------------------------------------------ *)
(* stats.go: UnmarshalStatsJSON *)

Inductive stats_ty :=
| CodecStats | InboundRTPStreamStats | OutboundRTPStreamStats
| RemoteInboundRTPStreamStats | RemoteOutboundRTPStreamStats
| RTPContributingSourceStats | AudioSourceStats | VideoSourceStats
| AudioPlayoutStats | PeerConnectionStats | DataChannelStats | MediaStreamStats
| AudioSenderStats | SenderAudioTrackAttachmentStats
| VideoSenderStats | SenderVideoTrackAttachmentStats
| AudioReceiverStats | VideoReceiverStats | TransportStats
| ICECandidatePairStats | ICECandidateStats | CertificateStats | SCTPTransportStats.

Definition all_stats_ty : list stats_ty :=
  [CodecStats; InboundRTPStreamStats; OutboundRTPStreamStats;
   RemoteInboundRTPStreamStats; RemoteOutboundRTPStreamStats;
   RTPContributingSourceStats; AudioSourceStats; VideoSourceStats;
   AudioPlayoutStats; PeerConnectionStats; DataChannelStats; MediaStreamStats;
   AudioSenderStats; SenderAudioTrackAttachmentStats;
   VideoSenderStats; SenderVideoTrackAttachmentStats;
   AudioReceiverStats; VideoReceiverStats; TransportStats;
   ICECandidatePairStats; ICECandidateStats; CertificateStats; SCTPTransportStats].

Definition stats_ty_name (t : stats_ty) : string :=
  match t with
  | CodecStats => "CodecStats" | InboundRTPStreamStats => "InboundRTPStreamStats"
  | OutboundRTPStreamStats => "OutboundRTPStreamStats"
  | RemoteInboundRTPStreamStats => "RemoteInboundRTPStreamStats"
  | RemoteOutboundRTPStreamStats => "RemoteOutboundRTPStreamStats"
  | RTPContributingSourceStats => "RTPContributingSourceStats"
  | AudioSourceStats => "AudioSourceStats" | VideoSourceStats => "VideoSourceStats"
  | AudioPlayoutStats => "AudioPlayoutStats" | PeerConnectionStats => "PeerConnectionStats"
  | DataChannelStats => "DataChannelStats" | MediaStreamStats => "MediaStreamStats"
  | AudioSenderStats => "AudioSenderStats"
  | SenderAudioTrackAttachmentStats => "SenderAudioTrackAttachmentStats"
  | VideoSenderStats => "VideoSenderStats"
  | SenderVideoTrackAttachmentStats => "SenderVideoTrackAttachmentStats"
  | AudioReceiverStats => "AudioReceiverStats" | VideoReceiverStats => "VideoReceiverStats"
  | TransportStats => "TransportStats" | ICECandidatePairStats => "ICECandidatePairStats"
  | ICECandidateStats => "ICECandidateStats" | CertificateStats => "CertificateStats"
  | SCTPTransportStats => "SCTPTransportStats"
  end.

Definition stats_ty_eqb (a b : stats_ty) : bool :=
  String.eqb (stats_ty_name a) (stats_ty_name b).

(* switch MediaKind(kindHolder.Kind) *)
Definition by_kind (kind : string) (audio video : stats_ty) : result stats_ty :=
  if String.eqb kind "audio" then Ok audio
  else if String.eqb kind "video" then Ok video
  else Err "unknown-kind".

(* switch typeHolder.Type, arms in source order *)
Definition stats_dispatch (tag kind : string) : result stats_ty :=
  if String.eqb tag "codec" then Ok CodecStats
  else if String.eqb tag "inbound-rtp" then Ok InboundRTPStreamStats
  else if String.eqb tag "outbound-rtp" then Ok OutboundRTPStreamStats
  else if String.eqb tag "remote-inbound-rtp" then Ok RemoteInboundRTPStreamStats
  else if String.eqb tag "remote-outbound-rtp" then Ok RemoteOutboundRTPStreamStats
  else if String.eqb tag "csrc" then Ok RTPContributingSourceStats
  else if String.eqb tag "media-source" then by_kind kind AudioSourceStats VideoSourceStats
  else if String.eqb tag "media-playout" then Ok AudioPlayoutStats
  else if String.eqb tag "peer-connection" then Ok PeerConnectionStats
  else if String.eqb tag "data-channel" then Ok DataChannelStats
  else if String.eqb tag "stream" then Ok MediaStreamStats
  else if String.eqb tag "track"
       then by_kind kind SenderAudioTrackAttachmentStats SenderVideoTrackAttachmentStats
  else if String.eqb tag "sender" then by_kind kind AudioSenderStats VideoSenderStats
  else if String.eqb tag "receiver" then by_kind kind AudioReceiverStats VideoReceiverStats
  else if String.eqb tag "transport" then Ok TransportStats
  else if String.eqb tag "candidate-pair" then Ok ICECandidatePairStats
  else if orb (String.eqb tag "local-candidate") (String.eqb tag "remote-candidate")
       then Ok ICECandidateStats
  else if String.eqb tag "certificate" then Ok CertificateStats
  else if String.eqb tag "sctp-transport" then Ok SCTPTransportStats
  else Err "unknown-type".

(* the tag(s) a value of each Go type carries (the StatsType constants and the
   collectors that fill the Type member), with the Kind the dispatch needs *)
Definition stats_tags (t : stats_ty) : list (string * option string) :=
  match t with
  | CodecStats => [("codec", None)]
  | InboundRTPStreamStats => [("inbound-rtp", None)]
  | OutboundRTPStreamStats => [("outbound-rtp", None)]
  | RemoteInboundRTPStreamStats => [("remote-inbound-rtp", None)]
  | RemoteOutboundRTPStreamStats => [("remote-outbound-rtp", None)]
  | RTPContributingSourceStats => [("csrc", None)]
  | AudioSourceStats => [("media-source", Some "audio")]
  | VideoSourceStats => [("media-source", Some "video")]
  | AudioPlayoutStats => [("media-playout", None)]
  | PeerConnectionStats => [("peer-connection", None)]
  | DataChannelStats => [("data-channel", None)]
  | MediaStreamStats => [("stream", None)]
  | AudioSenderStats => [("sender", Some "audio")]
  | SenderAudioTrackAttachmentStats => [("track", Some "audio")]
  | VideoSenderStats => [("sender", Some "video")]
  | SenderVideoTrackAttachmentStats => [("track", Some "video")]
  | AudioReceiverStats => [("receiver", Some "audio")]
  | VideoReceiverStats => [("receiver", Some "video")]
  | TransportStats => [("transport", None)]
  | ICECandidatePairStats => [("candidate-pair", None)]
  | ICECandidateStats => [("local-candidate", None); ("remote-candidate", None)]
  | CertificateStats => [("certificate", None)]
  | SCTPTransportStats => [("sctp-transport", None)]
  end.

(* members of a Stats struct whose Go type is one of the enums above (all of
   them TextMarshalers, so a rejecting decoder fails the whole object) *)
Definition stats_enum_members (t : stats_ty) : list enum :=
  match t with
  | DataChannelStats => [E_DataChannelState]
  | TransportStats => [E_ICERole; E_DTLSTransportState; E_ICETransportState]
  | ICECandidateStats => [E_ICECandidateType]
  | _ => []
  end.

(* a Stats value as far as in-repo logic looks at it: its Go type, the Type
   and Kind members, the enum members in declaration order; every other
   member is carried by encoding/json's struct coding (assumed) *)
Record stats_value := {
  sv_ty : stats_ty; sv_tag : string; sv_kind : string; sv_enums : list Z
}.

Fixpoint enums_roundtrip (es : list enum) (vs : list Z) : result (list Z) :=
  match es, vs with
  | [], [] => Ok []
  | e :: et, v :: vt =>
      rbind (enum_of_json e (enum_to_json e v)) (fun v' =>
      rbind (enums_roundtrip et vt) (fun r => Ok (v' :: r)))
  | _, _ => Err "model-arity"
  end.

(* marshal, then UnmarshalStatsJSON: which Go type comes back, with which
   enum members *)
Definition stats_roundtrip (s : stats_value) : result (stats_ty * list Z) :=
  rbind (stats_dispatch (sv_tag s) (sv_kind s)) (fun t =>
  if stats_ty_eqb t (sv_ty s)
  then match enums_roundtrip (stats_enum_members t) (sv_enums s) with
       | Ok es => Ok (t, es)
       | Err _ => Err "unmarshal-member"
       | Panic => Panic
       end
  else Ok (t, [])).    (* another struct type: its members are not compared *)

(* ------------------------------------------------------------------ *)
(* certificate.go: PEM() and CertificateFromPEM over a list of PEM blocks *)

Section PEM.
  Variables cert key : Type.
  Variable cert_raw : cert -> list N.                 (* x509Cert.Raw *)
  Variable x509_parse : list N -> option cert.        (* x509.ParseCertificate *)
  Variable pkcs8_marshal : key -> option (list N).    (* x509.MarshalPKCS8PrivateKey *)
  Variable pkcs8_parse : list N -> option key.        (* x509.ParsePKCS8PrivateKey *)
  Variable b64_decode : list N -> option (list N).    (* base64.StdEncoding.Decode *)

  Definition block : Type := (string * list N)%type.

  (* Certificate.PEM *)
  Definition to_pem (k : key) (c : cert) : result (list block) :=
    match pkcs8_marshal k with
    | None => Err "marshal-key"
    | Some kb => Ok [("CERTIFICATE", cert_raw c); ("PRIVATE KEY", kb)]
    end.

  (* the loop of CertificateFromPEM; pem.Decode yields the blocks in order *)
  Fixpoint from_pem_loop (bs : list block) (c : option cert) (k : option key)
    : result (option cert * option key) :=
    match bs with
    | [] => Ok (c, k)
    | (ty, bytes) :: rest =>
        if String.eqb ty "CERTIFICATE" then
          match c with
          | Some _ => Err "multiple-cert"
          | None =>
              match x509_parse bytes with
              | Some c' => from_pem_loop rest (Some c') k
              | None =>   (* second attempt: the block holds base64 of the DER *)
                  match b64_decode bytes with
                  | Some der =>
                      match x509_parse der with
                      | Some c' => from_pem_loop rest (Some c') k
                      | None => Err "decode-failed"
                      end
                  | None => Err "decode-failed"
                  end
              end
          end
        else if String.eqb ty "PRIVATE KEY" then
          match k with
          | Some _ => Err "multiple-priv"
          | None =>
              match pkcs8_parse bytes with
              | Some k' => from_pem_loop rest c (Some k')
              | None => Err "decode-failed"
              end
          end
        else from_pem_loop rest c k     (* other block types are skipped *)
    end.

  Definition from_pem (bs : list block) : result (key * cert) :=
    match from_pem_loop bs None None with
    | Ok (Some c, Some k) => Ok (k, c)
    | Ok _ => Err "missing"
    | Err e => Err e
    | Panic => Panic
    end.
End PEM.

(* ------------------------------------------------------------------ *)
(* the property, stated on the model (used by Properties/C38.v) *)

Definition text_roundtrips (e : enum) (v : Z) : Prop :=
  forall d, e_text e = Some d -> decode d (to_string e v) = Ok v.
Definition json_roundtrips (e : enum) (v : Z) : Prop :=
  enum_of_json e (enum_to_json e v) = Ok v.

Inductive pubval :=
| PEnumText (e : enum) (v : Z)              (* String() then new…/New… *)
| PEnumJson (e : enum) (v : Z)              (* json.Marshal then json.Unmarshal *)
| PSessionDescription (d : session_description)
| PCandidateInit (c : candidate_init)
| PICEServer (s : ice_server)
| PStats (s : stats_value).                 (* json.Marshal then UnmarshalStatsJSON *)

Definition roundtrips (x : pubval) : Prop :=
  match x with
  | PEnumText e v => text_roundtrips e v
  | PEnumJson e v => json_roundtrips e v
  | PSessionDescription d => sd_decode (sd_encode d) = Ok d
  | PCandidateInit c => ci_decode (ci_encode c) = Ok c
  | PICEServer s => server_decode (server_encode s) = Ok s
  | PStats s => stats_roundtrip s = Ok (sv_ty s, sv_enums s)
  end.

Definition kind_ok (req : option string) (kind : string) : Prop :=
  match req with None => True | Some k => kind = k end.

Definition credential_is_value (c : credential) : Prop :=
  match c with CredRaw _ => False | _ => True end.

(* the values the property quantifies over: declared constants of the enums,
   a uint16 line index, a credential that is nil, a string or an
   OAuthCredential, a Stats value carrying its own type tag (and kind) *)
Definition in_domain (x : pubval) : Prop :=
  match x with
  | PEnumText e v | PEnumJson e v => In e all_enums /\ In v (e_declared e)
  | PSessionDescription d => In (sd_type d) (e_declared E_SDPType)
  | PCandidateInit c => forall i, ci_idx c = Some i -> 0 <= i < 65536
  | PICEServer s =>
      In (is_credtype s) (e_declared E_ICECredentialType) /\ credential_is_value (is_credential s)
  | PStats s =>
      (exists req, In (sv_tag s, req) (stats_tags (sv_ty s)) /\ kind_ok req (sv_kind s))
      /\ Forall2 (fun e v => In v (e_declared e)) (stats_enum_members (sv_ty s)) (sv_enums s)
  end.

Definition credential_matches_type (c : credential) (ct : Z) : Prop :=
  match c with
  | CredNone => True
  | CredStr _ => ct = 0       (* ICECredentialTypePassword *)
  | CredOAuth _ _ => ct = 1   (* ICECredentialTypeOauth *)
  | CredRaw _ => False
  end.

(* the characterised defects: (a) the Unknown constant of an enum whose
   decoder has an error default, on its own, as SessionDescription.Type or as
   a member of a Stats object; (b) an ICEServer whose credential is not of the
   kind its credential type names *)
Definition unknown_rejected (d : option decoder) (e : enum) (v : Z) : Prop :=
  unknown_value e v = true /\ rejecting d = true.

Definition defect (x : pubval) : Prop :=
  match x with
  | PEnumText e v => unknown_rejected (e_text e) e v
  | PEnumJson e v => unknown_rejected (e_json e) e v
  | PSessionDescription d => unknown_rejected (e_json E_SDPType) E_SDPType (sd_type d)
  | PCandidateInit _ => False
  | PICEServer s => ~ credential_matches_type (is_credential s) (is_credtype s)
  | PStats s =>
      Exists (fun ev => unknown_rejected (e_json (fst ev)) (fst ev) (snd ev))
             (combine (stats_enum_members (sv_ty s)) (sv_enums s))
  end.

Definition c38_witnesses : list pubval :=
  [ PEnumJson E_SDPType 0;
    PEnumJson E_ICECandidateType 0;
    PEnumText E_ICECandidateType 0;
    PEnumText E_ICEProtocol 0;
    PEnumText E_NetworkType 0;
    PSessionDescription {| sd_type := 0; sd_sdp := "" |};
    PICEServer {| is_urls := Some ["turn:h"]; is_username := "u";
                  is_credential := CredStr "p"; is_credtype := 1 |};
    PICEServer {| is_urls := Some ["turn:h"]; is_username := "u";
                  is_credential := CredOAuth "m" "t"; is_credtype := 0 |};
    PStats {| sv_ty := ICECandidateStats; sv_tag := "remote-candidate"; sv_kind := "";
              sv_enums := [0] |} ].

(* the text layer: json.Marshal / json.Unmarshal around a tree coder *)
Definition via_text {text A : Type} (parse : text -> option json) (dec : json -> result A)
  (t : text) : result A :=
  match parse t with Some j => dec j | None => Err "json-syntax" end.
