(* C05: interleaving model of operations.go (the PeerConnection's work queue).

   One atomic block per step = the code between two verifhook yield points
   (ops.done.enqueued, ops.close.unlocked, ops.worker.start / popped / ran /
   popnil / flagged / deferred); every block is one critical section under
   o.mu, one atomic load/store, or the call of one queued function.

   [fx] selects the deferred block of start(): false = the block as it was
   before the repair (close busyCh, restart only when the queue is non-empty
   and the queue is not closed), true = the repaired block (restart whenever
   the queue is non-empty; busyCh closed and cleared only on final exit).
   Definitions only; proofs are in Proofs/Ops.v. *)
From Coq Require Import List Arith Bool.
Import ListNotations.

(* a queued function is described by its nesting depth: an op of depth S d
   enqueues, while it runs, an op of depth d; depth 0 does nothing else.
   The function Done enqueues (wg.Done) is an op of depth 0. *)

(* program counters of client threads *)
Inductive cpc : Type :=
| CEnq (d : nat)                 (* about to call Enqueue(op of depth d) *)
| CDone0                         (* about to call Done *)
| CDoneW (o : option nat)        (* at ops.done.enqueued; Some id = accepted *)
| CClose0                        (* about to call GracefulClose *)
| CCloseW (ch : option nat)      (* at ops.close.unlocked, captured busyCh *)
| CFlag                          (* about to store true into the flag *)
| CFinEnq                        (* Enqueue returned *)
| CFinDone (o : option nat)      (* Done returned *)
| CFinClose (setter : bool)      (* GracefulClose returned; true = it set isClosed *)
| CFinFlag.

(* program counters of worker goroutines (start()) *)
Inductive wpc : Type :=
| WStart                         (* at ops.worker.start *)
| WPopped (id d : nat)           (* at ops.worker.popped, holding fn *)
| WRan                           (* at ops.worker.ran *)
| WPopNil                        (* at ops.worker.popnil *)
| WFlagged                       (* at ops.worker.flagged *)
| WDeferred                      (* at ops.worker.deferred *)
| WExit.                         (* goroutine ended *)

Inductive tid : Type := C (i : nat) | W (j : nat).

Record st : Type := mkst {
  queue    : list (nat * nat);   (* o.ops: (op id, depth) *)
  busy     : option nat;         (* o.busyCh: channel id, None = nil *)
  chclosed : list nat;           (* channels that have been closed *)
  nextch   : nat;                (* make(chan) counter *)
  closed   : bool;               (* o.isClosed *)
  flag     : bool;               (* updateNegotiationNeededFlagOnEmptyChain *)
  nextop   : nat;                (* identity of the next function value *)
  accepted : list nat;           (* ghost: ops for which tryEnqueue returned true *)
  ran      : list nat;           (* ghost: ops whose function has been called *)
  panicked : bool;               (* close of nil / closed channel *)
  cb       : option nat;         (* onNegotiationNeeded: enqueues an op of that depth *)
  clients  : list cpc;
  workers  : list wpc;
  live     : nat                 (* ghost: start() goroutines that exist: +1 at every
                                    `go o.start()`, -1 when a goroutine returns *)
}.

Definition set_clients (s : st) (c : list cpc) : st :=
  mkst (queue s) (busy s) (chclosed s) (nextch s) (closed s) (flag s) (nextop s)
       (accepted s) (ran s) (panicked s) (cb s) c (workers s) (live s).
Definition set_workers (s : st) (w : list wpc) : st :=
  mkst (queue s) (busy s) (chclosed s) (nextch s) (closed s) (flag s) (nextop s)
       (accepted s) (ran s) (panicked s) (cb s) (clients s) w (live s).
Definition set_queue (s : st) (q : list (nat * nat)) : st :=
  mkst q (busy s) (chclosed s) (nextch s) (closed s) (flag s) (nextop s)
       (accepted s) (ran s) (panicked s) (cb s) (clients s) (workers s) (live s).
Definition set_flag (s : st) (f : bool) : st :=
  mkst (queue s) (busy s) (chclosed s) (nextch s) (closed s) f (nextop s)
       (accepted s) (ran s) (panicked s) (cb s) (clients s) (workers s) (live s).
Definition set_closed (s : st) (b : bool) : st :=
  mkst (queue s) (busy s) (chclosed s) (nextch s) b (flag s) (nextop s)
       (accepted s) (ran s) (panicked s) (cb s) (clients s) (workers s) (live s).
Definition set_ran (s : st) (r : list nat) : st :=
  mkst (queue s) (busy s) (chclosed s) (nextch s) (closed s) (flag s) (nextop s)
       (accepted s) r (panicked s) (cb s) (clients s) (workers s) (live s).
Definition set_busy (s : st) (b : option nat) : st :=
  mkst (queue s) b (chclosed s) (nextch s) (closed s) (flag s) (nextop s)
       (accepted s) (ran s) (panicked s) (cb s) (clients s) (workers s) (live s).
Definition set_panicked (s : st) : st :=
  mkst (queue s) (busy s) (chclosed s) (nextch s) (closed s) (flag s) (nextop s)
       (accepted s) (ran s) true (cb s) (clients s) (workers s) (live s).

Fixpoint upd {A} (l : list A) (i : nat) (x : A) : list A :=
  match l, i with
  | [], _ => []
  | _ :: t, O => x :: t
  | h :: t, S i' => h :: upd t i' x
  end.

Definition memb (x : nat) (l : list nat) : bool := existsb (Nat.eqb x) l.

(* o.busyCh = make(chan struct{}); go o.start() *)
Definition spawn (s : st) : st :=
  mkst (queue s) (Some (nextch s)) (chclosed s) (S (nextch s)) (closed s) (flag s) (nextop s)
       (accepted s) (ran s) (panicked s) (cb s) (clients s) (workers s ++ [WStart]) (S (live s)).

(* go o.start() keeping the current busyCh (repaired deferred block) *)
Definition respawn (s : st) : st :=
  mkst (queue s) (busy s) (chclosed s) (nextch s) (closed s) (flag s) (nextop s)
       (accepted s) (ran s) (panicked s) (cb s) (clients s) (workers s ++ [WStart]) (S (live s)).

(* a start() goroutine returns *)
Definition retire (s : st) : st :=
  mkst (queue s) (busy s) (chclosed s) (nextch s) (closed s) (flag s) (nextop s)
       (accepted s) (ran s) (panicked s) (cb s) (clients s) (workers s) (pred (live s)).

(* tryEnqueue(op) with o.mu held; the op is a fresh function value of depth d *)
Definition try_enqueue (s : st) (d : nat) : st * option nat :=
  if closed s then (s, None)
  else
    let id := nextop s in
    let s1 := mkst (queue s ++ [(id, d)]) (busy s) (chclosed s) (nextch s) (closed s) (flag s)
                   (S id) (accepted s ++ [id]) (ran s) (panicked s) (cb s) (clients s) (workers s) (live s) in
    match busy s1 with
    | None => (spawn s1, Some id)
    | Some _ => (s1, Some id)
    end.

(* close(o.busyCh): closing a nil channel or a closed channel panics *)
Definition close_busy (s : st) : st :=
  match busy s with
  | None => set_panicked s
  | Some c =>
      if memb c (chclosed s) then set_panicked s
      else mkst (queue s) (busy s) (c :: chclosed s) (nextch s) (closed s) (flag s) (nextop s)
                (accepted s) (ran s) (panicked s) (cb s) (clients s) (workers s) (live s)
  end.

Definition is_nil {A} (l : list A) : bool := match l with [] => true | _ => false end.

(* the deferred function of start(), before and after the repair.
   Returns the state; the executing worker goes to WExit afterwards. *)
Definition deferred (fx : bool) (s : st) : st :=
  if fx then
    if is_nil (queue s) then set_busy (close_busy s) None
    else respawn s
  else
    let s1 := close_busy s in
    if is_nil (queue s1) || closed s1 then set_busy s1 None
    else spawn s1.

Definition setw (s : st) (j : nat) (w : wpc) : st := set_workers s (upd (workers s) j w).
Definition setc (s : st) (i : nat) (c : cpc) : st := set_clients s (upd (clients s) i c).

(* one atomic block of worker j standing at w.  (The program counter is
   written first; inside one atomic block the order is immaterial.) *)
Definition wstep (fx : bool) (s : st) (j : nat) (w : wpc) : option st :=
  match w with
  | WStart | WRan =>                                     (* fn := o.pop() *)
      match queue s with
      | [] => Some (setw s j WPopNil)
      | (id, d) :: q => Some (setw (set_queue s q) j (WPopped id d))
      end
  | WPopped id d =>                                      (* fn() *)
      let s1 := setw (set_ran s (ran s ++ [id])) j WRan in
      Some (match d with O => s1 | S d' => fst (try_enqueue s1 d') end)
  | WPopNil => Some (setw s j (if flag s then WFlagged else WDeferred))
  | WFlagged =>                                          (* Store(false); onNegotiationNeeded() *)
      let s1 := setw (set_flag s false) j WDeferred in
      Some (match cb s1 with None => s1 | Some d => fst (try_enqueue s1 d) end)
  | WDeferred => Some (retire (setw (deferred fx s) j WExit))
  | WExit => None
  end.

Definition cstep (s : st) (i : nat) (c : cpc) : option st :=
  match c with
  | CEnq d => Some (fst (try_enqueue (setc s i CFinEnq) d))
  | CDone0 => let (s', r) := try_enqueue s 0 in Some (setc s' i (CDoneW r))
  | CDoneW None => Some (setc s i (CFinDone None))
  | CDoneW (Some id) => if memb id (ran s) then Some (setc s i (CFinDone (Some id))) else None
  | CClose0 => if closed s then Some (setc s i (CFinClose false))
               else Some (setc (set_closed s true) i (CCloseW (busy s)))
  | CCloseW None => Some (setc s i (CFinClose true))
  | CCloseW (Some c) => if memb c (chclosed s) then Some (setc s i (CFinClose true)) else None
  | CFlag => Some (setc (set_flag s true) i CFinFlag)
  | CFinEnq | CFinDone _ | CFinClose _ | CFinFlag => None
  end.

Definition step (fx : bool) (s : st) (t : tid) : option st :=
  match t with
  | C i => match nth_error (clients s) i with Some c => cstep s i c | None => None end
  | W j => match nth_error (workers s) j with Some w => wstep fx s j w | None => None end
  end.

Definition step_or_skip (fx : bool) (s : st) (t : tid) : st :=
  match step fx s t with Some s' => s' | None => s end.

Definition run (fx : bool) (s : st) (sch : list tid) : st :=
  fold_left (step_or_skip fx) sch s.

Definition init (cbk : option nat) (cls : list cpc) : st :=
  mkst [] None [] 0 false false 0 [] [] false cbk cls [] 0.

(* threads start at the beginning of their call *)
Definition initial_cpc (c : cpc) : Prop :=
  match c with CEnq _ | CDone0 | CClose0 | CFlag => True | _ => False end.

Definition is_closer (c : cpc) : bool :=
  match c with CClose0 | CCloseW _ | CFinClose _ => true | _ => false end.

Definition cfinished (c : cpc) : bool :=
  match c with CFinEnq | CFinDone _ | CFinClose _ | CFinFlag => true | _ => false end.

Definition is_live (w : wpc) : bool := match w with WExit => false | _ => true end.

Definition count_live (ws : list wpc) : nat := length (filter is_live ws).

(* the op a worker has popped and not yet run *)
Definition infl (w : wpc) : list nat := match w with WPopped id _ => [id] | _ => [] end.
Definition inflight (s : st) : list nat := flat_map infl (workers s).

(* no thread can take a step *)
Definition quiescent (fx : bool) (s : st) : Prop := forall t, step fx s t = None.

(* x occurs before y in l *)
Definition before (x y : nat) (l : list nat) : Prop :=
  exists l1 l2 l3, l = l1 ++ x :: l2 ++ y :: l3.

Definition is_prefix (a b : list nat) : Prop := exists r, b = a ++ r.
