(* C14: the in-repo logic between the signalled fingerprint and the DTLS
   handshake.

     sdp.go:extractFingerprint / extractBundleID      -> extract_fingerprint
     dtlstransport.go:validateFingerPrint             -> validate
     dtlstransport.go:verifyPeerCertificateFunc       -> verify_peer
     sdp.go:populateSDP (fingerprint lines only) and
       certificate.go:GetFingerprints                 -> advertise, get_fingerprints

   A description is the attribute list of the session level and the
   attribute lists of its media sections, as pion/sdp parses them (Attribute
   returns the value of the first attribute with the key).  The hash
   H name cert (fingerprint.HashFromString then fingerprint.Fingerprint: lower
   hex pairs joined by ':') is a Section variable; None stands for an unknown
   name or an unavailable hash.  No proofs in this file. *)
From Coq Require Import List NArith String Ascii Bool.
Import ListNotations.
From Verif Require Import Common.Base Common.SerialUtil.
Open Scope string_scope.

Definition attrs : Type := list (string * string).

Record desc := { d_session : attrs; d_media : list attrs }.

(* SessionDescription.Attribute / MediaDescription.Attribute of pion/sdp *)
Fixpoint attribute (key : string) (l : attrs) : option string :=
  match l with
  | [] => None
  | (k, v) :: t => if String.eqb k key then Some v else attribute key t
  end.

Definition space : ascii := " "%char.

(* extractBundleID *)
Definition extract_bundle_id (d : desc) : string :=
  let group := match attribute "group" (d_session d) with Some g => g | None => "" end in
  if negb (contains "BUNDLE" group) then ""
  else match split_on space group with
       | _ :: second :: _ => second        (* bundleIDs[1] *)
       | _ => ""                           (* len(bundleIDs) < 2 *)
       end.

(* the loop over media sections when a bundle id exists: the accumulator is
   overwritten only while it is still empty *)
Fixpoint scan_bundled (bundle : string) (ms : list attrs) (acc : string) : string :=
  match ms with
  | [] => acc
  | m :: rest =>
      let acc' :=
        match attribute "mid" m with
        | Some mid =>
            if andb (String.eqb mid bundle) (String.eqb acc "") then
              match attribute "fingerprint" m with Some f => f | None => acc end
            else acc
        | None => acc
        end in
      scan_bundled bundle rest acc'
  end.

(* the loop when there is no bundle group *)
Fixpoint scan_any (ms : list attrs) (acc : string) : string :=
  match ms with
  | [] => acc
  | m :: rest =>
      let acc' :=
        match attribute "fingerprint" m with
        | Some f => if String.eqb acc "" then f else acc
        | None => acc
        end in
      scan_any rest acc'
  end.

(* the attribute value extractFingerprint settles on ("" = none) *)
Definition chosen_fingerprint (d : desc) : string :=
  let f0 := match attribute "fingerprint" (d_session d) with Some f => f | None => "" end in
  if negb (String.eqb f0 "") then f0
  else
    let bundle := extract_bundle_id d in
    if negb (String.eqb bundle "") then scan_bundled bundle (d_media d) ""
    else scan_any (d_media d) "".

(* returns (value, hash name): parts[1], parts[0] *)
Definition split_fingerprint (f : string) : result (string * string) :=
  if String.eqb f "" then Err "no-fingerprint"
  else match split_on space f with
       | [h; v] => Ok (v, h)
       | _ => Err "invalid-fingerprint"
       end.

Definition extract_fingerprint (d : desc) : result (string * string) :=
  split_fingerprint (chosen_fingerprint d).

(* a declarative reading of the placement rule, for the refinement theorem *)
Definition nonempty_fp (m : attrs) : option string :=
  match attribute "fingerprint" m with
  | Some f => if String.eqb f "" then None else Some f
  | None => None
  end.
Fixpoint first_some {A B} (f : A -> option B) (l : list A) : option B :=
  match l with
  | [] => None
  | a :: t => match f a with Some b => Some b | None => first_some f t end
  end.
Definition placement_spec (d : desc) : option string :=
  match nonempty_fp (d_session d) with
  | Some f => Some f                                      (* session level wins *)
  | None =>
      let bundle := extract_bundle_id d in
      if negb (String.eqb bundle "") then
        (* first section whose mid is the bundle master's and whose fingerprint is non-empty *)
        first_some (fun m => match attribute "mid" m with
                             | Some mid => if String.eqb mid bundle then nonempty_fp m else None
                             | None => None
                             end) (d_media d)
      else first_some nonempty_fp (d_media d)              (* first section that has one *)
  end.

Section Hash.
  Variable cert : Type.
  Variable H : string -> cert -> option string.

  (* validateFingerPrint: the remote parameters' list in order; a hash error
     on an earlier entry returns before later entries are looked at *)
  Fixpoint validate (fps : list (string * string)) (c : cert) : result unit :=
    match fps with
    | [] => Err "no-matching-fingerprint"
    | (a, v) :: rest =>
        match H a c with
        | None => Err "hash-error"
        | Some h => if eqfold h v then Ok tt else validate rest c
        end
    end.

  (* Certificate.GetFingerprints: SHA-256 only *)
  Definition get_fingerprints (c : cert) : result (list (string * string)) :=
    match H "sha-256" c with
    | Some h => Ok [("sha-256", h)]
    | None => Err "fingerprint-failed"
    end.
End Hash.

(* dtlstransport.go:verifyPeerCertificateFunc, the VerifyPeerCertificate
   callback handed to pion/dtls.  rawCerts is the certificate chain of the
   peer's Certificate message, the leaf (the certificate whose key signs the
   handshake) first.  The callback records rawCerts[0] as the remote
   certificate (GetRemoteCertificate) and validates THAT certificate only;
   nothing after the first entry is looked at.  parse is
   x509.ParseCertificate (None: error); disabled is
   SettingEngine.DisableCertificateFingerprintVerification.  The result is
   (t.remoteCertificate afterwards, the returned error). *)
Section Chain.
  Variable raw cert : Type.
  Variable parse : raw -> option cert.
  Variable H : string -> cert -> option string.

  Definition verify_peer (disabled : bool) (fps : list (string * string)) (chain : list raw)
    : option raw * result unit :=
    match chain with
    | [] => (None, Err "no-remote-certificate")        (* len(rawCerts) == 0 *)
    | leaf :: _ =>
        (Some leaf,
         if disabled then Ok tt
         else match parse leaf with
              | None => Err "parse-error"
              | Some c => validate cert H fps c
              end)
    end.

  (* "the presented certificate matches a signalled fingerprint" *)
  Definition cert_matches (fps : list (string * string)) (c : cert) : Prop :=
    exists a v h, In (a, v) fps /\ H a c = Some h /\ eqfold h v = true.
End Chain.

(* populateSDP, fingerprint lines only.  Every other attribute the generator
   writes is a parameter: the session attributes, and for each media section
   the attributes before and after the place where addTransceiverSDP /
   addDataMediaSection insert the fingerprint; none of them has the key
   "fingerprint". *)
Definition fp_lines (fps : list (string * string)) : attrs :=
  map (fun f => ("fingerprint", fst f ++ " " ++ upper (snd f))) fps.

Definition advertise (media_level : bool) (fps : list (string * string))
  (session_others : attrs) (media_others : list (attrs * attrs)) : desc :=
  {| d_session := (session_others ++ (if media_level then [] else fp_lines fps))%list;
     d_media := map (fun o => (fst o ++ (if media_level then fp_lines fps else []) ++ snd o)%list)
                    media_others |}.

Definition no_fingerprint_key (l : attrs) : Prop := attribute "fingerprint" l = None.
