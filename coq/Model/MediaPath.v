(* C23. Model of the in-repo logic on the media path:
     sdp.go             addSenderSDP (what a sender announces: ssrc-group,
                        ssrc lines, msid) and trackDetailsFromSDP (what the
                        receiver parses back), over attribute lists as pion/sdp
                        hands them to the code
     track_local_static.go  Bind (codecParametersFuzzySearch order) and
                        writeRTP (SSRC / payload type rewrite)
     mediaengine.go     getCodecByPayload (negotiated lists first)
     peerconnection.go  configureReceiver / track_remote.go checkAndUpdateTrack
                        (where TrackRemote's ids and codec come from)
   SRTP / ICE / DTLS carriage is outside /repo and assumed (see Properties).
   Definitions only. *)
From Coq Require Import List ZArith NArith String Ascii Bool DecimalString DecimalN.
Import ListNotations.
From Verif Require Import Common.V Common.Base.
Open Scope string_scope.
Open Scope list_scope.
Open Scope N_scope.

(* ---------- Go string helpers used by the code ---------- *)

Definition is_space (c : ascii) : bool := Ascii.eqb c " "%char.

(* strings.Split(s, " "): always at least one element *)
Fixpoint split_sp (s : string) : list string :=
  match s with
  | EmptyString => [EmptyString]
  | String c r =>
      if is_space c then EmptyString :: split_sp r
      else match split_sp r with
           | h :: t => String c h :: t
           | [] => [String c EmptyString]
           end
  end.

Fixpoint no_space (s : string) : bool :=
  match s with
  | EmptyString => true
  | String c r => negb (is_space c) && no_space r
  end.

(* strings.HasPrefix(s, p) and s[len(p):] in one *)
Fixpoint strip_prefix (p s : string) : option string :=
  match p, s with
  | EmptyString, _ => Some s
  | String a p', String b s' => if Ascii.eqb a b then strip_prefix p' s' else None
  | String _ _, EmptyString => None
  end.

(* fmt.Sprintf("%d", uint32) *)
Definition itoa (n : N) : string := NilEmpty.string_of_uint (N.to_uint n).

(* strconv.ParseUint(s, 10, 32): digits only, at least one, value < 2^32 *)
Definition parse_u32 (s : string) : option N :=
  match s with
  | EmptyString => None
  | _ =>
      match NilEmpty.uint_of_string s with
      | Some d => let n := N.of_uint d in if n <? 4294967296 then Some n else None
      | None => None
      end
  end.

Definition attr : Type := (string * string)%type.   (* sdp.Attribute{Key, Value} *)

Definition has_key (k : string) (attrs : list attr) : bool :=
  existsb (fun a => String.eqb (fst a) k) attrs.

Fixpoint attr_value (k : string) (attrs : list attr) : option string :=
  match attrs with
  | [] => None
  | (k', v) :: r => if String.eqb k' k then Some v else attr_value k r
  end.

(* ---------- receiver: trackDetailsFromSDP ---------- *)

(* trackDetails while a media section is being walked: ssrcs is always the
   one-element slice []SSRC{ssrc} there (the only assignment to it), which is
   why the code's ssrcs[0] cannot panic; rids are only set by the simulcast
   replacement at the end of the section, which is outside this model *)
Record td : Type := {
  td_mid : string;
  td_kind : N;            (* RTPCodecType: 1 audio, 2 video *)
  td_stream : string;
  td_id : string;
  td_ssrc : N;
  td_rtx : option N;
  td_fec : option N
}.

Record pstate : Type := {
  ps_tracks : list td;             (* tracksInMediaSection *)
  ps_rtx : list (N * N);           (* rtxRepairFlows: repair ssrc -> base ssrc *)
  ps_fec : list (N * N);           (* fecRepairFlows *)
  ps_sid : string;                 (* streamID *)
  ps_tid : string                  (* trackID *)
}.

(* Go map assignment m[k] = v, keeping first-insertion position *)
Fixpoint map_set (m : list (N * N)) (k v : N) : list (N * N) :=
  match m with
  | [] => [(k, v)]
  | (k', v') :: r => if k' =? k then (k, v) :: r else (k', v') :: map_set r k v
  end.
Definition map_has (m : list (N * N)) (k : N) : bool := existsb (fun e => fst e =? k) m.

(* for r, base := range flows { if base == ssrc { x = &r } }: Go's map order is
   unspecified; when several repair flows name the same base the model takes
   the last inserted (pion's own sender never produces that) *)
Definition repair_for (m : list (N * N)) (base : N) (cur : option N) : option N :=
  fold_left (fun acc e => if snd e =? base then Some (fst e) else acc) m cur.

Definition set_rtx (t : td) (r : option N) : td :=
  {| td_mid := td_mid t; td_kind := td_kind t; td_stream := td_stream t; td_id := td_id t;
     td_ssrc := td_ssrc t; td_rtx := r; td_fec := td_fec t |}.
Definition set_fec (t : td) (r : option N) : td :=
  {| td_mid := td_mid t; td_kind := td_kind t; td_stream := td_stream t; td_id := td_id t;
     td_ssrc := td_ssrc t; td_rtx := td_rtx t; td_fec := r |}.

Definition nth_s (l : list string) (i : nat) : string := nth i l EmptyString.

(* case sdp.AttrKeySSRCGroup, after the two ssrcs parsed: record the repair
   flow, drop a track that had been created for the repair ssrc, attach the
   repair ssrc to the track whose ssrcs[0] is the base *)
Definition apply_group (st : pstate) (fid : bool) (base r : N) : pstate :=
  let tracks := filter (fun t => negb (td_ssrc t =? r)) (ps_tracks st) in
  if fid then
    {| ps_tracks := map (fun t => if td_ssrc t =? base then set_rtx t (Some r) else t) tracks;
       ps_rtx := map_set (ps_rtx st) r base; ps_fec := ps_fec st;
       ps_sid := ps_sid st; ps_tid := ps_tid st |}
  else
    {| ps_tracks := map (fun t => if td_ssrc t =? base then set_fec t (Some r) else t) tracks;
       ps_rtx := ps_rtx st; ps_fec := map_set (ps_fec st) r base;
       ps_sid := ps_sid st; ps_tid := ps_tid st |}.

Definition step_group (st : pstate) (v : string) : pstate :=
  let sp := split_sp v in
  let sem := nth_s sp 0 in
  let go (fid : bool) : pstate :=
    if Nat.eqb (List.length sp) 3 then
      match parse_u32 (nth_s sp 1), parse_u32 (nth_s sp 2) with
      | Some base, Some r => apply_group st fid base r
      | _, _ => st
      end
    else st in
  if String.eqb sem "FID" then go true
  else if String.eqb sem "FEC-FR" then go false
  else st.

(* case sdp.AttrKeyMsid *)
Definition step_msid (st : pstate) (v : string) : pstate :=
  let sp := split_sp v in
  if Nat.eqb (List.length sp) 2 then
    {| ps_tracks := ps_tracks st; ps_rtx := ps_rtx st; ps_fec := ps_fec st;
       ps_sid := nth_s sp 0; ps_tid := nth_s sp 1 |}
  else st.

(* case sdp.AttrKeySSRC, after split[0] parsed and found not to be a repair flow *)
Definition apply_ssrc (mid : string) (kind : N) (st : pstate) (ssrc : N) (sp : list string) : pstate :=
  let '(sid, tid) :=
    if Nat.eqb (List.length sp) 3 then
      match strip_prefix "msid:" (nth_s sp 1) with
      | Some x => (x, nth_s sp 2)
      | None => (ps_sid st, ps_tid st)
      end
    else (ps_sid st, ps_tid st) in
  let upd (old_rtx old_fec : option N) : td :=
    {| td_mid := mid; td_kind := kind; td_stream := sid; td_id := tid; td_ssrc := ssrc;
       td_rtx := repair_for (ps_rtx st) ssrc old_rtx;
       td_fec := repair_for (ps_fec st) ssrc old_fec |} in
  let known := existsb (fun t => td_ssrc t =? ssrc) (ps_tracks st) in
  let tracks :=
    if known then
      map (fun t => if td_ssrc t =? ssrc then upd (td_rtx t) (td_fec t) else t) (ps_tracks st)
    else ps_tracks st ++ [upd None None] in
  {| ps_tracks := tracks; ps_rtx := ps_rtx st; ps_fec := ps_fec st;
     ps_sid := sid; ps_tid := tid |}.

Definition step_ssrc (mid : string) (kind : N) (st : pstate) (v : string) : pstate :=
  let sp := split_sp v in
  match parse_u32 (nth_s sp 0) with
  | None => st
  | Some ssrc =>
      if map_has (ps_rtx st) ssrc then st
      else if map_has (ps_fec st) ssrc then st
      else apply_ssrc mid kind st ssrc sp
  end.

Definition step_attr (mid : string) (kind : N) (st : pstate) (a : attr) : pstate :=
  let '(k, v) := a in
  if String.eqb k "ssrc-group" then step_group st v
  else if String.eqb k "msid" then step_msid st v
  else if String.eqb k "ssrc" then step_ssrc mid kind st v
  else st.

Definition ps_init : pstate :=
  {| ps_tracks := []; ps_rtx := []; ps_fec := []; ps_sid := ""; ps_tid := "" |}.

(* NewRTPCodecType(media.MediaName.Media): strings.EqualFold against "audio" /
   "video"; neither word contains a letter with a non-ASCII case-folding
   partner (k, s), so ASCII lower-casing is exact *)
Definition lower_ascii (c : ascii) : ascii :=
  let n := N_of_ascii c in
  if andb (65 <=? n) (n <=? 90) then ascii_of_N (n + 32) else c.
Fixpoint lower (s : string) : string :=
  match s with EmptyString => EmptyString | String c r => String (lower_ascii c) (lower r) end.
Definition kind_of_media (m : string) : N :=
  if String.eqb (lower m) "audio" then 1 else if String.eqb (lower m) "video" then 2 else 0.

(* one media section: recvonly / inactive / no mid / unknown kind are skipped *)
Definition section_details (media : string) (attrs : list attr) : list td :=
  if has_key "recvonly" attrs then []
  else if has_key "inactive" attrs then []
  else
    match attr_value "mid" attrs with
    | None => []
    | Some mid =>
        if String.eqb mid "" then []
        else
          let kind := kind_of_media media in
          if kind =? 0 then []
          else ps_tracks (fold_left (step_attr mid kind) attrs ps_init)
    end.

Definition track_details (secs : list (string * list attr)) : list td :=
  flat_map (fun s => section_details (fst s) (snd s)) secs.

(* ---------- sender: addSenderSDP (Unified Plan, one encoding) ---------- *)

Definition sp_join (a b : string) : string := (a ++ String " "%char b)%string.

(* MediaDescription.WithMediaSource(ssrc, cname, streamLabel, label) *)
Definition media_source (ssrc : N) (stream track : string) : list attr :=
  [ ("ssrc", sp_join (itoa ssrc) ("cname:" ++ stream)%string);
    ("ssrc", sp_join (itoa ssrc) (sp_join ("msid:" ++ stream)%string track));
    ("ssrc", sp_join (itoa ssrc) ("mslabel:" ++ stream)%string);
    ("ssrc", sp_join (itoa ssrc) ("label:" ++ track)%string) ].

(* the attributes addSenderSDP appends for a sender whose GetParameters has
   one encoding (ssrc, rtx ssrc or 0, fec ssrc or 0), as pion/sdp returns them
   after Marshal/Unmarshal (the property attribute "msid:S T" comes back as
   key "msid", value "S T") *)
Definition sender_attrs (ssrc rtx fec : N) (stream track : string) : list attr :=
  (if rtx =? 0 then [] else [("ssrc-group", sp_join "FID" (sp_join (itoa ssrc) (itoa rtx)))]) ++
  (if fec =? 0 then [] else [("ssrc-group", sp_join "FEC-FR" (sp_join (itoa ssrc) (itoa fec)))]) ++
  media_source ssrc stream track ++
  (if rtx =? 0 then [] else media_source rtx stream track) ++
  (if fec =? 0 then [] else media_source fec stream track) ++
  [("msid", sp_join stream track)].

Definition opt_nz (x : N) : option N := if x =? 0 then None else Some x.

(* spec: the one track a receiver should make of such a section *)
Definition expected_td (mid : string) (kind ssrc rtx fec : N) (stream track : string) : td :=
  {| td_mid := mid; td_kind := kind; td_stream := stream; td_id := track; td_ssrc := ssrc;
     td_rtx := opt_nz rtx; td_fec := opt_nz fec |}.

(* attributes the walk ignores (a mid attribute may be among them) *)
Definition irrelevant (attrs : list attr) : Prop :=
  forall a, In a attrs ->
    fst a <> "ssrc" /\ fst a <> "ssrc-group" /\ fst a <> "msid" /\
    fst a <> "recvonly" /\ fst a <> "inactive".

(* a media section of a sending transceiver as addTransceiverSDP + addSenderSDP
   lay it out: other attributes, the sender's attributes, other attributes *)
Record sender_sec : Type := {
  ss_media : string; ss_mid : string;
  ss_pre : list attr; ss_post : list attr;
  ss_ssrc : N; ss_rtx : N; ss_fec : N;        (* 0 = not enabled *)
  ss_stream : string; ss_track : string
}.

Definition render_sec (s : sender_sec) : string * list attr :=
  (ss_media s,
   ss_pre s ++ sender_attrs (ss_ssrc s) (ss_rtx s) (ss_fec s) (ss_stream s) (ss_track s) ++ ss_post s).

Definition sender_ok (s : sender_sec) : Prop :=
  kind_of_media (ss_media s) <> 0 /\ ss_mid s <> "" /\
  attr_value "mid" (snd (render_sec s)) = Some (ss_mid s) /\
  irrelevant (ss_pre s) /\ irrelevant (ss_post s) /\
  ss_ssrc s < 4294967296 /\ ss_rtx s < 4294967296 /\ ss_fec s < 4294967296 /\
  (ss_rtx s <> 0 -> ss_ssrc s <> ss_rtx s) /\ (ss_fec s <> 0 -> ss_ssrc s <> ss_fec s) /\
  no_space (ss_stream s) = true /\ no_space (ss_track s) = true.

Definition expected_of (s : sender_sec) : td :=
  expected_td (ss_mid s) (kind_of_media (ss_media s)) (ss_ssrc s) (ss_rtx s) (ss_fec s)
    (ss_stream s) (ss_track s).

(* ---------- codec lookups ---------- *)

Record codec : Type := { cd_pt : N; cd_mime : string }.

(* findCodecByPayload *)
Fixpoint find_by_pt (l : list codec) (pt : N) : option codec :=
  match l with
  | [] => None
  | c :: r => if cd_pt c =? pt then Some c else find_by_pt r pt
  end.

Record engine : Type := {
  e_neg_video : bool; e_neg_video_codecs : list codec;
  e_neg_audio : bool; e_neg_audio_codecs : list codec;
  e_video : list codec; e_audio : list codec
}.

(* MediaEngine.getCodecByPayload: the four lookups in the code's order;
   result = (codec, kind) *)
Definition get_codec_by_payload (e : engine) (pt : N) : option (codec * N) :=
  let try (on : bool) (l : list codec) (kind : N) (k : option (codec * N)) :=
    if on then match find_by_pt l pt with Some c => Some (c, kind) | None => k end else k in
  try (e_neg_video e) (e_neg_video_codecs e) 2
   (try (e_neg_audio e) (e_neg_audio_codecs e) 1
     (try (negb (e_neg_video e)) (e_video e) 2
       (try (negb (e_neg_audio e)) (e_audio e) 1 None))).

(* codecParametersFuzzySearch as Bind uses it; the fmtp / mime comparison of
   one candidate is abstracted to its class: 2 exact, 1 partial, 0 none
   (C15/C17 are about that comparison).  First exact match in list order, else
   first partial, else none. *)
Fixpoint first_class (cls : N) (hay : list (N * N)) : option N :=
  match hay with
  | [] => None
  | (pt, c) :: r => if c =? cls then Some pt else first_class cls r
  end.
Definition fuzzy_pt (hay : list (N * N)) : option N :=
  match first_class 2 hay with
  | Some pt => Some pt
  | None => first_class 1 hay
  end.

(* TrackLocalStaticRTP: Bind stores (ssrc, payload type) of the context;
   writeRTP overwrites exactly these two header fields and passes the rest *)
Record rtp_pkt : Type := {
  k_ssrc : N; k_pt : N; k_seq : N; k_ts : N; k_marker : bool; k_payload : list N
}.
Record binding : Type := { b_ssrc : N; b_pt : N }.

Definition bind (ctx_ssrc : N) (hay : list (N * N)) : option binding :=
  match fuzzy_pt hay with
  | Some pt => Some {| b_ssrc := ctx_ssrc; b_pt := pt |}
  | None => None                       (* ErrUnsupportedCodec *)
  end.

Definition write_rtp (b : binding) (p : rtp_pkt) : rtp_pkt :=
  {| k_ssrc := u32 (b_ssrc b); k_pt := u8 (b_pt b); k_seq := k_seq p; k_ts := k_ts p;
     k_marker := k_marker p; k_payload := k_payload p |}.

(* the remote track as the application sees it: configureReceiver copies the
   parsed details' ids, newTrackRemote the ssrc / rtx ssrc / kind,
   checkAndUpdateTrack the codec looked up by the first packet's payload type *)
Record remote_track : Type := {
  rt_stream : string; rt_id : string; rt_ssrc : N; rt_rtx : option N; rt_kind : N;
  rt_codec : option codec
}.

Definition remote_track_of (d : td) (e : engine) (first_pt : N) : remote_track :=
  {| rt_stream := td_stream d; rt_id := td_id d; rt_ssrc := td_ssrc d; rt_rtx := td_rtx d;
     rt_kind := td_kind d;
     rt_codec := option_map fst (get_codec_by_payload e first_pt) |}.
