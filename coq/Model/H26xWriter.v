(* Model of pkg/media/h264writer/h264writer.go and
   pkg/media/h265writer/h265writer.go: isKeyFrame of both writers, the
   hasKeyFrame gate of WriteRTP.  The depacketizers of pion/rtp
   (codecs.H264Packet, codecs.H265Depacketizer) are parameters.  Beside the
   model: the property's own definition of a keyframe packet.  No proofs. *)
From Coq Require Import List ZArith NArith String Bool.
Import ListNotations.
From Verif Require Import Common.V Common.Base Common.Media1Util.
Open Scope N_scope.

(* ---------- h264writer.isKeyFrame ---------- *)

(* binary.Read(payload, BigEndian, &word): an error when fewer than 4 bytes *)
Definition word32 (data : list N) : option N :=
  match data with
  | b0 :: b1 :: b2 :: b3 :: _ => Some (be_val [b0; b1; b2; b3])
  | _ => None
  end.

Definition is_key_frame_264 (data : list N) : bool :=
  match word32 data with
  | None => false
  | Some word =>
      let nalu_type := N.land (N.shiftr word 24) 31 in
      if (nalu_type =? 24) && (N.land word 31 =? 7) then true      (* STAP-A whose 4th byte is an SPS header *)
      else if nalu_type =? 7 then true
      else false
  end.

(* ---------- h265writer.isKeyFrame ---------- *)

Definition type265 (b : N) : N := N.shiftr (N.land b 126) 1.    (* (b & 0x7E) >> 1 *)

Definition kf_nalu_265 (t : N) : bool :=
  (t =? 32) || (t =? 33) || (t =? 34) || (t =? 19) || (t =? 20).   (* VPS SPS PPS IDR_W_RADL IDR_N_LP *)

(* data[i]: None when out of range (a Go index panic) *)
Definition byte_at (data : list N) (i : N) : option N :=
  match dropN i data with b :: _ => Some b | [] => None end.

(* checkAggregationPacketForKeyFrame's loop; len = len(data) *)
Fixpoint ap_walk (fuel : nat) (data : list N) (len offset : N) : result bool :=
  match fuel with
  | O => Err "out-of-fuel"
  | S f =>
      if negb (offset <? len) then Ok false                 (* for offset < len(data) *)
      else if len <? offset + 2 then Ok false               (* offset+2 > len: break *)
      else
        match byte_at data offset, byte_at data (offset + 1) with   (* data[offset:offset+2] *)
        | Some s0, Some s1 =>
            let size := be_val [s0; s1] in
            let offset := offset + 2 in
            if len <? offset + size then Ok false           (* break *)
            else if 0 <? size then
              match byte_at data offset with
              | Some b => if kf_nalu_265 (type265 b) then Ok true
                          else ap_walk f data len (offset + size)
              | None => Panic
              end
            else ap_walk f data len (offset + size)
        | _, _ => Panic
        end
  end.

Definition is_key_frame_265 (data : list N) : result bool :=
  let len := lenN data in
  if len <? 2 then Ok false
  else
    match data with
    | b0 :: _ =>
        let t := type265 b0 in
        if kf_nalu_265 t then Ok true
        else if t =? 48 then ap_walk (S (N.to_nat len)) data len 2
        else if t =? 49 then
          if len <? 3 then Ok false
          else match byte_at data 2 with
               | Some fu => Ok (kf_nalu_265 (type265 fu))    (* the FU header read like a NAL header *)
               | None => Panic
               end
        else Ok false
    | [] => Panic
    end.

(* isKeyFrame as the bool WriteRTP uses (the Panic and fuel branches of the
   model are unreachable: c35_ap_walk_no_panic) *)
Definition isk265 (p : list N) : bool :=
  match is_key_frame_265 p with Ok b => b | _ => false end.

(* ---------- WriteRTP ---------- *)

(* depacketizer: state D, Unmarshal : D -> payload -> D * (bytes | error) *)
Definition unmarshal (D : Type) : Type := D -> list N -> D * result (list N).

Record wstate (D : Type) := { has_kf : bool; dep : D }.
Arguments has_kf {D}. Arguments dep {D}.

(* one WriteRTP: new state, bytes written, returned error class *)
Definition write_rtp {D} (unm : unmarshal D) (isk : list N -> bool) (w : wstate D) (payload : list N)
  : wstate D * list N * result unit :=
  match payload with
  | [] => (w, [], Ok tt)                                    (* len(packet.Payload) == 0 *)
  | _ =>
      let has := if has_kf w then true else isk payload in
      if negb has then ({| has_kf := false; dep := dep w |}, [], Ok tt)
      else
        match unm (dep w) payload with
        | (d, Ok data) => ({| has_kf := true; dep := d |}, data, Ok tt)   (* nothing to write when empty *)
        | (d, Err e) => ({| has_kf := true; dep := d |}, [], Err e)
        | (d, Panic) => ({| has_kf := true; dep := d |}, [], Panic)
        end
  end.

Fixpoint write_all {D} (unm : unmarshal D) (isk : list N -> bool) (w : wstate D) (ps : list (list N))
  : list N * list (result unit) :=
  match ps with
  | [] => ([], [])
  | p :: t =>
      match write_rtp unm isk w p with
      | (w', out, r) => let rest := write_all unm isk w' t in (out ++ fst rest, r :: snd rest)
      end
  end.

(* ---------- spec side: the gate, the depacketizer alone ---------- *)

Definition nonempty (p : list N) : bool := match p with [] => false | _ => true end.

(* the packets from the first one the predicate accepts *)
Fixpoint from_first (isk : list N -> bool) (ps : list (list N)) : list (list N) :=
  match ps with
  | [] => []
  | p :: t => if isk p then ps else from_first isk t
  end.

(* the depacketizer run over a packet list: concatenated output *)
Fixpoint depack_all {D} (unm : unmarshal D) (d : D) (ps : list (list N)) : list N :=
  match ps with
  | [] => []
  | p :: t =>
      match unm d p with
      | (d', Ok data) => data ++ depack_all unm d' t
      | (d', _) => depack_all unm d' t
      end
  end.

(* ---------- the property's definition of a keyframe packet ---------- *)

(* H.264: the packet carries (single NAL, STAP-A) or starts (FU-A) an SPS or an IDR *)
Definition kf_type_264 (t : N) : bool := (t =? 7) || (t =? 5).

(* units of a STAP-A body: 2-byte size, unit, ...; None when sizes do not fit *)
Fixpoint agg_units (fuel : nat) (body : list N) : option (list (list N)) :=
  match fuel with
  | O => None
  | S f =>
      match body with
      | [] => Some []
      | s0 :: s1 :: rest =>
          let size := be_val [s0; s1] in
          if lenN rest <? size then None
          else match agg_units f (dropN size rest) with
               | Some us => Some (takeN size rest :: us)
               | None => None
               end
      | _ => None
      end
  end.

Definition first_type_264 (u : list N) : N := match u with b :: _ => N.land b 31 | [] => 0 end.

Definition prop_kf_264 (p : list N) : bool :=
  match p with
  | [] => false
  | b0 :: rest =>
      let t := N.land b0 31 in
      if t =? 24 then
        match agg_units (S (List.length rest)) rest with
        | Some us => existsb (fun u => kf_type_264 (first_type_264 u)) us
        | None => false
        end
      else if t =? 28 then
        match rest with
        | fu :: _ => (128 <=? fu) && kf_type_264 (N.land fu 31)      (* start fragment of an SPS / IDR *)
        | [] => false
        end
      else kf_type_264 t
  end.

(* H.265: VPS / SPS / PPS / IDR as single NAL, inside an AP, or as the start fragment of FUs *)
Definition first_type_265 (u : list N) : N := match u with b :: _ => type265 b | [] => 0 end.

Definition prop_kf_265 (p : list N) : bool :=
  match p with
  | b0 :: b1 :: rest =>
      let t := type265 b0 in
      if t =? 48 then
        match agg_units (S (List.length rest)) rest with
        | Some us => existsb (fun u => kf_nalu_265 (first_type_265 u)) us
        | None => false
        end
      else if t =? 49 then
        match rest with
        | fu :: _ => (128 <=? fu) && kf_nalu_265 (N.land fu 63)       (* S bit, FuType = low six bits *)
        | [] => false
        end
      else kf_nalu_265 t
  | _ => false
  end.
