(* C39: PeerConnection.SetConfiguration (peerconnection.go), with
   initConfiguration (what NewPeerConnection stores) and ICEServer.validate /
   ICEServer.urls (iceserver.go), in the code's check/assign order.
   A Certificate is (dynamic type of the private key, identity of the private
   key, identity of the x509 certificate, the instant Expires() returns) and
   Certificate.Equals (certificate.go) is modelled on the first three: the
   identity of a certificate is its x509 certificate together with its key,
   NOT the key alone -- two certificates issued for one key
   (GenerateCertificate(sk) twice, a renewal) are different certificates.
   Equals never looks at the expiry: x509Cert.Equal compares the DER bytes
   (Raw) only, while Expires() reads the NotAfter FIELD of the
   *x509.Certificate the caller handed to CertificateFromX509 -- the two are
   independent labels here, as they are in Go.
   The clock is an input: initConfiguration reads time.Now() once (`now`);
   SetConfiguration never reads it.  After the fix the certificate block of
   SetConfiguration only compares: the stored certificate objects are never
   replaced.  stun.ParseURI is abstracted to the class of
   each URL.  No proofs here. *)
From Coq Require Import List Bool String NArith ZArith.
Import ListNotations.
From Verif Require Import Common.Base.
Open Scope string_scope.

(* result of stun.ParseURI on one URL *)
Inductive url := UBad | UStun | UTurn.   (* stun/stuns, turn/turns *)
(* dynamic type of ICEServer.Credential *)
Inductive cred := CNil | CString | COAuth | COther.

Record server := {
  s_id : Z;                 (* harness label, not looked at by the code *)
  s_urls : list url;
  s_user : bool;            (* Username != "" *)
  s_cred : cred;
  s_credtype : Z;           (* 0 password, 1 oauth, anything else *)
}.

(* dynamic type of Certificate.privateKey: *rsa.PrivateKey, *ecdsa.PrivateKey,
   or nil / anything else (the zero Certificate{}) *)
Inductive keytype := KNone | KRsa | KEcdsa.

Record cert := {
  c_ktype : keytype;
  c_key : Z;                (* identity of the private key (RSA: N; ECDSA: X, Y) *)
  c_x509 : Z;               (* identity of the x509 certificate (its raw DER bytes) *)
  c_expires : Z;            (* Certificate.Expires(): x509Cert.NotAfter as an instant in
                               nanoseconds since 0001-01-01 00:00:00 UTC, so that
                               0 is the zero time.Time (also what a nil x509Cert gives) *)
}.

(* peerconnection.go initConfiguration:
     !x509Cert.Expires().IsZero() && now.After(x509Cert.Expires()) *)
Definition cert_expired (now : Z) (c : cert) : bool :=
  negb (Z.eqb (c_expires c) 0) && Z.ltb (c_expires c) now.

(* "for _, x509Cert := range configuration.Certificates { if expired { return
   InvalidAccessError{ErrCertificateExpired} }; append }": the first expired
   certificate ends NewPeerConnection *)
Fixpoint check_expiry (now : Z) (l : list cert) : bool :=
  match l with
  | [] => true
  | c :: more => if cert_expired now c then false else check_expiry now more
  end.

(* Certificate.Equals: switch on the receiver's key type; the argument's key
   must have the same type and the same value; then x509Cert.Equal *)
Definition cert_equals (c o : cert) : bool :=
  match c_ktype c with
  | KRsa =>
      match c_ktype o with
      | KRsa => if negb (Z.eqb (c_key c) (c_key o)) then false else Z.eqb (c_x509 c) (c_x509 o)
      | _ => false
      end
  | KEcdsa =>
      match c_ktype o with
      | KEcdsa => if negb (Z.eqb (c_key c) (c_key o)) then false else Z.eqb (c_x509 c) (c_x509 o)
      | _ => false
      end
  | KNone => false
  end.

Record config := {
  servers : list server;
  policy : Z;               (* ICETransportPolicy *)
  bundle : Z;               (* BundlePolicy, 0 = unknown *)
  rtcpmux : Z;              (* RTCPMuxPolicy, 0 = unknown *)
  identity : string;        (* PeerIdentity *)
  certs : list cert;
  pool : N;                 (* ICECandidatePoolSize, uint8 *)
  semantics : Z;            (* SDPSemantics *)
  always_dc : bool;         (* AlwaysNegotiateDataChannels *)
}.

Definition E_state := "InvalidState".
Definition E_modification := "InvalidModification".
Definition E_access := "InvalidAccess".
Definition E_notsupported := "NotSupported".

(* ICEServer.urls: every URL must parse; a turn(s) URL needs a username and a
   credential of the type CredentialType names *)
Fixpoint urls_ok (s : server) (us : list url) : bool :=
  match us with
  | [] => true
  | UBad :: _ => false
  | UStun :: more => urls_ok s more
  | UTurn :: more =>
      if negb (s_user s) || match s_cred s with CNil => true | _ => false end then false
      else
        (if Z.eqb (s_credtype s) 0 then match s_cred s with CString => true | _ => false end
         else if Z.eqb (s_credtype s) 1 then match s_cred s with COAuth => true | _ => false end
         else false)
        && urls_ok s more
  end.

(* ICEServer.validate: nil, or an InvalidAccessError *)
Definition server_valid (s : server) : bool := urls_ok s (s_urls s).

(* the loop "for _, server := range ICEServers { if err := server.validate() ... }" *)
Fixpoint validate_all (l : list server) : result unit :=
  match l with
  | [] => Ok tt
  | s :: more => if server_valid s then validate_all more else Err E_access
  end.

(* the configuration NewPeerConnection starts from *)
Definition default_config : config :=
  {| servers := []; policy := 0; bundle := 1; rtcpmux := 2; identity := ""; certs := [];
     pool := 0; semantics := 0; always_dc := false |}.

(* identity the harness gives the certificate pion generates when none is
   configured; GenerateCertificate: NotAfter = time.Now().AddDate(0, 1, -1),
   27 to 30 days ahead -- 27 days here (the harness does not compare the
   expiry of this certificate, it only checks that it lies in the future) *)
Definition generated_validity : Z := 27 * 86400 * 1000000000.
Definition generated_cert (now : Z) : cert :=
  {| c_ktype := KEcdsa; c_key := 100; c_x509 := 100; c_expires := now + generated_validity |}.

(* initConfiguration; now = the time.Now() it reads before the certificate loop.
   The expiry check stands before the pool-size and ICE-server checks. *)
Definition init_configuration (now : Z) (c : config) : result config :=
  let d := default_config in
  let ident := if String.eqb (identity c) "" then identity d else identity c in
  let cs := match certs c with [] => [generated_cert now] | l => l end in
  let b := if Z.eqb (bundle c) 0 then bundle d else bundle c in
  let r := if Z.eqb (rtcpmux c) 0 then rtcpmux d else rtcpmux c in
  if negb (check_expiry now (certs c)) then Err E_access
  else if negb (N.eqb (pool c) 0) && N.ltb 1 (pool c) then Err E_notsupported
  else
    let pl := if N.eqb (pool c) 0 then pool d else pool c in
    match servers c with
    | [] =>
        Ok {| servers := []; policy := policy c; bundle := b; rtcpmux := r; identity := ident;
              certs := cs; pool := pl; semantics := semantics c; always_dc := always_dc c |}
    | l =>
        match validate_all l with
        | Ok _ =>
            Ok {| servers := l; policy := policy c; bundle := b; rtcpmux := r; identity := ident;
                  certs := cs; pool := pl; semantics := semantics c; always_dc := always_dc c |}
        | Err e => Err e
        | Panic => Panic
        end
    end.

Definition with_identity (c : config) (x : string) : config :=
  {| servers := servers c; policy := policy c; bundle := bundle c; rtcpmux := rtcpmux c;
     identity := x; certs := certs c; pool := pool c; semantics := semantics c; always_dc := always_dc c |}.
Definition with_certs (c : config) (x : list cert) : config :=
  {| servers := servers c; policy := policy c; bundle := bundle c; rtcpmux := rtcpmux c;
     identity := identity c; certs := x; pool := pool c; semantics := semantics c; always_dc := always_dc c |}.
Definition with_bundle (c : config) (x : Z) : config :=
  {| servers := servers c; policy := policy c; bundle := x; rtcpmux := rtcpmux c;
     identity := identity c; certs := certs c; pool := pool c; semantics := semantics c; always_dc := always_dc c |}.
Definition with_rtcpmux (c : config) (x : Z) : config :=
  {| servers := servers c; policy := policy c; bundle := bundle c; rtcpmux := x;
     identity := identity c; certs := certs c; pool := pool c; semantics := semantics c; always_dc := always_dc c |}.
Definition with_tail (c : config) (p : Z) (dc : bool) (s : list server) : config :=
  {| servers := s; policy := p; bundle := bundle c; rtcpmux := rtcpmux c;
     identity := identity c; certs := certs c; pool := pool c; semantics := semantics c; always_dc := dc |}.

(* "for i, certificate := range new { if !cur[i].Equals(certificate) {error} }"
   after the length check; an index past the end of cur would be a panic.
   The comparison is a parameter only so that Properties/C39.v can show what a
   weaker one (key alone) would let through; the code's is cert_equals. *)
Fixpoint certs_equal_by (eq : cert -> cert -> bool) (cur new : list cert) : result bool :=
  match new, cur with
  | [], _ => Ok true
  | _ :: _, [] => Panic
  | n :: ns, c :: cs => if eq c n then certs_equal_by eq cs ns else Ok false
  end.
Definition certs_equal := certs_equal_by cert_equals.

(* SetConfiguration, one definition per block of the Go function.  Each block
   returns the stored configuration afterwards and nil or the error. *)
Definition sc_identity (c new : config) : config * result unit :=
  if negb (String.eqb (identity new) "") then
    if negb (String.eqb (identity new) (identity c)) then (c, Err E_modification)
    else (with_identity c (identity new), Ok tt)
  else (c, Ok tt).

Definition sc_certs_by (eq : cert -> cert -> bool) (c new : config) : config * result unit :=
  match certs new with
  | [] => (c, Ok tt)
  | _ =>
      if negb (Nat.eqb (List.length (certs new)) (List.length (certs c)))
      then (c, Err E_modification)
      else match certs_equal_by eq (certs c) (certs new) with
           | Ok true => (c, Ok tt)      (* nothing assigned: the stored objects stay *)
           | Ok false => (c, Err E_modification)
           | Err e => (c, Err e)
           | Panic => (c, Panic)
           end
  end.
Definition sc_certs := sc_certs_by cert_equals.

Definition sc_bundle (c new : config) : config * result unit :=
  if negb (Z.eqb (bundle new) 0) then
    if negb (Z.eqb (bundle new) (bundle c)) then (c, Err E_modification)
    else (with_bundle c (bundle new), Ok tt)
  else (c, Ok tt).

Definition sc_rtcpmux (c new : config) : config * result unit :=
  if negb (Z.eqb (rtcpmux new) 0) then
    if negb (Z.eqb (rtcpmux new) (rtcpmux c)) then (c, Err E_modification)
    else (with_rtcpmux c (rtcpmux new), Ok tt)
  else (c, Ok tt).

(* ICECandidatePoolSize: checked, never assigned (the assignment is commented out) *)
Definition sc_pool (has_local : bool) (c new : config) : config * result unit :=
  if negb (N.eqb (pool new) 0) then
    if negb (N.eqb (pool c) (pool new)) && has_local then (c, Err E_modification)
    else (c, Ok tt)
  else (c, Ok tt).

(* ICE servers validated, then the assignments of steps 7-9 *)
Definition sc_tail (c new : config) : config * result unit :=
  match validate_all (servers new) with
  | Ok _ =>
      (with_tail c (policy new) (if always_dc new then true else always_dc c) (servers new), Ok tt)
  | Err e => (c, Err e)
  | Panic => (c, Panic)
  end.

(* "if err != nil { return err }" *)
Definition and_then (r : config * result unit) (f : config -> config * result unit)
  : config * result unit :=
  match r with
  | (c, Ok _) => f c
  | other => other
  end.

(* closed = isClosed, has_local = (LocalDescription() != nil) *)
Definition set_configuration (closed has_local : bool) (cur new : config) : config * result unit :=
  if closed then (cur, Err E_state) else
  and_then (sc_identity cur new) (fun c1 =>
  and_then (sc_certs c1 new) (fun c2 =>
  and_then (sc_bundle c2 new) (fun c3 =>
  and_then (sc_rtcpmux c3 new) (fun c4 =>
  and_then (sc_pool has_local c4 new) (fun c5 =>
  sc_tail c5 new))))).

(* ---- histories on one connection ---- *)
Inductive cop := SetConf (new : config) | SetLocal | CloseConn.
Record cstate := { conf : config; has_local_desc : bool; is_closed : bool }.

Definition cstep (s : cstate) (o : cop) : cstate * result unit :=
  match o with
  | SetConf new =>
      let (c, r) := set_configuration (is_closed s) (has_local_desc s) (conf s) new in
      ({| conf := c; has_local_desc := has_local_desc s; is_closed := is_closed s |}, r)
  | SetLocal =>
      (* a successful SetLocalDescription; on a closed connection it fails *)
      if is_closed s then (s, Err E_state)
      else ({| conf := conf s; has_local_desc := true; is_closed := false |}, Ok tt)
  | CloseConn => ({| conf := conf s; has_local_desc := has_local_desc s; is_closed := true |}, Ok tt)
  end.

Definition crun (s : cstate) (os : list cop) : cstate := fold_left (fun st o => fst (cstep st o)) os s.

(* ---- specification vocabulary ---- *)
(* a call that tries to change an immutable setting: a non-zero value that
   differs from the stored one (zero values mean "leave as is") *)
Definition changes_identity (cur new : config) : bool :=
  negb (String.eqb (identity new) "") && negb (String.eqb (identity new) (identity cur)).
(* the same certificate: a key pion can compare (RSA or ECDSA), the same key
   AND the same x509 certificate *)
Definition keytype_eqb (a b : keytype) : bool :=
  match a, b with KNone, KNone | KRsa, KRsa | KEcdsa, KEcdsa => true | _, _ => false end.
Definition comparable (c : cert) : bool := match c_ktype c with KNone => false | _ => true end.
Definition same_cert (a b : cert) : bool :=
  comparable a && keytype_eqb (c_ktype a) (c_ktype b) && Z.eqb (c_key a) (c_key b)
  && Z.eqb (c_x509 a) (c_x509 b).
Definition list_cert_same (a b : list cert) : bool :=
  Nat.eqb (List.length a) (List.length b) && forallb (fun p => same_cert (fst p) (snd p)) (combine a b).
Definition changes_certs (cur new : config) : bool :=
  match certs new with [] => false | _ => negb (list_cert_same (certs cur) (certs new)) end.
Definition changes_bundle (cur new : config) : bool :=
  negb (Z.eqb (bundle new) 0) && negb (Z.eqb (bundle new) (bundle cur)).
Definition changes_rtcpmux (cur new : config) : bool :=
  negb (Z.eqb (rtcpmux new) 0) && negb (Z.eqb (rtcpmux new) (rtcpmux cur)).
Definition changes_pool (has_local : bool) (cur new : config) : bool :=
  negb (N.eqb (pool new) 0) && negb (N.eqb (pool cur) (pool new)) && has_local.
Definition changes_immutable (has_local : bool) (cur new : config) : bool :=
  changes_identity cur new || changes_certs cur new || changes_bundle cur new
  || changes_rtcpmux cur new || changes_pool has_local cur new.

Definition servers_valid (l : list server) : bool := forallb server_valid l.

(* what Certificate.Equals can see of a certificate *)
Definition cert_id (c : cert) : keytype * Z * Z := (c_ktype c, c_key c, c_x509 c).
