(* C21: interleaving model of PeerConnection.close(shouldGracefullyClose)
   (peerconnection.go) for any number of concurrent callers, together with
   threads running updateConnectionState and the entry guards of the mutating
   APIs.  Definitions only; proofs are in Proofs/Close.v.

   One [step] = one atomic block = the code between two verifhook yield points:

     close():
       CStart    -> [pc.mu.Lock; isClosed.Swap(true); read/set
                     isGracefullyClosingOrClosed; Unlock]        pc.close.swapped
       CSwapped  -> already closed, Close        : return
                    already closed, graceful set : <-isGracefulCloseDone
                                                                 pc.close.woke.graceful
                    already closed, not graceful : <-isCloseDone pc.close.woke.close
                    first closer: signalingState=closed, stop transceivers,
                      data channels, SCTP, DTLS, ICE (teardown, abstract)
                                                                 pc.close.torndown
       CWaitG    -> (enabled once isGracefulCloseDone is closed) return
       CWaitC    -> (enabled once isCloseDone is closed) enter
                    doGracefulCloseOps                           pc.close.graceful
       CTorndown -> updateConnectionState: [connectionStateMu.Lock;
                    isClosed.Load; switch]                       pc.ucs.computed
       CComputed -> [compare; store; dispatch handler; Unlock]; Close: stats,
                    interceptor.Close, return, deferred close(isCloseDone);
                    GracefulClose: enter doGracefulCloseOps      pc.close.graceful
       CGraceful -> ICE GracefulStop, ops.GracefulClose, data channels (graceful
                    ops, abstract); return; deferred close(isGracefulCloseDone)
                    [and close(isCloseDone) for the first closer]
     updateConnectionState(ice, dtls) called from a transport callback:
       UStart    -> [connectionStateMu.Lock; isClosed.Load; switch] pc.ucs.computed
       UComputed -> [compare; store; dispatch handler; Unlock]; return

   A thread waiting on a done-channel or on connectionStateMu is disabled
   ([step] = None).  Closing an already closed channel is a Go panic: recorded
   in [panicked], never masked. *)
From Coq Require Import List Bool Arith.
Import ListNotations.
From Verif Require Import Model.ConnState.

Inductive cpc :=
| CStart | CSwapped | CWaitG | CWaitC | CTorndown
| CComputed (v : pcs) | CGraceful | CDone.

Inductive upc := UStart | UComputed (v : pcs) | UDone.

(* a closer carries its locals: g = shouldGracefullyClose,
   ac = isAlreadyClosingOrClosed, ag = isAlreadyGracefullyClosingOrClosed *)
Inductive thread :=
| Closer (g : bool) (pc : cpc) (ac ag : bool)
| Updater (i : ice) (d : dtls) (pc : upc).

Record state := mkState {
  threads : list thread;
  isClosed : bool;          (* pc.isClosed *)
  gflag : bool;             (* pc.isGracefullyClosingOrClosed *)
  closeDone : bool;         (* isCloseDone is closed *)
  gracefulDone : bool;      (* isGracefulCloseDone is closed *)
  ucsLock : bool;           (* connectionStateMu is held *)
  sigClosed : bool;         (* signalingState = closed *)
  iceState : ice;           (* pc.iceConnectionState, argument of close's update *)
  dtlsState : dtls;         (* pc.dtlsTransport.State() *)
  connState : pcs;          (* pc.connectionState *)
  connLog : list pcs;       (* values handed to the handler, in dispatch order *)
  teardowns : nat;          (* times the teardown block ran *)
  gracefulOps : nat;        (* times the graceful-only block ran *)
  panicked : bool           (* close of a closed channel *)
}.

Fixpoint upd {A} (l : list A) (n : nat) (a : A) : list A :=
  match l, n with
  | [], _ => []
  | _ :: t, O => a :: t
  | h :: t, S k => h :: upd t k a
  end.

Definition set_thread (s : state) (tid : nat) (t : thread) : state :=
  mkState (upd (threads s) tid t) (isClosed s) (gflag s) (closeDone s) (gracefulDone s)
          (ucsLock s) (sigClosed s) (iceState s) (dtlsState s) (connState s) (connLog s)
          (teardowns s) (gracefulOps s) (panicked s).

(* block CStart: the critical section under pc.mu *)
Definition do_swap (s : state) (g : bool) : state :=
  mkState (threads s) true (if g && negb (gflag s) then true else gflag s)
          (closeDone s) (gracefulDone s) (ucsLock s) (sigClosed s) (iceState s)
          (dtlsState s) (connState s) (connLog s) (teardowns s) (gracefulOps s) (panicked s).

(* block CSwapped of the first closer: steps #3-#10 of close() *)
Definition do_teardown (s : state) : state :=
  mkState (threads s) (isClosed s) (gflag s) (closeDone s) (gracefulDone s) (ucsLock s)
          true (iceState s) DtlsClosed (connState s) (connLog s)
          (S (teardowns s)) (gracefulOps s) (panicked s).

Definition set_lock (s : state) (b : bool) : state :=
  mkState (threads s) (isClosed s) (gflag s) (closeDone s) (gracefulDone s) b
          (sigClosed s) (iceState s) (dtlsState s) (connState s) (connLog s)
          (teardowns s) (gracefulOps s) (panicked s).

(* second half of updateConnectionState: compare, onConnectionStateChange
   (store, dispatch), deferred Unlock *)
Definition ucs_commit (s : state) (v : pcs) : state :=
  if pcs_eqb (connState s) v then set_lock s false
  else mkState (threads s) (isClosed s) (gflag s) (closeDone s) (gracefulDone s) false
               (sigClosed s) (iceState s) (dtlsState s) v (connLog s ++ [v])
               (teardowns s) (gracefulOps s) (panicked s).

(* deferred close(pc.isCloseDone) *)
Definition close_closeDone (s : state) : state :=
  mkState (threads s) (isClosed s) (gflag s) true (gracefulDone s) (ucsLock s)
          (sigClosed s) (iceState s) (dtlsState s) (connState s) (connLog s)
          (teardowns s) (gracefulOps s) (panicked s || closeDone s).

(* deferred close(pc.isGracefulCloseDone) *)
Definition close_gracefulDone (s : state) : state :=
  mkState (threads s) (isClosed s) (gflag s) (closeDone s) true (ucsLock s)
          (sigClosed s) (iceState s) (dtlsState s) (connState s) (connLog s)
          (teardowns s) (gracefulOps s) (panicked s || gracefulDone s).

Definition do_graceful_ops (s : state) : state :=
  mkState (threads s) (isClosed s) (gflag s) (closeDone s) (gracefulDone s) (ucsLock s)
          (sigClosed s) (iceState s) (dtlsState s) (connState s) (connLog s)
          (teardowns s) (S (gracefulOps s)) (panicked s).

Definition step_closer (s : state) (tid : nat) (g : bool) (pc : cpc) (ac ag : bool)
  : option state :=
  match pc with
  | CStart =>
      Some (set_thread (do_swap s g) tid (Closer g CSwapped (isClosed s) (gflag s)))
  | CSwapped =>
      if ac then
        if negb g then Some (set_thread s tid (Closer g CDone ac ag))
        else if ag then Some (set_thread s tid (Closer g CWaitG ac ag))
        else Some (set_thread s tid (Closer g CWaitC ac ag))
      else Some (set_thread (do_teardown s) tid (Closer g CTorndown ac ag))
  | CWaitG =>
      if gracefulDone s then Some (set_thread s tid (Closer g CDone ac ag)) else None
  | CWaitC =>
      if closeDone s then Some (set_thread s tid (Closer g CGraceful ac ag)) else None
  | CTorndown =>
      if ucsLock s then None
      else Some (set_thread (set_lock s true) tid
                   (Closer g (CComputed (pion_state (isClosed s) (iceState s) (dtlsState s))) ac ag))
  | CComputed v =>
      let s1 := ucs_commit s v in
      if g then Some (set_thread s1 tid (Closer g CGraceful ac ag))
      else Some (set_thread (close_closeDone s1) tid (Closer g CDone ac ag))
  | CGraceful =>
      let s1 := close_gracefulDone (do_graceful_ops s) in
      if ac then Some (set_thread s1 tid (Closer g CDone ac ag))
      else Some (set_thread (close_closeDone s1) tid (Closer g CDone ac ag))
  | CDone => None
  end.

Definition step_updater (s : state) (tid : nat) (i : ice) (d : dtls) (pc : upc)
  : option state :=
  match pc with
  | UStart =>
      if ucsLock s then None
      else Some (set_thread (set_lock s true) tid
                   (Updater i d (UComputed (pion_state (isClosed s) i d))))
  | UComputed v => Some (set_thread (ucs_commit s v) tid (Updater i d UDone))
  | UDone => None
  end.

Definition step (s : state) (tid : nat) : option state :=
  match nth_error (threads s) tid with
  | None => None
  | Some (Closer g pc ac ag) => step_closer s tid g pc ac ag
  | Some (Updater i d pc) => step_updater s tid i d pc
  end.

(* a schedule is a list of thread ids; disabled choices are skipped *)
Definition step_skip (s : state) (tid : nat) : state :=
  match step s tid with Some s' => s' | None => s end.
Definition run (s : state) (sched : list nat) : state := fold_left step_skip sched s.

(* thread specifications: the callers that may arrive *)
Inductive tspec := TClose | TGracefulClose | TUpdate (i : ice) (d : dtls).
Definition thread_of (t : tspec) : thread :=
  match t with
  | TClose => Closer false CStart false false
  | TGracefulClose => Closer true CStart false false
  | TUpdate i d => Updater i d UStart
  end.

(* a fresh PeerConnection whose stored ICE connection state is [i0] and whose
   connection state is [c0] (New, New for one that never started) *)
Definition init_with (i0 : ice) (c0 : pcs) (ts : list tspec) : state :=
  mkState (map thread_of ts) false false false false false false i0 DtlsNew c0 []
          0 0 false.
Definition init (ts : list tspec) : state := init_with IceNew PcNew ts.

(* ---- observations used in the statements ---- *)
Definition is_closer (t : thread) : bool :=
  match t with Closer _ _ _ _ => true | _ => false end.
Definition thread_done (t : thread) : bool :=
  match t with
  | Closer _ CDone _ _ => true
  | Updater _ _ UDone => true
  | _ => false
  end.
Definition thread_started (t : thread) : bool :=
  match t with
  | Closer _ CStart _ _ => false
  | Updater _ _ UStart => false
  | _ => true
  end.
Definition all_done (s : state) : bool := forallb thread_done (threads s).
Definition closer_returned (t : thread) : bool :=
  match t with Closer _ CDone _ _ => true | _ => false end.
Definition graceful_returned (t : thread) : bool :=
  match t with Closer true CDone _ _ => true | _ => false end.
(* every Close/GracefulClose caller has returned *)
Definition closers_done (s : state) : bool :=
  forallb (fun t => negb (is_closer t) || thread_done t) (threads s).
(* an update thread between its two blocks *)
Definition updater_midflight (t : thread) : bool :=
  match t with Updater _ _ (UComputed _) => true | _ => false end.

Definition enabled (s : state) (tid : nat) : bool :=
  match step s tid with Some _ => true | None => false end.
Definition stuck (s : state) : Prop := forall tid, step s tid = None.

(* number of successful steps of a schedule *)
Fixpoint taken (s : state) (sched : list nat) : nat :=
  match sched with
  | [] => 0
  | tid :: rest =>
      match step s tid with
      | Some s' => S (taken s' rest)
      | None => taken s rest
      end
  end.

(* the handler never reports a non-closed state after reporting closed *)
Fixpoint closed_is_final (l : list pcs) : bool :=
  match l with
  | [] => true
  | v :: t => if pcs_eqb v PcClosed then forallb (pcs_eqb PcClosed) t else closed_is_final t
  end.

(* variant: remaining blocks per thread *)
Definition thread_measure (t : thread) : nat :=
  match t with
  | Closer _ pc _ _ =>
      match pc with
      | CStart => 6 | CSwapped => 5 | CWaitG => 1 | CWaitC => 2 | CTorndown => 3
      | CComputed _ => 2 | CGraceful => 1 | CDone => 0
      end
  | Updater _ _ pc =>
      match pc with UStart => 2 | UComputed _ => 1 | UDone => 0 end
  end.
Definition measure (s : state) : nat :=
  fold_right (fun t n => thread_measure t + n) 0 (threads s).

(* ---- entry guards of the APIs that change negotiation state ----
   Each API is the ordered list of checks it performs before doing any work;
   the first failing check decides the result. *)
Inductive api :=
| ApiCreateOffer | ApiCreateAnswer | ApiSetLocalDescription | ApiSetRemoteDescription
| ApiAddTrack | ApiRemoveTrack | ApiAddTransceiverFromKind | ApiAddTransceiverFromTrack
| ApiCreateDataChannel | ApiSetConfiguration | ApiAddICECandidate.

Definition all_apis : list api :=
  [ApiCreateOffer; ApiCreateAnswer; ApiSetLocalDescription; ApiSetRemoteDescription;
   ApiAddTrack; ApiRemoveTrack; ApiAddTransceiverFromKind; ApiAddTransceiverFromTrack;
   ApiCreateDataChannel; ApiSetConfiguration; ApiAddICECandidate].

Inductive entry :=
| InvalidStateClosed        (* &rtcerr.InvalidStateError{ErrConnectionClosed} *)
| InvalidStateNoRemote      (* &rtcerr.InvalidStateError{ErrNoRemoteDescription} *)
| Proceeds.                 (* the call goes on to its real work *)

(* what the environment of the call looks like: CreateAnswer tests
   pc.RemoteDescription() == nil before the closed flag, AddICECandidate after it *)
Definition api_entry (a : api) (closed has_remote : bool) : entry :=
  match a with
  | ApiCreateAnswer =>
      if negb has_remote then InvalidStateNoRemote
      else if closed then InvalidStateClosed else Proceeds
  | ApiAddICECandidate =>
      if closed then InvalidStateClosed
      else if negb has_remote then InvalidStateNoRemote else Proceeds
  | _ => if closed then InvalidStateClosed else Proceeds
  end.

Definition entry_is_invalid_state (e : entry) : bool :=
  match e with Proceeds => false | _ => true end.

(* ---- the entry protocol: who closes which done-channel ----
   close() decides from the two locals of its entry block:
     if !isAlreadyClosingOrClosed                      { defer close(pc.isCloseDone) }
     if shouldGracefullyClose && (!isAlreadyClosingOrClosed || !isAlreadyGracefullyClosingOrClosed)
                                                       { defer close(pc.isGracefulCloseDone) }
   (the second condition is what is left of the early returns: a graceful
   caller that is already-closing AND already-graceful waits and returns).
   A thread counts from the moment it has left the entry block. *)
Definition closes_closeDone (t : thread) : bool :=
  match t with
  | Closer _ CStart _ _ => false
  | Closer _ _ ac _ => negb ac
  | Updater _ _ _ => false
  end.
Definition closes_gracefulDone (t : thread) : bool :=
  match t with
  | Closer _ CStart _ _ => false
  | Closer g _ ac ag => g && (negb ac || negb ag)
  | Updater _ _ _ => false
  end.
(* the caller is in or past the teardown block (steps #3-#10) *)
Definition in_teardown (t : thread) : bool :=
  match t with
  | Closer _ CTorndown _ _ | Closer _ (CComputed _) _ _ => true
  | _ => false
  end.

(* ---- the entry block split in two: NOT the code, a variant kept to state
   that the block has to be atomic.  A close() that performs
   isClosed.Swap(true) before pc.mu.Lock():
     block 1   ac := isClosed.Swap(true)                                [no lock]
     block 2   [pc.mu.Lock; ag := isGracefullyClosingOrClosed;
                if g && !ag { isGracefullyClosingOrClosed = true }; Unlock]
   Every other block is that of [step].  [pre] holds, per thread, the result of
   block 1 while the thread is between the two blocks. *)
Definition set_isClosed (s : state) : state :=
  mkState (threads s) true (gflag s) (closeDone s) (gracefulDone s) (ucsLock s) (sigClosed s)
          (iceState s) (dtlsState s) (connState s) (connLog s) (teardowns s) (gracefulOps s)
          (panicked s).
Definition set_gflag (s : state) (g : bool) : state :=
  mkState (threads s) (isClosed s) (if g && negb (gflag s) then true else gflag s)
          (closeDone s) (gracefulDone s) (ucsLock s) (sigClosed s) (iceState s) (dtlsState s)
          (connState s) (connLog s) (teardowns s) (gracefulOps s) (panicked s).

Definition step_split (sp : state * list (option bool)) (tid : nat)
  : option (state * list (option bool)) :=
  let (s, pre) := sp in
  match nth_error (threads s) tid with
  | Some (Closer g CStart _ _) =>
      match nth_error pre tid with
      | Some None => Some (set_isClosed s, upd pre tid (Some (isClosed s)))
      | Some (Some ac) =>
          Some (set_thread (set_gflag s g) tid (Closer g CSwapped ac (gflag s)), pre)
      | None => None
      end
  | _ => match step s tid with Some s' => Some (s', pre) | None => None end
  end.
Definition run_split (s0 : state) (sched : list nat) : state * list (option bool) :=
  fold_left (fun sp tid => match step_split sp tid with Some x => x | None => sp end)
            sched (s0, map (fun _ => None) (threads s0)).
