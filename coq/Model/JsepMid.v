(* Abstract JSEP core of pion/webrtc under Unified Plan: mids, m-section lists
   and the BUNDLE group of generated descriptions (properties C06, C07, C09).

   Follows, statement by statement:
     peerconnection.go  CreateOffer, CreateAnswer, setDescription (offer/answer
                        rows), SetLocalDescription, SetRemoteDescription (the
                        transceiver matching loop), generateUnmatchedSDP,
                        generateMatchedSDP, AddTransceiverFromKind, AddTrack,
                        RemoveTrack, setRTPTransceiverCurrentDirection,
                        CreateDataChannel (its effect on dataChannelsRequested)
     sdp.go             populateSDP, addTransceiverSDP (rejection path),
                        addDataMediaSection, bundleMatchFromRemote, getMidValue,
                        getPeerDirection, getByMid
     rtptransceiver.go  findByMid, satisfyTypeAndDirection, SetMid, Stop,
                        isSendAllowed, SetSender/setSendingTrack
     signalingstate.go  checkNextSignalingState (offer, pranswer, answer; pion
                        accepts no rollback from any state it can reach here)
     mediaengine.go     updateFromRemoteDescription (only: which kind becomes
                        "negotiated", and whether its codec list is empty;
                        multi-codec negotiation on, the default)
   Definitions only; proofs are in Proofs/JsepMid*.v.

   Representation.  Go's "" for an unset mid is kept ("" = unset).  The Go
   loops work on a copy of the transceiver pointer slice from which matched
   entries are removed (localTransceivers); here every transceiver carries a
   flag "still in localTransceivers", which keeps pointer identity and order
   without indices.  Outside the model (fixed by the harness, stated in
   props): SDPSemantics = UnifiedPlan, no Plan-B detection (no section with two
   tracks), AlwaysNegotiateDataChannels = false, sdpMediaLevelFingerprints =
   false, no codec preferences, default media engine; rollback. *)
From Coq Require Import List ZArith String Ascii Bool.
Import ListNotations.
From Verif Require Import Common.Base Common.JsepNumeral.
Open Scope string_scope.
Open Scope list_scope.

Inductive mkind := MAudio | MVideo.
Inductive kind := KAudio | KVideo | KApplication | KOther.
Inductive dir := Sendrecv | Sendonly | Recvonly | Inactive.
Inductive sdpty := TOffer | TPranswer | TAnswer.
Inductive sigst := Stable | HaveLocalOffer | HaveRemoteOffer | HaveLocalPranswer | HaveRemotePranswer.

Definition mkind_eqb (a b : mkind) : bool :=
  match a, b with MAudio, MAudio | MVideo, MVideo => true | _, _ => false end.
Definition dir_eqb (a b : dir) : bool :=
  match a, b with
  | Sendrecv, Sendrecv | Sendonly, Sendonly | Recvonly, Recvonly | Inactive, Inactive => true
  | _, _ => false
  end.
Definition kind_of (k : mkind) : kind := match k with MAudio => KAudio | MVideo => KVideo end.
(* NewRTPCodecType: audio / video, anything else is 0 *)
Definition media_kind (k : kind) : option mkind :=
  match k with KAudio => Some MAudio | KVideo => Some MVideo | _ => None end.

(* ---------- remote descriptions (parsed form) ---------- *)
Record rsection := {
  r_kind : kind;
  r_mid : string;            (* getMidValue: "" when there is no a=mid *)
  r_dir : option dir;        (* getPeerDirection: None = no direction attribute *)
  r_port0 : bool;            (* m= line port is 0 (never read by the code modelled here) *)
  r_codec : bool }.          (* some codec of the section matches the media engine *)
Record rdesc := {
  r_secs : list rsection;
  r_group : option string }. (* value of the first session-level a=group, if any *)

(* ---------- generated descriptions (projected) ---------- *)
Record lsection := {
  l_kind : kind;
  l_mid : option string;     (* None: the section carries no a=mid *)
  l_port0 : bool;
  l_dir : option dir;        (* pion writes at most one direction attribute *)
  l_creds : bool;            (* ice-ufrag and ice-pwd *)
  l_setup : bool;
  l_fp : bool }.             (* media-level fingerprint *)
Record ldesc := {
  l_secs : list lsection;
  l_bundle : list string;    (* tags of a=group:BUNDLE; [] = no group attribute *)
  l_fp_session : bool }.

(* ---------- local state ---------- *)
Record tr := {
  t_mid : string;            (* "" = unset *)
  t_kind : mkind;
  t_dir : dir;
  t_sender : bool;           (* Sender() != nil *)
  t_neg : bool;              (* sender.negotiated *)
  t_sent : bool;             (* sender.hasSent() *)
  t_cur : option dir;        (* currentDirection; None = unknown *)
  t_rcur : option dir }.     (* currentRemoteDirection; None = unknown *)

Record st := {
  trs : list tr;
  gmid : Z;                        (* pc.greaterMid, a Go int *)
  dc : bool;                       (* sctpTransport.dataChannelsRequested != 0 *)
  sig : sigst;
  cur_remote : option rdesc;
  pend_remote : option rdesc;
  neg_audio : option bool;         (* None: not negotiated; Some b: negotiated, b = list non-empty *)
  neg_video : option bool;
  last_offer : option ldesc;       (* pc.lastOffer (projected); None = "" *)
  last_answer : option ldesc }.    (* pc.lastAnswer *)

Definition init : st :=
  {| trs := []; gmid := (-1)%Z; dc := false; sig := Stable; cur_remote := None; pend_remote := None;
     neg_audio := None; neg_video := None; last_offer := None; last_answer := None |}.

Definition set_trs (s : st) (l : list tr) : st :=
  {| trs := l; gmid := gmid s; dc := dc s; sig := sig s; cur_remote := cur_remote s;
     pend_remote := pend_remote s;
     neg_audio := neg_audio s; neg_video := neg_video s;
     last_offer := last_offer s; last_answer := last_answer s |}.

(* getCodecsByKind(kind) is non-empty (default engine; after negotiation the
   negotiated list) *)
Definition has_codecs (s : st) (k : mkind) : bool :=
  match (match k with MAudio => neg_audio s | MVideo => neg_video s end) with
  | None => true
  | Some b => b
  end.

(* pc.RemoteDescription(): pending if set, else current *)
Definition remote_desc (s : st) : option rdesc :=
  match pend_remote s with Some d => Some d | None => cur_remote s end.

(* ---------- transceiver helpers ---------- *)
Definition mid_unset (t : tr) : bool := String.eqb (t_mid t) "".
Definition with_mid (t : tr) (m : string) : tr :=
  {| t_mid := m; t_kind := t_kind t; t_dir := t_dir t; t_sender := t_sender t; t_neg := t_neg t; t_sent := t_sent t;
     t_cur := t_cur t; t_rcur := t_rcur t |}.
Definition with_dir (t : tr) (d : dir) : tr :=
  {| t_mid := t_mid t; t_kind := t_kind t; t_dir := d; t_sender := t_sender t; t_neg := t_neg t; t_sent := t_sent t;
     t_cur := t_cur t; t_rcur := t_rcur t |}.
(* setCurrentDirection / setCurrentRemoteDirection *)
Definition with_cur (t : tr) (c : option dir) : tr :=
  {| t_mid := t_mid t; t_kind := t_kind t; t_dir := t_dir t; t_sender := t_sender t; t_neg := t_neg t; t_sent := t_sent t;
     t_cur := c; t_rcur := t_rcur t |}.
Definition with_rcur (t : tr) (c : option dir) : tr :=
  {| t_mid := t_mid t; t_kind := t_kind t; t_dir := t_dir t; t_sender := t_sender t; t_neg := t_neg t; t_sent := t_sent t;
     t_cur := t_cur t; t_rcur := c |}.
(* sender.setNegotiated() when there is a sender *)
Definition set_neg (t : tr) : tr :=
  {| t_mid := t_mid t; t_kind := t_kind t; t_dir := t_dir t; t_sender := t_sender t;
     t_neg := t_sender t || t_neg t; t_sent := t_sent t; t_cur := t_cur t; t_rcur := t_rcur t |}.
Definition set_sent (t : tr) : tr :=
  {| t_mid := t_mid t; t_kind := t_kind t; t_dir := t_dir t; t_sender := t_sender t; t_neg := t_neg t; t_sent := true;
     t_cur := t_cur t; t_rcur := t_rcur t |}.
(* a new sender (not negotiated, nothing sent) / no sender *)
Definition with_sender (t : tr) (b : bool) : tr :=
  {| t_mid := t_mid t; t_kind := t_kind t; t_dir := t_dir t; t_sender := b; t_neg := false; t_sent := false;
     t_cur := t_cur t; t_rcur := t_rcur t |}.
(* RTPTransceiver.Stop: direction and currentDirection become inactive *)
Definition stop_tr (t : tr) : tr := with_cur (with_dir t Inactive) (Some Inactive).
(* SetMid: refuses to change a set mid (callers below only reach it with "") *)
Definition set_mid (t : tr) (m : string) : result tr :=
  if mid_unset t then Ok (with_mid t m) else Err "cannot-change-mid".

(* a transceiver together with "still in localTransceivers" *)
Definition ltr := (tr * bool)%type.
Definition fresh_local (l : list tr) : list ltr := map (fun t => (t, true)) l.
Definition strip (l : list ltr) : list tr := map fst l.

(* first available entry satisfying p: apply f to it and take it out of
   localTransceivers; returns the entry as it was found *)
Fixpoint find_upd (p : tr -> bool) (f : tr -> tr) (l : list ltr) : option (tr * list ltr) :=
  match l with
  | [] => None
  | (t, a) :: rest =>
      if a && p t then Some (t, (f t, false) :: rest)
      else match find_upd p f rest with
           | Some (x, rest') => Some (x, (t, a) :: rest')
           | None => None
           end
  end.

(* findByMid *)
Definition by_mid (m : string) (t : tr) : bool := String.eqb (t_mid t) m.

(* satisfyTypeAndDirection: preference order per remote direction; only
   transceivers whose mid is unset *)
Definition preferred (remote : dir) : list dir :=
  match remote with
  | Sendrecv => [Recvonly; Sendrecv; Sendonly]
  | Sendonly => [Recvonly]
  | Recvonly => [Sendonly; Sendrecv]
  | Inactive => []
  end.
Definition sat_pred (k : mkind) (d : dir) (t : tr) : bool :=
  mid_unset t && mkind_eqb (t_kind t) k && dir_eqb d (t_dir t).
Fixpoint satisfy (k : mkind) (prefs : list dir) (f : tr -> tr) (l : list ltr) : option (tr * list ltr) :=
  match prefs with
  | [] => None
  | d :: more =>
      match find_upd (sat_pred k d) f l with
      | Some r => Some r
      | None => satisfy k more f l
      end
  end.

(* ---------- SetRemoteDescription: the matching loop ---------- *)
(* the switch after a transceiver was found (by mid or by type and direction) *)
Definition adjust_dir (remote : dir) (t : tr) : tr :=
  match remote, t_dir t with
  | Recvonly, Sendrecv => with_dir t Sendonly
  | Recvonly, Recvonly => with_dir t Inactive
  | Sendrecv, Sendonly => with_dir t Sendrecv
  | Sendrecv, Inactive => with_dir t Recvonly
  | Sendonly, Inactive => with_dir t Recvonly
  | _, _ => t
  end.
(* found by mid: Stop() first when the remote direction is inactive; then
   setCurrentRemoteDirection, then the switch *)
Definition on_found (remote : dir) (t : tr) : tr :=
  adjust_dir remote (with_rcur (match remote with Inactive => stop_tr t | _ => t end) (Some remote)).
(* found by type and direction: setCurrentRemoteDirection, the switch, then
   SetMid (mid is unset there) *)
Definition on_satisfied (remote : dir) (m : string) (t : tr) : tr :=
  with_mid (adjust_dir remote (with_rcur t (Some remote))) m.
(* no candidate: a new receive-side transceiver *)
Definition new_remote_tr (k : mkind) (remote : dir) (m : string) : tr :=
  {| t_mid := m; t_kind := k;
     t_dir := match remote with Recvonly => Sendonly | Inactive => Inactive | _ => Recvonly end;
     t_sender := false; t_neg := false; t_sent := false; t_cur := None; t_rcur := Some remote |}.

(* returns the transceivers as they are when the loop ends or returns early,
   and the error class of an early return *)
Fixpoint srd_loop (secs : list rsection) (l : list ltr) : list ltr * option string :=
  match secs with
  | [] => (l, None)
  | r :: rest =>
      if String.eqb (r_mid r) "" then (l, Some "remote-without-mid")
      else
        match r_kind r with
        | KApplication => srd_loop rest l
        | k =>
            match media_kind k, r_dir r with
            | Some mk, Some d =>
                match find_upd (by_mid (r_mid r)) (on_found d) l with
                | Some (_, l') => srd_loop rest l'
                | None =>
                    match satisfy mk (preferred d) (on_satisfied d (r_mid r)) l with
                    | Some (_, l') => srd_loop rest l'
                    | None => srd_loop rest (l ++ [(new_remote_tr mk d (r_mid r), false)])
                    end
                end
            | _, _ => srd_loop rest l
            end
        end
  end.

(* mediaEngine.updateFromRemoteDescription with multi-codec negotiation (on by
   default: NewPeerConnection sets it unless the setting engine disables it):
   the first audio (video) section marks the kind negotiated; every audio
   (video) section adds its matching codecs to the negotiated list, which
   therefore is non-empty as soon as one section of the kind had a known codec *)
Definition engine_add (cur : option bool) (codec : bool) : option bool :=
  match cur with None => Some codec | Some b => Some (b || codec) end.
Fixpoint engine_update (secs : list rsection) (na nv : option bool) : option bool * option bool :=
  match secs with
  | [] => (na, nv)
  | r :: rest =>
      match r_kind r with
      | KAudio => engine_update rest (engine_add na (r_codec r)) nv
      | KVideo => engine_update rest na (engine_add nv (r_codec r))
      | _ => engine_update rest na nv
      end
  end.

(* startRTPSenders: Send() binds the track; binding fails when the negotiated
   codec list of the kind is empty *)
Fixpoint start_senders (codecs : mkind -> bool) (l : list tr) : list tr * option string :=
  match l with
  | [] => ([], None)
  | t :: rest =>
      if t_sender t && t_neg t && negb (t_sent t) then
        if codecs (t_kind t) then
          let '(rest', e) := start_senders codecs rest in (set_sent t :: rest', e)
        else (t :: rest, Some "unsupported-codec")
      else
        let '(rest', e) := start_senders codecs rest in (t :: rest', e)
  end.

(* setRTPTransceiverCurrentDirection (its error is discarded by both callers;
   an early return leaves the remaining sections unvisited).  A section of the
   applied answer as that function reads it: media type, getMidValue,
   getPeerDirection. *)
Definition asec := (kind * string * option dir)%type.
Definition asec_of_r (r : rsection) : asec := (r_kind r, r_mid r, r_dir r).
Definition asec_of_l (x : lsection) : asec :=
  (l_kind x, match l_mid x with Some m => m | None => EmptyString end, l_dir x).
Definition cur_dir_for (we_offer : bool) (d : dir) (t : tr) : dir :=
  let d1 := if we_offer then match d with Sendonly => Recvonly | Recvonly => Sendonly | x => x end else d in
  if negb we_offer && dir_eqb d1 Sendonly && negb (t_sender t) then Inactive else d1.
Definition on_answered (we_offer : bool) (od : option dir) (t : tr) : tr :=
  match od with
  | Some d => with_cur t (Some (cur_dir_for we_offer d t))
  | None => t
  end.
Fixpoint cur_dirs_loop (we_offer : bool) (secs : list asec) (l : list ltr) : list ltr :=
  match secs with
  | [] => l
  | (k, m, od) :: rest =>
      if String.eqb m "" then l
      else
        match k with
        | KApplication => cur_dirs_loop we_offer rest l
        | _ =>
            match find_upd (by_mid m) (on_answered we_offer od) l with
            | Some (_, l') => cur_dirs_loop we_offer rest l'
            | None => l
            end
        end
  end.
Definition set_cur_dirs (we_offer : bool) (secs : list asec) (l : list tr) : list tr :=
  strip (cur_dirs_loop we_offer secs (fresh_local l)).

(* ---------- media sections handed to populateSDP ---------- *)
Inductive msec :=
| MData (id : string)
| MTr (id : string) (k : mkind) (d : dir) (sender : bool).

Definition msec_of (id : string) (t : tr) : msec := MTr id (t_kind t) (t_dir t) (t_sender t).
Definition msec_id (m : msec) : string := match m with MData id => id | MTr id _ _ _ => id end.

(* strconv.Itoa(len(mediaSections)) *)
Definition data_mid (secs : list msec) : string := itoa (Z.of_nat (List.length secs)).

(* the data section a local offer appends: mid = Itoa(number of sections so far) *)
Definition with_data (add : bool) (secs : list msec) : list msec :=
  if add then secs ++ [MData (data_mid secs)] else secs.

(* generateUnmatchedSDP: the sections before the data section, and whether a
   data section is appended *)
Definition gen_unmatched (s : st) : list tr * (list msec * bool) :=
  let l := map set_neg (trs s) in
  (l, (map (fun t => msec_of (t_mid t) t) l, dc s)).

(* generateMatchedSDP, loop over the remote media descriptions; the section
   list is accumulated in order *)
Fixpoint match_loop (secs : list rsection) (l : list ltr) (acc : list msec) (app : bool)
  : list ltr * result (list msec * bool) :=
  match secs with
  | [] => (l, Ok (acc, app))
  | r :: rest =>
      if String.eqb (r_mid r) "" then (l, Err "remote-without-mid")
      else
        match r_kind r with
        | KApplication => match_loop rest l (acc ++ [MData (r_mid r)]) true
        | k =>
            match media_kind k, r_dir r with
            | Some _, Some _ =>
                match find_upd (by_mid (r_mid r)) set_neg l with
                | Some (t, l') => match_loop rest l' (acc ++ [msec_of (r_mid r) t]) app
                | None => (l, Err "mid-not-found")
                end
            | _, _ => match_loop rest l acc app        (* the section is dropped *)
            end
        end
  end.

(* the unmatched local transceivers, in order (includeUnmatched) *)
Fixpoint take_unmatched (l : list ltr) : list ltr * list msec :=
  match l with
  | [] => ([], [])
  | (t, a) :: rest =>
      let '(rest', ms) := take_unmatched rest in
      if a then ((set_neg t, a) :: rest', msec_of (t_mid t) t :: ms)
      else ((t, a) :: rest', ms)
  end.

(* strings.TrimLeft(s, "BUNDLE"): drops leading characters that belong to the
   set {B,U,N,D,L,E} *)
Definition in_bundle_set (c : ascii) : bool :=
  (Ascii.eqb c "B" || Ascii.eqb c "U" || Ascii.eqb c "N" || Ascii.eqb c "D" || Ascii.eqb c "L" || Ascii.eqb c "E")%bool.
Fixpoint trim_left_bundle (s : string) : string :=
  match s with
  | EmptyString => EmptyString
  | String c r => if in_bundle_set c then trim_left_bundle r else s
  end.
(* strings.Split(s, " ") *)
Fixpoint split_sp_aux (s : string) (cur : string) : list string :=
  match s with
  | EmptyString => [cur]
  | String c r => if Ascii.eqb c " " then cur :: split_sp_aux r EmptyString
                  else split_sp_aux r (cur ++ String c EmptyString)%string
  end.
Definition split_sp (s : string) : list string := split_sp_aux s EmptyString.
Definition str_in (x : string) (l : list string) : bool := existsb (String.eqb x) l.
(* bundleMatchFromRemote *)
Definition bundle_match (g : option string) (id : string) : bool :=
  match g with
  | None => true
  | Some v => str_in id (split_sp v)
  end.

(* result: sections before a locally added data section, whether one is added,
   and the bundle group to match (answers only) *)
Definition gen_matched (s : st) (d : rdesc) (include_unmatched : bool)
  : list tr * result (list msec * bool * option string) :=
  match match_loop (r_secs d) (fresh_local (trs s)) [] false with
  | (l, Err e) => (strip l, Err e)
  | (l, Panic) => (strip l, Panic)
  | (l, Ok (acc, app)) =>
      if include_unmatched then
        let '(l', um) := take_unmatched l in
        (strip l', Ok (acc ++ um, dc s && negb app, None))
      else
        let gv := match r_group d with Some v => v | None => EmptyString end in
        (strip l, Ok (acc, false, Some (trim_left_bundle gv)))
  end.

(* populateSDP / addTransceiverSDP / addDataMediaSection *)
Definition accepted_section (k : kind) (id : string) (d : dir) (inb : bool) : lsection :=
  {| l_kind := k; l_mid := Some id; l_port0 := negb inb; l_dir := Some d;
     l_creds := true; l_setup := true; l_fp := false |}.
Definition rejected_section (k : kind) : lsection :=
  {| l_kind := k; l_mid := None; l_port0 := true; l_dir := None;
     l_creds := false; l_setup := false; l_fp := false |}.

Fixpoint populate (codecs : mkind -> bool) (g : option string) (secs : list msec)
  : result (list lsection * list string) :=
  match secs with
  | [] => Ok ([], [])
  | m :: rest =>
      match m with
      | MData id =>
          let inb := bundle_match g id in
          rbind (populate codecs g rest) (fun '(ls, b) =>
            Ok (accepted_section KApplication id Sendrecv inb :: ls, if inb then id :: b else b))
      | MTr id k d sender =>
          if codecs k then
            let inb := bundle_match g id in
            rbind (populate codecs g rest) (fun '(ls, b) =>
              Ok (accepted_section (kind_of k) id d inb :: ls, if inb then id :: b else b))
          else if sender then Err "sender-no-codecs"
          else rbind (populate codecs g rest) (fun '(ls, b) => Ok (rejected_section (kind_of k) :: ls, b))
      end
  end.

Definition mk_ldesc (p : list lsection * list string) : ldesc :=
  {| l_secs := fst p; l_bundle := snd p; l_fp_session := true |}.

(* getByMid + getPeerDirection, as used by hasLocalDescriptionChanged *)
Fixpoint get_by_mid (m : string) (ls : list lsection) : option lsection :=
  match ls with
  | [] => None
  | x :: rest =>
      if String.eqb (match l_mid x with Some v => v | None => EmptyString end) m then Some x
      else get_by_mid m rest
  end.
Definition opt_dir_eqb (a : option dir) (b : dir) : bool :=
  match a with Some x => dir_eqb x b | None => false end.
Definition local_changed (l : list tr) (d : ldesc) : bool :=
  existsb (fun t => match get_by_mid (t_mid t) (l_secs d) with
                    | None => true
                    | Some x => negb (opt_dir_eqb (l_dir x) (t_dir t))
                    end) l.

(* ---------- CreateOffer ---------- *)
Definition bump (g : Z) (mid : string) : Z :=
  match atoi mid with
  | Some n => if Z.gtb n g then n else g
  | None => g
  end.
(* the mids of one remote description: Atoi(getMidValue(media)), "" does not parse *)
Definition bump_remote (g : Z) (d : option rdesc) : Z :=
  match d with
  | Some d => fold_left (fun g r => bump g (r_mid r)) (r_secs d) g
  | None => g
  end.
(* first pass over the transceivers: the mids that are already set *)
Definition bump_trs (g : Z) (l : list tr) : Z := fold_left (fun g t => bump g (t_mid t)) l g.
(* second pass: the transceivers without mid are numbered greaterMid+1, ... *)
Fixpoint alloc_mids (g : Z) (l : list tr) : Z * list tr :=
  match l with
  | [] => (g, [])
  | t :: rest =>
      if mid_unset t then
        let g' := wrap_int (g + 1) in
        let '(g2, rest') := alloc_mids g' rest in
        (g2, with_mid t (itoa g') :: rest')
      else
        let '(g2, rest') := alloc_mids g rest in
        (g2, t :: rest')
  end.

Definition set_gmid_trs (s : st) (g : Z) (l : list tr) : st :=
  {| trs := l; gmid := g; dc := dc s; sig := sig s; cur_remote := cur_remote s;
     pend_remote := pend_remote s;
     neg_audio := neg_audio s; neg_video := neg_video s;
     last_offer := last_offer s; last_answer := last_answer s |}.
(* greaterMid after CreateOffer has looked at the current and the pending remote
   description and at every transceiver that has a mid *)
Definition offer_start (s : st) : Z :=
  bump_trs (bump_remote (bump_remote (gmid s) (cur_remote s)) (pend_remote s)) (trs s).
(* the state after CreateOffer's mid allocation *)
Definition offer_alloc (s : st) : st :=
  let '(g2, l) := alloc_mids (offer_start s) (trs s) in
  set_gmid_trs s g2 l.

(* the remote description CreateOffer generates against: none when there is no
   current one (generateUnmatchedSDP); otherwise generateMatchedSDP reads the
   pending one when there is one *)
Definition offer_remote (s1 : st) : option rdesc :=
  match cur_remote s1 with
  | None => None
  | Some cur => Some (match pend_remote s1 with Some p => p | None => cur end)
  end.

(* the media sections of an offer from an allocated state *)
Definition offer_sections (s1 : st) : list tr * result (list msec * bool * option string) :=
  match offer_remote s1 with
  | None => let '(l, (secs, add)) := gen_unmatched s1 in (l, Ok (secs, add, None))
  | Some d => gen_matched s1 d true
  end.

Definition set_last_offer (s : st) (d : ldesc) : st :=
  {| trs := trs s; gmid := gmid s; dc := dc s; sig := sig s; cur_remote := cur_remote s;
     pend_remote := pend_remote s;
     neg_audio := neg_audio s; neg_video := neg_video s;
     last_offer := Some d; last_answer := last_answer s |}.
Definition set_last_answer (s : st) (d : ldesc) : st :=
  {| trs := trs s; gmid := gmid s; dc := dc s; sig := sig s; cur_remote := cur_remote s;
     pend_remote := pend_remote s;
     neg_audio := neg_audio s; neg_video := neg_video s;
     last_offer := last_offer s; last_answer := Some d |}.

(* CreateOffer.  The retry loop: when hasLocalDescriptionChanged holds, the
   next iteration starts from a state in which every mid is already set, so it
   computes the same description again; after 128 rounds the call fails.  A
   successful call records the offer in pc.lastOffer. *)
Definition create_offer (s : st) : st * result ldesc :=
  let s1 := offer_alloc s in
  match offer_sections s1 with
  | (l, Err e) => (set_trs s1 l, Err e)
  | (l, Panic) => (set_trs s1 l, Panic)
  | (l, Ok (base, add, g)) =>
      let s2 := set_trs s1 l in
      match populate (has_codecs s2) g (with_data add base) with
      | Err e => (s2, Err e)
      | Panic => (s2, Panic)
      | Ok p =>
          let d := mk_ldesc p in
          if local_changed l d then (s2, Err "excessive-retries")
          else (set_last_offer s2 d, Ok d)
      end
  end.

(* ---------- CreateAnswer ---------- *)
Definition create_answer (s : st) : st * result ldesc :=
  match remote_desc s with
  | None => (s, Err "no-remote-description")
  | Some d =>
      match sig s with
      | HaveRemoteOffer | HaveLocalPranswer =>
          match gen_matched s d false with
          | (l, Err e) => (set_trs s l, Err e)
          | (l, Panic) => (set_trs s l, Panic)
          | (l, Ok (secs, _, g)) =>
              let s2 := set_trs s l in
              match populate (has_codecs s2) g secs with
              | Err e => (s2, Err e)
              | Panic => (s2, Panic)
              | Ok p => (set_last_answer s2 (mk_ldesc p), Ok (mk_ldesc p))
              end
          end
      | _ => (s, Err "incorrect-signaling-state")
      end
  end.

(* ---------- SetLocalDescription / SetRemoteDescription ---------- *)
Definition set_sig_remote (s : st) (g : sigst) (cur pend : option rdesc) : st :=
  {| trs := trs s; gmid := gmid s; dc := dc s; sig := g; cur_remote := cur; pend_remote := pend;
     neg_audio := neg_audio s; neg_video := neg_video s;
     last_offer := last_offer s; last_answer := last_answer s |}.
Definition set_engine (s : st) (e : option bool * option bool) : st :=
  {| trs := trs s; gmid := gmid s; dc := dc s; sig := sig s; cur_remote := cur_remote s;
     pend_remote := pend_remote s;
     neg_audio := fst e; neg_video := snd e;
     last_offer := last_offer s; last_answer := last_answer s |}.

Definition finish_senders (s : st) : st * result unit :=
  let '(l, e) := start_senders (has_codecs s) (trs s) in
  (set_trs s l, match e with Some c => Err c | None => Ok tt end).

(* the sections of pc.lastAnswer as setRTPTransceiverCurrentDirection reads them *)
Definition answer_asecs (a : option ldesc) : list asec :=
  match a with Some d => map asec_of_l (l_secs d) | None => [] end.

(* checkNextSignalingState for SetLocalDescription: the next state, if the
   transition is allowed *)
Definition local_next (g : sigst) (ty : sdpty) : option sigst :=
  match ty, g with
  | TOffer, Stable => Some HaveLocalOffer
  | TPranswer, HaveRemoteOffer => Some HaveLocalPranswer
  | TAnswer, HaveRemoteOffer | TAnswer, HaveLocalPranswer => Some Stable
  | _, _ => None
  end.
(* ... and for SetRemoteDescription *)
Definition remote_next (g : sigst) (ty : sdpty) : option sigst :=
  match ty, g with
  | TOffer, Stable => Some HaveRemoteOffer
  | TPranswer, HaveLocalOffer => Some HaveRemotePranswer
  | TAnswer, HaveLocalOffer | TAnswer, HaveRemotePranswer => Some Stable
  | _, _ => None
  end.

(* SetLocalDescription with an empty SDP (JSEP 5.4: the last created offer or
   answer is used).  When none was created the empty string is used: pion/sdp
   parses it and it equals pc.lastOffer / pc.lastAnswer, so the call goes
   through.  An offer or pranswer only moves the signalling state; an answer
   makes the pending remote description current, sets the transceivers'
   currentDirection from the answer's sections and starts the senders. *)
Definition set_local (s : st) (ty : sdpty) : st * result unit :=
  match local_next (sig s) ty with
  | None => (s, Err "invalid-transition")
  | Some g =>
      match ty with
      | TAnswer =>
          let s1 := set_sig_remote s g (pend_remote s) None in
          match remote_desc s1 with
          | None => (s1, Ok tt)
          | Some _ =>
              finish_senders (set_trs s1 (set_cur_dirs false (answer_asecs (last_answer s1)) (trs s1)))
          end
      | _ => (set_sig_remote s g (cur_remote s) (pend_remote s), Ok tt)
      end
  end.

(* SetRemoteDescription.  Offers and pranswers (weOffer = false in the code:
   only desc.Type == answer sets it) go through the transceiver matching loop on
   pc.RemoteDescription(), which is the description just stored as pending; an
   answer becomes the current remote description, sets currentDirection and
   starts the senders. *)
Definition set_remote (s : st) (ty : sdpty) (d : rdesc) : st * result unit :=
  match remote_next (sig s) ty with
  | None => (s, Err "invalid-transition")
  | Some g =>
      match ty with
      | TAnswer =>
          let s1 := set_sig_remote s g (Some d) None in
          let s2 := set_engine s1 (engine_update (r_secs d) (neg_audio s1) (neg_video s1)) in
          finish_senders (set_trs s2 (set_cur_dirs true (map asec_of_r (r_secs d)) (trs s2)))
      | _ =>
          let s1 := set_sig_remote s g (cur_remote s) (Some d) in
          let s2 := set_engine s1 (engine_update (r_secs d) (neg_audio s1) (neg_video s1)) in
          let '(l, e) := srd_loop (r_secs d) (fresh_local (trs s2)) in
          let s3 := set_trs s2 (strip l) in
          (s3, match e with Some c => Err c | None => Ok tt end)
      end
  end.

(* ---------- local API ---------- *)
Definition new_local_tr (k : mkind) (d : dir) (sender : bool) : tr :=
  {| t_mid := ""; t_kind := k; t_dir := d; t_sender := sender; t_neg := false; t_sent := false;
     t_cur := None; t_rcur := None |}.

Definition add_transceiver (s : st) (k : mkind) (d : dir) : st * result unit :=
  match d with
  | Sendrecv | Sendonly =>
      if has_codecs s k then (set_trs s (trs s ++ [new_local_tr k d true]), Ok tt)
      else (s, Err "no-codecs")
  | Recvonly => (set_trs s (trs s ++ [new_local_tr k Recvonly false]), Ok tt)
  | Inactive => (s, Err "unsupported-direction")
  end.

(* isSendAllowed *)
Definition send_allowed (k : mkind) (t : tr) : bool :=
  mkind_eqb (t_kind t) k && negb (t_sender t) &&
  negb (match t_cur t with Some Sendrecv | Some Sendonly => true | _ => false end) &&
  negb (match t_rcur t with Some Sendonly | Some Inactive => true | _ => false end).
(* SetSender + setSendingTrack(track) on a transceiver without sender *)
Definition attach_track (t : tr) : tr :=
  with_dir (with_sender t true)
           (match t_dir t with Recvonly => Sendrecv | Inactive => Sendonly | d => d end).
(* AddTrack's loop: the first transceiver that may send this kind is reused *)
Fixpoint reuse_for_track (k : mkind) (l : list tr) : option (list tr) :=
  match l with
  | [] => None
  | t :: rest =>
      if send_allowed k t then Some (attach_track t :: rest)
      else match reuse_for_track k rest with Some r => Some (t :: r) | None => None end
  end.
(* AddTrack: reuse, else a new sendrecv transceiver (newTransceiverFromTrack) *)
Definition add_track (s : st) (k : mkind) : st * result unit :=
  match reuse_for_track k (trs s) with
  | Some l => (set_trs s l, Ok tt)
  | None => (set_trs s (trs s ++ [new_local_tr k Sendrecv true]), Ok tt)
  end.

Fixpoint upd_nth {A} (n : nat) (f : A -> A) (l : list A) : option (list A) :=
  match l, n with
  | [], _ => None
  | x :: rest, O => Some (f x :: rest)
  | x :: rest, S n' => match upd_nth n' f rest with Some r => Some (x :: r) | None => None end
  end.
Definition stop_transceiver (s : st) (i : nat) : st * result unit :=
  match upd_nth i stop_tr (trs s) with
  | Some l => (set_trs s l, Ok tt)
  | None => (s, Err "no-such-transceiver")   (* the harness reports the same class *)
  end.

(* RemoveTrack(sender of the i-th transceiver): sender.Stop(), then
   setSendingTrack(nil): the sender is detached before the direction switch, whose
   default case is an error *)
Definition detach_track (t : tr) : tr :=
  let t1 := with_sender t false in
  match t_dir t with
  | Sendrecv => with_dir t1 Recvonly
  | Sendonly => with_dir t1 Inactive
  | _ => t1
  end.
Definition remove_track (s : st) (i : nat) : st * result unit :=
  match nth_error (trs s) i with
  | Some t =>
      if t_sender t then
        (set_trs s (match upd_nth i detach_track (trs s) with Some l => l | None => trs s end),
         match t_dir t with
         | Sendrecv | Sendonly => Ok tt
         | _ => Err "set-sending-invalid-state"
         end)
      else (s, Err "no-such-sender")             (* reported by the harness: nothing to remove *)
  | None => (s, Err "no-such-sender")
  end.

Definition create_data_channel (s : st) : st * result unit :=
  ({| trs := trs s; gmid := gmid s; dc := true; sig := sig s; cur_remote := cur_remote s;
      pend_remote := pend_remote s;
      neg_audio := neg_audio s; neg_video := neg_video s;
      last_offer := last_offer s; last_answer := last_answer s |}, Ok tt).

(* ---------- histories ---------- *)
Inductive op :=
| AddTransceiver (k : mkind) (d : dir)
| AddTrack (k : mkind)
| RemoveTrack (i : nat)
| StopTransceiver (i : nat)
| CreateDataChannel
| CreateOffer
| CreateAnswer
| SetLocal (ty : sdpty)
| SetRemote (ty : sdpty) (d : rdesc).

(* what a call returns: nothing, or a generated description *)
Inductive outcome :=
| ODone (r : result unit)
| ODesc (r : result ldesc).

Definition step (s : st) (o : op) : st * outcome :=
  match o with
  | AddTransceiver k d => let '(s', r) := add_transceiver s k d in (s', ODone r)
  | AddTrack k => let '(s', r) := add_track s k in (s', ODone r)
  | RemoveTrack i => let '(s', r) := remove_track s i in (s', ODone r)
  | StopTransceiver i => let '(s', r) := stop_transceiver s i in (s', ODone r)
  | CreateDataChannel => let '(s', r) := create_data_channel s in (s', ODone r)
  | CreateOffer => let '(s', r) := create_offer s in (s', ODesc r)
  | CreateAnswer => let '(s', r) := create_answer s in (s', ODesc r)
  | SetLocal ty => let '(s', r) := set_local s ty in (s', ODone r)
  | SetRemote ty d => let '(s', r) := set_remote s ty d in (s', ODone r)
  end.

(* the state after a history, and the trace of (state before, op, outcome, state after) *)
Definition run_from (s : st) (ops : list op) : st := fold_left (fun s o => fst (step s o)) ops s.
Definition run (ops : list op) : st := run_from init ops.

Fixpoint trace_from (s : st) (ops : list op) : list (st * op * outcome * st) :=
  match ops with
  | [] => []
  | o :: rest => let '(s', out) := step s o in (s, o, out, s') :: trace_from s' rest
  end.
Definition trace (ops : list op) := trace_from init ops.

(* the descriptions a history generated, in order *)
Definition generated (ops : list op) : list ldesc :=
  flat_map (fun e => match e with (_, _, ODesc (Ok d), _) => [d] | _ => [] end) (trace ops).
