(* C01-C03: the JSEP signaling state machine of pion/webrtc.
   signalingstate.go:checkNextSignalingState and peerconnection.go:
   setDescription / SetLocalDescription / SetRemoteDescription / CreateOffer /
   CreateAnswer (negotiation bookkeeping only) / LocalDescription /
   RemoteDescription, transcribed statement by statement.  Beside it the
   specification table.  No proofs here. *)
From Coq Require Import List Bool NArith String.
Import ListNotations.
From Verif Require Import Common.Base.
Open Scope string_scope.

(* signalingstate.go: SignalingState, iota order; SOut = any undeclared value *)
Inductive sstate := SUnknown | Stable | HaveLocalOffer | HaveRemoteOffer
                  | HaveLocalPranswer | HaveRemotePranswer | SClosed | SOut.
(* stateChangeOp: iota + 1 *)
Inductive sop := OpUnknown | SetLocal | SetRemote | OpOut.
(* sdptype.go: SDPType, iota order; TOut = any undeclared value *)
Inductive sdptype := TUnknown | Offer | Pranswer | Answer | Rollback | TOut.

Definition sstate_eqb (a b : sstate) : bool :=
  match a, b with
  | SUnknown, SUnknown | Stable, Stable | HaveLocalOffer, HaveLocalOffer
  | HaveRemoteOffer, HaveRemoteOffer | HaveLocalPranswer, HaveLocalPranswer
  | HaveRemotePranswer, HaveRemotePranswer | SClosed, SClosed | SOut, SOut => true
  | _, _ => false
  end.
Definition sop_eqb (a b : sop) : bool :=
  match a, b with
  | OpUnknown, OpUnknown | SetLocal, SetLocal | SetRemote, SetRemote | OpOut, OpOut => true
  | _, _ => false
  end.
Definition sdptype_eqb (a b : sdptype) : bool :=
  match a, b with
  | TUnknown, TUnknown | Offer, Offer | Pranswer, Pranswer | Answer, Answer
  | Rollback, Rollback | TOut, TOut => true
  | _, _ => false
  end.

(* error classes (pkg/rtcerr type, or the sentinel error) *)
Definition EInvalidState := "InvalidState".
Definition EInvalidModification := "InvalidModification".
Definition EType := "Type".
Definition EOperation := "Operation".
Definition EParse := "Parse".
Definition ECodec := "Codec".
Definition ENoMid := "NoMid".
Definition ECandidate := "Candidate".
Definition ENoUfrag := "NoUfrag".
Definition ENoPwd := "NoPwd".
Definition ENoFingerprint := "NoFingerprint".
Definition EBadFingerprint := "BadFingerprint".
Definition ESend := "Send".
Definition EAddCand := "AddCandidate".   (* ICETransport.AddRemoteCandidate (agent creation) *)
Definition EGather := "Gather".          (* ICEGatherer.Gather (agent creation) *)
Definition EStop := "Stop".              (* RTPTransceiver.Stop on an inactive remote section *)
Definition EGenerate := "Generate".      (* CreateOffer/CreateAnswer: SDP generation refused *)

(* ---- signalingstate.go: checkNextSignalingState ----
   Go returns (next, nil) or (cur, InvalidModificationError). *)
Definition check_next (cur next : sstate) (op : sop) (ty : sdptype)
  : sstate * option string :=
  let bad := (cur, Some EInvalidModification) in
  (* Special case for rollbacks *)
  if sdptype_eqb ty Rollback && sstate_eqb cur Stable then bad
  else
    match cur with
    | Stable =>
        match op with
        | SetLocal =>
            if sdptype_eqb ty Offer && sstate_eqb next HaveLocalOffer then (next, None) else bad
        | SetRemote =>
            if sdptype_eqb ty Offer && sstate_eqb next HaveRemoteOffer then (next, None) else bad
        | _ => bad
        end
    | HaveLocalOffer =>
        if sop_eqb op SetRemote then
          match ty with
          | Answer => if sstate_eqb next Stable then (next, None) else bad
          | Pranswer => if sstate_eqb next HaveRemotePranswer then (next, None) else bad
          | _ => bad
          end
        else bad
    | HaveRemotePranswer =>
        if sop_eqb op SetRemote && sdptype_eqb ty Answer then
          if sstate_eqb next Stable then (next, None) else bad
        else bad
    | HaveRemoteOffer =>
        if sop_eqb op SetLocal then
          match ty with
          | Answer => if sstate_eqb next Stable then (next, None) else bad
          | Pranswer => if sstate_eqb next HaveLocalPranswer then (next, None) else bad
          | _ => bad
          end
        else bad
    | HaveLocalPranswer =>
        if sop_eqb op SetLocal && sdptype_eqb ty Answer then
          if sstate_eqb next Stable then (next, None) else bad
        else bad
    | _ => bad
    end.

(* The same function with the rollback edges the property C02 asks for
   (the table part of a repair; used only by the repaired variants below). *)
Definition rollback_edge (cur : sstate) (op : sop) : bool :=
  match op, cur with
  | SetLocal, HaveLocalOffer | SetLocal, HaveLocalPranswer
  | SetRemote, HaveRemoteOffer | SetRemote, HaveRemotePranswer => true
  | _, _ => false
  end.
Definition check_next_rb (cur next : sstate) (op : sop) (ty : sdptype)
  : sstate * option string :=
  if sdptype_eqb ty Rollback && sstate_eqb next Stable && rollback_edge cur op
  then (next, None) else check_next cur next op ty.

(* ---- descriptions ----
   The SDP text of a description is abstracted to an identity (0 = the empty
   string) plus the facts about its content that SetLocal/SetRemoteDescription
   test.  Texts with equal identity have equal flags (the harness constructs
   them so); Go's string comparison becomes comparison of identities. *)
Record dflags := {
  parses : bool;       (* sdp.SessionDescription.UnmarshalString succeeds *)
  codecs_ok : bool;    (* MediaEngine.updateFromRemoteDescription succeeds *)
  all_mid : bool;      (* every media section has a non-empty a=mid *)
  cands_ok : bool;     (* not (candidate lines present and none parses) *)
  has_ufrag : bool;
  has_pwd : bool;
  has_fp : bool;
  fp_two : bool;       (* the fingerprint value is exactly "<hash> <value>" *)
  send_ok : bool;      (* startRTPSenders succeeds once this answer is applied *)
  has_media : bool;    (* at least one media section *)
  (* facts about the connection the description is handed to, not about the
     text (as send_ok): *)
  addcand_ok : bool;   (* not (the description carries a candidate and the ICE agent
                          cannot be created): every AddRemoteCandidate returns nil *)
  gather_ok : bool;    (* not (the gatherer is still new and Gather fails) *)
  stop_ok : bool       (* not (a section is inactive for a transceiver whose Stop fails) *)
}.
Definition good_flags : dflags :=
  {| parses := true; codecs_ok := true; all_mid := true; cands_ok := true;
     has_ufrag := true; has_pwd := true; has_fp := true; fp_two := true; send_ok := true;
     has_media := true; addcand_ok := true; gather_ok := true; stop_ok := true |}.
(* "" unmarshals without error into a description with no media sections and
   no attributes (probe): no ufrag, no pwd, no fingerprint. *)
Definition empty_flags : dflags :=
  {| parses := true; codecs_ok := true; all_mid := true; cands_ok := true;
     has_ufrag := false; has_pwd := false; has_fp := false; fp_two := false; send_ok := true;
     has_media := false; addcand_ok := true; gather_ok := true; stop_ok := true |}.
(* what pion generates as the answer to a description without media sections:
   session-level fingerprint only (ufrag and pwd live in media sections) *)
Definition nomedia_flags : dflags :=
  {| parses := true; codecs_ok := true; all_mid := true; cands_ok := true;
     has_ufrag := false; has_pwd := false; has_fp := true; fp_two := true; send_ok := true;
     has_media := false; addcand_ok := true; gather_ok := true; stop_ok := true |}.

Definition with_send_ok (f : dflags) (b : bool) : dflags :=
  {| parses := parses f; codecs_ok := codecs_ok f; all_mid := all_mid f; cands_ok := cands_ok f;
     has_ufrag := has_ufrag f; has_pwd := has_pwd f; has_fp := has_fp f; fp_two := fp_two f;
     send_ok := b; has_media := has_media f;
     addcand_ok := addcand_ok f; gather_ok := gather_ok f; stop_ok := stop_ok f |}.
(* the connection cannot create its ICE agent (inconsistent SettingEngine) *)
Definition with_no_agent (f : dflags) (has_cand : bool) : dflags :=
  {| parses := parses f; codecs_ok := codecs_ok f; all_mid := all_mid f; cands_ok := cands_ok f;
     has_ufrag := has_ufrag f; has_pwd := has_pwd f; has_fp := has_fp f; fp_two := fp_two f;
     send_ok := send_ok f; has_media := has_media f;
     addcand_ok := negb has_cand; gather_ok := false; stop_ok := stop_ok f |}.

Record txt := { t_id : N; t_fl : dflags }.
Definition empty_txt : txt := {| t_id := 0; t_fl := empty_flags |}.
Definition txt_eqb (a b : txt) : bool := N.eqb (t_id a) (t_id b).
Definition txt_is_empty (a : txt) : bool := N.eqb (t_id a) 0.

Record desc := { d_ty : sdptype; d_txt : txt }.

(* ---- the negotiation slots of PeerConnection ---- *)
Record neg := {
  st : sstate;
  pendL : option desc; curL : option desc;
  pendR : option desc; curR : option desc;
  lastOffer : txt; lastAnswer : txt;
  closed : bool;
  events : list sstate          (* OnSignalingStateChange invocations, oldest first *)
}.
Definition neg0 : neg :=
  {| st := Stable; pendL := None; curL := None; pendR := None; curR := None;
     lastOffer := empty_txt; lastAnswer := empty_txt; closed := false; events := [] |}.

Definition upd_descs (n : neg) (pl cl pr cr : option desc) : neg :=
  {| st := st n; pendL := pl; curL := cl; pendR := pr; curR := cr;
     lastOffer := lastOffer n; lastAnswer := lastAnswer n; closed := closed n;
     events := events n |}.
Definition set_pendL n d := upd_descs n d (curL n) (pendR n) (curR n).
Definition set_pendR n d := upd_descs n (pendL n) (curL n) d (curR n).
(* pc.signalingState.Set(next); pc.onSignalingStateChange(next) *)
Definition commit (n : neg) (next : sstate) : neg :=
  {| st := next; pendL := pendL n; curL := curL n; pendR := pendR n; curR := curR n;
     lastOffer := lastOffer n; lastAnswer := lastAnswer n; closed := closed n;
     events := events n ++ [next] |}.

(* repair switches: all false = the code as it is *)
Record repair := {
  r_edge : bool;        (* checkNextSignalingState has the rollback edges *)
  r_clear_both : bool;  (* the rollback branches clear both pending descriptions *)
  r_empty_rb : bool     (* SetLocalDescription accepts a rollback without SDP text
                           and the post-transition steps are skipped for rollback *)
}.
Definition as_is : repair := {| r_edge := false; r_clear_both := false; r_empty_rb := false |}.
Definition repaired : repair := {| r_edge := true; r_clear_both := true; r_empty_rb := true |}.
(* only the table edge added, the existing rollback branches kept *)
Definition edge_only : repair := {| r_edge := true; r_clear_both := false; r_empty_rb := true |}.

Definition chk (r : repair) := if r_edge r then check_next_rb else check_next.

(* ---- peerconnection.go: setDescription ----
   returns the new slots and nil / the error. *)
Definition set_description (r : repair) (n : neg) (sd : desc) (op : sop)
  : neg * option string :=
  if closed n then (n, Some EInvalidState)
  else if match d_ty sd with TUnknown | TOut => true | _ => false end
  then (n, Some EType)                    (* NewSDPType(sd.Type.String()) == SDPTypeUnknown *)
  else
    let cur := st n in
    let fin (n' : neg) (res : sstate * option string) : neg * option string :=
      match snd res with
      | None => (commit n' (fst res), None)
      | Some e => (n, Some e)
      end in
    match op with
    | SetLocal =>
        match d_ty sd with
        | Offer =>
            if negb (txt_eqb (d_txt sd) (lastOffer n)) then (n, Some EInvalidModification)
            else fin (set_pendL n (Some sd)) (chk r cur HaveLocalOffer SetLocal (d_ty sd))
        | Answer =>
            if negb (txt_eqb (d_txt sd) (lastAnswer n)) then (n, Some EInvalidModification)
            else fin (upd_descs n None (Some sd) None (pendR n))
                     (chk r cur Stable SetLocal (d_ty sd))
        | Rollback =>
            fin (if r_clear_both r then upd_descs n None (curL n) None (curR n)
                 else set_pendL n None)
                (chk r cur Stable SetLocal (d_ty sd))
        | Pranswer =>
            if negb (txt_eqb (d_txt sd) (lastAnswer n)) then (n, Some EInvalidModification)
            else fin (set_pendL n (Some sd)) (chk r cur HaveLocalPranswer SetLocal (d_ty sd))
        | _ => (n, Some EOperation)
        end
    | SetRemote =>
        match d_ty sd with
        | Offer => fin (set_pendR n (Some sd)) (chk r cur HaveRemoteOffer SetRemote (d_ty sd))
        | Answer =>
            fin (upd_descs n None (pendL n) None (Some sd))
                (chk r cur Stable SetRemote (d_ty sd))
        | Rollback =>
            fin (if r_clear_both r then upd_descs n None (curL n) None (curR n)
                 else set_pendR n None)
                (chk r cur Stable SetRemote (d_ty sd))
        | Pranswer =>
            fin (set_pendR n (Some sd)) (chk r cur HaveRemotePranswer SetRemote (d_ty sd))
        | _ => (n, Some EOperation)
        end
    | _ => (n, Some EOperation)
    end.

(* ---- getters ---- *)
Definition pending_local (n : neg) := pendL n.
Definition current_local (n : neg) := curL n.
Definition pending_remote (n : neg) := pendR n.
Definition current_remote (n : neg) := curR n.
Definition local_description (n : neg) : option desc :=
  match pending_local n with Some d => Some d | None => current_local n end.
Definition remote_description (n : neg) : option desc :=
  match pendR n with Some d => Some d | None => curR n end.

Definition with_txt (d : desc) (t : txt) : desc := {| d_ty := d_ty d; d_txt := t |}.

(* ---- SetLocalDescription ---- *)
Definition set_local (r : repair) (n : neg) (d : desc) : neg * result unit :=
  if closed n then (n, Err EInvalidState)
  else
    (* JSEP 5.4 *)
    let sub : result desc :=
      if txt_is_empty (d_txt d) then
        match d_ty d with
        | Answer | Pranswer => Ok (with_txt d (lastAnswer n))
        | Offer => Ok (with_txt d (lastOffer n))
        | Rollback => if r_empty_rb r then Ok d else Err EInvalidModification
        | _ => Err EInvalidModification
        end
      else Ok d in
    match sub with
    | Err e => (n, Err e)
    | Panic => (n, Panic)
    | Ok d1 =>
        if negb (parses (t_fl (d_txt d1))) then (n, Err EParse)
        else
          match set_description r n d1 SetLocal with
          | (_, Some e) => (n, Err e)
          | (n1, None) =>
              (* the transition is applied; what follows can still fail *)
              if r_empty_rb r && sdptype_eqb (d_ty d1) Rollback then (n1, Ok tt)
              else
              let weAnswer := sdptype_eqb (d_ty d1) Answer in
              let sent :=
                match remote_description n1 with
                | Some _ => negb (weAnswer && negb (send_ok (t_fl (d_txt d1))))
                | None => true
                end in
              if negb sent then (n1, Err ESend)
              (* if pc.iceGatherer.State() == ICEGathererStateNew { return pc.iceGatherer.Gather() }:
                 a fact about the connection, read from the description as handed over *)
              else if negb (gather_ok (t_fl (d_txt d))) then (n1, Err EGather)
              else (n1, Ok tt)
          end
    end.

(* ---- SetRemoteDescription ----
   (after "fix: validate the remote description before applying it": the
   checks that only read the parsed description - mid, ICE details, fingerprint -
   precede setDescription) *)
(* the part of SetRemoteDescription that only reads the parsed description *)
Definition remote_validate (isRenegotiation : bool) (d : desc) : option string :=
  let f := t_fl (d_txt d) in
  let weOffer := sdptype_eqb (d_ty d) Answer in
  if negb weOffer && negb (all_mid f) then Some ENoMid
  else if negb (cands_ok f) then Some ECandidate       (* extractICEDetails *)
  else if negb (has_ufrag f) then Some ENoUfrag
  else if negb (has_pwd f) then Some ENoPwd
  else if isRenegotiation then None
  else if negb (has_fp f) then Some ENoFingerprint     (* extractFingerprint *)
  else if negb (fp_two f) then Some EBadFingerprint
  else None.

(* what can still fail once setDescription has stored the new state *)
Definition remote_after (d : desc) : option string :=
  let f := t_fl (d_txt d) in
  let weOffer := sdptype_eqb (d_ty d) Answer in
  if negb (codecs_ok f) then Some ECodec               (* updateFromRemoteDescription *)
  else if negb weOffer && negb (stop_ok f) then Some EStop
  else if negb (addcand_ok f) then Some EAddCand
  else if weOffer && negb (send_ok f) then Some ESend
  else None.

Definition set_remote (r : repair) (n : neg) (d : desc) : neg * result unit :=
  if closed n then (n, Err EInvalidState)
  else
    let isRenegotiation := match curR n with Some _ => true | None => false end in
    if negb (parses (t_fl (d_txt d))) then (n, Err EParse)
    else
      (* a repaired rollback carries no description to validate or apply *)
      let skip := r_empty_rb r && sdptype_eqb (d_ty d) Rollback in
      match (if skip then None else remote_validate isRenegotiation d) with
      | Some e => (n, Err e)
      | None =>
          match set_description r n d SetRemote with
          | (_, Some e) => (n, Err e)
          | (n1, None) =>
              (* the transition is applied; every error below leaves it applied *)
              match (if skip then None else remote_after d) with
              | Some e => (n1, Err e)
              | None => (n1, Ok tt)
              end
          end
      end.

(* ---- CreateOffer / CreateAnswer: only what the negotiation slots see ---- *)
Definition set_last (n : neg) (o a : txt) : neg :=
  {| st := st n; pendL := pendL n; curL := curL n; pendR := pendR n; curR := curR n;
     lastOffer := o; lastAnswer := a; closed := closed n; events := events n |}.

(* id: identity of the text the call produces (fresh, non-zero) *)
(* gen: SDP generation itself (outside the model: transceiver matching, ICE
   agent creation, codec lookup) succeeds; a refusal leaves everything alone *)
Definition create_offer (n : neg) (id : N) (gen : bool) : neg * result unit :=
  if closed n then (n, Err EInvalidState)
  else if negb gen then (n, Err EGenerate)
  else
    (* with a current remote description the offer is generated against the
       remote description (generateMatchedSDP), which refuses sections without mid *)
    let matched_ok :=
      match curR n, remote_description n with
      | Some _, Some rd => all_mid (t_fl (d_txt rd))
      | _, _ => true
      end in
    if negb matched_ok then (n, Err ENoMid)
    else (set_last n {| t_id := id; t_fl := good_flags |} (lastAnswer n), Ok tt).

(* snd: whether this connection's senders can start under the answer produced
   (false when the answer drops the codec of a bound track) *)
Definition create_answer (n : neg) (id : N) (snd gen : bool) : neg * result unit :=
  match remote_description n with
  | None => (n, Err EInvalidState)
  | Some rd =>
      if closed n then (n, Err EInvalidState)
      else if negb (sstate_eqb (st n) HaveRemoteOffer) && negb (sstate_eqb (st n) HaveLocalPranswer)
      then (n, Err EInvalidState)
      else if negb gen then (n, Err EGenerate)
      else if negb (all_mid (t_fl (d_txt rd))) then (n, Err ENoMid)   (* generateMatchedSDP *)
      else
        let fl := if has_media (t_fl (d_txt rd)) then good_flags else nomedia_flags in
        (set_last n (lastOffer n) {| t_id := id; t_fl := with_send_ok fl snd |}, Ok tt)
  end.

(* Close: isClosed.Swap(true) ... signalingState.Set(SignalingStateClosed); no event *)
Definition close_pc (n : neg) : neg :=
  {| st := SClosed; pendL := pendL n; curL := curL n; pendR := pendR n; curR := curR n;
     lastOffer := lastOffer n; lastAnswer := lastAnswer n; closed := true; events := events n |}.

Inductive pcop :=
| OCreateOffer (id : N) (gen : bool)
| OCreateAnswer (id : N) (snd gen : bool)
| OSetLocal (d : desc)
| OSetRemote (d : desc)
| OClose.

Definition step_r (r : repair) (n : neg) (o : pcop) : neg * result unit :=
  match o with
  | OCreateOffer id gen => create_offer n id gen
  | OCreateAnswer id snd gen => create_answer n id snd gen
  | OSetLocal d => set_local r n d
  | OSetRemote d => set_remote r n d
  | OClose => (close_pc n, Ok tt)
  end.
Definition step := step_r as_is.
Definition run_from_r (r : repair) (n : neg) (ops : list pcop) : neg :=
  fold_left (fun n o => fst (step_r r n o)) ops n.
Definition run_from := run_from_r as_is.
Definition run (ops : list pcop) : neg := run_from neg0 ops.
Definition run_r (r : repair) (ops : list pcop) : neg := run_from_r r neg0 ops.

(* ---- the specification: JSEP 3.2 / W3C webrtc-pc 4.3.1 state machine, with
   the rollback edges as property C02 words them ---- *)
Inductive side := Local | Remote.
Definition w3c_edge (s : sstate) (sd : side) (ty : sdptype) : option sstate :=
  match s, sd, ty with
  | Stable, Local, Offer => Some HaveLocalOffer
  | Stable, Remote, Offer => Some HaveRemoteOffer
  | HaveLocalOffer, Local, Offer => Some HaveLocalOffer
  | HaveLocalOffer, Remote, Answer => Some Stable
  | HaveLocalOffer, Remote, Pranswer => Some HaveRemotePranswer
  | HaveLocalOffer, Local, Rollback => Some Stable
  | HaveRemoteOffer, Remote, Offer => Some HaveRemoteOffer
  | HaveRemoteOffer, Local, Answer => Some Stable
  | HaveRemoteOffer, Local, Pranswer => Some HaveLocalPranswer
  | HaveRemoteOffer, Remote, Rollback => Some Stable
  | HaveLocalPranswer, Local, Pranswer => Some HaveLocalPranswer
  | HaveLocalPranswer, Local, Answer => Some Stable
  | HaveLocalPranswer, Local, Rollback => Some Stable
  | HaveRemotePranswer, Remote, Pranswer => Some HaveRemotePranswer
  | HaveRemotePranswer, Remote, Answer => Some Stable
  | HaveRemotePranswer, Remote, Rollback => Some Stable
  | _, _, _ => None
  end.

Definition op_of_side (s : side) : sop := match s with Local => SetLocal | Remote => SetRemote end.
Definition set_op (s : side) (d : desc) : pcop :=
  match s with Local => OSetLocal d | Remote => OSetRemote d end.
