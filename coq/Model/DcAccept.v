(* C19, the receiving side of an in-band data channel between the DCEP
   handshake and the application's OnMessage handler:

     sctptransport.go  acceptDataChannels, loop body for one channel
                         dc := datachannel.Accept(...)    the DCEP ACK is out: the remote
                                                          channel is open and may send; what it
                                                          sends queues up in the SCTP stream
                         rtcDC := newDataChannel(...)
                         <-r.onDataChannel(rtcDC)         runs the application's OnDataChannel
                                                          callback in a goroutine and WAITS until
                                                          it has returned
                         rtcDC.handleOpen(dc, true, ..)   readyState open, go readLoop()
     sctptransport.go  onDataChannel                      go func() { handler(dc); close(done) }()
     datachannel.go    OnMessage                          d.onMessageHandler = f
     datachannel.go    readLoop / onMessage               handler := d.onMessageHandler
                                                          if handler == nil { return }   -- dropped
                                                          handler(msg)

   The application is part of the schedule: it may register handlers at any
   time, its callback may return at any time (a slow callback = many arrivals
   before RCallbackReturn).  A handler may re-register another handler from
   inside itself.  OnMessage(nil) is not modelled.  Definitions only. *)
From Coq Require Import List ZArith Bool.
Import ListNotations.

(* an OnMessage handler as far as delivery accounting goes: who it is, and
   whether it replaces itself (calls d.OnMessage(next) from inside) when it has
   h_left invocations left before doing so *)
Record hnd : Type := { h_id : Z; h_left : option nat; h_next : Z }.

(* d.onMessageHandler after one invocation of h *)
Definition after_invoke (h : hnd) : hnd :=
  match h_left h with
  | None => h
  | Some O => {| h_id := h_next h; h_left := None; h_next := h_next h |}
  | Some (S n) => {| h_id := h_id h; h_left := Some n; h_next := h_next h |}
  end.

Fixpoint iter_invoke (n : nat) (h : hnd) : hnd :=
  match n with O => h | S k => iter_invoke k (after_invoke h) end.

(* identities of n consecutive invocations starting with h installed *)
Fixpoint tags (h : hnd) (n : nat) : list Z :=
  match n with O => [] | S k => h_id h :: tags (after_invoke h) k end.

Section Receiver.
  Variable M : Type.              (* one message: (bytes, isString) *)

  Record rcv : Type := {
    r_handler : option hnd;       (* d.onMessageHandler *)
    r_cb_running : bool;          (* the OnDataChannel callback has not returned yet *)
    r_loop : bool;                (* handleOpen done, readLoop running *)
    r_queue : list M;             (* received by SCTP, not yet read *)
    r_log : list (Z * M);         (* handler invocations, in order *)
    r_dropped : list M;           (* read while no handler was installed *)
    (* ghosts *)
    r_arrived : list M;           (* everything the stream has carried *)
    r_h0 : option hnd;            (* the handler installed when the callback returned *)
    r_fault : bool;               (* the application returned from its callback without a handler *)
    r_late_set : bool             (* OnMessage called from outside after the callback returned *)
  }.

  Inductive rev : Type :=
  | RArrive (m : M)               (* a message of the remote peer reaches the stream *)
  | RSetHandler (h : hnd)         (* the application calls d.OnMessage(h) *)
  | RCallbackReturn               (* the application's OnDataChannel callback returns *)
  | RAcceptWait                   (* the accept loop at "<-r.onDataChannel(rtcDC)" *)
  | RRead.                        (* one iteration of readLoop *)

  Definition rstep (s : rcv) (e : rev) : rcv :=
    match e with
    | RArrive m =>
        {| r_handler := r_handler s; r_cb_running := r_cb_running s; r_loop := r_loop s;
           r_queue := r_queue s ++ [m]; r_log := r_log s; r_dropped := r_dropped s;
           r_arrived := r_arrived s ++ [m]; r_h0 := r_h0 s; r_fault := r_fault s;
           r_late_set := r_late_set s |}
    | RSetHandler h =>
        {| r_handler := Some h; r_cb_running := r_cb_running s; r_loop := r_loop s;
           r_queue := r_queue s; r_log := r_log s; r_dropped := r_dropped s;
           r_arrived := r_arrived s; r_h0 := r_h0 s; r_fault := r_fault s;
           r_late_set := if r_cb_running s then r_late_set s else true |}
    | RCallbackReturn =>
        if r_cb_running s then
          {| r_handler := r_handler s; r_cb_running := false; r_loop := r_loop s;
             r_queue := r_queue s; r_log := r_log s; r_dropped := r_dropped s;
             r_arrived := r_arrived s; r_h0 := r_handler s;
             r_fault := match r_handler s with None => true | Some _ => r_fault s end;
             r_late_set := r_late_set s |}
        else s
    | RAcceptWait =>
        (* blocks while the callback runs; then handleOpen starts the read loop *)
        if r_cb_running s then s
        else
          {| r_handler := r_handler s; r_cb_running := false; r_loop := true;
             r_queue := r_queue s; r_log := r_log s; r_dropped := r_dropped s;
             r_arrived := r_arrived s; r_h0 := r_h0 s; r_fault := r_fault s;
             r_late_set := r_late_set s |}
    | RRead =>
        if negb (r_loop s) then s else
        match r_queue s with
        | [] => s                                          (* Read blocks *)
        | m :: q =>
            match r_handler s with
            | None =>
                {| r_handler := None; r_cb_running := r_cb_running s; r_loop := true;
                   r_queue := q; r_log := r_log s; r_dropped := r_dropped s ++ [m];
                   r_arrived := r_arrived s; r_h0 := r_h0 s; r_fault := r_fault s;
                   r_late_set := r_late_set s |}
            | Some h =>
                {| r_handler := Some (after_invoke h); r_cb_running := r_cb_running s;
                   r_loop := true; r_queue := q; r_log := r_log s ++ [(h_id h, m)];
                   r_dropped := r_dropped s; r_arrived := r_arrived s; r_h0 := r_h0 s;
                   r_fault := r_fault s; r_late_set := r_late_set s |}
            end
        end
    end.

  Definition rrun (s : rcv) (evs : list rev) : rcv := fold_left rstep evs s.

  (* the channel object just created by acceptDataChannels: no handler, the
     callback about to run, no read loop *)
  Definition rcv_announced : rcv :=
    {| r_handler := None; r_cb_running := true; r_loop := false; r_queue := [];
       r_log := []; r_dropped := []; r_arrived := []; r_h0 := None; r_fault := false;
       r_late_set := false |}.

  (* a negotiated channel: created by the application itself, its handler
     registered before the transport is up; no OnDataChannel callback *)
  Definition rcv_negotiated (h : hnd) : rcv :=
    {| r_handler := Some h; r_cb_running := false; r_loop := false; r_queue := [];
       r_log := []; r_dropped := []; r_arrived := []; r_h0 := Some h; r_fault := false;
       r_late_set := false |}.

  (* canonical schedule of a case: every message arrives while the callback is
     still running (the slowest possible callback), the handler is registered,
     the callback returns, the accept loop goes on, the read loop drains *)
  Definition canonical (h : hnd) (ms : list M) : list rev :=
    map RArrive ms ++ [RSetHandler h; RCallbackReturn; RAcceptWait] ++ repeat RRead (length ms).
End Receiver.

Arguments r_handler {M} r.
Arguments r_cb_running {M} r.
Arguments r_loop {M} r.
Arguments r_queue {M} r.
Arguments r_log {M} r.
Arguments r_dropped {M} r.
Arguments r_arrived {M} r.
Arguments r_h0 {M} r.
Arguments r_fault {M} r.
Arguments r_late_set {M} r.
Arguments RArrive {M} m.
Arguments RSetHandler {M} h.
Arguments RCallbackReturn {M}.
Arguments RAcceptWait {M}.
Arguments RRead {M}.
