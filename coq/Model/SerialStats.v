(* C38: encoding/json's struct coding of the Stats types (stats.go), of
   SessionDescription and of ICECandidateInit, driven by the shape tables of
   Gen/GoStats.v (generated from the struct definitions), and
   UnmarshalStatsJSON on top of it.

   What is transcribed from encoding/json (encode.go / decode.go, Go 1.24):
   - Marshal of a struct: members in declaration order under their tag names;
     a member with omitempty is dropped when isEmptyValue (false, 0, "", nil
     pointer, nil or empty slice / map); nil slices, maps and pointers print
     null; a map prints its keys sorted; an enum prints through its own
     MarshalJSON / MarshalText.
   - Unmarshal into a struct: members of the object in document order; a key
     selects the member whose name is equal, else equal up to (ASCII) case; an
     unknown key is skipped; a later duplicate decodes onto the value the
     earlier one left; null leaves a non-nillable member untouched and resets
     a pointer, slice or map to nil; a value of the wrong JSON kind, an
     integer literal with a fraction or out of the member's range is an
     UnmarshalTypeError, which is SAVED (decoding goes on; the first one is
     the result once the whole value has been walked); an error returned by a
     type's own UnmarshalJSON / UnmarshalText ABORTS at once and wins over a
     saved one.  Top-level null into a struct is no error.
   - Not transcribed: elements of a slice's old backing array beyond its
     current length (a third occurrence of a slice member can see them);
     embedded structs, the `string` tag option, []byte, non-ASCII case folding (U+212A,
     U+017F) — tools/statsgen refuses shapes that need them.
   Number literals are abstract ([num]): what strconv makes of one enters as
   Section variables; the assumed contract is stated in Proofs/SerialStats.v.
   No proofs in this file. *)
From Coq Require Import List ZArith NArith String Ascii Bool.
Import ListNotations.
From Verif Require Import Common.V Common.Base Common.SerialUtil Model.Serial Model.SerialShape.
From Verif Require Gen.GoStats.
Open Scope string_scope.
Open Scope Z_scope.

Definition err_shape : string := "json-shape".   (* *json.UnmarshalTypeError *)

Definition first_err (a b : option string) : option string :=
  match a with Some _ => a | None => b end.

(* a Go map as its key-sorted member list *)
Section MapRep.
  Context {A : Type}.
  Fixpoint map_insert (k : string) (v : A) (l : list (string * A)) : list (string * A) :=
    match l with
    | [] => [(k, v)]
    | (k', v') :: t =>
        match String.compare k k' with
        | Lt => (k, v) :: l
        | Eq => (k, v) :: t
        | Gt => (k', v') :: map_insert k v t
        end
    end.
  Fixpoint sorted_keys (l : list (string * A)) : Prop :=
    match l with
    | [] => True
    | (k, _) :: t => (forall k', In k' (map fst t) -> String.compare k k' = Lt) /\ sorted_keys t
    end.
End MapRep.

Definition in_uint (bits z : Z) : bool := andb (0 <=? z) (z <? 2 ^ bits).
Definition in_int (bits z : Z) : bool := andb (- 2 ^ (bits - 1) <=? z) (z <? 2 ^ (bits - 1)).

Section Coders.
  Variables num F : Type.
  Variable num_of_int : Z -> num.         (* strconv.AppendInt / AppendUint *)
  Variable num_of_flt : F -> num.         (* floatEncoder (shortest form that parses back) *)
  Variable int_of_num : num -> option Z.  (* strconv.ParseInt / ParseUint on the literal: None when
                                             it has a fraction or an exponent *)
  Variable flt_of_num : num -> option F.  (* strconv.ParseFloat(literal, 64): None on a range error *)
  Variable fzero : F.
  Variable fis_zero : F -> bool.          (* isEmptyValue: v.Float() == 0 *)

  Notation jv := (jv num).
  Notation gval := (gval F).

  (* encode.go isEmptyValue *)
  Definition is_empty (v : gval) : bool :=
    match v with
    | GStr s => String.eqb s ""
    | GBool b => negb b
    | GInt z => Z.eqb z 0
    | GFlt f => fis_zero f
    | GSlice None | GSlice (Some []) | GMap None | GMap (Some []) | GPtr None => true
    | _ => false
    end.

  Fixpoint zero_of (t : fty) : gval :=
    match t with
    | TStr => GStr ""
    | TBool => GBool false
    | TUint _ | TInt _ | TEnum _ _ => GInt 0
    | TFloat => GFlt fzero
    | TSlice _ => GSlice None
    | TMap _ => GMap None
    | TPtr _ => GPtr None
    | TStruct fs => GStruct (map (fun fd => zero_of (fd_ty fd)) fs)
    end.

  (* an enum member prints through its own coder *)
  Definition enum_coder (name : string) : result (enum * decoder) :=
    match find_enum all_enums name with
    | None => Err "model-no-enum"
    | Some e => match e_json e with
                | Some d => Ok (e, d)
                | None => Err "model-no-enum-coder"
                end
    end.

  (* ---- Marshal ---- *)
  Section EncLoops.
    Variable encv : gval -> result jv.       (* the element coder *)
    Fixpoint enc_list (l : list gval) : result (list jv) :=
      match l with
      | [] => Ok []
      | v :: t => rbind (encv v) (fun j => rbind (enc_list t) (fun r => Ok (j :: r)))
      end.
    Fixpoint enc_members (l : list (string * gval)) : result (list (string * jv)) :=
      match l with
      | [] => Ok []
      | (k, v) :: t =>
          rbind (encv v) (fun j => rbind (enc_members t) (fun r => Ok ((k, j) :: r)))
      end.
    Variable encf : fty -> gval -> result jv.
    Fixpoint enc_fields (fs : list fdecl) (vs : list gval) : result (list (string * jv)) :=
      match fs, vs with
      | [], [] => Ok []
      | fd :: fs', v :: vs' =>
          if andb (fd_omit fd) (is_empty v) then enc_fields fs' vs'
          else rbind (encf (fd_ty fd) v) (fun j =>
               rbind (enc_fields fs' vs') (fun r => Ok ((fd_json fd, j) :: r)))
      | _, _ => Err "model-arity"
      end.
  End EncLoops.

  Fixpoint enc (t : fty) (v : gval) {struct t} : result jv :=
    match t, v with
    | TStr, GStr s => Ok (JvStr s)
    | TBool, GBool b => Ok (JvBool b)
    | TUint _, GInt z | TInt _, GInt z => Ok (JvNum (num_of_int z))
    | TFloat, GFlt f => Ok (JvNum (num_of_flt f))
    | TEnum name _, GInt z =>
        rbind (enum_coder name) (fun ed => Ok (JvStr (to_string (fst ed) z)))
    | TSlice e, GSlice None => Ok JvNull
    | TSlice e, GSlice (Some l) => rbind (enc_list (enc e) l) (fun r => Ok (JvArr r))
    | TMap e, GMap None => Ok JvNull
    | TMap e, GMap (Some l) => rbind (enc_members (enc e) l) (fun r => Ok (JvObj r))
    | TPtr e, GPtr None => Ok JvNull
    | TPtr e, GPtr (Some p) => enc e p
    | TStruct fs, GStruct vs => rbind (enc_fields enc fs vs) (fun r => Ok (JvObj r))
    | _, _ => Err "model-type"
    end.

  (* ---- Unmarshal ---- *)
  (* result of decoding one value: the new value and the UnmarshalTypeError
     saved on the way, if any; Err = aborted *)
  Definition dres : Type := result (gval * option string).

  Section DecLoops.
    Variable decv : jv -> gval -> dres.      (* the element decoder *)
    Variable zv : gval.                      (* the element type's zero value *)
    (* d.array into a slice: element i is decoded onto the element the slice
       already has at i (a duplicate member re-uses the old elements), onto a
       zero element past its end; the result has the array's length *)
    Fixpoint dec_list (l : list jv) (cur : list gval) : result (list gval * option string) :=
      match l with
      | [] => Ok ([], None)
      | j :: t =>
          let c := match cur with [] => zv | c :: _ => c end in
          let rest := match cur with [] => [] | _ :: r => r end in
          rbind (decv j c) (fun ve =>
          rbind (dec_list t rest) (fun re => Ok (fst ve :: fst re, first_err (snd ve) (snd re))))
      end.
    (* d.object into a map: a fresh zero element per member, then SetMapIndex *)
    Fixpoint dec_map (ms : list (string * jv)) (cur : list (string * gval))
      : result (list (string * gval) * option string) :=
      match ms with
      | [] => Ok (cur, None)
      | (k, j) :: t =>
          rbind (decv j zv) (fun ve =>
          rbind (dec_map t (map_insert k (fst ve) cur)) (fun re =>
          Ok (fst re, first_err (snd ve) (snd re))))
      end.
    Variable decf : fty -> jv -> gval -> dres.
    (* the member a key selects, decoded onto its current value *)
    Fixpoint upd_slot (m : string -> bool) (j : jv) (fs : list fdecl) (vs : list gval)
      : result (list gval * option string) :=
      match fs, vs with
      | fd :: fs', v :: vs' =>
          if m (fd_json fd)
          then rbind (decf (fd_ty fd) j v) (fun ve => Ok (fst ve :: vs', snd ve))
          else rbind (upd_slot m j fs' vs') (fun re => Ok (v :: fst re, snd re))
      | _, _ => Ok (vs, None)            (* no such member: the value is skipped *)
      end.
    (* d.object into a struct *)
    Variable fs : list fdecl.
    Fixpoint dec_members (ms : list (string * jv)) (vs : list gval)
      : result (list gval * option string) :=
      match ms with
      | [] => Ok (vs, None)
      | (k, j) :: t =>
          let m := if existsb (fun fd => String.eqb k (fd_json fd)) fs
                   then String.eqb k else eqfold k in
          rbind (upd_slot m j fs vs) (fun ve =>
          rbind (dec_members t (fst ve)) (fun re =>
          Ok (fst re, first_err (snd ve) (snd re))))
      end.
  End DecLoops.

  Definition keep (cur : gval) : dres := Ok (cur, None).
  Definition type_error (cur : gval) : dres := Ok (cur, Some err_shape).

  Fixpoint dec (t : fty) (j : jv) (cur : gval) {struct t} : dres :=
    match t with
    | TStr => match j with
              | JvStr s => Ok (GStr s, None) | JvNull => keep cur | _ => type_error cur
              end
    | TBool => match j with
               | JvBool b => Ok (GBool b, None) | JvNull => keep cur | _ => type_error cur
               end
    | TUint bits =>
        match j with
        | JvNum n => match int_of_num n with
                     | Some z => if in_uint bits z then Ok (GInt z, None) else type_error cur
                     | None => type_error cur
                     end
        | JvNull => keep cur
        | _ => type_error cur
        end
    | TInt bits =>
        match j with
        | JvNum n => match int_of_num n with
                     | Some z => if in_int bits z then Ok (GInt z, None) else type_error cur
                     | None => type_error cur
                     end
        | JvNull => keep cur
        | _ => type_error cur
        end
    | TFloat =>
        match j with
        | JvNum n => match flt_of_num n with
                     | Some f => Ok (GFlt f, None)
                     | None => type_error cur
                     end
        | JvNull => keep cur
        | _ => type_error cur
        end
    | TEnum name custom =>
        rbind (enum_coder name) (fun ed =>
        let d := snd ed in
        if custom then
          (* func (t *T) UnmarshalJSON(b): json.Unmarshal(b, &s); switch s *)
          match j with
          | JvStr s => rbind (decode d s) (fun z => Ok (GInt z, None))
          | JvNull => rbind (decode d "") (fun z => Ok (GInt z, None))
          | _ => Err err_shape
          end
        else
          (* encoding.TextUnmarshaler *)
          match j with
          | JvStr s => rbind (decode d s) (fun z => Ok (GInt z, None))
          | JvNull => keep cur
          | _ => type_error cur
          end)
    | TSlice e =>
        match j with
        | JvArr l =>
            let old := match cur with GSlice (Some c) => c | _ => [] end in
            rbind (dec_list (dec e) (zero_of e) l old) (fun re => Ok (GSlice (Some (fst re)), snd re))
        | JvNull => Ok (GSlice None, None)
        | _ => type_error cur
        end
    | TMap e =>
        match j with
        | JvObj ms =>
            let start := match cur with GMap (Some l) => l | _ => [] end in
            rbind (dec_map (dec e) (zero_of e) ms start) (fun re => Ok (GMap (Some (fst re)), snd re))
        | JvNull => Ok (GMap None, None)
        | _ => type_error cur
        end
    | TPtr e =>
        match j with
        | JvNull => Ok (GPtr None, None)
        | _ =>
            let pointee := match cur with GPtr (Some p) => p | _ => zero_of e end in
            rbind (dec e j pointee) (fun ve => Ok (GPtr (Some (fst ve)), snd ve))
        end
    | TStruct fs =>
        match j with
        | JvObj ms =>
            let start := match cur with GStruct vs => vs | _ => map (fun fd => zero_of (fd_ty fd)) fs end in
            rbind (dec_members dec fs ms start) (fun re => Ok (GStruct (fst re), snd re))
        | JvNull => keep cur
        | _ => type_error cur
        end
    end.

  (* json.Unmarshal(text, &v) with v the zero value: an abort, else the saved
     error, else the value *)
  Definition unmarshal (t : fty) (j : jv) : result gval :=
    match dec t j (zero_of t) with
    | Ok (v, None) => Ok v
    | Ok (_, Some e) => Err e
    | Err e => Err e
    | Panic => Panic
    end.
  Definition marshal (t : fty) (v : gval) : result jv := enc t v.

  (* ---- UnmarshalStatsJSON ---- *)
  Fixpoint shape_lookup (l : list (string * list fdecl)) (name : string) : option (list fdecl) :=
    match l with
    | [] => None
    | (n, fs) :: t => if String.eqb n name then Some fs else shape_lookup t name
    end.
  Definition shape_of (t : stats_ty) : list fdecl :=
    match shape_lookup GoStats.stats_shapes (stats_ty_name t) with Some fs => fs | None => [] end.
  Definition stats_fty (t : stats_ty) : fty := TStruct (shape_of t).

  (* type typeJSON struct { Type StatsType `json:"type"` } and kindJSON alike *)
  Definition holder (k : string) (j : jv) : result string :=
    match unmarshal (TStruct [FD "X" k false TStr]) j with
    | Ok (GStruct [GStr s]) => Ok s
    | Ok _ => Err "model-type"
    | Err _ => Err "holder"            (* fmt.Errorf("unmarshal json type: %w", err) *)
    | Panic => Panic
    end.
  Definition needs_kind (tag : string) : bool :=
    existsb (String.eqb tag) ["media-source"; "track"; "sender"; "receiver"].

  Definition unmarshal_stats (j : jv) : result (stats_ty * gval) :=
    rbind (holder "type" j) (fun tag =>
    rbind (if needs_kind tag then holder "kind" j else Ok "") (fun kind =>
    rbind (stats_dispatch tag kind) (fun t =>
    match unmarshal (stats_fty t) j with
    | Ok v => Ok (t, v)
    | Err e => Err (if String.eqb e err_shape then "unmarshal-member" else e)
    | Panic => Panic
    end))).
  Definition marshal_stats (t : stats_ty) (v : gval) : result jv := marshal (stats_fty t) v.

  (* ---- the values the property speaks about ---- *)
  Section All2.
    Variable P : fdecl -> gval -> Prop.
    Fixpoint all2 (fs : list fdecl) (vs : list gval) : Prop :=
      match fs, vs with
      | [], [] => True
      | fd :: fs', v :: vs' => P fd v /\ all2 fs' vs'
      | _, _ => False
      end.
  End All2.

  (* v is a value of Go type t: integers in the range of their width, an enum
     member within its const block, a map in its canonical (key-sorted)
     representation *)
  Fixpoint has_type (t : fty) (v : gval) {struct t} : Prop :=
    match t, v with
    | TStr, GStr _ | TBool, GBool _ | TFloat, GFlt _ => True
    | TUint bits, GInt z => in_uint bits z = true
    | TInt bits, GInt z => in_int bits z = true
    | TEnum name _, GInt z => exists ed, enum_coder name = Ok ed /\ In z (e_declared (fst ed))
    | TSlice e, GSlice None | TMap e, GMap None | TPtr e, GPtr None => True
    | TSlice e, GSlice (Some l) => Forall (has_type e) l
    | TMap e, GMap (Some l) => sorted_keys l /\ Forall (fun kv => has_type e (snd kv)) l
    | TPtr e, GPtr (Some p) => has_type e p
    | TStruct fs, GStruct vs => all2 (fun fd v => has_type (fd_ty fd) v) fs vs
    | _, _ => False
    end.

  (* where the decoder loses information:
     (a) an enum member holding the Unknown constant of an enum whose decoder
         has an error default (ICECandidateType, SDPType);
     (b) a member with omitempty whose value is empty but not the zero value:
         an empty non-nil slice or map (comes back nil), a float -0 (comes
         back +0).  [survives] excludes exactly these. *)
  Fixpoint survives (t : fty) (v : gval) {struct t} : Prop :=
    match t, v with
    | TEnum name _, GInt z =>
        forall ed, enum_coder name = Ok ed -> ~ unknown_rejected (e_json (fst ed)) (fst ed) z
    | TSlice e, GSlice (Some l) => Forall (survives e) l
    | TMap e, GMap (Some l) => Forall (fun kv => survives e (snd kv)) l
    | TPtr e, GPtr (Some p) => survives e p
    | TStruct fs, GStruct vs =>
        all2 (fun fd v => survives (fd_ty fd) v /\
                          (fd_omit fd = true -> is_empty v = true -> v = zero_of (fd_ty fd))) fs vs
    | _, _ => True
    end.

  (* clause (a) alone: no enum member at a rejected Unknown constant *)
  Fixpoint enum_ok (t : fty) (v : gval) {struct t} : Prop :=
    match t, v with
    | TEnum name _, GInt z =>
        forall ed, enum_coder name = Ok ed -> ~ unknown_rejected (e_json (fst ed)) (fst ed) z
    | TSlice e, GSlice (Some l) => Forall (enum_ok e) l
    | TMap e, GMap (Some l) => Forall (fun kv => enum_ok e (snd kv)) l
    | TPtr e, GPtr (Some p) => enum_ok e p
    | TStruct fs, GStruct vs => all2 (fun fd v => enum_ok (fd_ty fd) v) fs vs
    | _, _ => True
    end.

  (* the negation of clause (a) at the top level of a struct: some member
     without omitempty is an enum at a rejected Unknown constant *)
  Definition bad_enum_member (fs : list fdecl) (vs : list gval) : Prop :=
    exists pre fd post vpre z vpost name custom ed,
      fs = (pre ++ fd :: post)%list /\ vs = (vpre ++ GInt z :: vpost)%list /\
      List.length pre = List.length vpre /\
      fd_ty fd = TEnum name custom /\ fd_omit fd = false /\
      enum_coder name = Ok ed /\ unknown_rejected (e_json (fst ed)) (fst ed) z.

  (* (c) a pointer to a value that itself prints as null (a nil slice, map or
         pointer): null comes back as the nil pointer *)
  Fixpoint prints_null (v : gval) : bool :=
    match v with
    | GSlice None | GMap None | GPtr None => true
    | GPtr (Some p) => prints_null p
    | _ => false
    end.
  Fixpoint ptr_ok (t : fty) (v : gval) {struct t} : Prop :=
    match t, v with
    | TSlice e, GSlice (Some l) => Forall (ptr_ok e) l
    | TMap e, GMap (Some l) => Forall (fun kv => ptr_ok e (snd kv)) l
    | TPtr e, GPtr (Some p) => ptr_ok e p /\ prints_null p = false
    | TStruct fs, GStruct vs => all2 (fun fd v => ptr_ok (fd_ty fd) v) fs vs
    | _, _ => True
    end.
  Definition lossless (t : fty) (v : gval) : Prop := survives t v /\ ptr_ok t v.

  (* the Type / Kind members of a Stats value *)
  Fixpoint member (name : string) (fs : list fdecl) (vs : list gval) : option gval :=
    match fs, vs with
    | fd :: fs', v :: vs' => if String.eqb (fd_json fd) name then Some v else member name fs' vs'
    | _, _ => None
    end.
  Definition str_member_of (name : string) (t : stats_ty) (v : gval) : string :=
    match v with
    | GStruct vs => match member name (shape_of t) vs with Some (GStr s) => s | _ => "" end
    | _ => ""
    end.
  (* a Stats value carrying its own type's tag (and the kind the dispatch needs) *)
  Definition own_tag (t : stats_ty) (v : gval) : Prop :=
    exists req, In (str_member_of "type" t v, req) (stats_tags t) /\
                kind_ok req (str_member_of "kind" t v).
  Fixpoint set_member (name : string) (x : gval) (fs : list fdecl) (vs : list gval) : list gval :=
    match fs, vs with
    | fd :: fs', v :: vs' =>
        if String.eqb (fd_json fd) name then x :: vs' else v :: set_member name x fs' vs'
    | _, _ => vs
    end.
  (* the zero value of a Stats type but for its Type (and Kind) member *)
  Definition stats_zero (t : stats_ty) (tag kind : string) : gval :=
    match zero_of (stats_fty t) with
    | GStruct vs => GStruct (set_member "kind" (GStr kind) (shape_of t)
                               (set_member "type" (GStr tag) (shape_of t) vs))
    | other => other
    end.
End Coders.

(* ------------------------------------------------------------------ *)
(* a concrete instance, used by the correspondence runs (Check/C38.v) and by
   the witnesses: a float64 is its bit pattern; a number literal is what
   strconv makes of it as an integer and as a float64 (either may fail) *)
Definition cnum : Type := (option Z * option Z)%type.
Definition c_num_of_int (z : Z) : cnum := (Some z, None).
Definition c_num_of_flt (f : Z) : cnum := (None, Some f).
Definition c_int_of_num (n : cnum) : option Z := fst n.
Definition c_flt_of_num (n : cnum) : option Z := snd n.
Definition c_fzero : Z := 0.
Definition c_fis_zero (f : Z) : bool := orb (Z.eqb f 0) (Z.eqb f (2 ^ 63)).   (* +0 and -0 *)

Definition c_marshal := marshal cnum Z c_num_of_int c_num_of_flt c_fis_zero.
Definition c_unmarshal := unmarshal cnum Z c_int_of_num c_flt_of_num c_fzero.
Definition c_marshal_stats := marshal_stats cnum Z c_num_of_int c_num_of_flt c_fis_zero.
Definition c_unmarshal_stats := unmarshal_stats cnum Z c_int_of_num c_flt_of_num c_fzero.
Definition c_stats_roundtrip (t : stats_ty) (v : gval Z) : result (stats_ty * gval Z) :=
  rbind (c_marshal_stats t v) c_unmarshal_stats.

