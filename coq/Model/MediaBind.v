(* C23: TrackLocalStaticRTP.Bind with the codec comparison INSIDE the model.

   Model/MediaPath.v describes Bind over a haystack of (payload type, match
   class) pairs and leaves the class of one candidate abstract.  Here the class
   is computed: the haystack is the sender's negotiated codec list as full
   RTPCodecParameters (mime type, clock rate, channels, SDPFmtpLine, payload
   type), the needle is the track's RTPCodecCapability, and one candidate's
   class is what rtpcodec.go:codecParametersFuzzySearch decides for it
   (Model/Codec.v exact_ok / partial_ok over Model/Fmtp.v, the transcription of
   internal/fmtp: for H264 packetization-mode and the first two bytes of
   profile-level-id -- profile_idc AND profile-iop --, for VP9 profile-id, for
   AV1 profile).  Definitions only. *)
From Coq Require Import List NArith String Bool.
Import ListNotations.
From Verif Require Import Common.Base Model.Fmtp.
From Verif Require Model.Codec Model.MediaPath.
Open Scope N_scope.

(* codecParametersFuzzySearch on the singleton haystack [c] *)
Definition match_class (needle c : Codec.codec) : N :=
  if Codec.exact_ok needle c then 2
  else if Codec.partial_ok needle c then 1
  else 0.

Definition class_vector (needle : Codec.codec) (hay : list Codec.codec) : list (N * N) :=
  map (fun c => (Codec.c_pt c, match_class needle c)) hay.

(* Bind: parameters := RTPCodecParameters{RTPCodecCapability: s.codec};
   codecParametersFuzzySearch(parameters, trackContext.CodecParameters()) *)
Definition bind_codec (ctx_ssrc : N) (needle : Codec.codec) (hay : list Codec.codec)
  : option MediaPath.binding :=
  MediaPath.bind ctx_ssrc (class_vector needle hay).

(* the track's capability as a needle: no payload type, no feedback *)
Definition needle_of (mime : string) (clock channels : N) (line : string) : Codec.codec :=
  Codec.mkCodec mime clock channels line [] 0.

(* RegisterDefaultCodecs' video table (Model/Fmtp.v default_video) as a haystack *)
Definition default_video_codecs : list Codec.codec :=
  map (fun p => Codec.mkCodec (d_mime (fst p)) (d_clock (fst p)) (d_channels (fst p))
                              (d_line (fst p)) [] (snd p)) default_video.

Definition is_h264 (c : Codec.codec) : bool := eq_fold (Codec.c_mime c) "video/h264".
Definition plid_of (c : Codec.codec) : option string :=
  plookup "profile-level-id" (parse_parameters (Codec.c_line c)).
Definition pmode_of (c : Codec.codec) : option string :=
  plookup "packetization-mode" (parse_parameters (Codec.c_line c)).
