(* C29: TrackLocalStaticRTP (track_local_static.go) -- the bindings slice with
   the code's append / swap-delete discipline and the write loop over a local
   copy of the caller's packet.  No proofs here.

   Bind:    if the context's codecs match the track's codec:
              s.bindings = append(s.bindings, trackBinding{ssrc, payloadType, writeStream, id})
              return codec, nil
            else return ErrUnsupportedCodec
   Unbind:  for i := range s.bindings { if s.bindings[i].id == t.ID() {
              s.bindings[i] = s.bindings[len(s.bindings)-1]
              s.bindings = s.bindings[:len(s.bindings)-1]
              return nil } }
            return ErrUnbindFailed
   WriteRTP: packet := pool.Get(); *packet = *p; writeRTP(packet)
   writeRTP: for _, b := range s.bindings {
              packet.Header.SSRC = b.ssrc; packet.Header.PayloadType = b.payloadType
              if packet.PaddingSize != 0 && packet.Header.PaddingSize == 0 {
                packet.Header.PaddingSize = packet.PaddingSize }
              if _, err := b.writeStream.WriteRTP(&packet.Header, packet.Payload); err != nil { collect } }
            return FlattenErrs(collected)
   Write(b): packet := pool.Get(); if err = packet.Unmarshal(b); err != nil { return 0, err }
            return len(b), s.writeRTP(packet)
   rtp.Packet.Unmarshal is outside the repo: the model takes it as a parameter
   [unm] (Section variable); theorems state what they need of it as premises. *)
From Coq Require Import String NArith ZArith Bool List.
Import ListNotations.
From Verif Require Import Common.V Common.Base.
Open Scope N_scope.

(* one successful Bind *)
Record binding := mkB {
  b_id : nat;       (* trackContext.ID() *)
  b_ssrc : N;       (* trackContext.SSRC() *)
  b_pt : N;         (* payload type of the matched codec *)
  b_w : nat;        (* identity of trackContext.WriteStream() *)
  b_fail : bool     (* that writer returns an error from WriteRTP *)
}.

(* an rtp.Packet: the three header fields the code touches, the deprecated
   Packet.PaddingSize, everything else of the header as an opaque blob, payload *)
Record pkt := mkP {
  p_ssrc : N;
  p_pt : N;
  p_hpad : N;       (* Header.PaddingSize *)
  p_ppad : N;       (* Packet.PaddingSize *)
  p_rest : list N;  (* version, padding flag, extension, marker, seq, timestamp, CSRCs, extensions *)
  p_payload : list N
}.

Inductive op :=
| Bind (id : nat) (ssrc : N) (codec : option N) (w : nat) (fail : bool)
      (* codec = result of the codec search on the context: Some pt / None *)
| Unbind (id : nat)
| Write (p : pkt)
| WriteRaw (raw : list N).     (* Write(b []byte) *)

(* what one writer sees in one WriteRTP call *)
Record delivery := mkD { d_w : nat; d_pkt : pkt }.

(* first index whose id matches (the range loop of Unbind) *)
Fixpoint find_id (id : nat) (l : list binding) : option nat :=
  match l with
  | [] => None
  | b :: t => if Nat.eqb (b_id b) id then Some O
              else match find_id id t with Some k => Some (S k) | None => None end
  end.

(* s.bindings[i] = s.bindings[len-1]; s.bindings = s.bindings[:len-1] *)
Definition swap_delete (l : list binding) (i : nat) : result (list binding) :=
  match nth_error l (length l - 1) with
  | None => Panic
  | Some lastb =>
      if Nat.ltb i (length l)
      then Ok (firstn (length l - 1) (firstn i l ++ lastb :: skipn (S i) l))
      else Panic
  end.

(* the range loop of writeRTP on the local packet; deliveries in call order *)
Fixpoint write_loop (bs : list binding) (loc : pkt) : list delivery * N :=
  match bs with
  | [] => ([], 0)
  | b :: t =>
      let hpad := if andb (negb (p_ppad loc =? 0)) (p_hpad loc =? 0) then p_ppad loc else p_hpad loc in
      let loc' := mkP (b_ssrc b) (b_pt b) hpad (p_ppad loc) (p_rest loc) (p_payload loc) in
      let (ds, errs) := write_loop t loc' in
      (mkD (b_w b) loc' :: ds, (if b_fail b then 1 else 0) + errs)
  end.

Inductive obs :=
| OBind (r : result N)                 (* payload type returned by Bind *)
| OUnbind (r : result unit)
| OWrite (errs : N) (ds : list delivery) (caller_after : pkt)
| OWriteRaw (r : result (N * list delivery)).   (* unmarshal error, or error count and deliveries *)

Section WithUnmarshal.
Variable unm : list N -> option pkt.    (* rtp.Packet.Unmarshal into a fresh pool packet; None = error *)

Definition step (s : list binding) (o : op) : result (list binding * obs) :=
  match o with
  | Bind id ssrc (Some pt) w fail => Ok (s ++ [mkB id ssrc pt w fail], OBind (Ok pt))
  | Bind _ _ None _ _ => Ok (s, OBind (Err "unsupported-codec"))
  | Unbind id =>
      match find_id id s with
      | Some i => match swap_delete s i with
                  | Ok s' => Ok (s', OUnbind (Ok tt))
                  | Err e => Err e
                  | Panic => Panic
                  end
      | None => Ok (s, OUnbind (Err "unbind-failed"))
      end
  | Write p =>
      let loc := p in                       (* *packet = *p *)
      let (ds, errs) := write_loop s loc in
      Ok (s, OWrite errs ds p)              (* the caller keeps p *)
  | WriteRaw raw =>
      match unm raw with
      | Some loc => let (ds, errs) := write_loop s loc in Ok (s, OWriteRaw (Ok (errs, ds)))
      | None => Ok (s, OWriteRaw (Err "unmarshal"))  (* return 0, err: no writer is called *)
      end
  end.

Fixpoint run (s : list binding) (ops : list op) : result (list binding * list obs) :=
  match ops with
  | [] => Ok (s, [])
  | o :: t =>
      match step s o with
      | Ok (s', ob) =>
          match run s' t with
          | Ok (s'', obs) => Ok (s'', ob :: obs)
          | Err e => Err e
          | Panic => Panic
          end
      | Err e => Err e
      | Panic => Panic
      end
  end.

End WithUnmarshal.

(* ---------------------------------------------------------------- spec *)
(* the set of bound senders as an unordered collection keyed by context id *)

Definition spec_step (s : list binding) (o : op) : list binding :=
  match o with
  | Bind id ssrc (Some pt) w fail => mkB id ssrc pt w fail :: s
  | Bind _ _ None _ _ => s
  | Unbind id => filter (fun b => negb (Nat.eqb (b_id b) id)) s
  | Write _ => s
  | WriteRaw _ => s
  end.

Definition spec_run (ops : list op) : list binding := fold_left spec_step ops [].

(* what a bound sender must receive for a written packet p *)
Definition rewritten (p : pkt) (b : binding) : delivery :=
  mkD (b_w b)
      (mkP (b_ssrc b) (b_pt b)
           (if p_hpad p =? 0 then p_ppad p else p_hpad p)   (* the padding size in effect, [eff_pad] *)
           (p_ppad p) (p_rest p) (p_payload p)).

(* the padding size in effect for a packet *)
Definition eff_pad (p : pkt) : N := if p_hpad p =? 0 then p_ppad p else p_hpad p.

(* API contract of RTPSender: a context id is bound at most once at a time.
   [sp] is the spec state reached so far. *)
Fixpoint wf_from (sp : list binding) (ops : list op) : Prop :=
  match ops with
  | [] => True
  | o :: t =>
      match o with
      | Bind id _ (Some _) _ _ => ~ In id (map b_id sp)
      | _ => True
      end /\ wf_from (spec_step sp o) t
  end.
Definition wf (ops : list op) : Prop := wf_from [] ops.

(* no (successful) Bind of [id] in [ops] *)
Fixpoint no_bind (id : nat) (ops : list op) : Prop :=
  match ops with
  | [] => True
  | Bind id' _ (Some _) _ _ :: t => id' <> id /\ no_bind id t
  | _ :: t => no_bind id t
  end.
