(* Two pion peers exchanging the descriptions they generate (properties C06, C07,
   C09): what one peer reads from a description the other generated, the pair
   system, and the guard "orderly" (no glare; every applied local description is
   delivered, and accepted, before the next one is applied).  Definitions only;
   proofs are in Proofs/JsepMidPair.v. *)
From Coq Require Import List ZArith String Bool.
Import ListNotations.
From Verif Require Import Common.Base Model.JsepMid Model.JsepMidSpec.
Open Scope string_scope.
Open Scope list_scope.

(* what SetRemoteDescription's accessors (media type, getMidValue,
   getPeerDirection, port) read in a section pion generated; a rejected section
   lists no codec, every other section lists the codecs of its kind *)
Definition to_rsection (x : lsection) : rsection :=
  {| r_kind := l_kind x;
     r_mid := match l_mid x with Some m => m | None => EmptyString end;
     r_dir := l_dir x; r_port0 := l_port0 x; r_codec := l_creds x |}.
Fixpoint join_sp (l : list string) : string :=
  match l with
  | [] => EmptyString
  | [x] => x
  | x :: rest => String.append x (String.append " " (join_sp rest))
  end.
Definition to_remote (d : ldesc) : rdesc :=
  {| r_secs := map to_rsection (l_secs d);
     r_group := match l_bundle d with [] => None | b => Some (String.append "BUNDLE " (join_sp b)) end |}.

(* one peer: its state, the ghost record of the chain theorem, and the local
   description it applied last and has not sent yet *)
Record peer := { p_st : st; p_gh : ghost; p_out : option (sdpty * ldesc) }.
Definition peer0 : peer := {| p_st := init; p_gh := ghost0; p_out := None |}.

Definition local_desc (s : st) (ty : sdpty) : option ldesc :=
  match ty with TOffer => last_offer s | _ => last_answer s end.

(* a call on one peer *)
Definition peer_call (p : peer) (o : op) : peer :=
  let '(s', out) := step (p_st p) o in
  {| p_st := s'; p_gh := ghost_step (p_gh p) (p_st p) o out;
     p_out := match o with
              | SetLocal ty =>
                  match local_next (sig (p_st p)) ty, local_desc (p_st p) ty with
                  | Some _, Some d => Some (ty, d)
                  | _, _ => p_out p
                  end
              | _ => p_out p
              end |}.

Inductive pop :=
| PCall (a : bool) (o : op)    (* a call on peer A (true) or B (false) *)
| PDeliver (a : bool).         (* what peer A (true) / B (false) applied last reaches the other peer *)

Definition sent (p : peer) : peer := {| p_st := p_st p; p_gh := p_gh p; p_out := None |}.

Definition pstep (ab : peer * peer) (po : pop) : peer * peer :=
  let '(A, B) := ab in
  match po with
  | PCall true o => (peer_call A o, B)
  | PCall false o => (A, peer_call B o)
  | PDeliver true =>
      match p_out A with
      | Some (ty, d) => (sent A, peer_call B (SetRemote ty (to_remote d)))
      | None => (A, B)
      end
  | PDeliver false =>
      match p_out B with
      | Some (ty, d) => (peer_call A (SetRemote ty (to_remote d)), sent B)
      | None => (A, B)
      end
  end.

Definition prun_from (ab : peer * peer) (sched : list pop) : peer * peer := fold_left pstep sched ab.
Definition prun (sched : list pop) : peer * peer := prun_from (peer0, peer0) sched.

Fixpoint ptrace_from (ab : peer * peer) (sched : list pop) : list (peer * peer * pop) :=
  match sched with
  | [] => []
  | po :: rest => (ab, po) :: ptrace_from (pstep ab po) rest
  end.
Definition ptrace (sched : list pop) := ptrace_from (peer0, peer0) sched.

(* the guard of the pair theorem: on each peer the LOCAL part of the chain
   guard (C06's guard at CreateOffer / CreateAnswer, no stale description applied);
   between the peers, orderliness.  Nothing is asked of the descriptions that are
   delivered: they are what the other peer generated. *)
Definition call_guard (x y : peer) (o : op) : Prop :=
  match o with
  | SetRemote _ _ => False                 (* remote descriptions only arrive by PDeliver *)
  | SetLocal ty =>
      match local_next (sig (p_st x)) ty with
      | None => True
      | Some _ =>
          match ty with TOffer => g_offer_fresh (p_gh x) = true | _ => g_answer_fresh (p_gh x) = true end /\
          p_out x = None /\                                     (* the previous one has been sent *)
          (ty = TOffer -> sig (p_st y) = Stable /\ p_out y = None)   (* no glare *)
      end
  | _ => chain_guard (p_st x) (p_gh x) o
  end.
Definition deliver_guard (x y : peer) : Prop :=
  match p_out x with
  | None => True
  | Some (ty, _) => remote_next (sig (p_st y)) ty <> None     (* the receiver is in a state that accepts it *)
  end.
Definition pair_guard (ab : peer * peer) (po : pop) : Prop :=
  let '(A, B) := ab in
  match po with
  | PCall true o => call_guard A B o
  | PCall false o => call_guard B A o
  | PDeliver true => deliver_guard A B
  | PDeliver false => deliver_guard B A
  end.
Definition orderly (sched : list pop) : Prop :=
  forall ab po, In (ab, po) (ptrace sched) -> pair_guard ab po.
