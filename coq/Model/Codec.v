(* Codec negotiation: rtpcodec.go (codecParametersFuzzySearch,
   rtcpFeedbackIntersection, findRTXPayloadType, primaryPayloadTypeForRTXExists,
   filterUnattachedRTX), mediaengine.go (addCodec, matchRemoteCodec, pushCodecs,
   updateFromRemoteDescription (codec part), getCodecByPayload, getCodecsByKind),
   rtptransceiver.go (SetCodecPreferences, getCodecs,
   setCodecPreferencesFromRemoteDescription), transcribed statement by
   statement. Shared by C10, C15, C16. No proofs here. *)
From Coq Require Import List NArith String Ascii Bool DecimalString.
Import ListNotations.
From Verif Require Import Common.Base Model.Fmtp.
Open Scope string_scope.

(* ---------- records ---------- *)

Definition feedback := (string * string)%type.   (* RTCPFeedback{Type, Parameter} *)

Record codec := mkCodec {
  c_mime : string;
  c_clock : N;
  c_channels : N;
  c_line : string;               (* SDPFmtpLine *)
  c_fb : list feedback;
  c_pt : N                       (* PayloadType, uint8 *)
}.

(* RTPCodecParameters{} *)
Definition empty_codec : codec := mkCodec "" 0 0 "" [] 0.

Definition set_line (c : codec) (l : string) : codec :=
  mkCodec (c_mime c) (c_clock c) (c_channels c) l (c_fb c) (c_pt c).
Definition set_fb (c : codec) (f : list feedback) : codec :=
  mkCodec (c_mime c) (c_clock c) (c_channels c) (c_line c) f (c_pt c).
Definition set_pt (c : codec) (p : N) : codec :=
  mkCodec (c_mime c) (c_clock c) (c_channels c) (c_line c) (c_fb c) p.

Inductive mt := MNone | MPartial | MExact.
Definition mt_eqb (a b : mt) : bool :=
  match a, b with
  | MNone, MNone | MPartial, MPartial | MExact, MExact => true
  | _, _ => false
  end.

Inductive kind := KUnknown | KAudio | KVideo.
Definition kind_eqb (a b : kind) : bool :=
  match a, b with
  | KUnknown, KUnknown | KAudio, KAudio | KVideo, KVideo => true
  | _, _ => false
  end.

Definition codec_fmtp (c : codec) : fmtp :=
  fmtp_parse (c_mime c) (c_clock c) (c_channels c) (c_line c).

(* ---------- codecParametersFuzzySearch ---------- *)

Definition exact_ok (needle c : codec) : bool :=
  fmtp_match (codec_fmtp needle) (codec_fmtp c).

(* the fallback loop: the haystack entry's mime type selects the defaults *)
Definition partial_ok (needle c : codec) : bool :=
  eq_fold (c_mime c) (c_mime needle)
  && clock_rate_equal (c_mime c) (c_clock c) (c_clock needle)
  && channels_equal (c_mime c) (c_channels c) (c_channels needle).

Definition fuzzy_search (needle : codec) (hay : list codec) : codec * mt :=
  match find (exact_ok needle) hay with
  | Some c => (c, MExact)
  | None =>
      match find (partial_ok needle) hay with
      | Some c => (c, MPartial)
      | None => (empty_codec, MNone)
      end
  end.

(* ---------- rtcpFeedbackIntersection ---------- *)

Definition fb_eqb (a b : feedback) : bool :=
  String.eqb (fst a) (fst b) && String.eqb (snd a) (snd b).

Fixpoint fb_intersection (a b : list feedback) : list feedback :=
  match a with
  | [] => []
  | fa :: t => if existsb (fb_eqb fa) b then fa :: fb_intersection t b
               else fb_intersection t b
  end.

(* ---------- numbers in fmtp lines ---------- *)

Definition dec_of_N (n : N) : string := NilZero.string_of_uint (N.to_uint n).

Definition digit_val (c : ascii) : option N :=
  let n := N_of_ascii c in
  if N.leb 48 n && N.leb n 57 then Some (n - 48)%N else None.

Fixpoint parse_digits (s : string) (acc : N) : option N :=
  match s with
  | EmptyString => Some acc
  | String c t => match digit_val c with
                  | Some d => parse_digits t (10 * acc + d)%N
                  | None => None
                  end
  end.

(* strconv.ParseUint(s, 10, 8): digits only, not empty, at most 255 *)
Definition parse_uint8 (s : string) : option N :=
  match s with
  | EmptyString => None
  | _ => match parse_digits s 0 with
         | Some n => if N.leb n 255 then Some n else None
         | None => None
         end
  end.

(* strconv.Atoi followed by the 0..255 range test of
   primaryPayloadTypeForRTXExists: one optional sign, then digits *)
Definition parse_atoi_pt (s : string) : option N :=
  let body := match s with
              | String "+"%char t => Some (false, t)
              | String "-"%char t => Some (true, t)
              | _ => Some (false, s)
              end in
  match body with
  | Some (neg, d) =>
      match d with
      | EmptyString => None
      | _ => match parse_digits d 0 with
             | Some n => if neg then (if N.eqb n 0 then Some 0%N else None)
                         else if N.leb n 255 then Some n else None
             | None => None
             end
      end
  | None => None
  end.

(* strings.Replace(s, old, new, 1) for non-empty old *)
Fixpoint strip_prefix (p s : string) : option string :=
  match p with
  | EmptyString => Some s
  | String a p' => match s with
                   | String b s' => if Ascii.eqb a b then strip_prefix p' s' else None
                   | EmptyString => None
                   end
  end.
Fixpoint replace_first (old new s : string) : string :=
  match strip_prefix old s with
  | Some rest => new ++ rest
  | None => match s with
            | EmptyString => EmptyString
            | String c t => String c (replace_first old new t)
            end
  end.

(* ---------- addCodec ---------- *)

Definition same_codec_for_add (c codec : codec) : bool :=
  eq_fold (c_mime c) (c_mime codec)
  && clock_rate_equal (c_mime c) (c_clock c) (c_clock codec)
  && channels_equal (c_mime c) (c_channels c) (c_channels codec).

(* (new list, error?) *)
Definition add_codec (l : list codec) (c : codec) : list codec * bool :=
  match find (fun x => N.eqb (c_pt x) (c_pt c)) l with
  | Some x => if same_codec_for_add x c then (l, false) else (l, true)
  | None => ((l ++ [c])%list, false)
  end.

(* pushCodecs: every codec is tried, errors are joined *)
Definition push_codecs (neg : list codec) (cs : list codec) : list codec * bool :=
  fold_left (fun st c => let '(l, e) := add_codec (fst st) c in (l, snd st || e)) cs (neg, false).

(* ---------- matchRemoteCodec ---------- *)

Definition pt_is (p : N) (c : codec) : bool := N.eqb (c_pt c) p.

Definition apt_lookup (p : N) (exact partial : list codec) : option (codec * mt) :=
  match find (pt_is p) exact with
  | Some c => Some (c, MExact)
  | None => match find (pt_is p) partial with
            | Some c => Some (c, MPartial)
            | None => None
            end
  end.

Definition apt_rewrite (locals : list codec) (rc aptCodec : codec) (aptMatch : mt) (p : N) : codec :=
  let '(aptMatched, m) := fuzzy_search aptCodec locals in
  if mt_eqb m aptMatch
  then set_line rc (replace_first ("apt=" ++ dec_of_N p) ("apt=" ++ dec_of_N (c_pt aptMatched)) (c_line rc))
  else rc.

Definition match_remote (locals : list codec) (rc : codec) (exact partial : list codec)
  : result (codec * mt) :=
  match fmtp_parameter (codec_fmtp rc) "apt" with
  | Some apt =>
      match parse_uint8 apt with
      | None => Err "parse-apt"
      | Some p =>
          match apt_lookup p exact partial with
          | None => Ok (empty_codec, MNone)
          | Some (aptCodec, aptMatch) =>
              let toMatch := apt_rewrite locals rc aptCodec aptMatch p in
              let '(lc, m) := fuzzy_search toMatch locals in
              let m := match m, aptMatch with MExact, MPartial => MPartial | _, _ => m end in
              Ok (lc, m)
          end
      end
  | None => Ok (fuzzy_search rc locals)
  end.

(* ---------- updateFromRemoteDescription, codec part ---------- *)

Definition add_if_new (l : list codec) (c : codec) : list codec :=
  if existsb (pt_is (c_pt c)) l then l else (l ++ [c])%list.

(* one loop over the remote codecs *)
Fixpoint match_pass (locals : list codec) (rcs : list codec) (exact partial : list codec)
  : result (list codec * list codec) :=
  match rcs with
  | [] => Ok (exact, partial)
  | rc :: t =>
      match match_remote locals rc exact partial with
      | Ok (lc, m) =>
          let rc' := set_fb rc (fb_intersection (c_fb lc) (c_fb rc)) in
          match m with
          | MExact => match_pass locals t (add_if_new exact rc') partial
          | MPartial => match_pass locals t exact (add_if_new partial rc')
          | MNone => match_pass locals t exact partial
          end
      | Err e => Err e
      | Panic => Panic
      end
  end.

Definition match_passes (locals rcs : list codec) : result (list codec * list codec) :=
  rbind (match_pass locals rcs [] []) (fun ep => match_pass locals rcs (fst ep) (snd ep)).

(* "use exact matches when they exist, otherwise fall back to partial" *)
Definition chosen (ep : list codec * list codec) : list codec :=
  match fst ep with [] => snd ep | _ => fst ep end.

Record engine := mkEngine {
  e_video : list codec; e_audio : list codec;
  e_negV : bool; e_negA : bool;
  e_multi : bool;
  e_nvideo : list codec; e_naudio : list codec
}.

Definition new_engine (video audio : list codec) (multi : bool) : engine :=
  mkEngine video audio false false multi [] [].

Definition locals_of (e : engine) (k : kind) : list codec :=
  match k with KAudio => e_audio e | _ => e_video e end.

(* what happens with a remote section, as far as header extensions care:
   updateHeaderExtensionFromMediaSection is called iff this is true *)
Record sec_outcome := mkOutcome { so_ext_update : bool }.

(* a remote media section: its kind and the codecs codecsFromMediaDescription
   returns for it *)
Definition rsection := (kind * list codec)%type.

(* one iteration of the loop over desc.MediaDescriptions.
   Returns the engine, whether the header extensions of the section are
   applied, and an error (which ends the whole call). *)
Definition update_section (e : engine) (s : rsection) : engine * bool * option string :=
  let '(k, rcs) := s in
  let first_time :=
    match k with
    | KAudio => negb (e_negA e)
    | KVideo => negb (e_negV e)
    | KUnknown => false
    end in
  let e1 :=
    if first_time then
      match k with
      | KAudio => mkEngine (e_video e) (e_audio e) (e_negV e) true (e_multi e) (e_nvideo e) (e_naudio e)
      | _ => mkEngine (e_video e) (e_audio e) true (e_negA e) (e_multi e) (e_nvideo e) (e_naudio e)
      end
    else e in
  let continue_codecs :=
    first_time || (e_multi e && negb (kind_eqb k KUnknown)) in
  if negb continue_codecs then (e1, true, None)   (* default branch: extensions, then continue *)
  else
    let ext_before := negb first_time in            (* default branch ran first *)
    match match_passes (locals_of e1 k) rcs with
    | Err err => (e1, ext_before, Some err)
    | Panic => (e1, ext_before, Some "panic")
    | Ok ep =>
        match chosen ep with
        | [] => (e1, ext_before, None)              (* no match, not negotiated *)
        | cs =>
            match k with
            | KAudio =>
                let '(l, bad) := push_codecs (e_naudio e1) cs in
                let e2 := mkEngine (e_video e1) (e_audio e1) (e_negV e1) (e_negA e1) (e_multi e1) (e_nvideo e1) l in
                if bad then (e2, ext_before, Some "codec-already-registered") else (e2, true, None)
            | _ =>
                let '(l, bad) := push_codecs (e_nvideo e1) cs in
                let e2 := mkEngine (e_video e1) (e_audio e1) (e_negV e1) (e_negA e1) (e_multi e1) l (e_naudio e1) in
                if bad then (e2, ext_before, Some "codec-already-registered") else (e2, true, None)
            end
        end
    end.

(* the whole call: stops at the first error; the engine keeps what was done *)
Fixpoint update_from_remote (e : engine) (secs : list rsection) : engine * result unit :=
  match secs with
  | [] => (e, Ok tt)
  | s :: t =>
      match update_section e s with
      | (e', _, Some err) => (e', Err err)
      | (e', _, None) => update_from_remote e' t
      end
  end.

(* ---------- lookups ---------- *)

Definition get_codecs_by_kind (e : engine) (k : kind) : list codec :=
  match k with
  | KVideo => if e_negV e then e_nvideo e else e_video e
  | KAudio => if e_negA e then e_naudio e else e_audio e
  | KUnknown => []
  end.

Definition get_codec_by_payload (e : engine) (p : N) : result (codec * kind) :=
  match (if e_negV e then find (pt_is p) (e_nvideo e) else None) with
  | Some c => Ok (c, KVideo)
  | None =>
  match (if e_negA e then find (pt_is p) (e_naudio e) else None) with
  | Some c => Ok (c, KAudio)
  | None =>
  match (if negb (e_negV e) then find (pt_is p) (e_video e) else None) with
  | Some c => Ok (c, KVideo)
  | None =>
  match (if negb (e_negA e) then find (pt_is p) (e_audio e) else None) with
  | Some c => Ok (c, KAudio)
  | None => Err "codec-not-found"
  end end end end.

(* ---------- RTX helpers ---------- *)

Definition is_rtx (c : codec) : bool := eq_fold (c_mime c) "video/rtx".

(* primaryPayloadTypeForRTXExists: (isRTX, primaryExists); an RTX entry is not
   a primary (as repaired: "filterUnattachedRTX does not accept an RTX entry as
   the primary of another") *)
Definition primary_pt (p : N) (c : codec) : bool := pt_is p c && negb (is_rtx c).
Definition rtx_primary (needle : codec) (hay : list codec) : bool * bool :=
  if negb (is_rtx needle) then (false, false)
  else match fmtp_parameter (codec_fmtp needle) "apt" with
       | None => (true, false)
       | Some a => match parse_atoi_pt a with
                   | None => (true, false)
                   | Some p => (true, existsb (primary_pt p) hay)
                   end
       end.

(* filterUnattachedRTX: i runs from the last index down to 0 over the list as
   it is at that moment. Written over the not-yet-visited prefix (reversed) and
   the already-filtered suffix. *)
Fixpoint filter_rtx_go (rev_prefix : list codec) (suffix : list codec) : list codec :=
  match rev_prefix with
  | [] => suffix
  | c :: rp =>
      let whole := (rev rp ++ c :: suffix)%list in
      let '(isr, prim) := rtx_primary c whole in
      if isr && negb prim then filter_rtx_go rp suffix
      else filter_rtx_go rp (c :: suffix)
  end.
Definition filter_unattached_rtx (l : list codec) : list codec := filter_rtx_go (rev l) [].

(* findRTXPayloadType *)
Definition find_rtx_pt (needle : N) (hay : list codec) : N :=
  match find (fun c => String.eqb ("apt=" ++ dec_of_N needle) (c_line c)) hay with
  | Some c => c_pt c
  | None => 0%N
  end.

(* ---------- transceiver codec preferences ---------- *)

(* SetCodecPreferences against the engine's current list: None = error *)
Definition set_codec_preferences (engine_codecs prefs : list codec) : option (list codec) :=
  if forallb (fun c => negb (mt_eqb (snd (fuzzy_search c engine_codecs)) MNone)) prefs
  then Some (filter_unattached_rtx prefs) else None.

(* getCodecs *)
Definition get_codecs (engine_codecs prefs : list codec) : list codec :=
  match prefs with
  | [] => filter_unattached_rtx engine_codecs
  | _ =>
      filter_unattached_rtx
        (flat_map (fun codec =>
           let '(c, m) := fuzzy_search codec engine_codecs in
           match m with
           | MNone => []
           | _ =>
               let codec1 := if N.eqb (c_pt codec) 0 then set_pt codec (c_pt c) else codec in
               [set_fb codec1 (fb_intersection (c_fb codec1) (c_fb c))]
           end) prefs)
  end.

(* ---------- setCodecPreferencesFromRemoteDescription ---------- *)

(* remove the first element satisfying p (the inner loop breaks at the first hit) *)
Fixpoint remove_first {A} (p : A -> bool) (l : list A) : list A :=
  match l with
  | [] => []
  | a :: t => if p a then t else a :: remove_first p t
  end.

(* payloadMapping: remote payload type -> engine payload type; kept in
   ascending key order (Go ranges over the map in unspecified order) *)
Fixpoint pm_set (k v : N) (m : list (N * N)) : list (N * N) :=
  match m with
  | [] => [(k, v)]
  | (k', v') :: t =>
      if N.eqb k' k then (k, v) :: t
      else if N.ltb k k' then (k, v) :: (k', v') :: t
      else (k', v') :: pm_set k v t
  end.

(* filterByMatchType: remote codecs visited from the last to the first; the
   matched engine codec is removed from leftCodecs by its payload type (as
   repaired: "setCodecPreferencesFromRemoteDescription removes the matched media
   engine codec"); state =
   (remote codecs kept behind the cursor, leftCodecs, payloadMapping, result) *)
Fixpoint filter_by_match (want : mt) (rev_remote kept left : list codec)
         (pm : list (N * N)) (acc : list codec)
  : list codec * list codec * list (N * N) * list codec :=
  match rev_remote with
  | [] => (kept, left, pm, acc)
  | rc :: rp =>
      if is_rtx rc then filter_by_match want rp (rc :: kept) left pm acc
      else
        let '(mc, m) := fuzzy_search rc left in
        if mt_eqb m want then
          filter_by_match want rp kept
                          (remove_first (pt_is (c_pt mc)) left)
                          (pm_set (c_pt rc) (c_pt mc) pm)
                          (set_pt rc (c_pt mc) :: acc)
        else filter_by_match want rp (rc :: kept) left pm acc
  end.

(* the preference list handed to SetCodecPreferences *)
Definition prefs_from_remote (engine_codecs remote : list codec) : list codec :=
  let '(rem1, left1, pm1, exact) := filter_by_match MExact (rev remote) [] engine_codecs [] [] in
  let '(rem2, left2, pm2, partial) := filter_by_match MPartial (rev rem1) [] left1 pm1 [] in
  let rtx :=
    flat_map (fun kv =>
                let remoteRTX := find_rtx_pt (fst kv) rem2 in
                if N.eqb remoteRTX 0 then []
                else
                  let engineRTX := find_rtx_pt (snd kv) left2 in
                  if N.eqb engineRTX 0 then []
                  else match find (pt_is engineRTX) left2 with
                       | Some c => [c]
                       | None => []
                       end) pm2 in
  (exact ++ partial ++ rtx)%list.

(* the transceiver's preference list afterwards (an error leaves it empty) *)
Definition set_prefs_from_remote (engine_codecs remote : list codec) : list codec :=
  match set_codec_preferences engine_codecs (prefs_from_remote engine_codecs remote) with
  | Some l => l
  | None => []
  end.

(* ---------- vocabulary of the C15 statements (specification side) ---------- *)

(* the codec's apt parameter, as matchRemoteCodec reads it *)
Definition apt_of (c : codec) : option string := fmtp_parameter (codec_fmtp c) "apt".

(* c is r apart from the feedback list: same mime type, clock rate, channels,
   fmtp line and payload type *)
Definition same_but_fb (c r : codec) : Prop :=
  c_mime c = c_mime r /\ c_clock c = c_clock r /\ c_channels c = c_channels r /\
  c_line c = c_line r /\ c_pt c = c_pt r.

(* c is what updateFromRemoteDescription keeps for an offered codec r that
   matchRemoteCodec matched to the registered codec lc with match type m *)
Definition entry_of (locals rcs : list codec) (m : mt) (c : codec) : Prop :=
  exists r ex pa lc,
    In r rcs /\ match_remote locals r ex pa = Ok (lc, m) /\
    c = set_fb r (fb_intersection (c_fb lc) (c_fb r)).

Definition has_pt (p : N) (l : list codec) : Prop := exists q, In q l /\ c_pt q = p.

(* ---------- vocabulary of the C16 statements ---------- *)

(* same codec description: mime type, clock rate, channels, fmtp line *)
Definition same_desc (a b : codec) : Prop :=
  c_mime a = c_mime b /\ c_clock a = c_clock b /\ c_channels a = c_channels b /\ c_line a = c_line b.

(* o is "the same codec" as r in the sense of codecParametersFuzzySearch:
   an exact match (fmtp-aware) or equal mime type (ignoring case), clock rate
   and channels (modulo the defaults for 0) *)
Definition compatible (o r : codec) : Prop := exact_ok o r = true \/ partial_ok o r = true.

(* a preference entry that keeps its own payload type is harmless when that
   payload type is an offered one for a compatible codec *)
Definition pref_grounded (offered : list codec) (p : codec) : Prop :=
  exists r, In r offered /\ c_pt r = c_pt p /\ compatible p r.
