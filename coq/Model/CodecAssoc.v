(* The media side of a PeerConnection that answers remote offers, round after
   round: MediaEngine + header-extension state + the transceivers, with
   transceiver-to-section matching modelled instead of handed in.

     peerconnection.go   SetRemoteDescription(offer): updateFromRemoteDescription,
                         then per media section findByMid /
                         satisfyTypeAndDirection / new transceiver with
                         setCodecPreferencesFromRemoteDescription;
                         CreateAnswer -> generateMatchedSDP (findByMid per
                         offered section) -> addTransceiverSDP;
                         SetLocalDescription(answer);
                         AddTransceiverFromKind + SetCodecPreferences
   The matching, the direction switch and SetLocalDescription(answer) are the
   definitions of Model/AnswerDir.v (C08: find_by_mid, satisfy, set_remote,
   set_local_answer, local_op AddTr), used as they are; this file adds what the
   codec properties need beside them: per transceiver the preference list,
   whether it has a receiver and whether the remote description created it.
   Offered section i carries mid "i" (as in AnswerDir.v).  No proofs here. *)
From Coq Require Import List ZArith NArith String Bool Arith.
Import ListNotations.
From Verif Require Import Common.Base Model.Fmtp Model.Codec Model.HeaderExt Model.Section.
From Verif Require Model.AnswerDir.
Module AD := Verif.Model.AnswerDir.
Open Scope string_scope.

(* what a transceiver carries beside AnswerDir's record, by position *)
Record textra := mkExtra {
  tx_prefs : list codec;      (* t.codecs *)
  tx_recv : bool;             (* Receiver() != nil *)
  tx_remote : bool            (* created by SetRemoteDescription *)
}.

Record mpc := mkMpc {
  m_e : engine;
  m_x : xstate;
  m_trs : AD.pc;
  m_ext : list textra
}.

Definition new_mpc (e : engine) (x : xstate) : mpc := mkMpc e x [] [].

(* one media section of a remote offer *)
Record osec := mkOsec {
  os_kind : kind;
  os_dir : AD.dir;
  os_codecs : list codec;
  os_exts : list (Z * string)
}.

Definition os_rsec (o : osec) : rsec_x := mkRsec (os_kind o) (os_codecs o) (os_exts o).

Definition ad_kind (k : kind) : AD.kind := match k with KAudio => AD.Audio | _ => AD.Video end.
Definition kc (k : AD.kind) : kind := match k with AD.Audio => KAudio | AD.Video => KVideo end.

(* sections of unknown kind are skipped by both loops exactly like sections
   without a direction attribute: AnswerDir's DUnk *)
Definition ad_sec (o : osec) : AD.kind * AD.dir :=
  match os_kind o with
  | KUnknown => (AD.Video, AD.DUnk)
  | k => (ad_kind k, os_dir o)
  end.

Definition sends (d : AD.dir) : bool :=
  match d with AD.Sendrecv | AD.Sendonly => true | _ => false end.

(* AddTransceiverFromKind(kind, {Direction: d}) followed by
   SetCodecPreferences(prefs).  Result: state, AddTransceiverFromKind failed,
   SetCodecPreferences failed.  A sending transceiver needs a codec of the kind
   for its track (ErrNoCodecsAvailable). *)
Definition add_local (s : mpc) (k : kind) (d : AD.dir) (prefs : list codec) : mpc * bool * bool :=
  match d with
  | AD.Sendrecv | AD.Sendonly | AD.Recvonly =>
      if sends d && (match get_codecs_by_kind (m_e s) k with [] => true | _ => false end)
      then (s, true, false)
      else
        let '(p, perr) := apply_prefs (m_e s) k prefs in
        (mkMpc (m_e s) (m_x s) (fst (AD.local_op (m_trs s) (AD.AddTr (ad_kind k) d)))
               (m_ext s ++ [mkExtra p (negb (AD.dir_eqb d AD.Sendonly)) false])%list,
         false, perr)
  | _ => (s, true, false)
  end.

(* setCodecPreferencesFromRemoteDescription(media) on the transceiver just
   created for the section with its mid *)
Definition created_prefs (e : engine) (offer : list osec) (t : AD.tr) : list codec :=
  match AD.t_mid t with
  | Some m =>
      match nth_error offer m with
      | Some o => set_prefs_from_remote (get_codecs_by_kind e (kc (AD.t_kind t))) (os_codecs o)
      | None => []
      end
  | None => []
  end.

(* SetRemoteDescription(offer): the engine first (an error returns before the
   transceiver loop), then the loop *)
Definition srd_offer (s : mpc) (offer : list osec) : mpc * result unit :=
  match update_remote_x (m_e s) (m_x s) (map os_rsec offer) with
  | (e', x', Ok _) =>
      let p' := AD.set_remote (m_trs s) (map ad_sec offer) in
      let created := skipn (List.length (m_trs s)) p' in
      (mkMpc e' x' p'
             (m_ext s ++ map (fun t => mkExtra (created_prefs e' offer t) true true) created)%list,
       Ok tt)
  | (e', x', r) => (mkMpc e' x' (m_trs s) (m_ext s), r)
  end.

(* generateMatchedSDP: the transceiver of every offered section, by mid *)
Fixpoint assoc_secs (p : AD.pc) (cands : list nat) (m : nat) (offer : list osec)
  : result (list (osec * nat)) :=
  match offer with
  | [] => Ok []
  | o :: more =>
      match snd (ad_sec o) with
      | AD.DUnk => assoc_secs p cands (S m) more
      | _ =>
          match AD.find_by_mid p m cands with
          | (Some i, rest) => rbind (assoc_secs p rest (S m) more) (fun l => Ok ((o, i) :: l))
          | (None, _) => Err "mid-nil"
          end
      end
  end.

Definition assoc_of (s : mpc) (offer : list osec) : result (list (osec * nat)) :=
  assoc_secs (m_trs s) (seq 0 (List.length (m_trs s))) 0 offer.

Definition trans_at (s : mpc) (i : nat) : option trans :=
  match nth_error (m_trs s) i, nth_error (m_ext s) i with
  | Some t, Some x => Some (mkTrans (kc (AD.t_kind t)) (tx_prefs x) (AD.t_sender t) (tx_recv x))
  | _, _ => None
  end.

(* populateSDP / addTransceiverSDP over the matched sections, in offer order *)
Fixpoint answer_secs (s : mpc) (l : list (osec * nat)) : result (list lsection) :=
  match l with
  | [] => Ok []
  | (o, i) :: rest =>
      match trans_at s i with
      | Some t =>
          rbind (transceiver_section (m_e s) (m_x s) t (Some (os_exts o))) (fun sec =>
          rbind (answer_secs s rest) (fun r => Ok (sec :: r)))
      | None => Panic
      end
  end.

Definition create_answer (s : mpc) (offer : list osec) : result (list lsection) :=
  rbind (assoc_of s offer) (answer_secs s).

(* SetLocalDescription(answer) *)
Definition sld_answer (s : mpc) (offer : list osec) : mpc :=
  mkMpc (m_e s) (m_x s) (AD.set_local_answer (m_trs s) (map ad_sec offer)) (m_ext s).

(* one round: SetRemoteDescription(offer); CreateAnswer; SetLocalDescription *)
Definition exchange (s : mpc) (offer : list osec) : mpc * result (list lsection) :=
  match srd_offer s offer with
  | (s1, Ok _) =>
      match create_answer s1 offer with
      | Ok l => (sld_answer s1 offer, Ok l)
      | r => (s1, r)
      end
  | (s1, Err e) => (s1, Err e)
  | (s1, Panic) => (s1, Panic)
  end.

(* histories: local additions and exchanges *)
Inductive mop :=
| MAdd (k : kind) (d : AD.dir) (prefs : list codec)
| MExchange (offer : list osec).

Definition mstep (s : mpc) (o : mop) : mpc :=
  match o with
  | MAdd k d prefs => fst (fst (add_local s k d prefs))
  | MExchange offer => fst (exchange s offer)
  end.

Definition run_mops (s : mpc) (os : list mop) : mpc := fold_left mstep os s.
