(* Header-extension negotiation of mediaengine.go: RegisterHeaderExtension,
   updateHeaderExtension(FromMediaSection), getRTPParametersByKind.  The Go maps
   (negotiatedHeaderExtensions, mediaHeaderExtensions: id -> extension) are
   association lists kept in ascending id order; Go iterates them in
   unspecified order, so outputs are compared as sets (the harness sorts).
   No proofs here. *)
From Coq Require Import List ZArith NArith String Bool.
Import ListNotations.
From Verif Require Import Model.Codec.
Open Scope string_scope.

(* allowedDirections may only hold these two *)
Inductive tdir := DSendonly | DRecvonly.
Definition tdir_eqb (a b : tdir) : bool :=
  match a, b with DSendonly, DSendonly | DRecvonly, DRecvonly => true | _, _ => false end.

Record hext := mkHext { h_uri : string; h_audio : bool; h_video : bool; h_dirs : list tdir }.

Definition idmap := list (Z * hext).

Fixpoint id_lookup (id : Z) (m : idmap) : option hext :=
  match m with
  | [] => None
  | (i, h) :: t => if Z.eqb i id then Some h else id_lookup id t
  end.

(* m[id] = h, keeping ascending id order *)
Fixpoint id_set (id : Z) (h : hext) (m : idmap) : idmap :=
  match m with
  | [] => [(id, h)]
  | (i, h') :: t =>
      if Z.eqb i id then (id, h) :: t
      else if Z.ltb id i then (id, h) :: (i, h') :: t
      else (i, h') :: id_set id h t
  end.

Record xstate := mkX {
  x_ext : list hext;              (* headerExtensions, registration order *)
  x_neg : option idmap            (* negotiatedHeaderExtensions; None = nil map *)
}.

Definition x_empty : xstate := mkX [] None.

(* RegisterHeaderExtension (directions already validated by the caller side:
   only sendonly/recvonly can be expressed) *)
Fixpoint last_index_of (uri : string) (l : list hext) (i : nat) (found : option nat) : option nat :=
  match l with
  | [] => found
  | h :: t => last_index_of uri t (S i) (if String.eqb uri (h_uri h) then Some i else found)
  end.

Fixpoint update_nth {A} (n : nat) (f : A -> A) (l : list A) : list A :=
  match l, n with
  | [], _ => []
  | a :: t, O => f a :: t
  | a :: t, S n' => a :: update_nth n' f t
  end.

Definition register_ext (x : xstate) (uri : string) (k : kind) (dirs : list tdir) : xstate :=
  let neg := match x_neg x with None => Some [] | s => s end in
  let dirs := match dirs with [] => [DRecvonly; DSendonly] | _ => dirs end in
  let '(l, idx) :=
    match last_index_of uri (x_ext x) 0 None with
    | Some i => (x_ext x, i)
    | None => ((x_ext x ++ [mkHext "" false false []])%list, List.length (x_ext x))
    end in
  let upd h :=
    mkHext uri
           (match k with KAudio => true | _ => h_audio h end)
           (match k with KVideo => true | _ => h_video h end)
           dirs in
  mkX (update_nth idx upd l) neg.

(* updateHeaderExtension *)
Definition update_ext (x : xstate) (id : Z) (uri : string) (k : kind) : xstate :=
  match x_neg x with
  | None => x
  | Some m0 =>
      let m :=
        fold_left (fun m loc =>
                     if String.eqb (h_uri loc) uri then
                       let h := match id_lookup id m with
                                | Some existing => existing
                                | None => mkHext uri false false (h_dirs loc)
                                end in
                       let h :=
                         if h_audio loc && kind_eqb k KAudio then mkHext (h_uri h) true (h_video h) (h_dirs h)
                         else if h_video loc && kind_eqb k KVideo then mkHext (h_uri h) (h_audio h) true (h_dirs h)
                         else h in
                       id_set id h m
                     else m) (x_ext x) m0 in
      mkX (x_ext x) (Some m)
  end.

(* rtpExtensionsFromMediaDescription: map uri -> id, a later line for the same
   uri replaces the earlier one *)
Fixpoint uri_set (uri : string) (id : Z) (l : list (string * Z)) : list (string * Z) :=
  match l with
  | [] => [(uri, id)]
  | (u, i) :: t => if String.eqb u uri then (uri, id) :: t else (u, i) :: uri_set uri id t
  end.
Definition ext_map_of (exts : list (Z * string)) : list (string * Z) :=
  fold_left (fun acc e => uri_set (snd e) (fst e) acc) exts [].

(* updateHeaderExtensionFromMediaSection *)
Definition update_ext_section (x : xstate) (k : kind) (exts : list (Z * string)) : xstate :=
  match k with
  | KUnknown => x
  | _ => fold_left (fun x ui => update_ext x (snd ui) (fst ui) k) (ext_map_of exts) x
  end.

Definition dirs_intersect (allowed needle : list tdir) : bool :=
  existsb (fun n => existsb (tdir_eqb n) allowed) needle.

Definition kind_flag (h : hext) (k : kind) : bool :=
  match k with KAudio => h_audio h | KVideo => h_video h | KUnknown => false end.

Definition neg_of (x : xstate) : idmap := match x_neg x with Some m => m | None => [] end.

(* first id in 1..14 that is in neither map *)
Fixpoint first_free (ids : list Z) (media neg : idmap) : option Z :=
  match ids with
  | [] => None
  | id :: t =>
      match id_lookup id media, id_lookup id neg with
      | None, None => Some id
      | _, _ => first_free t media neg
      end
  end.
Definition one_byte_ids : list Z := [1;2;3;4;5;6;7;8;9;10;11;12;13;14]%Z.

(* the id under which a URI sits in the negotiated map (first in id order) *)
Definition neg_id_of_uri (uri : string) (neg : idmap) : option Z :=
  match find (fun ih => String.eqb (h_uri (snd ih)) uri) neg with
  | Some ih => Some (fst ih)
  | None => None
  end.

(* the not-yet-negotiated branch: id assignment for every registered extension *)
Definition assign_ids (x : xstate) : idmap :=
  fold_left (fun media ext =>
               match neg_id_of_uri (h_uri ext) (neg_of x) with
               | Some id => id_set id ext media
               | None => match first_free one_byte_ids media (neg_of x) with
                         | Some id => id_set id ext media
                         | None => media
                         end
               end) (x_ext x) [].

Definition select_exts (m : idmap) (k : kind) (dirs : list tdir) : list (Z * string) :=
  flat_map (fun ih => if dirs_intersect (h_dirs (snd ih)) dirs && kind_flag (snd ih) k
                      then [(fst ih, h_uri (snd ih))] else []) m.

(* getRTPParametersByKind(...).HeaderExtensions *)
Definition ext_params (x : xstate) (negotiated : bool) (k : kind) (dirs : list tdir) : list (Z * string) :=
  if negotiated then select_exts (neg_of x) k dirs
  else select_exts (assign_ids x) k dirs.

(* addTransceiverSDP: with matchExtensions only URIs of the remote section stay *)
Definition filter_match (match_exts : option (list (Z * string))) (l : list (Z * string)) : list (Z * string) :=
  match match_exts with
  | None => l
  | Some rem => filter (fun iu => existsb (fun r => String.eqb (snd r) (snd iu)) rem) l
  end.
