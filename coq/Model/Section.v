(* Generated media sections (sdp.go addTransceiverSDP, codec and extmap part):
   the section of one transceiver, the sections of a first offer, the remote
   description with header extensions.  Which transceiver answers which offered
   section is modelled in Model/CodecAssoc.v; answer_sections below takes the
   association as an argument and is kept for the single-description witnesses
   of Proofs/Section.v.  No proofs here. *)
From Coq Require Import List ZArith NArith String Ascii Bool.
Import ListNotations.
From Verif Require Import Common.Base Model.Fmtp Model.Codec Model.HeaderExt.
Open Scope string_scope.

(* len(s) >= len(p) && strings.EqualFold(s[:len(p)], p): the rest of s *)
Fixpoint strip_prefix_fold (p s : string) : option string :=
  match p with
  | EmptyString => Some s
  | String a p' => match s with
                   | String b s' => if Ascii.eqb (lower_ascii a) (lower_ascii b)
                                    then strip_prefix_fold p' s' else None
                   | EmptyString => None
                   end
  end.
Definition trim_prefix_fold (p s : string) : string :=
  match strip_prefix_fold p s with Some r => r | None => s end.

(* the media type is stripped ignoring case (as repaired: "addTransceiverSDP
   strips the media type of a mime type ignoring case") *)
Definition codec_name (c : codec) : string :=
  trim_prefix_fold "video/" (trim_prefix_fold "audio/" (c_mime c)).

(* the attribute lines one codec contributes, in order *)
Definition codec_lines (c : codec) : list (string * string) :=
  let pt := dec_of_N (c_pt c) in
  let rtpmap := pt ++ " " ++ codec_name c ++ "/" ++ dec_of_N (c_clock c)
                ++ (if N.ltb 0 (c_channels c) then "/" ++ dec_of_N (c_channels c) else "") in
  (("rtpmap", rtpmap)
   :: (if String.eqb (c_line c) "" then [] else [("fmtp", pt ++ " " ++ c_line c)]))
  ++ map (fun f => ("rtcp-fb", pt ++ " " ++ fst f ++ (if String.eqb (snd f) "" then "" else " " ++ snd f)))
         (c_fb c).

Record lsection := mkSection {
  l_rejected : bool;                    (* port 0, formats "0", no attributes of ours *)
  l_codecs : list codec;                (* in m= line order *)
  l_exts : list (Z * string)            (* extmap id, uri *)
}.

Definition sec_formats (s : lsection) : list N := map c_pt (l_codecs s).
Definition sec_attr_lines (s : lsection) : list (string * string) := flat_map codec_lines (l_codecs s).

(* a transceiver as far as its section is concerned *)
Record trans := mkTrans {
  t_kind : kind;
  t_prefs : list codec;                 (* t.codecs *)
  t_sender : bool;
  t_receiver : bool
}.

Definition trans_dirs (t : trans) : list tdir :=
  (if t_sender t then [DSendonly] else []) ++ (if t_receiver t then [DRecvonly] else []).

Definition negotiated_kind (e : engine) (k : kind) : bool :=
  match k with KVideo => e_negV e | KAudio => e_negA e | KUnknown => false end.

(* addTransceiverSDP, projected *)
Definition transceiver_section (e : engine) (x : xstate) (t : trans)
           (match_exts : option (list (Z * string))) : result lsection :=
  let codecs := get_codecs (get_codecs_by_kind e (t_kind t)) (t_prefs t) in
  match codecs with
  | [] => if t_sender t then Err "sender-with-no-codecs" else Ok (mkSection true [] [])
  | _ =>
      Ok (mkSection false codecs
            (filter_match match_exts
               (ext_params x (negotiated_kind e (t_kind t)) (t_kind t) (trans_dirs t))))
  end.

Fixpoint sections_of (e : engine) (x : xstate) (ts : list (trans * option (list (Z * string))))
  : result (list lsection) :=
  match ts with
  | [] => Ok []
  | (t, me) :: rest =>
      rbind (transceiver_section e x t me) (fun s =>
      rbind (sections_of e x rest) (fun r => Ok (s :: r)))
  end.

(* SetCodecPreferences on a transceiver: error leaves t.codecs as it was (empty) *)
Definition apply_prefs (e : engine) (k : kind) (prefs : list codec) : list codec * bool :=
  match set_codec_preferences (get_codecs_by_kind e k) prefs with
  | Some l => (l, false)
  | None => ([], true)
  end.

(* ---------- remote description with header extensions ---------- *)

Record rsec_x := mkRsec { rs_kind : kind; rs_codecs : list codec; rs_exts : list (Z * string) }.

Fixpoint update_remote_x (e : engine) (x : xstate) (secs : list rsec_x) : engine * xstate * result unit :=
  match secs with
  | [] => (e, x, Ok tt)
  | s :: t =>
      match update_section e (rs_kind s, rs_codecs s) with
      | (e', do_ext, err) =>
          let x' := if do_ext then update_ext_section x (rs_kind s) (rs_exts s) else x in
          match err with
          | Some msg => (e', x', Err msg)
          | None => update_remote_x e' x' t
          end
      end
  end.

(* ---------- answer path ---------- *)

(* a remote section together with the local transceiver the PeerConnection
   gives it: Some t = an existing one (its preference list and sender/receiver),
   None = a transceiver created from the remote description (receiver only) *)
Definition answer_trans (e : engine) (s : rsec_x) (local : option trans) : trans :=
  match local with
  | Some t => t
  | None => mkTrans (rs_kind s)
                    (set_prefs_from_remote (get_codecs_by_kind e (rs_kind s)) (rs_codecs s))
                    false true
  end.

Definition answer_sections (e : engine) (x : xstate) (secs : list (rsec_x * option trans))
  : result (list lsection) :=
  sections_of e x (map (fun st => (answer_trans e (fst st) (snd st), Some (rs_exts (fst st)))) secs).

(* ---------- C10 as a predicate on a generated section (specification side) ---------- *)

Fixpoint nodup_N (l : list N) : bool :=
  match l with
  | [] => true
  | a :: t => negb (existsb (N.eqb a) t) && nodup_N t
  end.
Fixpoint nodup_Z (l : list Z) : bool :=
  match l with
  | [] => true
  | a :: t => negb (existsb (Z.eqb a) t) && nodup_Z t
  end.
Fixpoint nodup_str (l : list string) : bool :=
  match l with
  | [] => true
  | a :: t => negb (existsb (String.eqb a) t) && nodup_str t
  end.

(* every RTX entry's apt names a listed payload type *)
Definition rtx_apts_listed (l : list codec) : bool :=
  forallb (fun c => if is_rtx c then
                      match apt_of c with
                      | Some a => match parse_atoi_pt a with
                                  | Some p => existsb (pt_is p) l
                                  | None => false
                                  end
                      | None => false
                      end
                    else true) l.

Definition section_ok (s : lsection) : bool :=
  nodup_N (sec_formats s)
  && rtx_apts_listed (l_codecs s)
  && nodup_Z (map fst (l_exts s))
  && forallb (fun iu => Z.leb 1 (fst iu) && Z.leb (fst iu) 14) (l_exts s)
  && nodup_str (map snd (l_exts s)).
