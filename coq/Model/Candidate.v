(* C25: ICE candidates through their signalling form.
   icecandidate.go: setExtensions / exportExtensions (the hand-written joiner and
   splitter, transcribed character by character), newICECandidateFromICE / ToICE
   (field mapping); peerconnection.go: AddICECandidate's ufrag filter.
   pion/ice's candidate objects are records of what their getters return;
   AddExtension is transcribed as the contract it documents (tcptype is kept in
   its own field, an empty key is an error, an existing key is replaced).
   Strings are lists of characters (Go bytes).  No proofs here. *)
From Coq Require Import String Ascii NArith Bool List.
Import ListNotations.
From Verif Require Import Common.V Common.Base.

Definition str := list ascii.
Definition sp : ascii := " "%char.
Definition is_sp (c : ascii) : bool := Ascii.eqb c sp.
Fixpoint str_eqb (a b : str) : bool :=
  match a, b with
  | [], [] => true
  | x :: a', y :: b' => Ascii.eqb x y && str_eqb a' b'
  | _, _ => false
  end.
Definition is_empty (s : str) : bool := match s with [] => true | _ => false end.
Definition ext := (str * str)%type.

(* ---- setExtensions:
     for i := range ext { if i > 0 { WriteString(" ") }; WriteString(ext[i].Key + " " + ext[i].Value) } *)
Fixpoint join_exts (l : list ext) : str :=
  match l with
  | [] => []
  | [(k, v)] => k ++ sp :: v
  | (k, v) :: t => k ++ sp :: v ++ sp :: join_exts t
  end.

(* ---- exportExtensions: the calls to cand.AddExtension, in order.
     for i, start := 0, 0; i < len(extensions); i++ {
       switch { case extensions[i] == ' ': field = extensions[start:i]; start = i + 1
                case i == len(extensions)-1: field = extensions[start:]
                default: continue }
       hasKey := ext.Key != ""
       if !hasKey { ext.Key = field } else { ext.Value = field }
       if hasKey || i == len(extensions)-1 { AddExtension(ext); ext = CandidateExtension{} } }
   [cur] = extensions[start:i] so far, [key] = ext.Key ("" = none yet). *)
Fixpoint split_go (l : str) (cur key : str) : list ext :=
  match l with
  | [] => []
  | c :: t =>
      let last := is_empty t in
      if is_sp c || last then
        let field := if is_sp c then cur else cur ++ [c] in
        let hasKey := negb (is_empty key) in
        if hasKey || last then
          (if hasKey then (key, field) else (field, [])) :: split_go t [] []
        else split_go t [] field
      else split_go t (cur ++ [c]) key
  end.
Definition split_exts (s : str) : list ext := split_go s [] [].

(* ---- pion/ice candidate as seen through its getters *)
Inductive ctype := THost | TSrflx | TPrflx | TRelay.
Inductive proto := PUdp | PTcp.
Inductive tcpt := TcpNone | TcpActive | TcpPassive | TcpSo.

Definition s (x : string) : str := list_ascii_of_string x.
Definition tcp_string (t : tcpt) : str :=
  match t with TcpNone => [] | TcpActive => s "active" | TcpPassive => s "passive" | TcpSo => s "so" end.
(* ice.NewTCPType on the strings TCPType.String() produces *)
Definition tcp_of_string (x : str) : tcpt :=
  if str_eqb x (s "active") then TcpActive
  else if str_eqb x (s "passive") then TcpPassive
  else if str_eqb x (s "so") then TcpSo else TcpNone.

Record ice_cand := mkIce {
  i_type : ctype;
  i_net : proto;                 (* NetworkType().NetworkShort() *)
  i_foundation : str;
  i_component : N;
  i_priority : N;
  i_address : str;
  i_port : N;
  i_related : option (str * N);  (* RelatedAddress() *)
  i_tcp : tcpt;
  i_exts : list ext              (* c.extensions: everything but tcptype *)
}.

(* Extensions(): tcptype first when set *)
Definition i_extensions (i : ice_cand) : list ext :=
  match i_tcp i with
  | TcpNone => i_exts i
  | t => (s "tcptype", tcp_string t) :: i_exts i
  end.

(* AddExtension *)
Fixpoint replace_key (k v : str) (l : list ext) : option (list ext) :=
  match l with
  | [] => None
  | (k', v') :: t =>
      if str_eqb k' k then Some ((k, v) :: t)
      else match replace_key k v t with Some t' => Some ((k', v') :: t') | None => None end
  end.
Definition add_extension (i : ice_cand) (e : ext) : result ice_cand :=
  let (k, v) := e in
  if str_eqb k (s "tcptype") then
    match tcp_of_string v with
    | TcpNone => Err "tcptype"
    | t => Ok (mkIce (i_type i) (i_net i) (i_foundation i) (i_component i) (i_priority i) (i_address i)
                     (i_port i) (i_related i) t (i_exts i))
    end
  else if is_empty k then Err "empty-key"
  else
    let exts := match replace_key k v (i_exts i) with Some l => l | None => i_exts i ++ [(k, v)] end in
    Ok (mkIce (i_type i) (i_net i) (i_foundation i) (i_component i) (i_priority i) (i_address i)
              (i_port i) (i_related i) (i_tcp i) exts).
Fixpoint add_all (i : ice_cand) (l : list ext) : result ice_cand :=
  match l with
  | [] => Ok i
  | e :: t => match add_extension i e with Ok i' => add_all i' t | Err x => Err x | Panic => Panic end
  end.

(* ---- webrtc.ICECandidate *)
Record web_cand := mkWeb {
  w_foundation : str;
  w_priority : N;
  w_address : str;
  w_protocol : proto;
  w_port : N;
  w_typ : ctype;
  w_component : N;
  w_raddr : str;
  w_rport : N;
  w_tcptype : str;
  w_ext : str          (* unexported extensions string *)
}.

(* newICECandidateFromICE *)
Definition from_ice (i : ice_cand) : web_cand :=
  mkWeb (i_foundation i) (i_priority i) (i_address i) (i_net i) (u16 (i_port i)) (i_type i) (i_component i)
        (match i_related i with Some (a, _) => a | None => [] end)
        (match i_related i with Some (_, p) => u16 p | None => 0%N end)
        (tcp_string (i_tcp i))
        (join_exts (i_extensions i)).

(* ToICE: the per-type constructor, then exportExtensions *)
Definition to_ice (w : web_cand) : result ice_cand :=
  let base :=
    match w_typ w with
    | THost => mkIce THost (w_protocol w) (w_foundation w) (w_component w) (w_priority w) (w_address w)
                     (w_port w) None (tcp_of_string (w_tcptype w)) []
    | t => mkIce t (w_protocol w) (w_foundation w) (w_component w) (w_priority w) (w_address w)
                 (w_port w) (Some (w_raddr w, w_rport w)) TcpNone []
    end in
  add_all base (split_exts (w_ext w)).

(* ---- AddICECandidate after UnmarshalCandidate succeeded:
     if ufrag, ok := cand.GetExtension("ufrag"); ok {
       if !pc.descriptionContainsUfrag(remoteDesc.parsed, ufrag.Value) { return nil } }   // dropped
     ... return pc.iceTransport.AddRemoteCandidate(&c) *)
Fixpoint get_ext (k : str) (l : list ext) : option str :=
  match l with
  | [] => None
  | (k', v) :: t => if str_eqb k' k then Some v else get_ext k t
  end.

(* the applied remote description: session-level ice-ufrag and one per media section *)
Record remote_desc := mkDesc { d_session : option str; d_media : list (option str) }.

Definition opt_is (o : option str) (x : str) : bool :=
  match o with Some y => str_eqb y x | None => false end.
Definition contains_ufrag (d : remote_desc) (x : str) : bool :=
  opt_is (d_session d) x || existsb (fun m => opt_is m x) (d_media d).

Inductive outcome := Forwarded | Dropped | NoRemoteDescription.
Definition add_ice_candidate (d : option remote_desc) (i : ice_cand) : outcome :=
  match d with
  | None => NoRemoteDescription
  | Some d =>
      match get_ext (s "ufrag") (i_exts i) with
      | Some u => if contains_ufrag d u then Forwarded else Dropped
      | None => Forwarded
      end
  end.

(* ---- well-formedness of extension lists *)
Definition no_sp (x : str) : Prop := forall c, In c x -> is_sp c = false.
Definition ext_ok (e : ext) : Prop := fst e <> [] /\ no_sp (fst e) /\ no_sp (snd e).
