(* Model of pkg/media/rtpdump (rtpdump.go, writer.go, reader.go) after the
   fix: commits of branch vb-media1.  Statement by statement; the fixed-width
   conversions carry their wrap.  No proofs here. *)
From Coq Require Import List ZArith NArith String Bool.
Import ListNotations.
From Verif Require Import Common.V Common.Base Common.Media1Util.
Open Scope N_scope.

(* ---------- values ---------- *)

(* time.Time as (Unix seconds, nanosecond 0..999999999); time.Duration as
   int64 nanoseconds; net.IP as its byte slice ([] = nil) *)
Record header := { h_sec : Z; h_nsec : Z; h_src : list N; h_port : N }.
Record packet := { p_off : Z; p_rtcp : bool; p_payload : list N }.

Definition i64 (z : Z) : Z :=
  ((z + 9223372036854775808) mod 18446744073709551616 - 9223372036854775808)%Z.
(* uint32(x) of an int64 *)
Definition u32z (z : Z) : N := Z.to_N (z mod 4294967296)%Z.

(* ---------- net.IP ---------- *)

(* IP.To4: the 4-byte form of an IPv4 address or of a 16-byte address whose
   first ten bytes are zero and the next two 0xff, else nil *)
Definition to4 (ip : list N) : option (list N) :=
  match ip with
  | [_; _; _; _] => Some ip
  | [z0; z1; z2; z3; z4; z5; z6; z7; z8; z9; f0; f1; a; b; c; d] =>
      if forallb (N.eqb 0) [z0; z1; z2; z3; z4; z5; z6; z7; z8; z9] && (f0 =? 255) && (f1 =? 255)
      then Some [a; b; c; d] else None
  | _ => None
  end.

(* net.IPv4(a,b,c,d): the 16-byte IPv4-mapped form *)
Definition ipv4_16 (a b c d : N) : list N :=
  [0; 0; 0; 0; 0; 0; 0; 0; 0; 0; 255; 255; a; b; c; d].

(* strconv decimal rendering as ASCII bytes *)
Fixpoint dec_fuel (f : nat) (n : N) : list N :=
  match f with
  | O => []
  | S f' => if n <? 10 then [48 + n] else dec_fuel f' (n / 10) ++ [48 + n mod 10]
  end.
Definition dec (n : N) : list N := dec_fuel 20 n.

(* IP.String of the result of To4: dotted quad, "<nil>" for nil *)
Definition ip_string (ip4 : option (list N)) : list N :=
  match ip4 with
  | Some [a; b; c; d] => dec a ++ [46] ++ dec b ++ [46] ++ dec c ++ [46] ++ dec d
  | _ => bytes_of_string "<nil>"
  end.

(* ---------- Header.Marshal / Unmarshal ---------- *)

Definition magic : list N := bytes_of_string "#!rtpplay1.0 ".

(* fmt.Sprintf("#!rtpplay1.0 %s/%d\n", source.String(), port) *)
Definition preamble (ip4 : option (list N)) (port : N) : list N :=
  magic ++ ip_string ip4 ++ [47] ++ dec port ++ [10].

(* copy(data[8:], source) into four zero bytes *)
Definition copy4 (src : list N) : list N := firstn 4 (src ++ [0; 0; 0; 0]).

Definition header_marshal (h : header) : list N :=
  let nano := i64 (h_sec h * 1000000000 + h_nsec h)%Z in       (* Start.UnixNano() *)
  let sec := u32z (Z.quot nano 1000000000) in
  let usec := u32z (Z.quot (Z.rem nano 1000000000) 1000) in
  let src := match to4 (h_src h) with Some a => a | None => [] end in
  be_bytes 4 sec ++ be_bytes 4 usec ++ copy4 src ++ be_bytes 2 (h_port h) ++ [0; 0].

(* Header.Unmarshal: len(data) < headerLen is malformed; the indexed reads
   data[8..11] are explicit (Panic when absent, which the length check excludes) *)
Definition header_unmarshal (d : list N) : result header :=
  if lenN d <? 16 then Err "malformed"
  else
    let sec := be_val (takeN 4 d) in
    let usec := be_val (takeN 4 (dropN 4 d)) in
    match dropN 8 d with
    | a :: b :: c :: e :: _ =>
        (* time.Unix(sec, usec*1e3) normalises the nanoseconds *)
        let ns := (Z.of_N usec * 1000)%Z in
        Ok {| h_sec := (Z.of_N sec + ns / 1000000000)%Z; h_nsec := (ns mod 1000000000)%Z;
              h_src := ipv4_16 a b c e; h_port := be_val (takeN 2 (dropN 12 d)) |}
    | _ => Panic
    end.

(* ---------- Packet.Marshal ---------- *)

Definition ms_of (off : Z) : Z := Z.quot off 1000000.   (* p.Offset / time.Millisecond *)

Definition packet_marshal (p : packet) : result (list N) :=
  let n := lenN (p_payload p) in
  if 65527 <? n then Err "refused"                       (* fix: payload too large *)
  else if negb (p_rtcp p) && (n =? 0) then Err "refused" (* fix: empty RTP payload *)
  else if (p_off p <? 0)%Z || (4294967295 <? ms_of (p_off p))%Z then Err "refused" (* fix: offset range *)
  else
    let plen := if p_rtcp p then 0 else n in
    Ok (be_bytes 2 (u16 (u16 n + 8)) ++ be_bytes 2 (u16 plen)
        ++ be_bytes 4 (u32z (ms_of (p_off p))) ++ p_payload p).

(* ---------- Writer ---------- *)

(* NewWriter: the bytes written, or an error with nothing written *)
Definition new_writer (h : header) : result (list N) :=
  match to4 (h_src h) with
  | None => Err "refused"                                  (* fix: source not IPv4 *)
  | Some a =>
      if (h_sec h <? 0)%Z || (4294967295 <? h_sec h)%Z then Err "refused" (* fix: start range *)
      else Ok (preamble (Some a) (h_port h) ++ header_marshal h)
  end.

(* WritePacket for each packet in turn: the output so far and, per packet,
   whether it was accepted (a refused packet writes nothing) *)
Fixpoint write_packets (out : list N) (ps : list packet) : list N * list bool :=
  match ps with
  | [] => (out, [])
  | p :: t =>
      match packet_marshal p with
      | Ok d => let r := write_packets (out ++ d) t in (fst r, true :: snd r)
      | _ => let r := write_packets out t in (fst r, false :: snd r)
      end
  end.

Definition write_file (h : header) (ps : list packet) : result (list N * list bool) :=
  match new_writer h with
  | Ok out => Ok (write_packets out ps)
  | Err e => Err e
  | Panic => Panic
  end.

(* ---------- Reader ---------- *)

Definition is_digit (b : N) : bool := (48 <=? b) && (b <=? 57).

(* up to k further digits *)
Fixpoint digits_upto (k : nat) (l : list N) : list N :=
  match k, l with
  | S k', d :: t => if is_digit d then digits_upto k' t else l
  | _, _ => l
  end.
(* \d{1,k}: greedy; every group of the expression is followed by a literal
   that is not a digit, so backtracking could not match more *)
Definition digits1 (k : nat) (l : list N) : option (list N) :=
  match l with
  | d :: t => if is_digit d then Some (digits_upto (pred k) t) else None
  | [] => None
  end.
Fixpoint lit (s l : list N) : option (list N) :=
  match s, l with
  | [], _ => Some l
  | c :: s', x :: l' => if c =? x then lit s' l' else None
  | _ :: _, [] => None
  end.
Definition obind {A B} (o : option A) (f : A -> option B) : option B :=
  match o with Some a => f a | None => None end.

(* `#\!rtpplay1\.0 \d{1,3}\.\d{1,3}\.\d{1,3}\.\d{1,3}\/\d{1,5}\n` anchored here *)
Definition match_here (l : list N) : bool :=
  match obind (obind (obind (obind (obind (obind (obind (obind (obind (obind (lit magic l)
          (digits1 3)) (lit [46])) (digits1 3)) (lit [46])) (digits1 3)) (lit [46]))
          (digits1 3)) (lit [47])) (digits1 5)) (lit [10]) with
  | Some _ => true
  | None => false
  end.
(* regexp.Match is not anchored *)
Fixpoint match_any (l : list N) : bool :=
  match_here l || match l with [] => false | _ :: t => match_any t end.

(* bufio ReadLine: drop through the first '\n' *)
Fixpoint drop_line (l : list N) : list N :=
  match l with
  | [] => []
  | x :: t => if x =? 10 then t else drop_line t
  end.

(* NewReader: header and the bytes left for Next *)
Definition new_reader (data : list N) : result (header * list N) :=
  if lenN data <? 36 then Err "malformed"          (* Peek(preambleLen) hits EOF *)
  else if negb (match_any (takeN 36 data)) then Err "malformed"
  else
    let rest := drop_line data in
    if lenN rest <? 16 then Err "malformed"        (* ReadFull(hBuf) *)
    else rbind (header_unmarshal (takeN 16 rest)) (fun h => Ok (h, dropN 16 rest)).

(* Reader.Next on the remaining bytes *)
Definition next (data : list N) : result (packet * list N) :=
  match data with
  | [] => Err "eof"                                  (* ReadFull: io.EOF *)
  | _ =>
      if lenN data <? 8 then Err "malformed"         (* io.ErrUnexpectedEOF *)
      else
        let len := be_val (takeN 2 data) in
        let plen := be_val (takeN 2 (dropN 2 data)) in
        let off := be_val (takeN 4 (dropN 4 data)) in
        if len <? 8 then Err "malformed"             (* fix: was  len = 0 *)
        else
          let n := subw 65536 len 8 in               (* header.Length - pktHeaderLen, uint16 *)
          let rest := dropN 8 data in
          let pk pl := {| p_off := (Z.of_N off * 1000000)%Z; p_rtcp := plen =? 0; p_payload := pl |} in
          if n =? 0 then Ok (pk [], rest)            (* ReadFull of an empty buffer *)
          else match rest with
               | [] => Err "eof"                     (* ReadFull read nothing: io.EOF *)
               | _ => if lenN rest <? n then Err "malformed"
                      else Ok (pk (takeN n rest), dropN n rest)
               end
  end.

(* successive Next calls until the first error *)
Fixpoint read_packets (fuel : nat) (data : list N) : list packet * string :=
  match fuel with
  | O => ([], "out-of-fuel"%string)
  | S f =>
      match next data with
      | Ok (p, rest) => let r := read_packets f rest in (p :: fst r, snd r)
      | Err e => ([], e)
      | Panic => ([], "panic"%string)
      end
  end.

(* every successful Next consumes at least the 8-byte record header *)
Definition read_fuel (data : list N) : nat := S (N.to_nat (lenN data / 8)).

Definition read_file (data : list N) : result (header * list packet * string) :=
  rbind (new_reader data) (fun hr =>
    let r := read_packets (read_fuel (snd hr)) (snd hr) in
    Ok (fst hr, fst r, snd r)).

(* ---------- what the format can hold (the property's premises) ---------- *)

Definition fit_header (h : header) : bool :=
  match to4 (h_src h) with Some _ => true | None => false end
  && (0 <=? h_sec h)%Z && (h_sec h <=? 4294967295)%Z.

Definition fit_packet (p : packet) : bool :=
  (lenN (p_payload p) <=? 65527) && (p_rtcp p || (1 <=? lenN (p_payload p)))
  && (0 <=? p_off p)%Z && (ms_of (p_off p) <=? 4294967295)%Z.

(* exactly representable: the start is whole microseconds, the offsets whole
   milliseconds *)
Definition rep_header (h : header) : bool :=
  fit_header h && (0 <=? h_nsec h)%Z && (h_nsec h <? 1000000000)%Z && (h_nsec h mod 1000 =? 0)%Z
  && (h_port h <? 65536) && bytes_ok (h_src h).
Definition rep_packet (p : packet) : bool :=
  fit_packet p && (p_off p mod 1000000 =? 0)%Z.
Definition rep (h : header) (ps : list packet) : bool :=
  rep_header h && forallb rep_packet ps.

(* the value a fitting header / packet has at the format's resolution *)
Definition trunc_header (h : header) : header :=
  {| h_sec := h_sec h; h_nsec := (h_nsec h / 1000 * 1000)%Z;
     h_src := match to4 (h_src h) with Some [a; b; c; d] => ipv4_16 a b c d | _ => [] end;
     h_port := h_port h |}.
Definition trunc_packet (p : packet) : packet :=
  {| p_off := (ms_of (p_off p) * 1000000)%Z; p_rtcp := p_rtcp p; p_payload := p_payload p |}.
