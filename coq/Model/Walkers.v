(* C30: explicit-Panic models of the in-repo attribute walkers of pion/webrtc
   (sdp.go, peerconnection.go, rtpreceiver.go).  Every index expression,
   slice expression and pointer dereference the Go code performs on data that
   derives from remote input is written as a checked access with a [Panic]
   branch; ranges ("for i := range xs") are structural recursion because Go
   cannot leave the slice there.  No proofs in this file.

   The input is the *parsed* description: session attributes and a list of
   media sections, each a media name, its formats and its (key, value)
   attributes in file order -- what pion/sdp hands to the walkers. *)
From Coq Require Import List ZArith NArith String Ascii Bool.
Import ListNotations.
From Verif Require Import Common.V Common.Base.
Open Scope string_scope.
Open Scope list_scope.

(* ---------- Go string helpers ---------- *)

(* strings.Split(s, sep) for a one-byte separator: always at least one field *)
Fixpoint split_on (sep : ascii) (s : string) : list string :=
  match s with
  | EmptyString => [EmptyString]
  | String c rest =>
      let r := split_on sep rest in
      if Ascii.eqb c sep then EmptyString :: r
      else match r with
           | [] => [String c EmptyString]
           | h :: t => String c h :: t
           end
  end.

Definition sp : ascii := " "%char.

Definition digit_val (c : ascii) : option N :=
  let n := N_of_ascii c in
  if andb (N.leb 48 n) (N.leb n 57) then Some (n - 48)%N else None.

Fixpoint parse_digits (s : string) (acc : N) : option N :=
  match s with
  | EmptyString => Some acc
  | String c r =>
      match digit_val c with
      | None => None
      | Some d => parse_digits r (acc * 10 + d)%N
      end
  end.

(* strconv.ParseUint(s, 10, bits): decimal digits only, no sign, no
   underscore, non-empty, value below 2^bits (ErrRange otherwise) *)
Definition parse_uint (bits : N) (s : string) : option N :=
  match s with
  | EmptyString => None
  | _ =>
      match parse_digits s 0 with
      | Some v => if N.ltb v (2 ^ bits) then Some v else None
      | None => None
      end
  end.

(* s[n:] ; Go panics when n > len(s) *)
Fixpoint str_drop (n : nat) (s : string) : option string :=
  match n with
  | O => Some s
  | S k => match s with EmptyString => None | String _ r => str_drop k r end
  end.

(* s[:n] ; Go panics when n > len(s) *)
Fixpoint str_take (n : nat) (s : string) : option string :=
  match n with
  | O => Some EmptyString
  | S k =>
      match s with
      | EmptyString => None
      | String c r => match str_take k r with Some t => Some (String c t) | None => None end
      end
  end.

(* strings.Index(s, " ") *)
Fixpoint index_of (c : ascii) (s : string) : option nat :=
  match s with
  | EmptyString => None
  | String a r => if Ascii.eqb a c then Some O
                  else match index_of c r with Some i => Some (S i) | None => None end
  end.

Definition contains (sub s : string) : bool :=
  match String.index 0 sub s with Some _ => true | None => false end.

Definition lower_ascii (c : ascii) : ascii :=
  let n := N_of_ascii c in
  if andb (N.leb 65 n) (N.leb n 90) then ascii_of_N (n + 32) else c.
Fixpoint lower (s : string) : string :=
  match s with EmptyString => EmptyString | String c r => String (lower_ascii c) (lower r) end.
(* strings.EqualFold against an ASCII word without 'k' or 's' (the only ASCII
   letters with non-ASCII simple-fold partners), hence exact on all inputs *)
Definition equal_fold (a b : string) : bool := String.eqb (lower a) (lower b).

Definition is_empty (s : string) : bool := match s with EmptyString => true | _ => false end.

(* ---------- the parsed description ---------- *)

Definition attr := (string * string)%type.
Record media := { m_kind : string; m_formats : list string; m_attrs : list attr }.
Record desc := { d_attrs : list attr; d_media : list media }.

(* sdp.MediaDescription.Attribute / sdp.SessionDescription.Attribute: first match *)
Fixpoint attr_get (k : string) (l : list attr) : option string :=
  match l with
  | [] => None
  | (k', v) :: t => if String.eqb k' k then Some v else attr_get k t
  end.
Definition has_key (k : string) (l : list attr) : bool :=
  match attr_get k l with Some _ => true | None => false end.

(* sdp.go getMidValue *)
Definition get_mid (m : media) : string :=
  match attr_get "mid" (m_attrs m) with Some v => v | None => "" end.

(* rtpcodec.go NewRTPCodecType: 1 audio, 2 video, 0 otherwise *)
Definition codec_type (s : string) : N :=
  if equal_fold s "audio" then 1%N else if equal_fold s "video" then 2%N else 0%N.

(* ---------- sdp.go getRids ---------- *)

Record rid := { rid_id : string; rid_value : string; rid_paused : bool }.

(* for _, rid := range rids { if rid.id == ridID { rid.paused = true; break } } *)
Fixpoint pause_first (id : string) (l : list rid) : list rid :=
  match l with
  | [] => []
  | r :: t => if String.eqb (rid_id r) id
              then {| rid_id := rid_id r; rid_value := rid_value r; rid_paused := true |} :: t
              else r :: pause_first id t
  end.

(* first loop: collect a=rid lines (split[0] is an index expression) and the
   last a=simulcast value *)
Fixpoint rids_scan (l : list attr) (acc : list rid) (sim : string) : result (list rid * string) :=
  match l with
  | [] => Ok (acc, sim)
  | (k, v) :: t =>
      if String.eqb k "rid" then
        match nth_error (split_on sp v) 0 with
        | None => Panic
        | Some id => rids_scan t (acc ++ [{| rid_id := id; rid_value := v; rid_paused := false |}]) sim
        end
      else if String.eqb k "simulcast" then rids_scan t acc v
      else rids_scan t acc sim
  end.

(* one element of strings.SplitSeq(simulcastAttr, ";") *)
Definition rid_state (rids : list rid) (st : string) : result (list rid) :=
  if Nat.ltb 0 (String.length st) then
    match str_take 1 st with                     (* ridState[:1] *)
    | None => Panic
    | Some h =>
        if String.eqb h "~" then
          match str_drop 1 st with               (* ridState[1:] *)
          | None => Panic
          | Some id => Ok (pause_first id rids)
          end
        else Ok rids
    end
  else Ok rids.

Fixpoint rid_states (rids : list rid) (l : list string) : result (list rid) :=
  match l with
  | [] => Ok rids
  | st :: t => rbind (rid_state rids st) (fun r => rid_states r t)
  end.

Definition get_rids (m : media) : result (list rid) :=
  rbind (rids_scan (m_attrs m) [] "") (fun p =>
    let '(rids, sim) := p in
    if is_empty sim then Ok rids
    else
      rbind (match index_of sp sim with
             | Some space =>
                 if Nat.ltb 0 space then
                   match str_drop (space + 1) sim with     (* simulcastAttr[space+1:] *)
                   | None => Panic
                   | Some s' => Ok s'
                   end
                 else Ok sim
             | None => Ok sim
             end)
        (fun sim' => rid_states rids (split_on ";"%char sim'))).

(* ---------- sdp.go trackDetailsFromSDP ---------- *)

Record td := { td_mid : string; td_kind : N; td_stream : string; td_id : string;
               td_ssrcs : list N; td_rtx : option N; td_fec : option N;
               td_rids : list string }.

Definition td_empty : td :=
  {| td_mid := ""; td_kind := 0; td_stream := ""; td_id := ""; td_ssrcs := [];
     td_rtx := None; td_fec := None; td_rids := [] |}.

Definition td_set_rtx (t : td) (r : N) : td :=
  {| td_mid := td_mid t; td_kind := td_kind t; td_stream := td_stream t; td_id := td_id t;
     td_ssrcs := td_ssrcs t; td_rtx := Some r; td_fec := td_fec t; td_rids := td_rids t |}.
Definition td_set_fec (t : td) (r : N) : td :=
  {| td_mid := td_mid t; td_kind := td_kind t; td_stream := td_stream t; td_id := td_id t;
     td_ssrcs := td_ssrcs t; td_rtx := td_rtx t; td_fec := Some r; td_rids := td_rids t |}.

Definition has_ssrc (s : N) (t : td) : bool := existsb (N.eqb s) (td_ssrcs t).

(* filterTrackWithSSRC *)
Definition filter_ssrc (ts : list td) (s : N) : list td :=
  filter (fun t => negb (has_ssrc s t)) ts.

(* Go maps uint64 -> uint64 as association lists; m[k] = v *)
Definition flows := list (N * N).
Fixpoint flow_set (k v : N) (m : flows) : flows :=
  match m with
  | [] => [(k, v)]
  | (k', v') :: t => if N.eqb k' k then (k, v) :: t else (k', v') :: flow_set k v t
  end.
Definition flow_has (k : N) (m : flows) : bool := existsb (fun p => N.eqb (fst p) k) m.
(* for r, base := range m { if base == ssrc { x = &r } }: the last visited
   match wins; Go's order is unspecified, the model visits in list order (the
   harness compares only sections where at most one key matches) *)
Definition flow_repair (ssrc : N) (m : flows) (init : option N) : option N :=
  fold_left (fun acc p => if N.eqb (snd p) ssrc then Some (fst p) else acc) m init.

(* for i := range tracks { if tracks[i].ssrcs[0] == base { tracks[i].x = &r } } *)
Fixpoint mark_repair (set : td -> N -> td) (ts : list td) (base r : N) : result (list td) :=
  match ts with
  | [] => Ok []
  | t :: rest =>
      match nth_error (td_ssrcs t) 0 with          (* ssrcs[0] *)
      | None => Panic
      | Some s0 =>
          rbind (mark_repair set rest base r) (fun rest' =>
            Ok ((if N.eqb s0 base then set t r else t) :: rest'))
      end
  end.

Record sec_st := { s_tracks : list td; s_rtx : flows; s_fec : flows;
                   s_stream : string; s_id : string }.

(* case sdp.AttrKeySSRCGroup *)
Definition step_group (st : sec_st) (v : string) : result sec_st :=
  let split := split_on sp v in
  match nth_error split 0 with                     (* split[0] *)
  | None => Panic
  | Some s0 =>
      let is_fid := String.eqb s0 "FID" in
      let is_fec := String.eqb s0 "FEC-FR" in
      if orb is_fid is_fec then
        if Nat.eqb (List.length split) 3 then
          match nth_error split 1 with             (* split[1] *)
          | None => Panic
          | Some a =>
              match parse_uint 32 a with
              | None => Ok st
              | Some base =>
                  match nth_error split 2 with     (* split[2] *)
                  | None => Panic
                  | Some b =>
                      match parse_uint 32 b with
                      | None => Ok st
                      | Some r =>
                          let ts := filter_ssrc (s_tracks st) r in
                          if is_fid then
                            rbind (mark_repair td_set_rtx ts base r) (fun ts' =>
                              Ok {| s_tracks := ts'; s_rtx := flow_set r base (s_rtx st);
                                    s_fec := s_fec st; s_stream := s_stream st; s_id := s_id st |})
                          else
                            rbind (mark_repair td_set_fec ts base r) (fun ts' =>
                              Ok {| s_tracks := ts'; s_rtx := s_rtx st;
                                    s_fec := flow_set r base (s_fec st);
                                    s_stream := s_stream st; s_id := s_id st |})
                      end
                  end
              end
          end
        else Ok st
      else Ok st
  end.

(* case sdp.AttrKeyMsid *)
Definition step_msid (st : sec_st) (v : string) : result sec_st :=
  let split := split_on sp v in
  if Nat.eqb (List.length split) 2 then
    match nth_error split 0, nth_error split 1 with    (* split[0], split[1] *)
    | Some a, Some b =>
        Ok {| s_tracks := s_tracks st; s_rtx := s_rtx st; s_fec := s_fec st;
              s_stream := a; s_id := b |}
    | _, _ => Panic
    end
  else Ok st.

(* the double loop that looks for an existing track holding this ssrc: the
   pointer ends up at the last track that contains it *)
Fixpoint last_with_ssrc (ts : list td) (s : N) (i : nat) (acc : option nat) : option nat :=
  match ts with
  | [] => acc
  | t :: rest => last_with_ssrc rest s (S i) (if has_ssrc s t then Some i else acc)
  end.

Fixpoint upd_nth {A} (i : nat) (x : A) (l : list A) : list A :=
  match l, i with
  | [], _ => []
  | _ :: t, O => x :: t
  | h :: t, S k => h :: upd_nth k x t
  end.

(* case sdp.AttrKeySSRC *)
Definition step_ssrc (mid : string) (kind : N) (st : sec_st) (v : string) : result sec_st :=
  let split := split_on sp v in
  match nth_error split 0 with                     (* split[0] *)
  | None => Panic
  | Some s0 =>
      match parse_uint 32 s0 with
      | None => Ok st
      | Some ssrc =>
          if flow_has ssrc (s_rtx st) then Ok st
          else if flow_has ssrc (s_fec st) then Ok st
          else
            rbind
              (if Nat.eqb (List.length split) 3 then
                 match nth_error split 1 with      (* split[1] *)
                 | None => Panic
                 | Some s1 =>
                     if String.prefix "msid:" s1 then
                       match str_drop 5 s1 with    (* split[1][len("msid:"):] *)
                       | None => Panic
                       | Some sid =>
                           match nth_error split 2 with   (* split[2] *)
                           | None => Panic
                           | Some tid => Ok (sid, tid)
                           end
                       end
                     else Ok (s_stream st, s_id st)
                 end
               else Ok (s_stream st, s_id st))
              (fun names =>
                 let '(stream, tid) := names in
                 let idx := last_with_ssrc (s_tracks st) ssrc 0 None in
                 (* trackDetails := &trackDetails{} or &tracksInMediaSection[i]
                    (i comes from a range, so it is in bounds) *)
                 let old := match idx with
                            | Some i => match nth_error (s_tracks st) i with
                                        | Some t => t | None => td_empty end
                            | None => td_empty
                            end in
                 let t1 := {| td_mid := mid; td_kind := kind; td_stream := stream; td_id := tid;
                              td_ssrcs := [ssrc];
                              td_rtx := flow_repair ssrc (s_rtx st) (td_rtx old);
                              td_fec := flow_repair ssrc (s_fec st) (td_fec old);
                              td_rids := td_rids old |} in
                 let ts := match idx with
                           | Some i => upd_nth i t1 (s_tracks st)
                           | None => s_tracks st ++ [t1]
                           end in
                 Ok {| s_tracks := ts; s_rtx := s_rtx st; s_fec := s_fec st;
                       s_stream := stream; s_id := tid |})
      end
  end.

Definition step_attr (mid : string) (kind : N) (st : sec_st) (a : attr) : result sec_st :=
  let '(k, v) := a in
  if String.eqb k "ssrc-group" then step_group st v
  else if String.eqb k "msid" then step_msid st v
  else if String.eqb k "ssrc" then step_ssrc mid kind st v
  else Ok st.

Fixpoint fold_attrs (mid : string) (kind : N) (st : sec_st) (l : list attr) : result sec_st :=
  match l with
  | [] => Ok st
  | a :: t => rbind (step_attr mid kind st a) (fun st' => fold_attrs mid kind st' t)
  end.

Definition sec_init : sec_st :=
  {| s_tracks := []; s_rtx := []; s_fec := []; s_stream := ""; s_id := "" |}.

(* one iteration of the loop over s.MediaDescriptions *)
Definition media_tracks (m : media) : result (list td) :=
  if has_key "recvonly" (m_attrs m) then Ok []
  else if has_key "inactive" (m_attrs m) then Ok []
  else
    let mid := get_mid m in
    if is_empty mid then Ok []
    else
      let kind := codec_type (m_kind m) in
      if N.eqb kind 0 then Ok []
      else
        rbind (fold_attrs mid kind sec_init (m_attrs m)) (fun st =>
          rbind (get_rids m) (fun rids =>
            if andb (negb (Nat.eqb (List.length rids) 0))
                 (andb (negb (is_empty (s_id st))) (negb (is_empty (s_stream st))))
            then Ok [ {| td_mid := mid; td_kind := kind; td_stream := s_stream st;
                         td_id := s_id st; td_ssrcs := []; td_rtx := None; td_fec := None;
                         td_rids := map rid_id rids |} ]
            else Ok (s_tracks st))).

Fixpoint tracks_of_media (l : list media) : result (list td) :=
  match l with
  | [] => Ok []
  | m :: t => rbind (media_tracks m) (fun a => rbind (tracks_of_media t) (fun b => Ok (a ++ b)))
  end.

Definition track_details (d : desc) : result (list td) := tracks_of_media (d_media d).

(* ---------- sdp.go trackDetailsToRTPReceiveParameters ---------- *)

Record encoding := { e_rid : string; e_ssrc : N; e_rtx : N; e_fec : N }.

Definition encoding_at (t : td) (i : nat) : result encoding :=
  rbind (if Nat.ltb i (List.length (td_rids t)) then
           match nth_error (td_rids t) i with Some r => Ok r | None => Panic end   (* rids[i] *)
         else Ok "") (fun r =>
  rbind (if Nat.ltb i (List.length (td_ssrcs t)) then
           match nth_error (td_ssrcs t) i with Some s => Ok s | None => Panic end  (* ssrcs[i] *)
         else Ok 0%N) (fun s =>
  Ok {| e_rid := r; e_ssrc := s;
        e_rtx := match td_rtx t with Some x => x | None => 0%N end;
        e_fec := match td_fec t with Some x => x | None => 0%N end |})).

Fixpoint encodings_from (t : td) (i n : nat) : result (list encoding) :=
  match n with
  | O => Ok []
  | S k => rbind (encoding_at t i) (fun e =>
             rbind (encodings_from t (S i) k) (fun r => Ok (e :: r)))
  end.

Definition receive_parameters (t : td) : result (list encoding) :=
  encodings_from t 0 (Nat.max (List.length (td_rids t)) (List.length (td_ssrcs t))).

(* ---------- sdp.go extractBundleID / extractFingerprint ---------- *)

Definition extract_bundle_id (d : desc) : result string :=
  let g := match attr_get "group" (d_attrs d) with Some v => v | None => "" end in
  if negb (contains "BUNDLE" g) then Ok ""
  else
    let ids := split_on sp g in
    if Nat.ltb (List.length ids) 2 then Ok ""
    else match nth_error ids 1 with Some x => Ok x | None => Panic end.   (* bundleIDs[1] *)

Fixpoint fp_bundled (bundle : string) (l : list media) (fp : string) : string :=
  match l with
  | [] => fp
  | m :: t =>
      let fp' :=
        match attr_get "mid" (m_attrs m) with
        | Some mid =>
            if andb (String.eqb mid bundle) (is_empty fp) then
              match attr_get "fingerprint" (m_attrs m) with Some v => v | None => fp end
            else fp
        | None => fp
        end in
      fp_bundled bundle t fp'
  end.

Fixpoint fp_first (l : list media) (fp : string) : string :=
  match l with
  | [] => fp
  | m :: t =>
      let fp' := match attr_get "fingerprint" (m_attrs m) with
                 | Some v => if is_empty fp then v else fp
                 | None => fp
                 end in
      fp_first t fp'
  end.

(* Ok (fingerprint, hash) *)
Definition extract_fingerprint (d : desc) : result (string * string) :=
  let fp0 := match attr_get "fingerprint" (d_attrs d) with Some v => v | None => "" end in
  rbind (if is_empty fp0 then
           rbind (extract_bundle_id d) (fun bundle =>
             if negb (is_empty bundle) then Ok (fp_bundled bundle (d_media d) fp0)
             else Ok (fp_first (d_media d) fp0))
         else Ok fp0) (fun fp =>
    if is_empty fp then Err "no-fingerprint"
    else
      let parts := split_on sp fp in
      if negb (Nat.eqb (List.length parts) 2) then Err "invalid-fingerprint"
      else match nth_error parts 1, nth_error parts 0 with     (* parts[1], parts[0] *)
           | Some a, Some b => Ok (a, b)
           | _, _ => Panic
           end).

(* ---------- sdp.go selectCandidateMediaSection / extractICEDetails ---------- *)

(* outcome of ice.UnmarshalCandidate followed by newICECandidateFromICE on one
   a=candidate value: external code, enters as a function *)
Inductive cand_class := CandOk | CandIgnored | CandErr.

Section IceDetails.
  Variable classify : string -> cand_class.

  (* (accepted candidates, saw an error) *)
  Fixpoint scan_candidates (l : list attr) (n : nat) (bad : bool) : nat * bool :=
    match l with
    | [] => (n, bad)
    | (k, v) :: t =>
        if String.eqb k "candidate" then
          match classify v with
          | CandOk => scan_candidates t (S n) bad
          | CandIgnored => scan_candidates t n bad
          | CandErr => scan_candidates t n true
          end
        else scan_candidates t n bad
    end.

  Fixpoint select_section (bundle : string) (l : list media) : option media :=
    match l with
    | [] => None
    | m :: t =>
        if negb (is_empty bundle) then
          if String.eqb (get_mid m) bundle then Some m else select_section bundle t
        else Some m
    end.

  (* Ok (ufrag, pwd, number of candidates) *)
  Definition extract_ice_details (d : desc) : result (string * string * nat) :=
    let uf0 := match attr_get "ice-ufrag" (d_attrs d) with Some v => v | None => "" end in
    let pw0 := match attr_get "ice-pwd" (d_attrs d) with Some v => v | None => "" end in
    rbind (extract_bundle_id d) (fun bundle =>
      rbind (match select_section bundle (d_media d) with
             | Some m =>
                 let uf := match attr_get "ice-ufrag" (m_attrs m) with Some v => v | None => "" end in
                 let pw := match attr_get "ice-pwd" (m_attrs m) with Some v => v | None => "" end in
                 let '(n, bad) := scan_candidates (m_attrs m) 0 false in
                 if andb (Nat.eqb n 0) bad then Err "candidate"
                 else if andb (is_empty uf0) (negb (is_empty uf)) then Ok (uf, pw, n)
                 else Ok (uf0, pw0, n)
             | None => Ok (uf0, pw0, O)
             end) (fun r =>
        let '(uf, pw, n) := r in
        if is_empty uf then Err "missing-ufrag"
        else if is_empty pw then Err "missing-pwd"
        else Ok (uf, pw, n))).
End IceDetails.

(* ---------- sdp.go descriptionIsPlanB / descriptionPossiblyPlanB / getPeerDirection ---------- *)

Fixpoint dup_mid (seen : list string) (l : list td) : bool :=
  match l with
  | [] => false
  | t :: r => if existsb (String.eqb (td_mid t)) seen then true else dup_mid (td_mid t :: seen) r
  end.

Definition description_is_planb (d : desc) : result bool :=
  rbind (track_details d) (fun ts => Ok (dup_mid [] ts)).

(* (?i)^(audio|video|data)$ on the mid *)
Definition planb_mid (s : string) : bool :=
  let l := lower s in
  orb (String.eqb l "audio") (orb (String.eqb l "video") (String.eqb l "data")).
Definition possibly_planb (d : desc) : bool := existsb (fun m => planb_mid (get_mid m)) (d_media d).

(* 1 sendrecv, 2 sendonly, 3 recvonly, 4 inactive, 0 unknown: first attribute
   whose key is a direction *)
Definition dir_of_key (k : string) : N :=
  if String.eqb k "sendrecv" then 1%N else if String.eqb k "sendonly" then 2%N
  else if String.eqb k "recvonly" then 3%N else if String.eqb k "inactive" then 4%N else 0%N.
Fixpoint peer_direction (l : list attr) : N :=
  match l with
  | [] => 0%N
  | (k, _) :: t => let d := dir_of_key k in if N.eqb d 0 then peer_direction t else d
  end.

(* ---------- peerconnection.go startRTPReceivers ---------- *)

Inductive semantics := UnifiedPlan | PlanB | UnifiedPlanWithFallback.

Section StartReceivers.
  (* runIfNewReceiver's outcome (depends on the local transceivers) and
     AddTransceiverFromKind's success (depends on the registered codecs) are
     local state: any functions *)
  Variable handled : td -> bool.
  Variable add_ok : N -> bool.

  (* the loop of the Plan-B branch; the result is the list of tracks for which a
     transceiver was added (configureReceiver + startReceiver follow) *)
  Fixpoint planb_add (l : list td) : result (list td) :=
    match l with
    | [] => Ok []
    | t :: r =>
        if add_ok (td_kind t) then
          rbind (receive_parameters t) (fun _ =>          (* configureReceiver *)
            rbind (planb_add r) (fun r' => Ok (t :: r')))
        else
          (* pc.log.Warnf("... remote SSRCs %v: %s", incomingTrack.ssrcs, err): the
             repaired line does not index; see planb_add_unfixed *)
          planb_add r
    end.

  (* the loop as it was before the repair: the log line evaluates ssrcs[0] *)
  Fixpoint planb_add_unfixed (l : list td) : result (list td) :=
    match l with
    | [] => Ok []
    | t :: r =>
        if add_ok (td_kind t) then
          rbind (receive_parameters t) (fun _ =>
            rbind (planb_add_unfixed r) (fun r' => Ok (t :: r')))
        else
          match nth_error (td_ssrcs t) 0 with             (* incomingTrack.ssrcs[0] *)
          | None => Panic
          | Some _ => planb_add_unfixed r
          end
    end.

  Definition start_rtp_receivers_with (loop : list td -> result (list td))
             (sem : semantics) (d : desc) : result (list td) :=
    rbind (track_details d) (fun tracks =>
      if Nat.eqb (List.length tracks) 0 then Ok []
      else
        let unhandled := filter (fun t => negb (handled t)) tracks in
        let planb := match sem with
                     | PlanB => true
                     | UnifiedPlanWithFallback => possibly_planb d
                     | UnifiedPlan => false
                     end in
        if planb then loop unhandled else Ok []).

  Definition start_rtp_receivers := start_rtp_receivers_with planb_add.
  Definition start_rtp_receivers_unfixed := start_rtp_receivers_with planb_add_unfixed.
End StartReceivers.

(* ---------- peerconnection.go handleUndeclaredSSRC ---------- *)

(* the loop over mediaSection.Attributes *)
Fixpoint undeclared_scan (l : list attr) (stream id : string) (hasrid hasssrc : bool)
  : result (string * string * bool * bool) :=
  match l with
  | [] => Ok (stream, id, hasrid, hasssrc)
  | (k, v) :: t =>
      if String.eqb k "msid" then
        let split := split_on sp v in
        if Nat.eqb (List.length split) 2 then
          match nth_error split 0, nth_error split 1 with   (* split[0], split[1] *)
          | Some a, Some b => undeclared_scan t a b hasrid hasssrc
          | _, _ => Panic
          end
        else undeclared_scan t stream id hasrid hasssrc
      else if String.eqb k "ssrc" then undeclared_scan t stream id hasrid true
      else if String.eqb k "rid" then undeclared_scan t stream id true hasssrc
      else undeclared_scan t stream id hasrid hasssrc
  end.

(* Ok (handled, kind, streamID, id) | Err *)
Definition handle_undeclared_ssrc (add_ok : N -> bool) (m : media)
  : result (bool * N * string * string) :=
  rbind (undeclared_scan (m_attrs m) "" "" false false) (fun r =>
    let '(stream, id, hasrid, hasssrc) := r in
    if hasrid then Ok (false, 0%N, "", "")
    else if hasssrc then Err "explicit-ssrc"
    else
      let kind := if String.eqb (m_kind m) "audio" then 1%N else 2%N in
      if add_ok kind then Ok (true, kind, stream, id) else Err "add-transceiver").

(* ---------- peerconnection.go handleIncomingSSRC: the peeked-packet guard ---------- *)

(* b := make([]byte, mtu); i, err := rtpStream.Peek(b): i <= len(b) bytes of the
   packet are in b.  The model gets the buffer and i. *)
Definition incoming_guard (b : list N) (i : nat) : result N :=
  if Nat.ltb i 4 then Err "rtp-too-short"
  else match nth_error b 1 with                    (* b[1] & 0x7f *)
       | None => Panic
       | Some x => Ok (N.land x 127)
       end.

(* ---------- rtpreceiver.go maybeStartRepairStreamReader: RTX unwrap ---------- *)

Definition be16 (a b : N) : N := (a * 256 + b)%N.

(* b is the pool buffer (len = receive MTU), i the number of bytes read into
   it; pt and ssrc are the primary track's payload type and SSRC (ssrc as its
   four big-endian bytes).  The buffer is rewritten in place, statement by
   statement.  Ok None = dropped as a probe packet;
   Ok (Some (packet, rtx pt, rtx seq, rtx ssrc bytes)). *)
Definition rtx_unwrap (b : list N) (i : nat) (pt : N) (ssrc : list N)
  : result (option (list N * N * N * list N)) :=
  match nth_error b 0 with                                      (* b[0] *)
  | None => Panic
  | Some b0 =>
      let has_ext := N.ltb 0 (N.land b0 16) in
      let has_pad := N.ltb 0 (N.land b0 32) in
      let cc := N.land b0 15 in
      let hl0 := u16 (12 + 4 * cc) in
      rbind (if has_ext then
               (* headerLength += 4 * (1 + BigEndian.Uint16(b[headerLength+2:headerLength+4])), in uint16 *)
               match slice b (N.to_nat hl0 + 2) (N.to_nat hl0 + 4) with
               | Some [x; y] => Ok (u16 (hl0 + u16 (4 * u16 (1 + be16 x y))))
               | _ => Panic
               end
             else Ok hl0) (fun hl =>
      rbind (if has_pad then
               match i with
               | O => Panic                                      (* b[i-1] with i = 0 *)
               | S k => match nth_error b k with Some p => Ok p | None => Panic end
               end
             else Ok 0%N) (fun pad =>
        if Z.ltb (Z.of_nat i - Z.of_N hl - Z.of_N pad) 2 then Ok None
        else
          let h := N.to_nat hl in
          match nth_error b 1, slice b 2 4, slice b 8 12 with   (* b[1], b[2:4], b[8:12] *)
          | Some b1, Some [s0; s1], Some rs =>
              let c1 := upd_nth 1 (N.lor (N.land b1 128) pt) b in          (* b[1] = ... *)
              match nth_error c1 h with                                   (* b[2] = b[headerLength] *)
              | None => Panic
              | Some o0 =>
                  let c2 := upd_nth 2 o0 c1 in
                  match nth_error c2 (h + 1) with                         (* b[3] = b[headerLength+1] *)
                  | None => Panic
                  | Some o1 =>
                      let c3 := upd_nth 3 o1 c2 in
                      let c4 := firstn 8 c3 ++ ssrc ++ skipn 12 c3 in     (* PutUint32(b[8:12], ssrc) *)
                      if Nat.ltb i 2 then Panic                           (* i-2 < 0 in a slice bound *)
                      else
                        (* copy(b[headerLength:i-2], b[headerLength+2:i]) *)
                        match slice c4 h (i - 2), slice c4 (h + 2) i with
                        | Some _, Some src =>
                            let c5 := firstn h c4 ++ src ++ skipn (i - 2) c4 in
                            match slice c5 0 (i - 2) with                 (* b[:i-2] *)
                            | Some pkt => Ok (Some (pkt, N.land b1 127, be16 s0 s1, rs))
                            | None => Panic
                            end
                        | _, _ => Panic
                        end
                  end
              end
          | _, _, _ => Panic
          end))
  end.
