(* C40: lock-only interleaving model, lock-order graphs and rankings.
   Definitions only; proofs are in Proofs/LockOrder.v.

   Threads are lists of acquire/release actions on locks (natural numbers).
   [lstep] executes one action of a thread; acquiring a lock some thread holds
   is disabled (sync.Mutex: not re-entrant, so a thread acquiring a lock it
   holds itself is disabled for ever). *)
From Coq Require Import List Arith Bool.
Import ListNotations.

Definition lock := nat.
Inductive action := Acq (l : lock) | Rel (l : lock).

Record lthread := mkT { todo : list action; held : list lock }.
Definition lstate := list lthread.

Definition holds (t : lthread) (l : lock) : bool := existsb (Nat.eqb l) (held t).
Definition taken (s : lstate) (l : lock) : bool := existsb (fun t => holds t l) s.

Fixpoint remove1 (l : lock) (h : list lock) : list lock :=
  match h with
  | [] => []
  | x :: r => if Nat.eqb l x then r else x :: remove1 l r
  end.

Fixpoint lupd (s : lstate) (n : nat) (t : lthread) : lstate :=
  match s, n with
  | [], _ => []
  | _ :: r, O => t :: r
  | h :: r, S k => h :: lupd r k t
  end.

Definition lstep (s : lstate) (tid : nat) : option lstate :=
  match nth_error s tid with
  | None => None
  | Some t =>
      match todo t with
      | [] => None
      | Acq l :: rest =>
          if taken s l then None else Some (lupd s tid (mkT rest (l :: held t)))
      | Rel l :: rest => Some (lupd s tid (mkT rest (remove1 l (held t))))
      end
  end.

Definition lstep_skip (s : lstate) (tid : nat) : lstate :=
  match lstep s tid with Some s' => s' | None => s end.
Definition lrun (s : lstate) (sched : list nat) : lstate := fold_left lstep_skip sched s.
Definition linit (progs : list (list action)) : lstate := map (fun p => mkT p []) progs.

(* some thread still has something to do, and no thread can move *)
Definition deadlocked (s : lstate) : Prop :=
  (exists t, In t s /\ todo t <> []) /\ forall tid, lstep s tid = None.

(* a thread acquires in strictly increasing rank, releases only what it holds
   and ends holding nothing *)
Fixpoint disciplined (r : lock -> nat) (acts : list action) (h : list lock) : Prop :=
  match acts with
  | [] => h = []
  | Acq l :: rest => (forall x, In x h -> r x < r l) /\ disciplined r rest (l :: h)
  | Rel l :: rest => In l h /\ disciplined r rest (remove1 l h)
  end.

(* the same with the order given extensionally by a set of
   "acquired while held" edges (held lock, acquired lock) *)
Fixpoint respects (edges : list (lock * lock)) (acts : list action) (h : list lock) : Prop :=
  match acts with
  | [] => h = []
  | Acq l :: rest => (forall x, In x h -> In (x, l) edges) /\ respects edges rest (l :: h)
  | Rel l :: rest => In l h /\ respects edges rest (remove1 l h)
  end.

(* ---- ranking checker: longest-path layering by repeated relaxation ---- *)
Definition rank_of (rk : list nat) (l : lock) : nat := nth l rk 0.

Fixpoint set_nth (rk : list nat) (n v : nat) : list nat :=
  match rk, n with
  | [], _ => []
  | _ :: r, O => v :: r
  | h :: r, S k => h :: set_nth r k v
  end.

Definition relax1 (rk : list nat) (e : lock * lock) : list nat :=
  let (a, b) := e in
  if rank_of rk b <=? rank_of rk a then set_nth rk b (S (rank_of rk a)) else rk.

Definition relax (edges : list (lock * lock)) (rk : list nat) : list nat :=
  fold_left relax1 edges rk.

Fixpoint iter {A} (n : nat) (f : A -> A) (x : A) : A :=
  match n with O => x | S k => iter k f (f x) end.

Definition node_bound (edges : list (lock * lock)) : nat :=
  S (fold_right (fun e m => Nat.max (Nat.max (fst e) (snd e)) m) 0 edges).

Definition check_ranking (rk : list nat) (edges : list (lock * lock)) : bool :=
  forallb (fun e => rank_of rk (fst e) <? rank_of rk (snd e)) edges.

Definition find_ranking (edges : list (lock * lock)) : option (list nat) :=
  let n := node_bound edges in
  let rk := iter (S n) (relax edges) (repeat 0 n) in
  if check_ranking rk edges then Some rk else None.
