(* C12 / C04: one PeerConnection's signalling-visible state under Unified Plan,
   transcribed from peerconnection.go (AddTrack, RemoveTrack,
   AddTransceiverFromKind/FromTrack, CreateDataChannel, CreateOffer,
   CreateAnswer, setDescription, SetLocalDescription, SetRemoteDescription,
   generateUnmatchedSDP, generateMatchedSDP, close), rtptransceiver.go
   (setSendingTrack, isSendAllowed, findByMid, satisfyTypeAndDirection, Stop),
   rtpsender.go (GetParameters, AddEncoding, ReplaceTrack, Send, Stop,
   configureRTXAndFEC) and sdp.go (addSenderSDP, addTransceiverSDP direction,
   addDataMediaSection, getByMid, getPeerDirection, getMidValue).

   The remote peer is the environment: remote descriptions are inputs
   (mid / media / direction per m-section), as are the values the code draws at
   random (SSRCs, generated track ids) and the MediaEngine's "RTX / FEC still
   enabled after this remote description" answer.

   Not modelled (assumed by the correspondence suites): Plan-B, identity
   providers, transceivers without any codec (rejected "port 0" stub section),
   ICE/DTLS parameters, codecs, header extensions, candidates.
   No proofs here. *)
From Coq Require Import List ZArith NArith String Ascii Bool.
Import ListNotations.
From Verif Require Import Common.Base Common.NegoText.
Open Scope string_scope.

(* ---------- vocabulary ---------- *)

Inductive kind := Audio | Video.
Inductive dir := Sendrecv | Sendonly | Recvonly | Inactive.
Inductive sigst := Stable | HaveLocalOffer | HaveRemoteOffer | HaveLocalPranswer | HaveRemotePranswer | SigClosed.
Inductive sdpty := TOffer | TAnswer | TPranswer.
(* m= media name: audio, video, application, anything else *)
Inductive mkind := MAudio | MVideo | MApp | MOther.

Definition kind_eqb (a b : kind) : bool :=
  match a, b with Audio, Audio | Video, Video => true | _, _ => false end.
Definition dir_eqb (a b : dir) : bool :=
  match a, b with
  | Sendrecv, Sendrecv | Sendonly, Sendonly | Recvonly, Recvonly | Inactive, Inactive => true
  | _, _ => false
  end.
Definition sig_eqb (a b : sigst) : bool :=
  match a, b with
  | Stable, Stable | HaveLocalOffer, HaveLocalOffer | HaveRemoteOffer, HaveRemoteOffer
  | HaveLocalPranswer, HaveLocalPranswer | HaveRemotePranswer, HaveRemotePranswer
  | SigClosed, SigClosed => true
  | _, _ => false
  end.
(* "unknown" current directions are None *)
Definition odir_eqb (a : option dir) (b : dir) : bool :=
  match a with Some x => dir_eqb x b | None => false end.

(* RTPTransceiverDirection.Revers *)
Definition revers (d : dir) : dir :=
  match d with Sendonly => Recvonly | Recvonly => Sendonly | x => x end.
Definition dir_str (d : dir) : string :=
  match d with Sendrecv => "sendrecv" | Sendonly => "sendonly"
             | Recvonly => "recvonly" | Inactive => "inactive" end.
Definition kind_str (k : kind) : string :=
  match k with Audio => "audio" | Video => "video" end.
Definition mkind_of (k : kind) : mkind := match k with Audio => MAudio | Video => MVideo end.
(* NewRTPCodecType(media.MediaName.Media) *)
Definition kind_of_media (m : mkind) : option kind :=
  match m with MAudio => Some Audio | MVideo => Some Video | _ => None end.

(* ---------- senders ---------- *)

(* a TrackLocal as the sender sees it: ID(), StreamID(), RID() *)
Record trk := { k_id : string; k_stream : string; k_rid : string }.
(* trackEncoding: its track (nil after ReplaceTrack(nil)) and the three SSRCs *)
Record enc := { e_track : option trk; e_ssrc : N; e_rtx : N; e_fec : N }.
Record sender := {
  sn_encs : list enc;
  sn_negotiated : bool;     (* setNegotiated, by CreateOffer/CreateAnswer *)
  sn_sent : bool;           (* hasSent: Send was called (startRTPSenders) *)
  sn_stopped : bool         (* hasStopped *)
}.

(* RTPSender.Track(): the first encoding's track *)
Definition sender_track (s : sender) : option trk :=
  match sn_encs s with [] => None | e :: _ => e_track e end.

(* what a new sender's encoding gets: the values GetParameters reports right
   after creation (ssrc random; rtx/fec random or 0 by the MediaEngine) *)
Record encin := { i_trk : trk; i_ssrc : N; i_rtx : N; i_fec : N }.
Definition enc_of (i : encin) : enc :=
  {| e_track := Some (i_trk i); e_ssrc := i_ssrc i; e_rtx := i_rtx i; e_fec := i_fec i |}.
(* NewRTPSender + addEncoding *)
Definition new_sender (i : encin) : sender :=
  {| sn_encs := [enc_of i]; sn_negotiated := false; sn_sent := false; sn_stopped := false |}.

(* RTPSender.ReplaceTrack, after its kind / envelope checks: with !hasSent or a
   nil track every encoding's track is overwritten; otherwise (sent, one
   encoding) Unbind/Bind succeed and encoding 0 gets the track *)
Definition sender_set_track (s : sender) (t : option trk) : sender :=
  {| sn_encs := map (fun e => {| e_track := t; e_ssrc := e_ssrc e; e_rtx := e_rtx e; e_fec := e_fec e |})
                    (sn_encs s);
     sn_negotiated := sn_negotiated s; sn_sent := sn_sent s; sn_stopped := sn_stopped s |}.

(* RTPSender.Stop: idempotent; a sender that has sent drops its tracks *)
Definition sender_stop (s : sender) : sender :=
  if sn_stopped s then s
  else
    let s1 := {| sn_encs := sn_encs s; sn_negotiated := sn_negotiated s;
                 sn_sent := sn_sent s; sn_stopped := true |} in
    if sn_sent s then sender_set_track s1 None else s1.

Definition sender_mark_negotiated (s : sender) : sender :=
  {| sn_encs := sn_encs s; sn_negotiated := true; sn_sent := sn_sent s; sn_stopped := sn_stopped s |}.
Definition sender_mark_sent (s : sender) : sender :=
  {| sn_encs := sn_encs s; sn_negotiated := sn_negotiated s; sn_sent := true; sn_stopped := sn_stopped s |}.

(* configureRTXAndFEC: zero the repair SSRCs the MediaEngine no longer enables *)
Definition sender_configure (rtx_on fec_on : bool) (s : sender) : sender :=
  {| sn_encs := map (fun e => {| e_track := e_track e; e_ssrc := e_ssrc e;
                                 e_rtx := if rtx_on then e_rtx e else 0%N;
                                 e_fec := if fec_on then e_fec e else 0%N |}) (sn_encs s);
     sn_negotiated := sn_negotiated s; sn_sent := sn_sent s; sn_stopped := sn_stopped s |}.

(* ---------- transceivers ---------- *)

Record tcv := {
  t_mid : string;                 (* "" = not set *)
  t_kind : kind;
  t_dir : dir;
  t_sender : option sender;
  t_cur : option dir;             (* currentDirection, None = unknown *)
  t_curremote : option dir        (* currentRemoteDirection *)
}.

Definition tcv_with_mid (t : tcv) (m : string) : tcv :=
  {| t_mid := m; t_kind := t_kind t; t_dir := t_dir t; t_sender := t_sender t;
     t_cur := t_cur t; t_curremote := t_curremote t |}.
Definition tcv_with_dir (t : tcv) (d : dir) : tcv :=
  {| t_mid := t_mid t; t_kind := t_kind t; t_dir := d; t_sender := t_sender t;
     t_cur := t_cur t; t_curremote := t_curremote t |}.
Definition tcv_with_sender (t : tcv) (s : option sender) : tcv :=
  {| t_mid := t_mid t; t_kind := t_kind t; t_dir := t_dir t; t_sender := s;
     t_cur := t_cur t; t_curremote := t_curremote t |}.
Definition tcv_with_cur (t : tcv) (c : option dir) : tcv :=
  {| t_mid := t_mid t; t_kind := t_kind t; t_dir := t_dir t; t_sender := t_sender t;
     t_cur := c; t_curremote := t_curremote t |}.
Definition tcv_with_curremote (t : tcv) (c : option dir) : tcv :=
  {| t_mid := t_mid t; t_kind := t_kind t; t_dir := t_dir t; t_sender := t_sender t;
     t_cur := t_cur t; t_curremote := c |}.

(* newRTPTransceiver *)
Definition new_tcv (k : kind) (d : dir) (s : option sender) : tcv :=
  {| t_mid := ""; t_kind := k; t_dir := d; t_sender := s; t_cur := None; t_curremote := None |}.

(* RTPTransceiver.Stop *)
Definition tcv_stop (t : tcv) : tcv :=
  {| t_mid := t_mid t; t_kind := t_kind t; t_dir := Inactive;
     t_sender := option_map sender_stop (t_sender t);
     t_cur := Some Inactive; t_curremote := t_curremote t |}.

(* isSendAllowed *)
Definition is_send_allowed (t : tcv) (k : kind) : bool :=
  if negb (kind_eqb (t_kind t) k) || (match t_sender t with Some _ => true | None => false end) then false
  else if odir_eqb (t_cur t) Sendrecv || odir_eqb (t_cur t) Sendonly then false
  else if odir_eqb (t_curremote t) Sendonly || odir_eqb (t_curremote t) Inactive then false
  else true.

(* setSendingTrack's direction switch; None = errRTPTransceiverSetSendingInvalidState *)
Definition sending_dir (has_track : bool) (d : dir) : option dir :=
  match has_track, d with
  | true, Recvonly => Some Sendrecv
  | true, Inactive => Some Sendonly
  | false, Sendrecv => Some Recvonly
  | true, Sendonly => Some Sendonly
  | true, Sendrecv => Some Sendrecv
  | false, Sendonly => Some Inactive
  | _, _ => None
  end.

(* ---------- descriptions ---------- *)

(* one m-section, as far as the code under study reads it back: the mid
   attribute (None = absent), the media name, the first direction attribute,
   and -- for sections this side generated -- the attributes addSenderSDP wrote
   (key, value), in order *)
Record sec := {
  sc_mid : option string;
  sc_media : mkind;
  sc_dir : option dir;
  sc_attrs : list (string * string)
}.
Record desc := { d_type : sdpty; d_secs : list sec }.

(* getMidValue *)
Definition mid_value (s : sec) : string := match sc_mid s with Some m => m | None => "" end.

(* getByMid: first section that has a mid attribute equal to the search value *)
Fixpoint get_by_mid (m : string) (l : list sec) : option sec :=
  match l with
  | [] => None
  | s :: r => match sc_mid s with
              | Some x => if String.eqb x m then Some s else get_by_mid m r
              | None => get_by_mid m r
              end
  end.

(* haveDataChannel *)
Definition have_data_channel (l : list sec) : bool :=
  existsb (fun s => match sc_media s with MApp => true | _ => false end) l.

(* MediaDescription.Attribute(key) *)
Fixpoint attr_lookup (key : string) (l : list (string * string)) : option string :=
  match l with
  | [] => None
  | (k, v) :: r => if String.eqb k key then Some v else attr_lookup key r
  end.

(* ---------- what addSenderSDP writes for one section ---------- *)

(* MediaDescription.WithMediaSource(ssrc, cname = stream, streamLabel = stream, label = track) *)
Definition media_source (ssrc : N) (stream track : string) : list (string * string) :=
  [ ("ssrc", itoaN ssrc ++ " cname:" ++ stream);
    ("ssrc", itoaN ssrc ++ " msid:" ++ stream ++ " " ++ track);
    ("ssrc", itoaN ssrc ++ " mslabel:" ++ stream);
    ("ssrc", itoaN ssrc ++ " label:" ++ track) ].

(* the body of the loop over sendParameters.Encodings (Unified Plan) *)
Definition enc_attrs (stream track : string) (e : enc) : list (string * string) :=
  (if N.eqb (e_rtx e) 0 then [] else [("ssrc-group", "FID " ++ itoaN (e_ssrc e) ++ " " ++ itoaN (e_rtx e))])
  ++ (if N.eqb (e_fec e) 0 then [] else [("ssrc-group", "FEC-FR " ++ itoaN (e_ssrc e) ++ " " ++ itoaN (e_fec e))])
  ++ media_source (e_ssrc e) stream track
  ++ (if N.eqb (e_rtx e) 0 then [] else media_source (e_rtx e) stream track)
  ++ (if N.eqb (e_fec e) 0 then [] else media_source (e_fec e) stream track)
  ++ [("msid", stream ++ " " ++ track)].

(* GetParameters: the RID of an encoding is its own track's RID ("" without a track) *)
Definition enc_rid (e : enc) : string :=
  match e_track e with Some t => k_rid t | None => "" end.

Definition sender_attrs (s : option sender) : list (string * string) :=
  match s with
  | None => []
  | Some sn =>
      match sender_track sn with
      | None => []
      | Some tr =>
          flat_map (enc_attrs (k_stream tr) (k_id tr)) (sn_encs sn)
          ++ (if Nat.ltb 1 (List.length (sn_encs sn))
              then map (fun e => ("rid", enc_rid e ++ " send")) (sn_encs sn)
                   ++ [("simulcast", "send " ++ join_with ";" (map enc_rid (sn_encs sn)))]
              else [])
      end
  end.

(* mediaSection: a data section or one transceiver, with the section id *)
Inductive msec := MSData (id : string) | MSMedia (id : string) (t : tcv).

(* addTransceiverSDP / addDataMediaSection, restricted to what is read back *)
Definition render_msec (m : msec) : sec :=
  match m with
  | MSData id => {| sc_mid := Some id; sc_media := MApp; sc_dir := Some Sendrecv; sc_attrs := [] |}
  | MSMedia id t => {| sc_mid := Some id; sc_media := mkind_of (t_kind t); sc_dir := Some (t_dir t);
                       sc_attrs := sender_attrs (t_sender t) |}
  end.

(* ---------- the PeerConnection ---------- *)

Record pc := {
  p_closed : bool;
  p_sig : sigst;
  p_tcvs : list tcv;                 (* creation order *)
  p_greater_mid : Z;                 (* starts at -1 *)
  p_dcs : N;                         (* dataChannelsRequested = len(dataChannels) here *)
  p_always_dc : bool;                (* Configuration.AlwaysNegotiateDataChannels *)
  p_cur_local : option desc;
  p_pend_local : option desc;
  p_cur_remote : option desc;
  p_pend_remote : option desc;
  p_last_offer : option desc;
  p_last_answer : option desc
}.

Definition pc_init (always_dc : bool) : pc :=
  {| p_closed := false; p_sig := Stable; p_tcvs := []; p_greater_mid := (-1)%Z; p_dcs := 0%N;
     p_always_dc := always_dc; p_cur_local := None; p_pend_local := None; p_cur_remote := None;
     p_pend_remote := None;
     (* lastOffer / lastAnswer start as "", which SetLocalDescription parses as a
        description without m-sections and accepts *)
     p_last_offer := Some {| d_type := TOffer; d_secs := [] |};
     p_last_answer := Some {| d_type := TAnswer; d_secs := [] |} |}.

Definition pc_with_tcvs (p : pc) (l : list tcv) : pc :=
  {| p_closed := p_closed p; p_sig := p_sig p; p_tcvs := l; p_greater_mid := p_greater_mid p;
     p_dcs := p_dcs p; p_always_dc := p_always_dc p; p_cur_local := p_cur_local p;
     p_pend_local := p_pend_local p; p_cur_remote := p_cur_remote p; p_pend_remote := p_pend_remote p;
     p_last_offer := p_last_offer p; p_last_answer := p_last_answer p |}.

(* what a call did besides changing the state: the number of times it called
   onNegotiationNeeded, and whether setDescription entered stable (which first
   clears [[NegotiationNeeded]]) -- consumed by Model/Negotiation.v *)
Record effect := { fx_triggers : nat; fx_to_stable : bool }.
Definition fx_none : effect := {| fx_triggers := 0; fx_to_stable := false |}.
Definition fx_one : effect := {| fx_triggers := 1; fx_to_stable := false |}.

(* result of one API call: status ("ok", "skip" = the harness does not make the
   call, or an error class) and, for CreateOffer / CreateAnswer, the description *)
Record outcome := { o_status : string; o_desc : option desc }.
Definition ok_ : outcome := {| o_status := "ok"; o_desc := None |}.
Definition err_ (e : string) : outcome := {| o_status := e; o_desc := None |}.

(* ---------- list helpers ---------- *)

Fixpoint update_nth {A} (n : nat) (f : A -> A) (l : list A) : list A :=
  match l, n with
  | [], _ => []
  | x :: r, O => f x :: r
  | x :: r, S k => x :: update_nth k f r
  end.

(* findByMid over indexed transceivers: first with that mid, and the rest *)
Fixpoint find_by_mid (m : string) (l : list (nat * tcv)) : option ((nat * tcv) * list (nat * tcv)) :=
  match l with
  | [] => None
  | x :: r => if String.eqb (t_mid (snd x)) m then Some (x, r)
              else match find_by_mid m r with
                   | Some (y, r') => Some (y, x :: r')
                   | None => None
                   end
  end.

Fixpoint find_first (f : nat * tcv -> bool) (l : list (nat * tcv))
  : option ((nat * tcv) * list (nat * tcv)) :=
  match l with
  | [] => None
  | x :: r => if f x then Some (x, r)
              else match find_first f r with
                   | Some (y, r') => Some (y, x :: r')
                   | None => None
                   end
  end.

(* satisfyTypeAndDirection *)
Definition preferred_dirs (remote : dir) : list dir :=
  match remote with
  | Sendrecv => [Recvonly; Sendrecv; Sendonly]
  | Sendonly => [Recvonly]
  | Recvonly => [Sendonly; Sendrecv]
  | Inactive => []
  end.
Fixpoint satisfy_dirs (k : kind) (ds : list dir) (l : list (nat * tcv))
  : option ((nat * tcv) * list (nat * tcv)) :=
  match ds with
  | [] => None
  | d :: ds' =>
      match find_first (fun x => String.eqb (t_mid (snd x)) "" && kind_eqb (t_kind (snd x)) k
                                 && dir_eqb d (t_dir (snd x))) l with
      | Some r => Some r
      | None => satisfy_dirs k ds' l
      end
  end.
Definition satisfy_type_and_direction (k : kind) (remote : dir) (l : list (nat * tcv)) :=
  satisfy_dirs k (preferred_dirs remote) l.

Fixpoint index_from {A} (n : nat) (l : list A) : list (nat * A) :=
  match l with [] => [] | x :: r => (n, x) :: index_from (S n) r end.
Definition indexed {A} (l : list A) : list (nat * A) := index_from 0 l.

(* ---------- local media operations ---------- *)

(* AddTrack's loop: first transceiver that may send this kind *)
Fixpoint add_track_reuse (l : list tcv) (k : kind) (i : encin) : option (list tcv) :=
  match l with
  | [] => None
  | t :: r =>
      if is_send_allowed t k then
        (* NewRTPSender; SetSender; setSendingTrack(track): all four directions accept a track *)
        match sending_dir true (t_dir t) with
        | Some d => Some (tcv_with_dir (tcv_with_sender t (Some (new_sender i))) d :: r)
        | None => None
        end
      else match add_track_reuse r k i with
           | Some r' => Some (t :: r')
           | None => None
           end
  end.

Definition add_track (p : pc) (k : kind) (i : encin) : pc * outcome * effect :=
  if p_closed p then (p, err_ "closed", fx_none)
  else match add_track_reuse (p_tcvs p) k i with
       | Some l => (pc_with_tcvs p l, ok_, fx_one)
       | None =>
           (* newTransceiverFromTrack(sendrecv); addRTPTransceiver *)
           (pc_with_tcvs p (p_tcvs p ++ [new_tcv k Sendrecv (Some (new_sender i))]), ok_, fx_one)
       end.

(* AddTransceiverFromKind: d = None stands for a direction value outside the
   four (e.g. an RTPTransceiverInit without Direction) *)
Definition add_tcv_kind (p : pc) (k : kind) (d : option dir) (i : encin) : pc * outcome * effect :=
  if p_closed p then (p, err_ "closed", fx_none)
  else match d with
       | Some Sendrecv => (pc_with_tcvs p (p_tcvs p ++ [new_tcv k Sendrecv (Some (new_sender i))]), ok_, fx_one)
       | Some Sendonly => (pc_with_tcvs p (p_tcvs p ++ [new_tcv k Sendonly (Some (new_sender i))]), ok_, fx_one)
       | Some Recvonly => (pc_with_tcvs p (p_tcvs p ++ [new_tcv k Recvonly None]), ok_, fx_one)
       | _ => (p, err_ "direction", fx_none)
       end.

(* AddTransceiverFromTrack *)
Definition add_tcv_track (p : pc) (k : kind) (d : option dir) (i : encin) : pc * outcome * effect :=
  if p_closed p then (p, err_ "closed", fx_none)
  else match d with
       | Some Sendrecv => (pc_with_tcvs p (p_tcvs p ++ [new_tcv k Sendrecv (Some (new_sender i))]), ok_, fx_one)
       | Some Sendonly => (pc_with_tcvs p (p_tcvs p ++ [new_tcv k Sendonly (Some (new_sender i))]), ok_, fx_one)
       | _ => (p, err_ "direction", fx_none)
       end.

(* RemoveTrack(GetTransceivers()[ti].Sender()); "skip" when there is no such sender *)
Definition remove_track (p : pc) (ti : nat) : pc * outcome * effect :=
  match nth_error (p_tcvs p) ti with
  | None => (p, err_ "skip", fx_none)
  | Some t =>
      match t_sender t with
      | None => (p, err_ "skip", fx_none)
      | Some _ =>
          if p_closed p then (p, err_ "closed", fx_none)
          else
            (* sender.Stop() returns nil here; setSendingTrack(nil): ReplaceTrack(nil),
               setSender(nil), then the direction switch *)
            let t1 := tcv_with_sender t None in
            match sending_dir false (t_dir t) with
            | Some d => (pc_with_tcvs p (update_nth ti (fun _ => tcv_with_dir t1 d) (p_tcvs p)), ok_, fx_one)
            | None => (pc_with_tcvs p (update_nth ti (fun _ => t1) (p_tcvs p)), err_ "invalid-state", fx_none)
            end
      end
  end.

(* GetTransceivers()[ti].Sender().ReplaceTrack(track); k = the new track's kind *)
Definition replace_track (p : pc) (ti : nat) (k : kind) (tr : option trk) : pc * outcome * effect :=
  match nth_error (p_tcvs p) ti with
  | None => (p, err_ "skip", fx_none)
  | Some t =>
      match t_sender t with
      | None => (p, err_ "skip", fx_none)
      | Some s =>
          match tr with
          | Some _ =>
              if negb (kind_eqb k (t_kind t)) then (p, err_ "kind", fx_none)
              else if Nat.ltb 1 (List.length (sn_encs s)) then (p, err_ "envelope", fx_none)
              else (pc_with_tcvs p (update_nth ti (fun _ => tcv_with_sender t (Some (sender_set_track s tr)))
                                               (p_tcvs p)), ok_, fx_none)
          | None =>
              (pc_with_tcvs p (update_nth ti (fun _ => tcv_with_sender t (Some (sender_set_track s None)))
                                          (p_tcvs p)), ok_, fx_none)
          end
      end
  end.

(* GetTransceivers()[ti].Sender().AddEncoding(track) *)
Definition add_encoding (p : pc) (ti : nat) (k : kind) (i : encin) : pc * outcome * effect :=
  match nth_error (p_tcvs p) ti with
  | None => (p, err_ "skip", fx_none)
  | Some t =>
      match t_sender t with
      | None => (p, err_ "skip", fx_none)
      | Some s =>
          if String.eqb (k_rid (i_trk i)) "" then (p, err_ "rid-nil", fx_none)
          else if sn_stopped s then (p, err_ "stopped", fx_none)
          else if sn_sent s then (p, err_ "sent", fx_none)
          else match sender_track s with
               | None => (p, err_ "no-base", fx_none)
               | Some ref =>
                   if String.eqb (k_rid ref) "" then (p, err_ "no-base", fx_none)
                   else if negb (String.eqb (k_id ref) (k_id (i_trk i))
                                 && String.eqb (k_stream ref) (k_stream (i_trk i))
                                 && kind_eqb (t_kind t) k) then (p, err_ "mismatch", fx_none)
                   else if existsb (fun e => match e_track e with
                                             | Some x => String.eqb (k_rid x) (k_rid (i_trk i))
                                             | None => false end) (sn_encs s)
                        then (p, err_ "rid-collision", fx_none)
                   else
                     let s' := {| sn_encs := sn_encs s ++ [enc_of i]; sn_negotiated := sn_negotiated s;
                                  sn_sent := sn_sent s; sn_stopped := sn_stopped s |} in
                     (pc_with_tcvs p (update_nth ti (fun _ => tcv_with_sender t (Some s')) (p_tcvs p)),
                      ok_, fx_none)
               end
      end
  end.

Definition create_data_channel (p : pc) : pc * outcome * effect :=
  if p_closed p then (p, err_ "closed", fx_none)
  else ({| p_closed := p_closed p; p_sig := p_sig p; p_tcvs := p_tcvs p; p_greater_mid := p_greater_mid p;
           p_dcs := (p_dcs p + 1)%N; p_always_dc := p_always_dc p; p_cur_local := p_cur_local p;
           p_pend_local := p_pend_local p; p_cur_remote := p_cur_remote p; p_pend_remote := p_pend_remote p;
           p_last_offer := p_last_offer p; p_last_answer := p_last_answer p |}, ok_, fx_one).

(* close(false): [[IsClosed]], signaling state closed, every transceiver stopped;
   the operations queue stays open *)
Definition close_pc (p : pc) : pc * outcome * effect :=
  if p_closed p then (p, ok_, fx_none)
  else ({| p_closed := true; p_sig := SigClosed; p_tcvs := map tcv_stop (p_tcvs p);
           p_greater_mid := p_greater_mid p; p_dcs := p_dcs p; p_always_dc := p_always_dc p;
           p_cur_local := p_cur_local p; p_pend_local := p_pend_local p; p_cur_remote := p_cur_remote p;
           p_pend_remote := p_pend_remote p; p_last_offer := p_last_offer p;
           p_last_answer := p_last_answer p |}, ok_, fx_none).

(* ---------- CreateOffer ---------- *)

(* "update the greater mid if a remote description (current or pending) or an
   existing transceiver provides a greater one": one remote description *)
Definition greater_from_remote (g : Z) (l : list sec) : Z :=
  fold_left (fun g s =>
               let m := mid_value s in
               if String.eqb m "" then g
               else match atoiZ m with
                    | Some n => if Z.gtb n g then n else g
                    | None => g
                    end) l g.

(* second pass over currentTransceivers: the transceivers without mid are
   numbered greaterMid+1, ... (the mids already set were taken into account by
   the first pass, greater_from_tcvs below) *)
Fixpoint assign_mids (g : Z) (l : list tcv) : Z * list tcv :=
  match l with
  | [] => (g, [])
  | t :: r =>
      if String.eqb (t_mid t) "" then
        let g' := (g + 1)%Z in
        let (g'', r') := assign_mids g' r in
        (g'', tcv_with_mid t (itoaZ g') :: r')
      else
        let (g'', r') := assign_mids g r in
        (g'', t :: r')
  end.

(* first pass of the loop over currentTransceivers: the numeric mids already set *)
Definition greater_from_tcvs (g : Z) (l : list tcv) : Z :=
  fold_left (fun g t => match atoiZ (t_mid t) with
                        | Some n => if Z.gtb n g then n else g
                        | None => g
                        end) l g.

Definition mark_negotiated (t : tcv) : tcv :=
  tcv_with_sender t (option_map sender_mark_negotiated (t_sender t)).

Definition want_data (p : pc) : bool := p_always_dc p || negb (N.eqb (p_dcs p) 0).

(* generateUnmatchedSDP, Unified Plan *)
Definition unmatched_sections (p : pc) (l : list tcv) : list msec :=
  let ms := map (fun t => MSMedia (t_mid t) t) l in
  ms ++ (if want_data p then [MSData (itoaN (N.of_nat (List.length ms)))] else []).

(* generateMatchedSDP's loop over the remote m-sections, Unified Plan.
   Returns the sections built so far, the local transceivers not yet used, and
   whether an application section was seen. *)
Fixpoint matched_loop (remote : list sec) (locals : list (nat * tcv)) (acc : list msec) (have_app : bool)
  : result (list msec * list (nat * tcv) * bool) :=
  match remote with
  | [] => Ok (acc, locals, have_app)
  | m :: rest =>
      let mid := mid_value m in
      if String.eqb mid "" then Err "remote-without-mid"
      else match sc_media m with
           | MApp => matched_loop rest locals (acc ++ [MSData mid]) true
           | _ =>
               match kind_of_media (sc_media m), sc_dir m with
               | Some _, Some _ =>
                   match find_by_mid mid locals with
                   | None => Err "mid-not-found"
                   | Some ((_, t), locals') =>
                       matched_loop rest locals' (acc ++ [MSMedia mid t]) have_app
                   end
               | _, _ => matched_loop rest locals acc have_app   (* section skipped *)
               end
           end
  end.

(* the transceivers the same loop has already called setNegotiated on when it
   returns -- normally or with an error (the marks made before
   errPeerConnRemoteDescriptionWithoutMidValue / errPeerConnTranscieverMidNil stay) *)
Fixpoint matched_prefix (remote : list sec) (locals : list (nat * tcv)) : list nat :=
  match remote with
  | [] => []
  | m :: rest =>
      let mid := mid_value m in
      if String.eqb mid "" then []
      else match sc_media m with
           | MApp => matched_prefix rest locals
           | _ =>
               match kind_of_media (sc_media m), sc_dir m with
               | Some _, Some _ =>
                   match find_by_mid mid locals with
                   | None => []
                   | Some ((i, _), locals') => i :: matched_prefix rest locals'
                   end
               | _, _ => matched_prefix rest locals
               end
           end
  end.

Definition matched_sections (p : pc) (remote : list sec) (l : list tcv) (include_unmatched : bool)
  : result (list msec * list nat) :=
  match matched_loop remote (indexed l) [] false with
  | Ok (acc, locals, have_app) =>
      if include_unmatched then
        let acc1 := (acc ++ map (fun x => MSMedia (t_mid (snd x)) (snd x)) locals)%list in
        Ok ((acc1 ++ (if want_data p && negb have_app
                      then [MSData (itoaN (N.of_nat (List.length acc1)))] else []))%list, [])
      else Ok (acc, map fst locals)
  | Err e => Err e
  | Panic => Panic
  end.

(* the remote description generateMatchedSDP works from *)
Definition remote_for_matching (p : pc) : option desc :=
  match p_pend_remote p with Some d => Some d | None => p_cur_remote p end.

(* hasLocalDescriptionChanged *)
Definition local_changed (l : list tcv) (secs : list sec) : bool :=
  existsb (fun t => match get_by_mid (t_mid t) secs with
                    | None => true
                    | Some m => negb (odir_eqb (sc_dir m) (t_dir t))
                    end) l.

Definition pc_after_offer (p : pc) (g : Z) (l : list tcv) (last : option desc) : pc :=
  {| p_closed := p_closed p; p_sig := p_sig p; p_tcvs := l; p_greater_mid := g; p_dcs := p_dcs p;
     p_always_dc := p_always_dc p; p_cur_local := p_cur_local p; p_pend_local := p_pend_local p;
     p_cur_remote := p_cur_remote p; p_pend_remote := p_pend_remote p;
     p_last_offer := last; p_last_answer := p_last_answer p |}.

(* setNegotiated on the senders of the transceivers at these positions *)
Definition mark_at (idx : list nat) (l : list tcv) : list tcv :=
  map (fun x => if existsb (Nat.eqb (fst x)) idx then mark_negotiated (snd x) else snd x) (indexed l).

(* CreateOffer. The retry loop recomputes the same offer from the same state, so
   a "changed" verdict repeats 128 times and ends in errExcessiveRetries.
   setNegotiated marks are applied to every transceiver's sender on the
   success path (every transceiver is in exactly one section then); when
   generateMatchedSDP fails, the transceivers it matched before the failing
   remote section keep their mark, and so do the mids already given out. *)
Definition create_offer (p : pc) : pc * outcome * effect :=
  if p_closed p then (p, err_ "closed", fx_none)
  else
    let g0 := match p_cur_remote p with
              | Some r => greater_from_remote (p_greater_mid p) (d_secs r)
              | None => p_greater_mid p
              end in
    let g0 := match p_pend_remote p with
              | Some r => greater_from_remote g0 (d_secs r)
              | None => g0
              end in
    let g0 := greater_from_tcvs g0 (p_tcvs p) in
    let (g, l) := assign_mids g0 (p_tcvs p) in
    let built := match p_cur_remote p with
                 | None => Ok (unmatched_sections p l)
                 | Some _ =>
                     match remote_for_matching p with
                     | Some r => match matched_sections p (d_secs r) l true with
                                 | Ok (ms, _) => Ok ms
                                 | Err e => Err e
                                 | Panic => Panic
                                 end
                     | None => Panic
                     end
                 end in
    match built with
    | Ok ms =>
        let secs := map render_msec ms in
        let l' := map mark_negotiated l in
        if local_changed l secs then (pc_after_offer p g l' (p_last_offer p), err_ "excessive-retries", fx_none)
        else
          let d := {| d_type := TOffer; d_secs := secs |} in
          (pc_after_offer p g l' (Some d), {| o_status := "ok"; o_desc := Some d |}, fx_none)
    | Err e =>
        let marked := match remote_for_matching p with
                      | Some r => matched_prefix (d_secs r) (indexed l)
                      | None => []
                      end in
        (pc_after_offer p g (mark_at marked l) (p_last_offer p), err_ e, fx_none)
    | Panic => (p, err_ "panic", fx_none)
    end.

(* ---------- CreateAnswer ---------- *)

Definition create_answer (p : pc) : pc * outcome * effect :=
  match remote_for_matching p with
  | None => (p, err_ "no-remote-description", fx_none)
  | Some r =>
      if p_closed p then (p, err_ "closed", fx_none)
      else if negb (sig_eqb (p_sig p) HaveRemoteOffer) && negb (sig_eqb (p_sig p) HaveLocalPranswer)
           then (p, err_ "signaling-state", fx_none)
      else match matched_sections p (d_secs r) (p_tcvs p) false with
           | Ok (ms, unused) =>
               (* setNegotiated on the matched transceivers' senders *)
               let l' := map (fun x => if existsb (Nat.eqb (fst x)) unused then snd x else mark_negotiated (snd x))
                             (indexed (p_tcvs p)) in
               let d := {| d_type := TAnswer; d_secs := map render_msec ms |} in
               ({| p_closed := p_closed p; p_sig := p_sig p; p_tcvs := l'; p_greater_mid := p_greater_mid p;
                   p_dcs := p_dcs p; p_always_dc := p_always_dc p; p_cur_local := p_cur_local p;
                   p_pend_local := p_pend_local p; p_cur_remote := p_cur_remote p;
                   p_pend_remote := p_pend_remote p; p_last_offer := p_last_offer p;
                   p_last_answer := Some d |},
                {| o_status := "ok"; o_desc := Some d |}, fx_none)
           | Err e =>
               (* the marks made before the failing remote section stay *)
               (pc_with_tcvs p (mark_at (matched_prefix (d_secs r) (indexed (p_tcvs p))) (p_tcvs p)),
                err_ e, fx_none)
           | Panic => (p, err_ "panic", fx_none)
           end
  end.

(* ---------- setDescription and what follows it ---------- *)

(* setRTPTransceiverCurrentDirection: walks the answer's sections; stops at the
   first section without mid or without a transceiver (the error is ignored by
   both callers, the updates made so far stay) *)
Fixpoint set_current_directions (answer : list sec) (we_offer : bool)
         (remaining : list (nat * tcv)) (l : list tcv) : list tcv :=
  match answer with
  | [] => l
  | m :: rest =>
      let mid := mid_value m in
      if String.eqb mid "" then l
      else match sc_media m with
           | MApp => set_current_directions rest we_offer remaining l
           | _ =>
               match find_by_mid mid remaining with
               | None => l
               | Some ((i, t), remaining') =>
                   match sc_dir m with
                   | None => set_current_directions rest we_offer remaining' l
                   | Some d =>
                       let d1 := if we_offer then revers d else d in
                       let d2 := if negb we_offer && dir_eqb d1 Sendonly
                                    && (match t_sender t with None => true | Some _ => false end)
                                 then Inactive else d1 in
                       set_current_directions rest we_offer remaining'
                         (update_nth i (fun x => tcv_with_cur x (Some d2)) l)
                   end
               end
           end
  end.

(* startRTPSenders: Send on every negotiated sender that has not sent; Send
   fails when the base track was removed, and the loop stops there *)
Fixpoint start_rtp_senders (l : list tcv) : list tcv * bool :=
  match l with
  | [] => ([], true)
  | t :: r =>
      match t_sender t with
      | Some s =>
          if sn_negotiated s && negb (sn_sent s) then
            match sender_track s with
            | None => (t :: r, false)
            | Some _ =>
                let (r', okr) := start_rtp_senders r in
                (tcv_with_sender t (Some (sender_mark_sent s)) :: r', okr)
            end
          else let (r', okr) := start_rtp_senders r in (t :: r', okr)
      | None => let (r', okr) := start_rtp_senders r in (t :: r', okr)
      end
  end.

Definition set_local (p : pc) (ty : sdpty) : pc * outcome * effect :=
  if p_closed p then (p, err_ "closed", fx_none)
  else match ty with
       | TOffer =>
           match p_last_offer p with
           | None => (p, err_ "no-description", fx_none)
           | Some d =>
               if sig_eqb (p_sig p) Stable then
                 ({| p_closed := p_closed p; p_sig := HaveLocalOffer; p_tcvs := p_tcvs p;
                     p_greater_mid := p_greater_mid p; p_dcs := p_dcs p; p_always_dc := p_always_dc p;
                     p_cur_local := p_cur_local p; p_pend_local := Some d; p_cur_remote := p_cur_remote p;
                     p_pend_remote := p_pend_remote p; p_last_offer := p_last_offer p;
                     p_last_answer := p_last_answer p |}, ok_, fx_none)
               else (p, err_ "signaling-state", fx_none)
           end
       | TAnswer =>
           match p_last_answer p with
           | None => (p, err_ "no-description", fx_none)
           | Some d =>
               if sig_eqb (p_sig p) HaveRemoteOffer || sig_eqb (p_sig p) HaveLocalPranswer then
                 (* setDescription: into stable *)
                 let remote := p_pend_remote p in
                 (* weAnswer && remoteDesc != nil *)
                 let l1 := match remote with
                           | Some _ => set_current_directions (d_secs d) false (indexed (p_tcvs p)) (p_tcvs p)
                           | None => p_tcvs p
                           end in
                 let (l2, sent_ok) := match remote with
                                      | Some _ => start_rtp_senders l1
                                      | None => (l1, true)
                                      end in
                 ({| p_closed := p_closed p; p_sig := Stable; p_tcvs := l2;
                     p_greater_mid := p_greater_mid p; p_dcs := p_dcs p; p_always_dc := p_always_dc p;
                     p_cur_local := Some d; p_pend_local := None; p_cur_remote := remote;
                     p_pend_remote := None; p_last_offer := p_last_offer p;
                     p_last_answer := p_last_answer p |},
                  if sent_ok then ok_ else err_ "track-removed",
                  {| fx_triggers := 1; fx_to_stable := true |})
               else (p, err_ "signaling-state", fx_none)
           end
       | TPranswer =>
           (* have-remote-offer -> SetLocal(pranswer) -> have-local-pranswer: the
              description becomes the pending local one; weAnswer is false, so
              neither current directions nor senders are touched *)
           match p_last_answer p with
           | None => (p, err_ "no-description", fx_none)
           | Some d =>
               if sig_eqb (p_sig p) HaveRemoteOffer then
                 ({| p_closed := p_closed p; p_sig := HaveLocalPranswer; p_tcvs := p_tcvs p;
                     p_greater_mid := p_greater_mid p; p_dcs := p_dcs p; p_always_dc := p_always_dc p;
                     p_cur_local := p_cur_local p; p_pend_local := Some d; p_cur_remote := p_cur_remote p;
                     p_pend_remote := p_pend_remote p; p_last_offer := p_last_offer p;
                     p_last_answer := p_last_answer p |}, ok_, fx_none)
               else (p, err_ "signaling-state", fx_none)
           end
       end.

(* the direction switch of that loop for a transceiver that exists already:
   offered direction, the transceiver's direction -> its new direction *)
Definition srd_direction (offered cur : dir) : dir :=
  match offered, cur with
  | Recvonly, Sendrecv => Sendonly
  | Recvonly, Recvonly => Inactive
  | Sendrecv, Sendonly => Sendrecv
  | Sendrecv, Inactive => Recvonly
  | Sendonly, Inactive => Recvonly
  | _, c => c
  end.

(* SetRemoteDescription(offer): the loop that matches or creates transceivers.
   remaining = the transceivers that existed at the start and are not yet used;
   l = all transceivers (new ones appended); returns also the number of
   addRTPTransceiver calls *)
Fixpoint remote_offer_loop (remote : list sec) (remaining : list (nat * tcv)) (l : list tcv) (added : nat)
  : list tcv * nat * bool :=
  match remote with
  | [] => (l, added, true)
  | m :: rest =>
      let mid := mid_value m in
      if String.eqb mid "" then (l, added, false)
      else match sc_media m with
           | MApp => remote_offer_loop rest remaining l added
           | _ =>
               match kind_of_media (sc_media m), sc_dir m with
               | Some k, Some d =>
                   let found :=
                     match find_by_mid mid remaining with
                     | Some ((i, t), rem') => Some (i, rem', dir_eqb d Inactive)
                     | None =>
                         match satisfy_type_and_direction k d remaining with
                         | Some ((i, t), rem') => Some (i, rem', false)
                         | None => None
                         end
                     end in
                   match found with
                   | None =>
                       let ld := match d with Recvonly => Sendonly | Inactive => Inactive | _ => Recvonly end in
                       let t := tcv_with_mid (tcv_with_curremote (new_tcv k ld None) (Some d)) mid in
                       remote_offer_loop rest remaining (l ++ [t]) (S added)
                   | Some (i, rem', stop) =>
                       let f := fun t0 : tcv =>
                         let t1 := if stop then tcv_stop t0 else t0 in
                         let t2 := tcv_with_curremote t1 (Some d) in
                         let t3 := tcv_with_dir t2 (srd_direction d (t_dir t2)) in
                         if String.eqb (t_mid t3) "" then tcv_with_mid t3 mid else t3 in
                       remote_offer_loop rest rem' (update_nth i f l) added
                   end
               | _, _ => remote_offer_loop rest remaining l added
               end
           end
  end.

(* SetRemoteDescription with a description that is not an answer (offer, and
   -- weOffer is "type == answer" -- also pranswer): signaling state [from] ->
   [to], the description becomes the pending remote one, then the loop *)
Definition set_remote_nonanswer (p : pc) (d : desc) (from to : sigst) (l0 : list tcv) : pc * outcome * effect :=
  if sig_eqb (p_sig p) from then
    let '(l1, added, ok) := remote_offer_loop (d_secs d) (indexed l0) l0 0 in
    ({| p_closed := p_closed p; p_sig := to; p_tcvs := l1;
        p_greater_mid := p_greater_mid p; p_dcs := p_dcs p; p_always_dc := p_always_dc p;
        p_cur_local := p_cur_local p; p_pend_local := p_pend_local p; p_cur_remote := p_cur_remote p;
        p_pend_remote := Some d; p_last_offer := p_last_offer p; p_last_answer := p_last_answer p |},
     (* extractICEDetails: remote m-sections carry ICE credentials (assumed of
        the remote peer), so it fails exactly when there is no m-section *)
     if negb ok then err_ "remote-without-mid"
     else match d_secs d with [] => err_ "missing-ice-ufrag" | _ => ok_ end,
     {| fx_triggers := added; fx_to_stable := false |})
  else (p, err_ "signaling-state", fx_none).

(* what the environment says after a remote description was applied: is RTX /
   FEC still enabled for audio, for video *)
Record engine := { rtx_audio : bool; rtx_video : bool; fec_audio : bool; fec_video : bool }.
Definition configure_tcv (e : engine) (t : tcv) : tcv :=
  let (r, f) := match t_kind t with
                | Audio => (rtx_audio e, fec_audio e)
                | Video => (rtx_video e, fec_video e)
                end in
  tcv_with_sender t (option_map (sender_configure r f) (t_sender t)).

(* the part of SetRemoteDescription that applies the description (reached only
   after the validation below) *)
Definition set_remote_apply (p : pc) (ty : sdpty) (secs : list sec) (e : engine) : pc * outcome * effect :=
  if p_closed p then (p, err_ "closed", fx_none)
  else
    let d := {| d_type := ty; d_secs := secs |} in
    match ty with
    | TOffer =>
        (* stable -> SetRemote(offer) -> have-remote-offer *)
        if sig_eqb (p_sig p) Stable
        then set_remote_nonanswer p d Stable HaveRemoteOffer (map (configure_tcv e) (p_tcvs p))
        else (p, err_ "signaling-state", fx_none)
    | TPranswer =>
        (* have-local-offer -> SetRemote(pranswer) -> have-remote-pranswer; the
           transceiver loop runs as for an offer (weOffer = type is answer) *)
        if sig_eqb (p_sig p) HaveLocalOffer
        then set_remote_nonanswer p d HaveLocalOffer HaveRemotePranswer (map (configure_tcv e) (p_tcvs p))
        else (p, err_ "signaling-state", fx_none)
    | TAnswer =>
        if sig_eqb (p_sig p) HaveLocalOffer || sig_eqb (p_sig p) HaveRemotePranswer then
          let l0 := map (configure_tcv e) (p_tcvs p) in
          (* extractICEDetails fails on a description without m-sections, before
             weOffer: current directions from the remote answer, then startRTPSenders *)
          let ice_ok := match secs with [] => false | _ => true end in
          let l1 := if ice_ok then set_current_directions secs true (indexed l0) l0 else l0 in
          let (l2, sent_ok) := if ice_ok then start_rtp_senders l1 else (l1, false) in
          ({| p_closed := p_closed p; p_sig := Stable; p_tcvs := l2;
              p_greater_mid := p_greater_mid p; p_dcs := p_dcs p; p_always_dc := p_always_dc p;
              p_cur_local := p_pend_local p; p_pend_local := None; p_cur_remote := Some d;
              p_pend_remote := None; p_last_offer := p_last_offer p; p_last_answer := p_last_answer p |},
           if sent_ok then ok_ else err_ "track-removed",
           {| fx_triggers := 1; fx_to_stable := true |})
        else (p, err_ "signaling-state", fx_none)
    end.

(* SetRemoteDescription as repaired ("validate the remote description before
   applying it"): everything checked on the parsed description alone comes
   first and leaves the connection untouched -- a mid on every m-section unless
   the description is an answer, then extractICEDetails (remote m-sections
   carry ICE credentials, assumed of the remote peer, so it fails exactly when
   there is no m-section) -- and only then the signaling table and the rest. *)
Definition secs_have_mid (secs : list sec) : bool :=
  forallb (fun m => negb (String.eqb (mid_value m) "")) secs.
Definition set_remote (p : pc) (ty : sdpty) (secs : list sec) (e : engine) : pc * outcome * effect :=
  if p_closed p then (p, err_ "closed", fx_none)
  else if (match ty with TAnswer => false | _ => true end) && negb (secs_have_mid secs)
       then (p, err_ "remote-without-mid", fx_none)
  else match secs with
       | [] => (p, err_ "missing-ice-ufrag", fx_none)
       | _ => set_remote_apply p ty secs e
       end.

(* ---------- operations ---------- *)

Inductive op :=
| OAddTrack (k : kind) (i : encin)
| OAddTcvKind (k : kind) (d : option dir) (i : encin)
| OAddTcvTrack (k : kind) (d : option dir) (i : encin)
| OAddEncoding (ti : nat) (k : kind) (i : encin)
| ORemoveTrack (ti : nat)
| OReplaceTrack (ti : nat) (k : kind) (t : option trk)
| OCreateDC
| OCreateOffer
| OCreateAnswer
| OSetLocal (ty : sdpty)
| OSetRemote (ty : sdpty) (secs : list sec) (e : engine)
| OClose.

Definition step (p : pc) (o : op) : pc * outcome * effect :=
  match o with
  | OAddTrack k i => add_track p k i
  | OAddTcvKind k d i => add_tcv_kind p k d i
  | OAddTcvTrack k d i => add_tcv_track p k d i
  | OAddEncoding ti k i => add_encoding p ti k i
  | ORemoveTrack ti => remove_track p ti
  | OReplaceTrack ti k t => replace_track p ti k t
  | OCreateDC => create_data_channel p
  | OCreateOffer => create_offer p
  | OCreateAnswer => create_answer p
  | OSetLocal ty => set_local p ty
  | OSetRemote ty secs e => set_remote p ty secs e
  | OClose => close_pc p
  end.

Definition step_pc (p : pc) (o : op) : pc := fst (fst (step p o)).
Definition run_ops (p : pc) (l : list op) : pc := fold_left step_pc l p.
