(* C22: PeerConnection.updateConnectionState (peerconnection.go) transcribed
   case by case, beside the W3C RTCPeerConnectionState function. No proofs here. *)
From Coq Require Import List Bool.
Import ListNotations.

(* iceconnectionstate.go: iota order *)
Inductive ice := IceUnknown | IceNew | IceChecking | IceConnected | IceCompleted
               | IceDisconnected | IceFailed | IceClosed.
(* dtlstransportstate.go: iota order *)
Inductive dtls := DtlsUnknown | DtlsNew | DtlsConnecting | DtlsConnected
                | DtlsClosed | DtlsFailed.
(* peerconnectionstate.go *)
Inductive pcs := PcUnknown | PcNew | PcConnecting | PcConnected
               | PcDisconnected | PcFailed | PcClosed.

Definition ice_eqb (a b : ice) : bool :=
  match a, b with
  | IceUnknown, IceUnknown | IceNew, IceNew | IceChecking, IceChecking
  | IceConnected, IceConnected | IceCompleted, IceCompleted
  | IceDisconnected, IceDisconnected | IceFailed, IceFailed
  | IceClosed, IceClosed => true
  | _, _ => false
  end.
Definition dtls_eqb (a b : dtls) : bool :=
  match a, b with
  | DtlsUnknown, DtlsUnknown | DtlsNew, DtlsNew | DtlsConnecting, DtlsConnecting
  | DtlsConnected, DtlsConnected | DtlsClosed, DtlsClosed
  | DtlsFailed, DtlsFailed => true
  | _, _ => false
  end.
Definition pcs_eqb (a b : pcs) : bool :=
  match a, b with
  | PcUnknown, PcUnknown | PcNew, PcNew | PcConnecting, PcConnecting
  | PcConnected, PcConnected | PcDisconnected, PcDisconnected
  | PcFailed, PcFailed | PcClosed, PcClosed => true
  | _, _ => false
  end.

(* the Go switch: first true case wins; no case true leaves the initial New *)
Definition pion_state (closed : bool) (i : ice) (d : dtls) : pcs :=
  if closed then PcClosed
  else if ice_eqb i IceFailed || dtls_eqb d DtlsFailed then PcFailed
  else if ice_eqb i IceDisconnected then PcDisconnected
  else if (ice_eqb i IceNew || ice_eqb i IceClosed)
          && (dtls_eqb d DtlsNew || dtls_eqb d DtlsClosed) then PcNew
  else if (ice_eqb i IceNew || ice_eqb i IceChecking)
          || (dtls_eqb d DtlsNew || dtls_eqb d DtlsConnecting) then PcConnecting
  else if (ice_eqb i IceConnected || ice_eqb i IceCompleted || ice_eqb i IceClosed)
          && (dtls_eqb d DtlsConnected || dtls_eqb d DtlsClosed) then PcConnected
  else PcNew.

(* which arm of the switch fired; 6 = none (the implicit default) *)
Definition pion_arm (closed : bool) (i : ice) (d : dtls) : nat :=
  if closed then 0
  else if ice_eqb i IceFailed || dtls_eqb d DtlsFailed then 1
  else if ice_eqb i IceDisconnected then 2
  else if (ice_eqb i IceNew || ice_eqb i IceClosed)
          && (dtls_eqb d DtlsNew || dtls_eqb d DtlsClosed) then 3
  else if (ice_eqb i IceNew || ice_eqb i IceChecking)
          || (dtls_eqb d DtlsNew || dtls_eqb d DtlsConnecting) then 4
  else if (ice_eqb i IceConnected || ice_eqb i IceCompleted || ice_eqb i IceClosed)
          && (dtls_eqb d DtlsConnected || dtls_eqb d DtlsClosed) then 5
  else 6.

(* W3C webrtc-pc 4.3.3 RTCPeerConnectionState, written from the spec text as a
   relation-free specification over the single ICE / single DTLS transport a
   bundled pion connection has.  "valid" = a declared, non-zero enum value. *)
Definition ice_valid (i : ice) := i <> IceUnknown.
Definition dtls_valid (d : dtls) := d <> DtlsUnknown.

Inductive w3c : bool -> ice -> dtls -> pcs -> Prop :=
| W_closed : forall i d, w3c true i d PcClosed
| W_failed : forall i d, i = IceFailed \/ d = DtlsFailed -> w3c false i d PcFailed
| W_disc : forall i d, i <> IceFailed -> d <> DtlsFailed -> i = IceDisconnected ->
    w3c false i d PcDisconnected
| W_new : forall i d, d <> DtlsFailed ->
    (i = IceNew \/ i = IceClosed) -> (d = DtlsNew \/ d = DtlsClosed) ->
    w3c false i d PcNew
| W_connecting : forall i d, i <> IceFailed -> d <> DtlsFailed -> i <> IceDisconnected ->
    ~ ((i = IceNew \/ i = IceClosed) /\ (d = DtlsNew \/ d = DtlsClosed)) ->
    (i = IceNew \/ i = IceChecking \/ d = DtlsNew \/ d = DtlsConnecting) ->
    w3c false i d PcConnecting
| W_connected : forall i d,
    ~ ((i = IceNew \/ i = IceClosed) /\ (d = DtlsNew \/ d = DtlsClosed)) ->
    (i = IceConnected \/ i = IceCompleted \/ i = IceClosed) ->
    (d = DtlsConnected \/ d = DtlsClosed) ->
    w3c false i d PcConnected.

(* functional form of the same spec, used for evaluation *)
Definition ice_in (i : ice) (l : list ice) : bool := existsb (ice_eqb i) l.
Definition dtls_in (d : dtls) (l : list dtls) : bool := existsb (dtls_eqb d) l.

Definition w3c_state (closed : bool) (i : ice) (d : dtls) : pcs :=
  if closed then PcClosed
  else if ice_in i [IceFailed] || dtls_in d [DtlsFailed] then PcFailed
  else if ice_in i [IceDisconnected] then PcDisconnected
  else if ice_in i [IceNew; IceClosed] && dtls_in d [DtlsNew; DtlsClosed] then PcNew
  else if ice_in i [IceNew; IceChecking] || dtls_in d [DtlsNew; DtlsConnecting]
       then PcConnecting
  else if ice_in i [IceConnected; IceCompleted; IceClosed]
          && dtls_in d [DtlsConnected; DtlsClosed] then PcConnected
  else PcNew.

(* sequential update history: stored state + handler log.
   onConnectionStateChange stores then invokes the handler. *)
Record cstate := { stored : pcs; closedf : bool; log : list pcs }.

Inductive cop := Update (i : ice) (d : dtls) | SetClosed.

Definition cstep (s : cstate) (o : cop) : cstate :=
  match o with
  | SetClosed => {| stored := stored s; closedf := true; log := log s |}
  | Update i d =>
      let n := pion_state (closedf s) i d in
      if pcs_eqb (stored s) n then s
      else {| stored := n; closedf := closedf s; log := log s ++ [n] |}
  end.

Definition cinit : cstate := {| stored := PcNew; closedf := false; log := [] |}.
Definition crun (ops : list cop) : cstate := fold_left cstep ops cinit.
