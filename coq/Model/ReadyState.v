(* C20: DataChannel.readyState transitions and the OnOpen / OnClose events
   (datachannel.go, peerconnection.go) as an interleaving model.

   Threads (schedule alphabet [tid]):
     TOpen        handleOpen (negotiated / remote / detached channel: onOpen is
                  called directly)
     TPc          PeerConnection.Close: step 5 stores closed on every channel
                  still in sctpTransport.dataChannels, then the transports stop
                  (the read will fail)
     TRem         the remote side resets the stream / goes away (the read fails)
     TRl          readLoop's exit path
     TClose j     the j-th DataChannel.Close or GracefulClose call
     TRegO i      the i-th concurrent OnOpen(f) registration (handler id i+1)
     TRegC i      the i-th concurrent OnClose(f) registration (handler id i+1)
     TDoO i       the i-th not yet run "go once.Do(handler)" goroutine of OnOpen
     TDoC i       the same for OnClose
     TDetach      a Detach() call            (one block, always enabled)
     TSend        a Send / SendText call     (one block, always enabled)
   Atomic blocks are the code between the yield points dc.open.set-open,
   dc.close.check, dc.close.set-closing, dc.rl.set-closed, dcreg.open,
   dcreg.close, dcfire.open, dcfire.close.

   [variant]: the code before / after the two repairs
     fix_state  "fix: DataChannel readyState only moves forward ..."
                (setReadyState drops a store that would move the state back;
                 handleOpen stores closed on both closed-while-opening paths)
     fix_once   "fix: one sync.Once per OnOpen/OnClose/OnDial registration"
   [post] is the code as it is now; [pre] is kept for the recorded witnesses.
   No proofs here. *)
From Coq Require Import List Arith Bool.
Import ListNotations.

Inductive rstate := Connecting | Open | Closing | Closed.

Definition rank (r : rstate) : nat :=
  match r with Connecting => 0 | Open => 1 | Closing => 2 | Closed => 3 end.
Definition rstate_eqb (a b : rstate) : bool := Nat.eqb (rank a) (rank b).

Record variant := { fix_state : bool; fix_once : bool }.
Definition post : variant := {| fix_state := true; fix_once := true |}.
Definition pre : variant := {| fix_state := false; fix_once := false |}.

(* position of handleOpen *)
Inductive opc :=
| OStart
| OSetOpen                       (* d.dataChannel set; before setReadyState(open) *)
| OFireOpen (h : option nat)     (* onOpen read the handler; before "go once.Do" *)
| OFireClose (h : option nat)    (* onClose read the handler (closed while opening) *)
| ODone.

(* position of a Close / GracefulClose call *)
Inductive cpc :=
| CStart
| CCheck (have wait : bool)  (* isGracefulClosed set; before the closed-check *)
| CSet (have wait : bool)    (* check passed; before setReadyState(closing) *)
| CWait                      (* GracefulClose: deferred <-readLoopActive *)
| CDone.

(* position of the read loop *)
Inductive rlpc :=
| RRun                           (* in ReadDataChannel *)
| RFire (h : option nat)         (* closed stored, onClose read the handler *)
| RDone.                         (* returned; readLoopActive closed *)

(* position of an OnOpen / OnClose registration *)
Inductive rpc := GStart | GCheck | GDone.

Record config := {
  detach : bool;             (* SettingEngine.DetachDataChannels() *)
  prereg : bool;             (* OnOpen / OnClose (handler id 0) registered before anything runs *)
  closer_kinds : list bool;  (* true = GracefulClose *)
  n_reg_open : nat;
  n_reg_close : nat
}.

(* handler bookkeeping of one event kind *)
Record ev := {
  handler : option nat;      (* d.onXHandler: id of the registration that set it *)
  shared_fired : bool;       (* pre fix_once: the one d.xHandlerOnce, reset by every registration *)
  fired : nat -> bool;       (* post fix_once: the Once created by registration k *)
  calls : nat -> nat;        (* ghost: invocations of the handler of registration k *)
  pend : list nat            (* spawned "go once.Do(handler k)" goroutines not yet run *)
}.

Record st := {
  rs : rstate;               (* d.readyState *)
  hist : list rstate;        (* ghost: every value stored, oldest first (after the initial connecting) *)
  graceful : bool;           (* d.isGracefulClosed *)
  have_dc : bool;            (* d.dataChannel != nil *)
  dc_closed : bool;          (* ghost: the underlying pion/datachannel was closed locally *)
  rl_started : bool;         (* d.readLoopActive != nil *)
  gone : bool;               (* the transport is gone or the remote closed: the read fails *)
  in_list : bool;            (* still in sctpTransport.dataChannels *)
  evo : ev;                  (* OnOpen *)
  evc : ev;                  (* OnClose *)
  o_pc : opc;
  pc_done : bool;
  rem_done : bool;
  rl_pc : rlpc;
  closers : list (bool * cpc);
  regs_o : list rpc;
  regs_c : list rpc
}.

Definition ev_init (pre_registered : bool) : ev :=
  {| handler := if pre_registered then Some 0 else None; shared_fired := false;
     fired := fun _ => false; calls := fun _ => 0; pend := [] |}.

Definition init (c : config) : st :=
  {| rs := Connecting; hist := []; graceful := false; have_dc := false; dc_closed := false;
     rl_started := false; gone := false; in_list := true;
     evo := ev_init (prereg c); evc := ev_init (prereg c);
     o_pc := OStart; pc_done := false; rem_done := false; rl_pc := RRun;
     closers := map (fun g => (g, CStart)) (closer_kinds c);
     regs_o := repeat GStart (n_reg_open c); regs_c := repeat GStart (n_reg_close c) |}.

Fixpoint set_nth {A} (i : nat) (x : A) (l : list A) {struct l} : list A :=
  match l, i with
  | [], _ => []
  | _ :: t, O => x :: t
  | a :: t, S j => a :: set_nth j x t
  end.

Fixpoint remove_nth {A} (i : nat) (l : list A) {struct l} : list A :=
  match l, i with
  | [], _ => []
  | _ :: t, O => t
  | a :: t, S j => a :: remove_nth j t
  end.

(* ---------- field updates ---------- *)
Definition set_rs (s : st) (r : rstate) (h : list rstate) : st :=
  {| rs := r; hist := h; graceful := graceful s; have_dc := have_dc s; dc_closed := dc_closed s;
     rl_started := rl_started s; gone := gone s; in_list := in_list s; evo := evo s; evc := evc s;
     o_pc := o_pc s; pc_done := pc_done s; rem_done := rem_done s; rl_pc := rl_pc s;
     closers := closers s; regs_o := regs_o s; regs_c := regs_c s |}.
Definition set_flags (s : st) (g h dcc rls gn il : bool) : st :=
  {| rs := rs s; hist := hist s; graceful := g; have_dc := h; dc_closed := dcc;
     rl_started := rls; gone := gn; in_list := il; evo := evo s; evc := evc s;
     o_pc := o_pc s; pc_done := pc_done s; rem_done := rem_done s; rl_pc := rl_pc s;
     closers := closers s; regs_o := regs_o s; regs_c := regs_c s |}.
Definition set_evo (s : st) (e : ev) : st :=
  {| rs := rs s; hist := hist s; graceful := graceful s; have_dc := have_dc s; dc_closed := dc_closed s;
     rl_started := rl_started s; gone := gone s; in_list := in_list s; evo := e; evc := evc s;
     o_pc := o_pc s; pc_done := pc_done s; rem_done := rem_done s; rl_pc := rl_pc s;
     closers := closers s; regs_o := regs_o s; regs_c := regs_c s |}.
Definition set_evc (s : st) (e : ev) : st :=
  {| rs := rs s; hist := hist s; graceful := graceful s; have_dc := have_dc s; dc_closed := dc_closed s;
     rl_started := rl_started s; gone := gone s; in_list := in_list s; evo := evo s; evc := e;
     o_pc := o_pc s; pc_done := pc_done s; rem_done := rem_done s; rl_pc := rl_pc s;
     closers := closers s; regs_o := regs_o s; regs_c := regs_c s |}.
Definition set_pcs (s : st) (o : opc) (pcd remd : bool) (rl : rlpc)
    (cl : list (bool * cpc)) (ro rc : list rpc) : st :=
  {| rs := rs s; hist := hist s; graceful := graceful s; have_dc := have_dc s; dc_closed := dc_closed s;
     rl_started := rl_started s; gone := gone s; in_list := in_list s; evo := evo s; evc := evc s;
     o_pc := o; pc_done := pcd; rem_done := remd; rl_pc := rl;
     closers := cl; regs_o := ro; regs_c := rc |}.

Definition set_graceful (s : st) : st :=
  set_flags s true (have_dc s) (dc_closed s) (rl_started s) (gone s) (in_list s).
Definition set_have_dc (s : st) : st :=
  set_flags s (graceful s) true (dc_closed s) (rl_started s) (gone s) (in_list s).
Definition set_dc_closed (s : st) : st :=
  set_flags s (graceful s) (have_dc s) true (rl_started s) (gone s) (in_list s).
Definition set_rl_started (s : st) : st :=
  set_flags s (graceful s) (have_dc s) (dc_closed s) true (gone s) (in_list s).
Definition set_gone (s : st) : st :=
  set_flags s (graceful s) (have_dc s) (dc_closed s) (rl_started s) true (in_list s).
Definition set_unlisted (s : st) : st :=
  set_flags s (graceful s) (have_dc s) (dc_closed s) (rl_started s) (gone s) false.

Definition set_opc (s : st) (o : opc) : st :=
  set_pcs s o (pc_done s) (rem_done s) (rl_pc s) (closers s) (regs_o s) (regs_c s).
Definition set_pc_done (s : st) : st :=
  set_pcs s (o_pc s) true (rem_done s) (rl_pc s) (closers s) (regs_o s) (regs_c s).
Definition set_rem_done (s : st) : st :=
  set_pcs s (o_pc s) (pc_done s) true (rl_pc s) (closers s) (regs_o s) (regs_c s).
Definition set_rlpc (s : st) (r : rlpc) : st :=
  set_pcs s (o_pc s) (pc_done s) (rem_done s) r (closers s) (regs_o s) (regs_c s).
Definition set_closers (s : st) (cl : list (bool * cpc)) : st :=
  set_pcs s (o_pc s) (pc_done s) (rem_done s) (rl_pc s) cl (regs_o s) (regs_c s).
Definition set_regs_o (s : st) (l : list rpc) : st :=
  set_pcs s (o_pc s) (pc_done s) (rem_done s) (rl_pc s) (closers s) l (regs_c s).
Definition set_regs_c (s : st) (l : list rpc) : st :=
  set_pcs s (o_pc s) (pc_done s) (rem_done s) (rl_pc s) (closers s) (regs_o s) l.

(* ---------- setReadyState ---------- *)
(* post: a store that is not a move forward is dropped *)
Definition dropped (v : variant) (s : st) (r : rstate) : bool :=
  fix_state v && Nat.leb (rank r) (rank (rs s)).
Definition store (v : variant) (s : st) (r : rstate) : st :=
  set_rs s (if dropped v s r then rs s else r)
           (if dropped v s r then hist s else hist s ++ [r]).

(* ---------- the handler Onces ---------- *)
(* OnX(f), first block: lock; the Once (pre: reset the shared one; post: a new
   one for this registration); d.onXHandler = f; unlock *)
Definition ev_register (v : variant) (e : ev) (k : nat) : ev :=
  {| handler := Some k; shared_fired := if fix_once v then shared_fired e else false;
     fired := fired e; calls := calls e; pend := pend e |}.

(* "go once.Do(handler k)": the goroutine exists, it has not run yet *)
Definition ev_spawn (e : ev) (h : option nat) : ev :=
  match h with
  | None => e                              (* if handler != nil *)
  | Some k => {| handler := handler e; shared_fired := shared_fired e; fired := fired e;
                 calls := calls e; pend := pend e ++ [k] |}
  end.

Definition upd {A} (f : nat -> A) (k : nat) (x : A) : nat -> A :=
  fun i => if Nat.eqb i k then x else f i.

(* once.Do(handler k) runs: post on the Once of registration k, pre on
   whatever d.xHandlerOnce is at that moment *)
Definition ev_do (v : variant) (e : ev) (i : nat) : option ev :=
  match nth_error (pend e) i with
  | None => None
  | Some k =>
      let already := if fix_once v then fired e k else shared_fired e in
      if already then
        Some {| handler := handler e; shared_fired := shared_fired e; fired := fired e;
                calls := calls e; pend := remove_nth i (pend e) |}
      else
        Some {| handler := handler e;
                shared_fired := if fix_once v then shared_fired e else true;
                fired := if fix_once v then upd (fired e) k true else fired e;
                calls := upd (calls e) k (S (calls e k));
                pend := remove_nth i (pend e) |}
  end.

(* onClose(), first half: RLock; handler := d.onCloseHandler; RUnlock *)
Definition read_close (s : st) : option nat := handler (evc s).

(* ---------- handleOpen ---------- *)
(* the end of handleOpen: lock; if isGracefulClosed ...; start the read loop *)
Definition open_tail (v : variant) (c : config) (s : st) : st :=
  if graceful s then
    if fix_state v then
      (* closed while opening: unlock; dc.Close(); setReadyState(closed); onClose() *)
      let s1 := store v (set_dc_closed s) Closed in
      set_opc s1 (OFireClose (read_close s1))
    else set_opc s ODone                    (* return: no read loop *)
  else
    (* if !detach { readLoopActive = make(chan); go readLoop() } *)
    set_opc (if detach c then s else set_rl_started s) ODone.

Definition open_step (v : variant) (c : config) (s : st) : option st :=
  match o_pc s with
  | OStart =>
      (* lock; if isGracefulClosed { unlock; dc.Close(); [setReadyState(closed);] onClose() } *)
      if graceful s then
        let s1 := set_dc_closed s in
        let s2 := if fix_state v then store v s1 Closed else s1 in
        Some (set_opc s2 (OFireClose (read_close s2)))
      else (* d.dataChannel = dc; unlock *)
        Some (set_opc (set_have_dc s) OSetOpen)
  | OSetOpen =>
      (* setReadyState(open); onOpen(): RLock; handler; if isGracefulClosed return *)
      let s1 := store v s Open in
      if graceful s1 then Some (open_tail v c s1)
      else Some (set_opc s1 (OFireOpen (handler (evo s1))))
  | OFireOpen h =>
      (* if handler != nil { go openHandlerOnce.Do(...) }; then the end of handleOpen *)
      Some (open_tail v c (set_evo s (ev_spawn (evo s) h)))
  | OFireClose h =>
      (* if handler != nil { go closeHandlerOnce.Do(handler) }; return *)
      Some (set_opc (set_evc s (ev_spawn (evc s) h)) ODone)
  | ODone => None
  end.

(* ---------- DataChannel.close(shouldGracefullyClose) ---------- *)
Definition rl_done (s : st) : bool := match rl_pc s with RDone => true | _ => false end.

Definition close_step (v : variant) (s : st) (j : nat) : option st :=
  match nth_error (closers s) j with
  | Some (g, CStart) =>
      (* lock; isGracefulClosed = true; readLoopActive read (graceful: deferred wait
         when it is not nil); haveSctpTransport := d.dataChannel != nil; unlock *)
      Some (set_closers (set_graceful s)
              (set_nth j (g, CCheck (have_dc s) (g && rl_started s)) (closers s)))
  | Some (g, CCheck h w) =>
      (* if d.ReadyState() == closed { return nil } *)
      if rstate_eqb (rs s) Closed
      then Some (set_closers s (set_nth j (g, if w then CWait else CDone) (closers s)))
      else Some (set_closers s (set_nth j (g, CSet h w) (closers s)))
  | Some (g, CSet h w) =>
      (* setReadyState(closing); if !haveSctpTransport return; d.dataChannel.Close() *)
      let s1 := store v s Closing in
      let s2 := if h then set_dc_closed s1 else s1 in
      Some (set_closers s2 (set_nth j (g, if w then CWait else CDone) (closers s2)))
  | Some (g, CWait) =>
      (* <-readLoopActive *)
      if rl_done s then Some (set_closers s (set_nth j (g, CDone) (closers s))) else None
  | Some (_, CDone) | None => None
  end.

(* ---------- PeerConnection.close: step 5, then the transports stop ---------- *)
Definition pcclose_step (v : variant) (s : st) : option st :=
  if pc_done s then None else
  let s1 := if in_list s then store v s Closed else s in
  Some (set_pc_done (set_gone s1)).

(* ---------- the remote side resets the stream / goes away ---------- *)
Definition remote_step (s : st) : option st :=
  if rem_done s then None else Some (set_rem_done (set_gone s)).

(* ---------- readLoop: ReadDataChannel failed ---------- *)
Definition rl_step (v : variant) (s : st) : option st :=
  match rl_pc s with
  | RRun =>
      if rl_started s && gone s then
        (* setReadyState(closed); onError; onClose(): handler read *)
        let s1 := store v s Closed in
        Some (set_rlpc s1 (RFire (read_close s1)))
      else None
  | RFire h =>
      (* go closeHandlerOnce.Do(handler); return: close(readLoopActive) *)
      Some (set_rlpc (set_evc s (ev_spawn (evc s) h)) RDone)
  | RDone => None
  end.

(* ---------- OnOpen(f) / OnClose(f) ---------- *)
Definition reg_open_step (v : variant) (s : st) (i : nat) : option st :=
  match nth_error (regs_o s) i with
  | Some GStart =>
      Some (set_regs_o (set_evo s (ev_register v (evo s) (S i))) (set_nth i GCheck (regs_o s)))
  | Some GCheck =>
      (* if d.ReadyState() == open { go once.Do(f) } *)
      let e := if rstate_eqb (rs s) Open then ev_spawn (evo s) (Some (S i)) else evo s in
      Some (set_regs_o (set_evo s e) (set_nth i GDone (regs_o s)))
  | Some GDone | None => None
  end.

Definition reg_close_step (v : variant) (s : st) (i : nat) : option st :=
  match nth_error (regs_c s) i with
  | Some GStart =>
      Some (set_regs_c (set_evc s (ev_register v (evc s) (S i))) (set_nth i GCheck (regs_c s)))
  | Some GCheck =>
      (* if d.ReadyState() == closed { go once.Do(f) } *)
      let e := if rstate_eqb (rs s) Closed then ev_spawn (evc s) (Some (S i)) else evc s in
      Some (set_regs_c (set_evc s e) (set_nth i GDone (regs_c s)))
  | Some GDone | None => None
  end.

(* ---------- Detach() ---------- *)
Inductive detach_result := DetachNotEnabled | DetachBeforeOpened | DetachOk.
Definition detach_call (c : config) (s : st) : detach_result :=
  if negb (detach c) then DetachNotEnabled
  else if negb (have_dc s) then DetachBeforeOpened else DetachOk.
(* on success the channel is removed from sctpTransport.dataChannels *)
Definition detach_step (c : config) (s : st) : option st :=
  match detach_call c s with
  | DetachOk => Some (set_unlisted s)
  | _ => Some s
  end.

(* ---------- Send / SendText: ensureOpen, then the underlying channel ---------- *)
Inductive send_result :=
| SendClosedPipe      (* readyState is not open: io.ErrClosedPipe *)
| SendNilChannel      (* open with d.dataChannel == nil: nil dereference *)
| SendStreamClosed    (* the underlying channel was closed locally: it refuses *)
| SendTransport       (* the transport is gone: whatever the association says *)
| SendWritten.
Definition send (s : st) : send_result :=
  if negb (rstate_eqb (rs s) Open) then SendClosedPipe
  else if negb (have_dc s) then SendNilChannel
  else if gone s then SendTransport
  else if dc_closed s then SendStreamClosed
  else SendWritten.

(* ---------- the schedule ---------- *)
Inductive tid :=
| TOpen | TPc | TRem | TRl
| TClose (j : nat)
| TRegO (i : nat) | TRegC (i : nat)
| TDoO (i : nat) | TDoC (i : nat)
| TDetach | TSend.

Definition step (v : variant) (c : config) (s : st) (t : tid) : option st :=
  match t with
  | TOpen => open_step v c s
  | TPc => pcclose_step v s
  | TRem => remote_step s
  | TRl => rl_step v s
  | TClose j => close_step v s j
  | TRegO i => reg_open_step v s i
  | TRegC i => reg_close_step v s i
  | TDoO i => match ev_do v (evo s) i with Some e => Some (set_evo s e) | None => None end
  | TDoC i => match ev_do v (evc s) i with Some e => Some (set_evc s e) | None => None end
  | TDetach => detach_step c s
  | TSend => Some s
  end.

Fixpoint run (v : variant) (c : config) (s : st) (sch : list tid) : st :=
  match sch with
  | [] => s
  | t :: rest => match step v c s t with
                 | Some s' => run v c s' rest
                 | None => run v c s rest
                 end
  end.

(* readyState only moves forward *)
Fixpoint monotone_from (r : rstate) (l : list rstate) : bool :=
  match l with
  | [] => true
  | x :: t => Nat.leb (rank r) (rank x) && monotone_from x t
  end.
Definition monotone (s : st) : bool := monotone_from Connecting (hist s).

(* every thread of the channel itself has come to rest: handleOpen returned,
   no Close call is under way, the read loop has nothing to do *)
Definition cdone (x : bool * cpc) : bool := match snd x with CDone => true | _ => false end.
Definition at_rest (v : variant) (s : st) : bool :=
  match o_pc s with ODone => true | _ => false end
  && forallb cdone (closers s)
  && match rl_step v s with None => true | Some _ => false end.
