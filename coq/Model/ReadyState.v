(* C20: DataChannel.readyState transitions (datachannel.go, peerconnection.go)
   as an interleaving model.
   Threads: 0 handleOpen; 1 PeerConnection.Close (step 5 stores closed on every
   channel, then the transports stop: the read will fail); 2 the remote side
   closes the channel (stream reset: the read will return EOF); 3 readLoop's
   exit path; 4+j the j-th DataChannel.Close call.
   Atomic blocks are the code between the yield points dc.open.set-open,
   dc.close.check, dc.close.set-closing, dc.rl.set-closed.
   The OnOpen / OnClose handlers are registered before the threads start; a
   "go once.Do(handler)" is modelled at the place that spawns it (sync.Once
   makes the number of invocations independent of when the goroutine runs).
   No proofs here. *)
From Coq Require Import List Arith Bool.
Import ListNotations.

Inductive rstate := Connecting | Open | Closing | Closed.

Definition rank (r : rstate) : nat :=
  match r with Connecting => 0 | Open => 1 | Closing => 2 | Closed => 3 end.
Definition rstate_eqb (a b : rstate) : bool := Nat.eqb (rank a) (rank b).

(* position of a Close call *)
Inductive cpc :=
| CStart
| CCheck (have : bool)   (* isGracefulClosed set, haveSctpTransport read; before the closed-check *)
| CSet (have : bool)     (* check passed; before setReadyState(closing) *)
| CDone.

Inductive opc := OStart | OSetOpen | ODone.

Record st := {
  rs : rstate;               (* d.readyState (atomic.Value) *)
  hist : list rstate;        (* ghost: every value stored, oldest first (after the initial connecting) *)
  graceful : bool;           (* d.isGracefulClosed *)
  have_dc : bool;            (* d.dataChannel != nil *)
  dc_closed : bool;          (* ghost: the underlying pion/datachannel was closed locally *)
  rl_started : bool;         (* handleOpen started readLoop *)
  gone : bool;               (* the transport is gone or the remote closed: the read fails *)
  open_fired : bool;         (* openHandlerOnce done *)
  close_fired : bool;        (* closeHandlerOnce done *)
  open_calls : nat;          (* invocations of the registered OnOpen handler *)
  close_calls : nat;         (* invocations of the registered OnClose handler *)
  o_pc : opc;
  pc_done : bool;
  rem_done : bool;
  rl_done : bool;
  closers : list cpc
}.

Definition init (nclose : nat) : st :=
  {| rs := Connecting; hist := []; graceful := false; have_dc := false; dc_closed := false;
     rl_started := false; gone := false; open_fired := false; close_fired := false;
     open_calls := 0; close_calls := 0; o_pc := OStart; pc_done := false; rem_done := false;
     rl_done := false; closers := repeat CStart nclose |}.

Fixpoint set_nth {A} (i : nat) (x : A) (l : list A) {struct l} : list A :=
  match l, i with
  | [], _ => []
  | _ :: t, O => x :: t
  | a :: t, S j => a :: set_nth j x t
  end.

(* setReadyState *)
Definition store (s : st) (r : rstate) : st :=
  {| rs := r; hist := hist s ++ [r]; graceful := graceful s; have_dc := have_dc s;
     dc_closed := dc_closed s; rl_started := rl_started s; gone := gone s;
     open_fired := open_fired s; close_fired := close_fired s;
     open_calls := open_calls s; close_calls := close_calls s; o_pc := o_pc s;
     pc_done := pc_done s; rem_done := rem_done s; rl_done := rl_done s; closers := closers s |}.

(* onOpen(): handler read under RLock; skipped when isGracefulClosed; go openHandlerOnce.Do *)
Definition fire_open (s : st) : st :=
  if graceful s || open_fired s then s else
  {| rs := rs s; hist := hist s; graceful := graceful s; have_dc := have_dc s;
     dc_closed := dc_closed s; rl_started := rl_started s; gone := gone s;
     open_fired := true; close_fired := close_fired s;
     open_calls := S (open_calls s); close_calls := close_calls s; o_pc := o_pc s;
     pc_done := pc_done s; rem_done := rem_done s; rl_done := rl_done s; closers := closers s |}.

(* onClose(): go closeHandlerOnce.Do(handler) *)
Definition fire_close (s : st) : st :=
  if close_fired s then s else
  {| rs := rs s; hist := hist s; graceful := graceful s; have_dc := have_dc s;
     dc_closed := dc_closed s; rl_started := rl_started s; gone := gone s;
     open_fired := open_fired s; close_fired := true;
     open_calls := open_calls s; close_calls := S (close_calls s); o_pc := o_pc s;
     pc_done := pc_done s; rem_done := rem_done s; rl_done := rl_done s; closers := closers s |}.

Definition upd (s : st) (g h dcc rls gn : bool) (o : opc) (pcd remd rld : bool) (cl : list cpc) : st :=
  {| rs := rs s; hist := hist s; graceful := g; have_dc := h; dc_closed := dcc;
     rl_started := rls; gone := gn; open_fired := open_fired s; close_fired := close_fired s;
     open_calls := open_calls s; close_calls := close_calls s; o_pc := o;
     pc_done := pcd; rem_done := remd; rl_done := rld; closers := cl |}.

Definition set_opc (s : st) (o : opc) : st :=
  upd s (graceful s) (have_dc s) (dc_closed s) (rl_started s) (gone s) o (pc_done s) (rem_done s) (rl_done s) (closers s).
Definition set_closers (s : st) (cl : list cpc) : st :=
  upd s (graceful s) (have_dc s) (dc_closed s) (rl_started s) (gone s) (o_pc s) (pc_done s) (rem_done s) (rl_done s) cl.

(* ---------- handleOpen ---------- *)
Definition open_step (s : st) : option st :=
  match o_pc s with
  | OStart =>
      (* lock; if isGracefulClosed { unlock; dc.Close(); onClose(); return } *)
      if graceful s then
        Some (fire_close (upd s (graceful s) (have_dc s) true (rl_started s) (gone s) ODone
                            (pc_done s) (rem_done s) (rl_done s) (closers s)))
      else (* d.dataChannel = dc; unlock *)
        Some (upd s (graceful s) true (dc_closed s) (rl_started s) (gone s) OSetOpen
                (pc_done s) (rem_done s) (rl_done s) (closers s))
  | OSetOpen =>
      (* setReadyState(open); onOpen(); lock; if isGracefulClosed return; go readLoop() *)
      let s1 := fire_open (store s Open) in
      Some (upd s1 (graceful s1) (have_dc s1) (dc_closed s1)
              (if graceful s1 then rl_started s1 else true) (gone s1) ODone
              (pc_done s1) (rem_done s1) (rl_done s1) (closers s1))
  | ODone => None
  end.

(* ---------- DataChannel.close(false) ---------- *)
Definition close_step (s : st) (j : nat) : option st :=
  match nth_error (closers s) j with
  | Some CStart =>
      (* lock; isGracefulClosed = true; haveSctpTransport := d.dataChannel != nil; unlock *)
      Some (upd s true (have_dc s) (dc_closed s) (rl_started s) (gone s) (o_pc s)
              (pc_done s) (rem_done s) (rl_done s) (set_nth j (CCheck (have_dc s)) (closers s)))
  | Some (CCheck h) =>
      (* if d.ReadyState() == closed { return nil } *)
      if rstate_eqb (rs s) Closed then Some (set_closers s (set_nth j CDone (closers s)))
      else Some (set_closers s (set_nth j (CSet h) (closers s)))
  | Some (CSet h) =>
      (* setReadyState(closing); if !haveSctpTransport return; d.dataChannel.Close() *)
      let s1 := store s Closing in
      Some (upd s1 (graceful s1) (have_dc s1) (if h then true else dc_closed s1) (rl_started s1) (gone s1)
              (o_pc s1) (pc_done s1) (rem_done s1) (rl_done s1) (set_nth j CDone (closers s1)))
  | Some CDone | None => None
  end.

(* ---------- PeerConnection.close: step 5, then the transports stop ---------- *)
Definition pcclose_step (s : st) : option st :=
  if pc_done s then None else
  let s1 := store s Closed in
  Some (upd s1 (graceful s1) (have_dc s1) (dc_closed s1) (rl_started s1) true (o_pc s1)
          true (rem_done s1) (rl_done s1) (closers s1)).

(* ---------- the remote side resets the stream ---------- *)
Definition remote_step (s : st) : option st :=
  if rem_done s then None else
  Some (upd s (graceful s) (have_dc s) (dc_closed s) (rl_started s) true (o_pc s)
          (pc_done s) true (rl_done s) (closers s)).

(* ---------- readLoop: ReadDataChannel failed; setReadyState(closed); onClose() ---------- *)
Definition rl_step (s : st) : option st :=
  if rl_started s && gone s && negb (rl_done s) then
    let s1 := fire_close (store s Closed) in
    Some (upd s1 (graceful s1) (have_dc s1) (dc_closed s1) (rl_started s1) (gone s1) (o_pc s1)
            (pc_done s1) (rem_done s1) true (closers s1))
  else None.

Definition step (s : st) (t : nat) : option st :=
  match t with
  | 0 => open_step s
  | 1 => pcclose_step s
  | 2 => remote_step s
  | 3 => rl_step s
  | S (S (S (S j))) => close_step s j
  end.

Fixpoint run (s : st) (sch : list nat) : st :=
  match sch with
  | [] => s
  | t :: rest => match step s t with
                 | Some s' => run s' rest
                 | None => run s rest
                 end
  end.

(* also records which choices were enabled and the state after every enabled step *)
Fixpoint run_trace (s : st) (sch : list nat) : st * list bool * list rstate :=
  match sch with
  | [] => (s, [], [])
  | t :: rest =>
      match step s t with
      | Some s' => match run_trace s' rest with
                   | (f, fl, obs) => (f, true :: fl, rs s' :: obs)
                   end
      | None => match run_trace s rest with
                | (f, fl, obs) => (f, false :: fl, obs)
                end
      end
  end.

(* readyState only moves forward *)
Fixpoint monotone_from (r : rstate) (l : list rstate) : bool :=
  match l with
  | [] => true
  | x :: t => Nat.leb (rank r) (rank x) && monotone_from x t
  end.
Definition monotone (s : st) : bool := monotone_from Connecting (hist s).

(* Send / SendText: ensureOpen *)
Inductive send_result := SendClosedPipe | SendWritten.
Definition send (s : st) : send_result :=
  if rstate_eqb (rs s) Open then SendWritten (* handed to the underlying channel *) else SendClosedPipe.

(* ---------- the same with the two check-then-set windows atomic and
   handleOpen not after PeerConnection.Close (the guard of c20_monotone_partial) ---------- *)
Definition in_window (s : st) (t : nat) : bool :=
  match t with
  | 0 => match o_pc s with OSetOpen => true | _ => false end
  | S (S (S (S j))) => match nth_error (closers s) j with Some (CSet _) => true | _ => false end
  | _ => false
  end.

Definition stepA (s : st) (t : nat) : option st :=
  match t with
  | 0 => if pc_done s then None else
         match step s 0 with
         | Some s' => if in_window s' 0 then step s' 0 else Some s'
         | None => None
         end
  | _ => match step s t with
         | Some s' => if in_window s' t then step s' t else Some s'
         | None => None
         end
  end.

Fixpoint runA (s : st) (sch : list nat) : st :=
  match sch with
  | [] => s
  | t :: rest => match stepA s t with
                 | Some s' => runA s' rest
                 | None => runA s rest
                 end
  end.
