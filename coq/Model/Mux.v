(* C27: internal/mux (muxfunc.go, mux.go) transcribed.
   Part A: the match functions.  Part B: interleaving model of the serial
   reader (readLoop/dispatch) against any number of NewEndpoint calls, with the
   pending queue and its cap.  Part C: the same before commit "fix: flush
   pending packets inside NewEndpoint's critical section" (register and flush
   were two critical sections, the second in its own goroutine), kept for the
   witness of the repaired race.  No proofs here. *)
From Coq Require Import List NArith Bool Arith.
Import ListNotations.
From Verif Require Import Common.Base.

(* ------------------------------------------------------------------ *)
(* Part A: muxfunc.go                                                  *)
(* ------------------------------------------------------------------ *)

Definition in_range (lo hi b : N) : bool := (N.leb lo b) && (N.leb b hi).

(* MatchRange: len(buf) < 1 -> false; b := buf[0]; b >= lower && b <= upper *)
Definition match_range (lo hi : N) (buf : list N) : bool :=
  match buf with
  | [] => false
  | b :: _ => in_range lo hi b
  end.

Definition match_all (_ : list N) : bool := true.
Definition match_dtls (buf : list N) : bool := match_range 20 63 buf.
Definition match_srtp_or_srtcp (buf : list N) : bool := match_range 128 191 buf.

(* isRTCP: "if len(buf) < 4 { return false }; return buf[1] >= 192 && buf[1] <= 223".
   buf[1] is an index expression: out of range is a Go panic. *)
Definition is_rtcp (buf : list N) : result bool :=
  if Nat.ltb (List.length buf) 4 then Ok false
  else match nth_error buf 1 with
       | Some b1 => Ok (in_range 192 223 b1)
       | None => Panic
       end.

(* MatchSRTP: MatchSRTPOrSRTCP(buf) && !isRTCP(buf)   (&& short-circuits) *)
Definition match_srtp (buf : list N) : result bool :=
  if match_srtp_or_srtcp buf then rbind (is_rtcp buf) (fun r => Ok (negb r))
  else Ok false.
(* MatchSRTCP: MatchSRTPOrSRTCP(buf) && isRTCP(buf) *)
Definition match_srtcp (buf : list N) : result bool :=
  if match_srtp_or_srtcp buf then is_rtcp buf else Ok false.

(* RFC 7983 section 7 demultiplexing table plus the property's RTP/RTCP split,
   written as a specification: class of a datagram from its first byte, and
   for [128..191] from its second byte when the datagram carries the 4-byte
   RTP/RTCP common header. *)
Inductive cls := CNone | CDtls | CSrtp | CSrtcp.

Definition rfc_class (buf : list N) : cls :=
  match buf with
  | [] => CNone
  | b0 :: rest =>
      if in_range 20 63 b0 then CDtls
      else if in_range 128 191 b0 then
        match rest with
        | b1 :: _ :: _ :: _ => if in_range 192 223 b1 then CSrtcp else CSrtp
        | _ => CSrtp
        end
      else CNone      (* STUN 0..3, ZRTP 16..19, TURN channel 64..79, unassigned *)
  end.

(* class computed from the three match functions the transports register;
   None when a function panics or two of them accept *)
Definition is_true (r : result bool) : bool :=
  match r with Ok true => true | _ => false end.
Definition is_panic {A} (r : result A) : bool :=
  match r with Panic => true | _ => false end.

Definition pion_class (buf : list N) : option cls :=
  if is_panic (match_srtp buf) || is_panic (match_srtcp buf) then None
  else match match_dtls buf, is_true (match_srtp buf), is_true (match_srtcp buf) with
       | false, false, false => Some CNone
       | true, false, false => Some CDtls
       | false, true, false => Some CSrtp
       | false, false, true => Some CSrtcp
       | _, _, _ => None
       end.

(* ------------------------------------------------------------------ *)
(* Part B: mux.go, current code                                        *)
(* ------------------------------------------------------------------ *)

Definition pkt := list N.
Definition matcher := pkt -> bool.

Definition max_pending : nat := 15.   (* maxPendingPackets *)

(* what dispatch did with an arrived datagram (ghost, for the statements) *)
Inductive fate := Accepted | DroppedEmpty | DroppedFull.
Definition fate_accepted (f : fate) : bool :=
  match f with Accepted => true | _ => false end.

Record st := {
  rd_rest : list pkt;              (* datagrams the conn will still return, in order *)
  rd_sel  : option (nat * pkt);    (* dispatch: endpoint chosen, lock released, Write not done *)
  regd    : list (nat * matcher);  (* m.endpoints, in registration order *)
  pendq   : list pkt;              (* m.pendingPackets *)
  bufs    : list (list pkt);       (* endpoint.buffer of the endpoint creator i makes *)
  crs     : list (matcher * bool); (* NewEndpoint calls: match function, done? *)
  arr     : list (pkt * fate)      (* ghost: arrival log *)
}.

Definition init (ms : list matcher) (ps : list pkt) : st :=
  {| rd_rest := ps; rd_sel := None; regd := []; pendq := [];
     bufs := map (fun _ => []) ms; crs := map (fun m => (m, false)) ms; arr := [] |}.

(* append xs to the i-th buffer *)
Fixpoint app_at {A} (i : nat) (xs : list A) (l : list (list A)) {struct l} : list (list A) :=
  match l, i with
  | [], _ => []
  | b :: t, O => (b ++ xs) :: t
  | b :: t, S j => b :: app_at j xs t
  end.

Fixpoint set_done (i : nat) (l : list (matcher * bool)) {struct l} : list (matcher * bool) :=
  match l, i with
  | [], _ => []
  | (m, _) :: t, O => (m, true) :: t
  | c :: t, S j => c :: set_done j t
  end.

(* "for e, f := range m.endpoints { if f(buf) { endpoint = e; break } }".
   Go's map order is unspecified; the model takes registration order.  The
   theorems assume pairwise exclusive match functions, under which at most
   one endpoint matches and the order is irrelevant. *)
Definition find_ep (r : list (nat * matcher)) (p : pkt) : option nat :=
  match find (fun e => snd e p) r with
  | Some e => Some (fst e)
  | None => None
  end.

(* reader, first block of dispatch(buf): from the yield point at the top of
   dispatch to the yield point before endpoint.buffer.Write (or, when no
   endpoint matched, through the pending-queue branch to the next dispatch) *)
Definition rd_lookup (s : st) (p : pkt) (rest : list pkt) : st :=
  match p with
  | [] =>   (* len(buf) == 0: warn, return nil *)
      {| rd_rest := rest; rd_sel := None; regd := regd s; pendq := pendq s;
         bufs := bufs s; crs := crs s; arr := arr s ++ [(p, DroppedEmpty)] |}
  | _ :: _ =>
      match find_ep (regd s) p with
      | Some i =>
          {| rd_rest := rest; rd_sel := Some (i, p); regd := regd s; pendq := pendq s;
             bufs := bufs s; crs := crs s; arr := arr s ++ [(p, Accepted)] |}
      | None =>
          if Nat.leb max_pending (List.length (pendq s)) then
            {| rd_rest := rest; rd_sel := None; regd := regd s; pendq := pendq s;
               bufs := bufs s; crs := crs s; arr := arr s ++ [(p, DroppedFull)] |}
          else
            {| rd_rest := rest; rd_sel := None; regd := regd s; pendq := pendq s ++ [p];
               bufs := bufs s; crs := crs s; arr := arr s ++ [(p, Accepted)] |}
      end
  end.

(* reader, second block: endpoint.buffer.Write(buf) *)
Definition rd_write (s : st) (i : nat) (p : pkt) : st :=
  {| rd_rest := rd_rest s; rd_sel := None; regd := regd s; pendq := pendq s;
     bufs := app_at i [p] (bufs s); crs := crs s; arr := arr s |}.

(* NewEndpoint, one critical section: m.endpoints[endpoint] = matchFunc, then
   handlePendingPackets: matching pending packets go to the endpoint in queue
   order, the others stay queued in order *)
Definition ne_create (s : st) (i : nat) (m : matcher) : st :=
  {| rd_rest := rd_rest s; rd_sel := rd_sel s; regd := regd s ++ [(i, m)];
     pendq := filter (fun p => negb (m p)) (pendq s);
     bufs := app_at i (filter m (pendq s)) (bufs s);
     crs := set_done i (crs s); arr := arr s |}.

(* thread 0 is the reader; thread S i is the i-th NewEndpoint call *)
Definition step (s : st) (t : nat) : option st :=
  match t with
  | O =>
      match rd_sel s with
      | Some (i, p) => Some (rd_write s i p)
      | None =>
          match rd_rest s with
          | [] => None                      (* conn returned EOF: readLoop ended *)
          | p :: rest => Some (rd_lookup s p rest)
          end
      end
  | S i =>
      match nth_error (crs s) i with
      | Some (m, false) => Some (ne_create s i m)
      | _ => None
      end
  end.

(* a schedule is a list of thread ids; disabled choices are skipped *)
Fixpoint run (s : st) (sch : list nat) : st :=
  match sch with
  | [] => s
  | t :: rest => match step s t with
                 | Some s' => run s' rest
                 | None => run s rest
                 end
  end.

(* the same, also recording which choices were enabled (compared with the
   scheduler's "disabled" status in the correspondence run) *)
Fixpoint run_trace (s : st) (sch : list nat) : st * list bool :=
  match sch with
  | [] => (s, [])
  | t :: rest => match step s t with
                 | Some s' => let r := run_trace s' rest in (fst r, true :: snd r)
                 | None => let r := run_trace s rest in (fst r, false :: snd r)
                 end
  end.

Definition arrived (s : st) : list pkt := map fst (arr s).
Definition accepted (s : st) : list pkt :=
  map fst (filter (fun e => fate_accepted (snd e)) (arr s)).
(* the datagram dispatch has chosen endpoint i for but not yet written *)
Definition inflight (s : st) (i : nat) : list pkt :=
  match rd_sel s with
  | Some (j, p) => if Nat.eqb i j then [p] else []
  | None => []
  end.
Definition delivered (s : st) (i : nat) : list pkt :=
  match nth_error (bufs s) i with Some b => b | None => [] end.

(* match functions pairwise exclusive (as DTLS / SRTP / SRTCP are) *)
Definition exclusive (ms : list matcher) : Prop :=
  forall i j mi mj p, nth_error ms i = Some mi -> nth_error ms j = Some mj ->
    i <> j -> mi p = true -> mj p = false.

(* ------------------------------------------------------------------ *)
(* Part C: mux.go before the repair (register; separate flush goroutine) *)
(* ------------------------------------------------------------------ *)

(* creator pc: 0 not started, 1 registered (parked before "go
   handlePendingPackets"), 2 returned; flusher pc: 0 not spawned, 1 spawned,
   2 done.  Thread ids: 0 reader, 1 creator, 2 its flush goroutine (one
   endpoint is enough for the witness). *)
Record st0 := {
  o_rest : list pkt; o_sel : option pkt; o_reg : option matcher;
  o_pend : list pkt; o_buf : list pkt; o_cr : nat; o_fl : nat; o_m : matcher
}.

Definition init0 (m : matcher) (ps : list pkt) : st0 :=
  {| o_rest := ps; o_sel := None; o_reg := None; o_pend := []; o_buf := [];
     o_cr := 0; o_fl := 0; o_m := m |}.

Definition step0 (s : st0) (t : nat) : option st0 :=
  match t with
  | 0 =>
      match o_sel s with
      | Some p => Some {| o_rest := o_rest s; o_sel := None; o_reg := o_reg s; o_pend := o_pend s;
                          o_buf := o_buf s ++ [p]; o_cr := o_cr s; o_fl := o_fl s; o_m := o_m s |}
      | None =>
          match o_rest s with
          | [] => None
          | p :: rest =>
              let hit := match p, o_reg s with
                         | _ :: _, Some m => m p
                         | _, _ => false
                         end in
              if hit then
                Some {| o_rest := rest; o_sel := Some p; o_reg := o_reg s; o_pend := o_pend s;
                        o_buf := o_buf s; o_cr := o_cr s; o_fl := o_fl s; o_m := o_m s |}
              else
                Some {| o_rest := rest; o_sel := None; o_reg := o_reg s;
                        o_pend := match p with
                                  | [] => o_pend s
                                  | _ => if Nat.leb max_pending (List.length (o_pend s))
                                         then o_pend s else o_pend s ++ [p]
                                  end;
                        o_buf := o_buf s; o_cr := o_cr s; o_fl := o_fl s; o_m := o_m s |}
          end
      end
  | 1 =>
      match o_cr s with
      | 0 => Some {| o_rest := o_rest s; o_sel := o_sel s; o_reg := Some (o_m s); o_pend := o_pend s;
                     o_buf := o_buf s; o_cr := 1; o_fl := o_fl s; o_m := o_m s |}
      | 1 => Some {| o_rest := o_rest s; o_sel := o_sel s; o_reg := o_reg s; o_pend := o_pend s;
                     o_buf := o_buf s; o_cr := 2; o_fl := 1; o_m := o_m s |}
      | _ => None
      end
  | 2 =>
      match o_fl s with
      | 1 => Some {| o_rest := o_rest s; o_sel := o_sel s; o_reg := o_reg s;
                     o_pend := filter (fun p => negb (o_m s p)) (o_pend s);
                     o_buf := o_buf s ++ filter (o_m s) (o_pend s);
                     o_cr := o_cr s; o_fl := 2; o_m := o_m s |}
      | _ => None
      end
  | _ => None
  end.

Fixpoint run0 (s : st0) (sch : list nat) : st0 :=
  match sch with
  | [] => s
  | t :: rest => match step0 s t with
                 | Some s' => run0 s' rest
                 | None => run0 s rest
                 end
  end.
