(* C11: sdp.go updateSDPOrigin.  Sequential model and interleaving model whose
   atomic steps are the atomic operations of the function (CAS on the saved
   version, store of the saved id, load of the saved id in the wait loop, add
   on the saved version); yield points sdp.origin.won / spin / add.
   Definitions only; proofs are in Proofs/Origin.v. *)
From Coq Require Import List NArith Arith Bool.
Import ListNotations.
From Verif Require Import Common.Base.
From Verif Require Model.Ops.
Open Scope N_scope.

(* ---------- sequential ---------- *)

(* saved origin: (SessionID, SessionVersion); zero value at PeerConnection creation *)
Definition origin := (N * N)%type.
Definition origin0 : origin := (0, 0).

(* one call with a fresh description carrying (dsid, dver).  Returns the new
   saved origin and what the description carries afterwards; None = the wait
   loop never ends (saved id is 0 and nobody else will store it). *)
Definition update (o : origin) (d : N * N) : origin * option (N * N) :=
  let '(sid, ver) := o in
  let '(dsid, dver) := d in
  if ver =? 0 then ((dsid, dver), Some (dsid, dver))          (* CAS succeeded; store id *)
  else if sid =? 0 then (o, None)                              (* for { load; if != 0 break } *)
  else ((sid, u64 (ver + 1)), Some (sid, u64 (ver + 1))).      (* atomic.AddUint64 *)

Fixpoint updates (o : origin) (ds : list (N * N)) : list (option (N * N)) :=
  match ds with
  | [] => []
  | d :: t => let (o', r) := update o d in
              r :: match r with Some _ => updates o' t | None => [] end
  end.

(* ---------- concurrent ---------- *)

Inductive opc : Type :=
| T0 (dsid dver : N)      (* about to CAS *)
| TWon (dsid dver : N)    (* at sdp.origin.won: CAS succeeded, id not yet stored *)
| TSpin                   (* at sdp.origin.spin: about to load the saved id *)
| TAdd (osid : N)         (* at sdp.origin.add: id loaded, about to add *)
| TDone (osid over : N).  (* returned; the description carries (osid, over) *)

Record ost : Type := mkost {
  sid : N;                          (* origin.SessionID *)
  ver : N;                          (* origin.SessionVersion *)
  olog : list (nat * N * N);        (* ghost: (thread, id, version) in linearisation order *)
  othreads : list opc
}.

Definition oupd := @Ops.upd opc.

Definition ostep (s : ost) (i : nat) : option ost :=
  match nth_error (othreads s) i with
  | None => None
  | Some (T0 d v) =>
      if ver s =? 0
      then Some (mkost (sid s) v (olog s ++ [(i, d, v)]) (oupd (othreads s) i (TWon d v)))
      else Some (mkost (sid s) (ver s) (olog s) (oupd (othreads s) i TSpin))
  | Some (TWon d v) =>
      Some (mkost d (ver s) (olog s) (oupd (othreads s) i (TDone d v)))
  | Some TSpin =>
      if sid s =? 0 then Some s                                  (* loop again *)
      else Some (mkost (sid s) (ver s) (olog s) (oupd (othreads s) i (TAdd (sid s))))
  | Some (TAdd o) =>
      let v' := u64 (ver s + 1) in
      Some (mkost (sid s) v' (olog s ++ [(i, o, v')]) (oupd (othreads s) i (TDone o v')))
  | Some (TDone _ _) => None
  end.

Definition ostep_or_skip (s : ost) (i : nat) : ost :=
  match ostep s i with Some s' => s' | None => s end.

Definition orun (s : ost) (sch : list nat) : ost := fold_left ostep_or_skip sch s.

Definition oinit (ds : list (N * N)) : ost :=
  mkost 0 0 [] (map (fun d => T0 (fst d) (snd d)) ds).

(* pion/sdp's contract for a fresh description, and room below 2^64 *)
Definition fresh_ok (n : nat) (d : N * N) : Prop :=
  fst d <> 0 /\ snd d <> 0 /\ fst d < 2 ^ 64 /\ snd d + N.of_nat n < 2 ^ 64.

Definition log_ver (e : nat * N * N) : N := snd e.
Definition log_sid (e : nat * N * N) : N := snd (fst e).
Definition log_tid (e : nat * N * N) : nat := fst (fst e).

Fixpoint strictly_increasing (l : list N) : Prop :=
  match l with
  | [] => True
  | a :: t => match t with [] => True | b :: _ => a < b end /\ strictly_increasing t
  end.
