(* C11: sdp.go updateSDPOrigin.  Sequential model and interleaving model whose
   atomic steps are the atomic operations of the function (CAS on the saved
   version, store of the saved id, load of the saved id in the wait loop, add
   on the saved version); yield points sdp.origin.won / spin / add.
   Definitions only; proofs are in Proofs/Origin.v. *)
From Coq Require Import List NArith Arith Bool.
Import ListNotations.
From Verif Require Import Common.Base.
From Verif Require Model.Ops.
Open Scope N_scope.

(* ---------- sequential ---------- *)

(* saved origin: (SessionID, SessionVersion); zero value at PeerConnection creation *)
Definition origin := (N * N)%type.
Definition origin0 : origin := (0, 0).

(* one call with a fresh description carrying (dsid, dver).  Returns the new
   saved origin and what the description carries afterwards; None = the wait
   loop never ends (saved id is 0 and nobody else will store it). *)
Definition update (o : origin) (d : N * N) : origin * option (N * N) :=
  let '(sid, ver) := o in
  let '(dsid, dver) := d in
  if ver =? 0 then ((dsid, dver), Some (dsid, dver))          (* CAS succeeded; store id *)
  else if sid =? 0 then (o, None)                              (* for { load; if != 0 break } *)
  else ((sid, u64 (ver + 1)), Some (sid, u64 (ver + 1))).      (* atomic.AddUint64 *)

Fixpoint updates (o : origin) (ds : list (N * N)) : list (option (N * N)) :=
  match ds with
  | [] => []
  | d :: t => let (o', r) := update o d in
              r :: match r with Some _ => updates o' t | None => [] end
  end.

(* ---------- CreateOffer's recompute loop (peerconnection.go CreateOffer) ----------
   for { generate descr; updateSDPOrigin(&pc.sdpOrigin, descr); marshal;
         if isPlanB || !hasLocalDescriptionChanged(&offer) { break }
         count++; if count >= 128 { return errExcessiveRetries } }
   One call is driven by the fresh description of its first generation and the
   fresh descriptions of the generations that follow a detected change ("offer
   changed while being generated"); every generation calls updateSDPOrigin,
   the description of the LAST generation is returned.  CreateAnswer has no
   loop: a call with no retries. *)
Inductive call_result : Type :=
| Returned (o : N * N)     (* the description handed to the caller carries o *)
| Excessive                (* errExcessiveRetries: nothing is handed out *)
| Hangs.                   (* updateSDPOrigin never returns (saved id 0) *)

Definition max_retries : nat := 128.

Fixpoint offer_loop (o : origin) (count : nat) (d : N * N) (retries : list (N * N))
  : origin * call_result :=
  let (o', r) := update o d in
  match r with
  | None => (o, Hangs)
  | Some out =>
      match retries with
      | [] => (o', Returned out)                               (* not changed: break *)
      | d' :: rest =>
          if (max_retries <=? S count)%nat then (o', Excessive) (* count++; count >= 128 *)
          else offer_loop o' (S count) d' rest
      end
  end.

(* a history of CreateOffer / CreateAnswer calls on one PeerConnection (they
   hold pc.mu, so they are sequential) *)
Definition gcall := ((N * N) * list (N * N))%type.

Fixpoint calls (o : origin) (h : list gcall) : list call_result :=
  match h with
  | [] => []
  | (d, retries) :: t =>
      let (o', r) := offer_loop o 0 d retries in
      r :: match r with Hangs => [] | _ => calls o' t end
  end.

(* generations one call runs: 1 + retries, at most 128 *)
Definition gens_of (c : gcall) : nat := Nat.min (S (length (snd c))) max_retries.
Definition total_gens (h : list gcall) : nat := fold_right (fun c a => (gens_of c + a)%nat) 0%nat h.

Fixpoint returned (rs : list call_result) : list (N * N) :=
  match rs with
  | [] => []
  | Returned o :: t => o :: returned t
  | _ :: t => returned t
  end.

(* ---------- concurrent ---------- *)

Inductive opc : Type :=
| T0 (dsid dver : N)      (* about to CAS *)
| TWon (dsid dver : N)    (* at sdp.origin.won: CAS succeeded, id not yet stored *)
| TSpin                   (* at sdp.origin.spin: about to load the saved id *)
| TAdd (osid : N)         (* at sdp.origin.add: id loaded, about to add *)
| TDone (osid over : N).  (* returned; the description carries (osid, over) *)

Record ost : Type := mkost {
  sid : N;                          (* origin.SessionID *)
  ver : N;                          (* origin.SessionVersion *)
  olog : list (nat * N * N);        (* ghost: (thread, id, version) in linearisation order *)
  othreads : list opc
}.

Definition oupd := @Ops.upd opc.

Definition ostep (s : ost) (i : nat) : option ost :=
  match nth_error (othreads s) i with
  | None => None
  | Some (T0 d v) =>
      if ver s =? 0
      then Some (mkost (sid s) v (olog s ++ [(i, d, v)]) (oupd (othreads s) i (TWon d v)))
      else Some (mkost (sid s) (ver s) (olog s) (oupd (othreads s) i TSpin))
  | Some (TWon d v) =>
      Some (mkost d (ver s) (olog s) (oupd (othreads s) i (TDone d v)))
  | Some TSpin =>
      if sid s =? 0 then Some s                                  (* loop again *)
      else Some (mkost (sid s) (ver s) (olog s) (oupd (othreads s) i (TAdd (sid s))))
  | Some (TAdd o) =>
      let v' := u64 (ver s + 1) in
      Some (mkost (sid s) v' (olog s ++ [(i, o, v')]) (oupd (othreads s) i (TDone o v')))
  | Some (TDone _ _) => None
  end.

Definition ostep_or_skip (s : ost) (i : nat) : ost :=
  match ostep s i with Some s' => s' | None => s end.

Definition orun (s : ost) (sch : list nat) : ost := fold_left ostep_or_skip sch s.

Definition oinit (ds : list (N * N)) : ost :=
  mkost 0 0 [] (map (fun d => T0 (fst d) (snd d)) ds).

(* pion/sdp's contract for a fresh description, and room below 2^64 *)
Definition fresh_ok (n : nat) (d : N * N) : Prop :=
  fst d <> 0 /\ snd d <> 0 /\ fst d < 2 ^ 64 /\ snd d + N.of_nat n < 2 ^ 64.

Definition log_ver (e : nat * N * N) : N := snd e.
Definition log_sid (e : nat * N * N) : N := snd (fst e).
Definition log_tid (e : nat * N * N) : nat := fst (fst e).

Fixpoint strictly_increasing (l : list N) : Prop :=
  match l with
  | [] => True
  | a :: t => match t with [] => True | b :: _ => a < b end /\ strictly_increasing t
  end.
