(* What C06, C07 and C09 ask of the descriptions Model.JsepMid generates, and
   the guards under which the partial theorems hold.  Definitions only. *)
From Coq Require Import List ZArith String Bool.
Import ListNotations.
From Verif Require Import Common.Base Common.JsepNumeral Model.JsepMid.
Open Scope string_scope.
Open Scope list_scope.

(* ---------- C06: one generated description ---------- *)
Definition sec_mids (d : ldesc) : list (option string) := map l_mid (l_secs d).
(* mids of the accepted (non-zero-port) sections, in order *)
Definition accepted_mids (d : ldesc) : list string :=
  flat_map (fun x => if l_port0 x then [] else match l_mid x with Some m => [m] | None => [] end) (l_secs d).
(* ICE credentials, exactly one direction, setup, fingerprint at exactly one level *)
Definition sec_attrs_ok (d : ldesc) (x : lsection) : Prop :=
  l_creds x = true /\ (exists dd, l_dir x = Some dd) /\ l_setup x = true /\
  xorb (l_fp x) (l_fp_session d) = true.

Definition c06_holds (d : ldesc) : Prop :=
  (forall x, In x (l_secs d) -> l_mid x <> None) /\
  NoDup (sec_mids d) /\
  l_bundle d = accepted_mids d /\ NoDup (l_bundle d) /\
  (forall x, In x (l_secs d) -> l_port0 x = false -> sec_attrs_ok d x).

(* ---------- guards ---------- *)
(* mids that are set *)
Definition set_mids (l : list tr) : list string :=
  filter (fun m => negb (String.eqb m "")) (map t_mid l).

Definition rdesc_ok (d : rdesc) : Prop := NoDup (map r_mid (r_secs d)).
(* every remote description handed to SetRemoteDescription has pairwise
   distinct mids *)
Definition remote_ok (ops : list op) : Prop :=
  forall ty d, In (SetRemote ty d) ops -> rdesc_ok d.

(* CreateOffer's numbering loop leaves the transceivers with pairwise distinct
   mids.  (Before the repair of CreateOffer this was a guard; it now follows
   from the invariant and offer_nowrap: Proofs/JsepMidGen.v numbering_ok_lemma.) *)
Definition numbering_ok (s : st) : Prop := NoDup (set_mids (trs (offer_alloc s))).

(* no greaterMid++ of the numbering loop leaves the range of a Go int *)
Fixpoint alloc_nowrap (g : Z) (l : list tr) : bool :=
  match l with
  | [] => true
  | t :: rest =>
      if mid_unset t then in_int (g + 1) && alloc_nowrap (g + 1) rest
      else alloc_nowrap g rest
  end.
Definition offer_nowrap (s : st) : bool := alloc_nowrap (offer_start s) (trs s).
(* ... at every CreateOffer of a history *)
Definition nowrap_all (ops : list op) : Prop :=
  forall s out s', In (s, CreateOffer, out, s') (trace ops) -> offer_nowrap s = true.

(* every kind still has a codec (no section is written as a bare port-0 line) *)
Definition codecs_ok (s : st) : Prop := forall k, has_codecs s k = true.

Definition remote_secs (d : option rdesc) : list rsection :=
  match d with Some d => r_secs d | None => [] end.

(* the state just before CreateOffer generates sections *)
Definition offer_guard (s : st) : Prop :=
  let s1 := offer_alloc s in
  (* the counter does not overflow *)
  offer_nowrap s = true /\
  (* no transceiver carries the mid of an application section of the remote
     description the offer is generated against *)
  (forall t r, In t (trs s1) -> In r (remote_secs (offer_remote s1)) ->
               r_kind r = KApplication -> t_mid t <> r_mid r) /\
  (* when the offer appends a data section, its mid Itoa(len) is not the mid of
     a section already in the list *)
  (forall l base g, offer_sections s1 = (l, Ok (base, true, g)) ->
                    ~ In (data_mid base) (map msec_id base)) /\
  codecs_ok s.

Definition gen_guard (s : st) (o : op) : Prop :=
  match o with
  | CreateOffer => offer_guard s
  | _ => codecs_ok s
  end.

(* ---------- C07: one remote offer on a connection without mids ---------- *)
(* a section generateMatchedSDP keeps: application, or audio/video with a
   direction attribute *)
Definition usable (r : rsection) : bool :=
  match r_kind r with
  | KApplication => true
  | KAudio | KVideo => match r_dir r with Some _ => true | None => false end
  | KOther => false
  end.
Definition kind_mid_r (r : rsection) : kind * option string := (r_kind r, Some (r_mid r)).
Definition kind_mid_l (x : lsection) : kind * option string := (l_kind x, l_mid x).

(* the answer mirrors the offer: same number of sections, same order, same
   media type and mid *)
Definition c07_mirrors (d : rdesc) (a : ldesc) : Prop :=
  map kind_mid_l (l_secs a) = map kind_mid_r (r_secs d).
(* every offered section has a mid and is application, or audio/video with a
   direction attribute *)
Definition offer_usable (d : rdesc) : Prop :=
  forall r, In r (r_secs d) -> r_mid r <> "" /\ usable r = true.
(* no transceiver already carries an offered audio/video mid with the other
   media type *)
Definition kinds_compatible (l : list tr) (d : rdesc) : Prop :=
  forall t r k, In t l -> In r (r_secs d) -> t_mid t = r_mid r ->
                media_kind (r_kind r) = Some k -> t_kind t = k.

(* ---------- the remote BUNDLE group as answers read it ---------- *)
(* the tags bundleMatchFromRemote compares with: the remote a=group value with
   the leading characters of "BUNDLE" trimmed, split at spaces *)
Definition remote_group_value (d : rdesc) : string :=
  trim_left_bundle (match r_group d with Some v => v | None => EmptyString end).
Definition in_remote_group (d : rdesc) (m : string) : bool := bundle_match (Some (remote_group_value d)) m.

(* ---------- C09: the descriptions a history applies ---------- *)
Definition mids_of_r (d : rdesc) : list (option string) := map Some (map r_mid (r_secs d)).
Definition mids_of_l (d : option ldesc) : list (option string) :=
  match d with Some d => sec_mids d | None => [] end.

(* the mid list of the description a call applies, when the signalling state
   accepts the call (SetLocalDescription applies pc.lastOffer / pc.lastAnswer).
   Acceptance, not the returned status: a call that fails after the state change
   has applied its description all the same. *)
Definition applies (s : st) (o : op) : option (list (option string)) :=
  match o with
  | SetLocal ty =>
      match local_next (sig s) ty with
      | Some _ => Some (mids_of_l (match ty with TOffer => last_offer s | _ => last_answer s end))
      | None => None
      end
  | SetRemote ty d =>
      match remote_next (sig s) ty with
      | Some _ => Some (mids_of_r d)
      | None => None
      end
  | _ => None
  end.
Definition applied_from (s : st) (ops : list op) : list (list (option string)) :=
  flat_map (fun e => match e with (s, o, _, _) => match applies s o with Some m => [m] | None => [] end end)
           (trace_from s ops).
(* in the order they were applied *)
Definition applied (ops : list op) : list (list (option string)) := applied_from init ops.

(* ghost record carried along a history, to say "stale": *)
Record ghost := {
  g_applied : list (list (option string));   (* descriptions applied so far, newest first *)
  g_offer_fresh : bool;      (* pc.lastOffer was created after the last description was applied *)
  g_answer_fresh : bool }.   (* pc.lastAnswer was created for the remote offer that is pending *)
Definition ghost0 : ghost := {| g_applied := []; g_offer_fresh := false; g_answer_fresh := false |}.
Definition g_last (g : ghost) : option (list (option string)) := hd_error (g_applied g).

Definition ghost_step (g : ghost) (s : st) (o : op) (out : outcome) : ghost :=
  match applies s o with
  | Some m =>
      {| g_applied := m :: g_applied g; g_offer_fresh := false;
         g_answer_fresh := match o with SetRemote TOffer _ => false | _ => g_answer_fresh g end |}
  | None =>
      match o, out with
      | CreateOffer, ODesc (Ok _) =>
          {| g_applied := g_applied g; g_offer_fresh := true; g_answer_fresh := g_answer_fresh g |}
      | CreateAnswer, ODesc (Ok _) =>
          {| g_applied := g_applied g; g_offer_fresh := g_offer_fresh g; g_answer_fresh := true |}
      | _, _ => g
      end
  end.

Fixpoint gtrace_from (s : st) (g : ghost) (ops : list op) : list (st * ghost * op) :=
  match ops with
  | [] => []
  | o :: rest => let '(s', out) := step s o in (s, g, o) :: gtrace_from s' (ghost_step g s o out) rest
  end.
Definition gtrace (ops : list op) : list (st * ghost * op) := gtrace_from init ghost0 ops.

(* l extends the description applied last *)
Definition prefix_of (p : option (list (option string))) (l : list (option string)) : Prop :=
  match p with None => True | Some p => exists extra, l = p ++ extra end.
Definition all_usable (d : rdesc) : Prop := forall r, In r (r_secs d) -> usable r = true.

(* the guard of the chain theorem, per call.  It excludes exactly the recorded
   causes: duplicate mids (C06's guard at every CreateOffer / CreateAnswer:
   counter overflow, a transceiver carrying the remote application mid, the data
   mid Itoa(len) already in use, a kind without codec); unusable remote
   sections (they are skipped); stale descriptions (SetLocalDescription applying
   an offer created before the last description was applied, or an answer created
   for an earlier remote offer); and it asks of the remote side what JSEP asks: a
   remote offer extends the description applied last, a remote (provisional)
   answer lists the mids of the offer it answers. *)
Definition chain_guard (s : st) (g : ghost) (o : op) : Prop :=
  match o with
  | CreateOffer => offer_guard s
  | CreateAnswer => codecs_ok s
  | SetLocal ty =>
      match local_next (sig s) ty with
      | None => True
      | Some _ => match ty with TOffer => g_offer_fresh g = true | _ => g_answer_fresh g = true end
      end
  | SetRemote ty d =>
      rdesc_ok d /\
      match remote_next (sig s) ty with
      | None => True
      | Some _ =>
          all_usable d /\
          match ty with
          | TOffer => prefix_of (g_last g) (mids_of_r d)
          | _ => g_last g = Some (mids_of_r d)
          end
      end
  | _ => True
  end.
Definition hist_guard (ops : list op) : Prop :=
  forall s g o, In (s, g, o) (gtrace ops) -> chain_guard s g o.

(* the part of it that the extension itself needs: no clause about duplicate
   mids (those only decide whether "the" index of a mid is well defined), no
   rdesc_ok *)
Definition chain_guard_light (s : st) (g : ghost) (o : op) : Prop :=
  match o with
  | CreateOffer | CreateAnswer => codecs_ok s
  | SetLocal ty =>
      match local_next (sig s) ty with
      | None => True
      | Some _ => match ty with TOffer => g_offer_fresh g = true | _ => g_answer_fresh g = true end
      end
  | SetRemote ty d =>
      match remote_next (sig s) ty with
      | None => True
      | Some _ =>
          all_usable d /\
          match ty with
          | TOffer => prefix_of (g_last g) (mids_of_r d)
          | _ => g_last g = Some (mids_of_r d)
          end
      end
  | _ => True
  end.
Definition hist_guard_light (ops : list op) : Prop :=
  forall s g o, In (s, g, o) (gtrace ops) -> chain_guard_light s g o.
