(* C13: who takes which ICE and DTLS role.  Transcribed from
     dtlsrole.go            dtlsRoleFromSDP, connectionRoleFromDtlsRole
     settingengine.go       SetAnsweringDTLSRole
     peerconnection.go      CreateAnswer (connection-role choice),
                            SetRemoteDescription (ICE role choice, the values
                            handed to startTransports)
     dtlstransport.go       DTLSTransport.role
   No proofs here. *)
From Coq Require Import List Bool String.
Import ListNotations.
From Verif Require Import Common.Base.

(* dtlsrole.go: DTLSRole, iota order *)
Inductive drole := DUnknown | DAuto | DClient | DServer.
(* pion/sdp ConnectionRole; CRzero is ConnectionRole(0) *)
Inductive crole := CRzero | CRactive | CRpassive | CRactpass | CRholdconn.
(* icerole.go *)
Inductive irole := IUnknown | IControlling | IControlled.

Definition drole_eqb (a b : drole) : bool :=
  match a, b with
  | DUnknown, DUnknown | DAuto, DAuto | DClient, DClient | DServer, DServer => true
  | _, _ => false
  end.
Definition crole_eqb (a b : crole) : bool :=
  match a, b with
  | CRzero, CRzero | CRactive, CRactive | CRpassive, CRpassive
  | CRactpass, CRactpass | CRholdconn, CRholdconn => true
  | _, _ => false
  end.
Definition irole_eqb (a b : irole) : bool :=
  match a, b with
  | IUnknown, IUnknown | IControlling, IControlling | IControlled, IControlled => true
  | _, _ => false
  end.

(* the a=setup value of the first media section that has one, as text;
   None = no section carries a=setup *)
Definition setup_text := option string.

(* sdp.ConnectionRole.String *)
Definition crole_string (c : crole) : string :=
  match c with
  | CRactive => "active" | CRpassive => "passive" | CRactpass => "actpass"
  | CRholdconn => "holdconn" | CRzero => "Unknown"
  end.

(* dtlsRoleFromSDP: first a=setup found decides; anything but active/passive
   (and no attribute at all) is auto *)
Definition role_from_sdp (s : setup_text) : drole :=
  match s with
  | None => DAuto
  | Some v =>
      if String.eqb v "active" then DClient
      else if String.eqb v "passive" then DServer
      else DAuto
  end.

(* connectionRoleFromDtlsRole *)
Definition conn_role_from_dtls (d : drole) : crole :=
  match d with
  | DClient => CRactive
  | DServer => CRpassive
  | DAuto => CRactpass
  | DUnknown => CRzero
  end.

(* SettingEngine.SetAnsweringDTLSRole: the stored role after the call *)
Definition set_answering_role (cur r : drole) : result drole :=
  if negb (drole_eqb r DClient) && negb (drole_eqb r DServer)
  then Err "errSettingEngineSetAnsweringDTLSRole"
  else Ok r.

Definition default_dtls_role_answer : drole := DClient.

(* CreateAnswer, lines between the state checks and generateMatchedSDP.
   answering = settingEngine.answeringDTLSRole, offer_setup = what
   dtlsRoleFromSDP sees in the remote offer, remote_lite = isIceLiteSet(offer),
   local_lite = settingEngine.candidates.ICELite.
   (Repaired code: an offered active/passive wins over the configured role and
   over the ICE-lite override.) *)
Definition answer_conn_role (answering : drole) (offer_setup : setup_text)
           (remote_lite local_lite : bool) : crole :=
  let connection_role := conn_role_from_dtls answering in
  let dtls_role := role_from_sdp offer_setup in
  if crole_eqb connection_role CRzero || negb (drole_eqb dtls_role DAuto) then
    let connection_role :=
      match dtls_role with
      | DClient => conn_role_from_dtls DServer
      | DServer => conn_role_from_dtls DClient
      | _ => conn_role_from_dtls default_dtls_role_answer
      end in
    if drole_eqb dtls_role DAuto && (remote_lite && negb local_lite)
    then conn_role_from_dtls DServer
    else connection_role
  else connection_role.

(* the same lines as they were before the repair (pinned tree a152027); kept
   only to state what the repair changed, see Proofs/Roles.v *)
Definition answer_conn_role_before_repair (answering : drole) (offer_setup : setup_text)
           (remote_lite local_lite : bool) : crole :=
  let connection_role := conn_role_from_dtls answering in
  if crole_eqb connection_role CRzero then
    let connection_role :=
      match role_from_sdp offer_setup with
      | DClient => conn_role_from_dtls DServer
      | DServer => conn_role_from_dtls DClient
      | _ => conn_role_from_dtls default_dtls_role_answer
      end in
    if remote_lite && negb local_lite
    then conn_role_from_dtls DServer
    else connection_role
  else connection_role.

(* SetRemoteDescription: iceRole; we_offer = (desc.Type == answer) *)
Definition ice_role (we_offer remote_lite local_lite : bool) : irole :=
  if (we_offer && Bool.eqb remote_lite local_lite) || (remote_lite && negb local_lite)
  then IControlling else IControlled.

(* DTLSTransport.role: remote = remoteParameters.Role, answering =
   settingEngine.answeringDTLSRole, ice = iceTransport.Role() *)
Definition dtls_role (remote answering : drole) (ice : irole) : drole :=
  match remote with
  | DClient => DServer
  | DServer => DClient
  | _ =>
      match answering with
      | DServer => DServer
      | DClient => DClient
      | _ => if irole_eqb ice IControlling then DServer else default_dtls_role_answer
      end
  end.

(* ---- one offer/answer exchange between offerer A and answerer B ---- *)
Record cell := {
  liteA : bool;            (* SettingEngine.SetLite on the offerer *)
  liteB : bool;            (* ... on the answerer *)
  roleA : drole;           (* offerer's configured answering role (irrelevant: proved) *)
  roleB : drole;           (* answerer's configured answering role *)
  offer : setup_text;      (* a=setup in the offer *)
}.

Record outcome := {
  answer : crole;          (* a=setup CreateAnswer writes *)
  iceA : irole; iceB : irole;    (* iceRole handed to startTransports *)
  remA : drole; remB : drole;    (* dtlsRole handed to startTransports *)
  dtlsA : drole; dtlsB : drole;  (* DTLSTransport.role() *)
}.

Definition exchange_with (ans_fn : drole -> setup_text -> bool -> bool -> crole)
           (c : cell) : outcome :=
  (* B: SetRemoteDescription(offer): a=ice-lite of the offer is A's setting *)
  let ice_b := ice_role false (liteA c) (liteB c) in
  let rem_b := role_from_sdp (offer c) in
  (* B: CreateAnswer *)
  let ans := ans_fn (roleB c) (offer c) (liteA c) (liteB c) in
  (* A: SetRemoteDescription(answer) *)
  let ice_a := ice_role true (liteB c) (liteA c) in
  let rem_a := role_from_sdp (Some (crole_string ans)) in
  {| answer := ans; iceA := ice_a; iceB := ice_b; remA := rem_a; remB := rem_b;
     dtlsA := dtls_role rem_a (roleA c) ice_a;
     dtlsB := dtls_role rem_b (roleB c) ice_b |}.

Definition exchange : cell -> outcome := exchange_with answer_conn_role.

(* ---- specification (RFC 5763 s5, RFC 4145 s4, RFC 8445 s6.1.1) ---- *)

(* a role SetAnsweringDTLSRole can have left in the SettingEngine *)
Definition settable (r : drole) : Prop := r = DUnknown \/ r = DClient \/ r = DServer.

(* the four offer values of the property's matrix *)
Definition matrix_offer (s : setup_text) : Prop :=
  s = Some "actpass"%string \/ s = Some "active"%string \/ s = Some "passive"%string \/ s = None.

(* RFC 8445 6.1.1: exactly one lite agent -> the full one controls; otherwise the offerer *)
Definition rfc8445_offerer_controls (lite_offerer lite_answerer : bool) : bool :=
  negb (lite_offerer && negb lite_answerer).

Definition ice_ok (c : cell) (o : outcome) : Prop :=
  (if rfc8445_offerer_controls (liteA c) (liteB c)
   then iceA o = IControlling /\ iceB o = IControlled
   else iceA o = IControlled /\ iceB o = IControlling).

(* what a=setup value commits its sender to *)
Definition commits (setup : setup_text) (r : drole) : Prop :=
  match setup with
  | Some v => (v = "active"%string -> r = DClient) /\ (v = "passive"%string -> r = DServer)
  | None => True
  end.

Definition opposite (a b : drole) : Prop :=
  (a = DClient /\ b = DServer) \/ (a = DServer /\ b = DClient).

Definition dtls_ok (c : cell) (o : outcome) : Prop :=
  opposite (dtlsA o) (dtlsB o)
  /\ commits (offer c) (dtlsA o)
  /\ commits (Some (crole_string (answer o))) (dtlsB o).

(* boolean forms, for the finite sweep and the correspondence run *)
Definition dtls_okb (c : cell) (o : outcome) : bool :=
  let opp := (drole_eqb (dtlsA o) DClient && drole_eqb (dtlsB o) DServer)
             || (drole_eqb (dtlsA o) DServer && drole_eqb (dtlsB o) DClient) in
  let commitsb (s : setup_text) (r : drole) :=
    match s with
    | Some v => (if String.eqb v "active" then drole_eqb r DClient else true)
                && (if String.eqb v "passive" then drole_eqb r DServer else true)
    | None => true
    end in
  opp && commitsb (offer c) (dtlsA o) && commitsb (Some (crole_string (answer o))) (dtlsB o).

(* exactly one of the two agents is controlling *)
Definition exactly_one_controlling (o : outcome) : Prop :=
  (iceA o = IControlling /\ iceB o <> IControlling) \/
  (iceA o <> IControlling /\ iceB o = IControlling).

(* the property's 48-cell matrix (offerer's own configured role left unset) *)
Definition matrix : list cell :=
  flat_map (fun la => flat_map (fun lb => flat_map (fun r => map (fun s =>
    {| liteA := la; liteB := lb; roleA := DUnknown; roleB := r; offer := s |})
    [Some "actpass"%string; Some "active"%string; Some "passive"%string; None])
    [DUnknown; DClient; DServer]) [false; true]) [false; true].

(* compact rendering of a cell: (liteA, liteB, roleB, offer) *)
Definition cell_key (c : cell) : bool * bool * drole * setup_text :=
  (liteA c, liteB c, roleB c, offer c).

Definition failing_before_repair : list (bool * bool * drole * setup_text) :=
  map cell_key
    (filter (fun c => negb (dtls_okb c (exchange_with answer_conn_role_before_repair c))) matrix).
