(* C28: TrackLocalStaticSample.WriteSample and GeneratePadding
   (track_local_static.go) together with the pion/rtp packetizer/sequencer
   contract they drive.  The transcription is
   written once over an abstract arithmetic [arith] for the float64 expressions;
   two instances follow: [float_arith] (IEEE-754 binary64, round to nearest
   even, as rationals) used for the correspondence check, and [exact_arith]
   (exact, in units of 10^-9 tick) about which the no-drift theorem is stated.
   No proofs here.

     remainder := s.remainder
     for i := uint16(0); i < sample.PrevDroppedPackets; i++ { sequencer.NextSequenceNumber() }
     tickF := sample.Duration.Seconds() * clockRate
     if sample.PrevDroppedPackets > 0 {
       dropTotal := tickF*float64(sample.PrevDroppedPackets) + remainder
       dropTicks := uint32(dropTotal)
       remainder = dropTotal - float64(dropTicks)
       packetizer.SkipSamples(dropTicks) }
     curTotal := tickF + remainder
     curTicks := uint32(curTotal)
     remainder = curTotal - float64(curTicks)
     s.remainder = remainder
     packets := packetizer.Packetize(sample.Data, curTicks)

   pion/rtp (assumed contract, transcribed): Packetize on an empty payload only
   adds [samples] to the timestamp; otherwise every packet takes
   NextSequenceNumber() and the current timestamp, then the timestamp advances
   by [samples]; SkipSamples adds; the sequencer counts modulo 2^16. *)
From Coq Require Import String NArith ZArith QArith Qround Bool List.
Import ListNotations.
From Verif Require Import Common.V Common.Base.

Record arith := mkArith {
  R : Type;
  r_zero : R;
  r_tick : Z -> N -> R;     (* sample.Duration.Seconds() * clockRate   (duration in ns) *)
  r_mul_n : R -> N -> R;    (* x * float64(n) *)
  r_add : R -> R -> R;      (* x + y *)
  r_trunc : R -> N;         (* uint32(x) *)
  r_sub_n : R -> N -> R     (* x - float64(n) *)
}.

Record sample := mkSample {
  s_dur : Z;          (* Duration, nanoseconds *)
  s_dropped : N;      (* PrevDroppedPackets (uint16) *)
  s_npk : nat         (* packets the payloader yields; 0 also stands for empty Data *)
}.

Record rpkt := mkRpkt { k_seq : N; k_ts : N }.

(* one call on the track: WriteSample(x) or GeneratePadding(n) *)
Inductive op := OSample (x : sample) | OPad (n : N).

(* for the specification a padding burst of n packets counts as a sample of
   duration zero cut into n packets: it consumes sequence numbers, not time *)
Definition as_sample (o : op) : sample :=
  match o with OSample x => x | OPad n => mkSample 0 0 (N.to_nat n) end.

Section Track.
  Variable a : arith.
  Variable rate : N.   (* codec.ClockRate *)

  Record st := mkSt {
    st_rem : R a;      (* s.remainder *)
    st_ts : N;         (* packetizer.Timestamp *)
    st_seq : N         (* low 16 bits of the sequencer state = last number issued *)
  }.

  Open Scope N_scope.

  Definition next_seq (q : N) : N := u16 (q + 1).

  (* for i := uint16(0); i < n; i++ { sequencer.NextSequenceNumber() } *)
  Definition skip_seq (n q : N) : N := N.iter n next_seq q.

  (* the loop of Packetize over the payloads *)
  Fixpoint emit (n : nat) (q ts : N) : N * list rpkt :=
    match n with
    | O => (q, [])
    | S k => let q1 := next_seq q in
             let (q2, l) := emit k q1 ts in (q2, mkRpkt q1 ts :: l)
    end.

  Definition write_sample (s : st) (x : sample) : st * list rpkt :=
    let remainder := st_rem s in
    let q1 := skip_seq (s_dropped x) (st_seq s) in
    let tickF := r_tick a (s_dur x) rate in
    let '(remainder, ts1) :=
      if 0 <? s_dropped x then
        let dropTotal := r_add a (r_mul_n a tickF (s_dropped x)) remainder in
        let dropTicks := r_trunc a dropTotal in
        (r_sub_n a dropTotal dropTicks, u32 (st_ts s + dropTicks))      (* SkipSamples *)
      else (remainder, st_ts s) in
    let curTotal := r_add a tickF remainder in
    let curTicks := r_trunc a curTotal in
    let remainder := r_sub_n a curTotal curTicks in
    let (q2, pkts) := emit (s_npk x) q1 ts1 in
    (mkSt remainder (u32 (ts1 + curTicks)) q2, pkts).

  (* GeneratePadding(samples) -> packetizer.GeneratePadding (pion/rtp, assumed
     contract, transcribed):
       if samples == 0 { return nil }
       for i := 0; i < int(samples); i++ {
         packets[i] = {SequenceNumber: Sequencer.NextSequenceNumber(), Timestamp: p.Timestamp, Padding} }
     the packetizer's timestamp and s.remainder are not touched. *)
  Definition gen_padding (s : st) (n : N) : st * list rpkt :=
    let (q2, pkts) := emit (N.to_nat n) (st_seq s) (st_ts s) in
    (mkSt (st_rem s) (st_ts s) q2, pkts).

  Definition step (s : st) (o : op) : st * list rpkt :=
    match o with
    | OSample x => write_sample s x
    | OPad n => gen_padding s n
    end.

  Fixpoint run (s : st) (os : list op) : list (list rpkt) :=
    match os with
    | [] => []
    | o :: t => let (s', pk) := step s o in pk :: run s' t
    end.

  (* WithRTPTimestamp(ts0), WithRTPSequenceNumber(seq0): NewFixedSequencer stores seq0-1 *)
  Definition init (ts0 seq0 : N) : st := mkSt (r_zero a) (u32 ts0) (u16 (seq0 + 65535)).
End Track.

(* ------------------------------------------------------------ exact instance *)
(* quantities in units of 10^-9 tick: Duration(ns) * clockRate is an integer *)
Definition giga : Z := 1000000000.
Definition exact_arith : arith :=
  mkArith Z 0%Z
          (fun d rate => (d * Z.of_N rate)%Z)
          (fun x n => (x * Z.of_N n)%Z)
          Z.add
          (fun x => Z.to_N ((x / giga) mod 4294967296)%Z)
          (fun x n => (x - Z.of_N n * giga)%Z).

(* ------------------------------------------------------------ float64 instance *)
(* binary64 values as the rationals they denote; every operation is the exact
   rational operation followed by round-to-nearest-even to 53 significant bits
   (no subnormals, infinities or NaN arise from non-negative durations below
   2^63 ns and clock rates below 2^32). *)
Definition two_p (e : Z) : Q := if (0 <=? e)%Z then inject_Z (2 ^ e) else (/ inject_Z (2 ^ (- e)))%Q.

Definition rnd_pos (n d : positive) : Q :=
  (* n/d > 0.  mantissa in [2^52, 2^53) *)
  let e0 := (Z.log2 (Zpos n) - Z.log2 (Zpos d) - 52)%Z in
  let quo (e : Z) : Z * Z * Z :=   (* floor(n/d / 2^e), remainder numerator, denominator *)
    let a := if (e <? 0)%Z then (Zpos n * 2 ^ (- e))%Z else Zpos n in
    let b := if (e <? 0)%Z then Zpos d else (Zpos d * 2 ^ e)%Z in
    (a / b, a mod b, b)%Z in
  let pick (e : Z) : option Q :=
    match quo e with
    | (m, r, b) =>
        if andb (2 ^ 52 <=? m)%Z (m <? 2 ^ 53)%Z then
          let m' := if (b <? 2 * r)%Z then (m + 1)%Z
                    else if (2 * r =? b)%Z then (if Z.odd m then m + 1 else m)%Z
                    else m in
          Some (Qred (inject_Z m' * two_p e)%Q)
        else None
    end in
  match pick e0 with
  | Some q => q
  | None => match pick (e0 + 1)%Z with
            | Some q => q
            | None => match pick (e0 - 1)%Z with Some q => q | None => 0%Q end
            end
  end.

Definition rnd64 (q : Q) : Q :=
  match Qnum q with
  | Z0 => 0%Q
  | Zpos n => rnd_pos n (Qden q)
  | Zneg n => (- rnd_pos n (Qden q))%Q
  end.

Definition f_of_N (n : N) : Q := rnd64 (inject_Z (Z.of_N n)).
(* func (d Duration) Seconds() float64 { sec := d / Second; nsec := d % Second
                                         return float64(sec) + float64(nsec)/1e9 } *)
Definition f_seconds (d : Z) : Q :=
  let sec := Z.quot d giga in
  let nsec := Z.rem d giga in
  rnd64 (rnd64 (inject_Z sec) + rnd64 (rnd64 (inject_Z nsec) / inject_Z giga))%Q.

Definition float_arith : arith :=
  mkArith Q 0%Q
          (fun d rate => rnd64 (f_seconds d * f_of_N rate)%Q)
          (fun x n => rnd64 (x * f_of_N n)%Q)
          (fun x y => rnd64 (x + y)%Q)
          (fun x => Z.to_N ((Qfloor x) mod 4294967296)%Z)
          (fun x n => rnd64 (x - f_of_N n)%Q).

(* ------------------------------------------------------------------ spec *)
(* total media time before sample k, in 10^-9 tick: the durations of the earlier
   samples plus, for every sample up to and including k, the duration it
   reports as dropped (PrevDroppedPackets times its own duration) *)
Definition nt (rate : N) (x : sample) : Z := (s_dur x * Z.of_N rate)%Z.
Definition nt_full (rate : N) (x : sample) : Z := (nt rate x * (1 + Z.of_N (s_dropped x)))%Z.
Definition nt_before (rate : N) (xs : list sample) (k : nat) : Z :=
  (fold_right Z.add 0 (map (nt_full rate) (firstn k xs))
   + match nth_error xs k with Some x => nt rate x * Z.of_N (s_dropped x) | None => 0 end)%Z.

Definition ideal_ts (rate ts0 : N) (xs : list sample) (k : nat) : N :=
  Z.to_N ((Z.of_N ts0 + nt_before rate xs k / giga) mod 4294967296)%Z.

(* sequence numbers consumed before sample k's first packet *)
Definition seq_before (xs : list sample) (k : nat) : N :=
  (fold_right N.add 0 (map (fun x => N.of_nat (s_npk x) + s_dropped x) (firstn k xs))
   + match nth_error xs k with Some x => s_dropped x | None => 0 end)%N.
