(* C26: the RTX unwrap of rtpreceiver.go:maybeStartRepairStreamReader, written
   on a byte list exactly as the Go code does it on the pooled buffer [b] and
   the byte count [i] returned by the repair interceptor.  No proofs here.

     hasExtension := b[0]&0b10000 > 0
     hasPadding := b[0]&0b100000 > 0
     csrcCount := b[0] & 0b1111
     headerLength := uint16(12 + (4 * csrcCount))
     paddingLength := 0
     if hasExtension {
       headerLength += 4 * (1 + binary.BigEndian.Uint16(b[headerLength+2:headerLength+4]))
     }
     if hasPadding { paddingLength = int(b[i-1]) }
     if i-int(headerLength)-paddingLength < 2 { continue }       // dropped
     attributes.Set(AttributeRtxPayloadType, b[1]&0x7F)
     attributes.Set(AttributeRtxSequenceNumber, binary.BigEndian.Uint16(b[2:4]))
     attributes.Set(AttributeRtxSsrc, binary.BigEndian.Uint32(b[8:12]))
     b[1] = (b[1] & 0x80) | uint8(remoteTrack.PayloadType())
     b[2] = b[headerLength]
     b[3] = b[headerLength+1]
     binary.BigEndian.PutUint32(b[8:12], uint32(remoteTrack.SSRC()))
     copy(b[headerLength:i-2], b[headerLength+2:i])
     ... pkt: b[:i-2]

   Every index and slice expression is checked ([Panic] when Go would panic);
   csrcCount arithmetic is uint8, headerLength arithmetic is uint16. *)
From Coq Require Import String NArith ZArith Bool List.
Import ListNotations.
From Verif Require Import Common.V Common.Base.
Open Scope N_scope.

Definition of_opt {A} (o : option A) : result A :=
  match o with Some a => Ok a | None => Panic end.

Notation "x <- e ;; k" := (rbind e (fun x => k))
  (at level 61, e at next level, right associativity).

(* b[k] *)
Definition idx (b : list N) (k : N) : option N := nth_error b (N.to_nat k).
(* b[k] = v *)
Definition upd (b : list N) (k v : N) : option (list N) :=
  if Nat.ltb (N.to_nat k) (length b)
  then Some (firstn (N.to_nat k) b ++ v :: skipn (S (N.to_nat k)) b) else None.
(* b[lo:hi] *)
Definition sl (b : list N) (lo hi : N) : option (list N) :=
  slice b (N.to_nat lo) (N.to_nat hi).
(* copy(b[dlo:dhi], b[slo:shi]) -- memmove semantics, min of the two lengths *)
Definition copy_within (b : list N) (dlo dhi slo shi : N) : option (list N) :=
  match sl b dlo dhi, sl b slo shi with
  | Some dst, Some src =>
      let n := Nat.min (length dst) (length src) in
      Some (firstn (N.to_nat dlo) b ++ firstn n src ++ skipn (N.to_nat dlo + n) b)
  | _, _ => None
  end.
(* binary.BigEndian.PutUint32(b[lo:lo+4], v) *)
Definition put_u32 (b : list N) (lo v : N) : option (list N) :=
  match sl b lo (lo + 4) with
  | Some _ =>
      Some (firstn (N.to_nat lo) b ++ be_bytes 4 (u32 v) ++ skipn (N.to_nat lo + 4) b)
  | None => None
  end.

Record rtx_out := mkRtxOut {
  o_pkt : list N;     (* what TrackRemote.Read copies out: b[:i-2] *)
  o_rtx_pt : N;       (* AttributeRtxPayloadType *)
  o_rtx_seq : N;      (* AttributeRtxSequenceNumber *)
  o_rtx_ssrc : N      (* AttributeRtxSsrc *)
}.

(* csrcCount := b[0] & 0b1111; headerLength := uint16(12 + (4 * csrcCount));
   if hasExtension { headerLength += 4 * (1 + BigEndian.Uint16(b[headerLength+2:headerLength+4])) } *)
Definition rtx_header_length (b : list N) (b0 : N) : result N :=
  let hasExtension := 0 <? N.land b0 16 in
  let csrcCount := N.land b0 15 in
  let hl0 := u16 (u8 (12 + u8 (4 * csrcCount))) in
  if hasExtension then
    match sl b (u16 (hl0 + 2)) (u16 (hl0 + 4)) with
    | Some [x; y] => Ok (u16 (hl0 + u16 (4 * u16 (1 + be_val [x; y]))))
    | _ => Panic
    end
  else Ok hl0.

(* if hasPadding { paddingLength = int(b[i-1]) } *)
Definition rtx_padding_length (b : list N) (b0 i : N) : result N :=
  let hasPadding := 0 <? N.land b0 32 in
  if hasPadding then
    if i =? 0 then Panic else of_opt (idx b (i - 1))
  else Ok 0.

(* the attribute reads, the four header stores and the copy *)
Definition rtx_rewrite (ppt pssrc : N) (b : list N) (i hl : N) : result rtx_out :=
  b1 <- of_opt (idx b 1) ;;
  s24 <- of_opt (sl b 2 4) ;;
  s812 <- of_opt (sl b 8 12) ;;
  b <- of_opt (upd b 1 (N.lor (N.land b1 128) (u8 ppt))) ;;
  v2 <- of_opt (idx b hl) ;;
  b <- of_opt (upd b 2 v2) ;;
  v3 <- of_opt (idx b (u16 (hl + 1))) ;;
  b <- of_opt (upd b 3 v3) ;;
  b <- of_opt (put_u32 b 8 pssrc) ;;
  b <- of_opt (copy_within b hl (i - 2) (u16 (hl + 2)) i) ;;
  pkt <- of_opt (sl b 0 (i - 2)) ;;
  Ok (mkRtxOut pkt (N.land b1 127) (be_val s24) (be_val s812)).

(* [ppt], [pssrc]: remoteTrack.PayloadType() (uint8) and remoteTrack.SSRC().
   Ok None = packet ignored ("BWE probe packet"). *)
Definition rtx_unwrap (ppt pssrc : N) (b : list N) (i : N) : result (option rtx_out) :=
  b0 <- of_opt (idx b 0) ;;
  hl <- rtx_header_length b b0 ;;
  paddingLength <- rtx_padding_length b b0 i ;;
  if (Z.of_N i - Z.of_N hl - Z.of_N paddingLength <? 2)%Z then Ok None else
  o <- rtx_rewrite ppt pssrc b i hl ;;
  Ok (Some o).

(* ------------------------------------------------------------------------ *)
(* Histories.  The unwrap asks the TrackRemote for the primary stream's
   payload type and SSRC for EVERY repair packet; the payload type moves when
   the application reads a primary packet with another payload type
   (track_remote.go):

     func (t *TrackRemote) checkAndUpdateTrack(b []byte) error {
       if len(b) < 2 { return errRTPTooShort }
       payloadType := PayloadType(b[1] & rtpPayloadTypeBitmask)
       if payloadType != t.PayloadType() || len(t.params.Codecs) == 0 {
         params, err := t.receiver.api.mediaEngine.getRTPParametersByPayloadType(payloadType)
         if err != nil { return err }
         t.kind = ...; t.payloadType = payloadType; t.codec = params.Codecs[0]; t.params = params
       }
       return nil }

   One event = one packet arriving and being read through TrackRemote.Read:
   a primary packet (buffer, count; read() copies it out and calls
   checkAndUpdateTrack on the application's buffer) or a repair packet
   (pooled buffer, count; unwrapped by the repair goroutine with the track's
   payload type and SSRC of that moment).  The SSRC of an SSRC-signalled track
   never changes. *)

Record rtx_state := mkRtxState {
  st_pt : N;          (* TrackRemote.payloadType; 0 on a fresh track *)
  st_ssrc : N;        (* TrackRemote.ssrc *)
  st_params : bool    (* len(t.params.Codecs) != 0 *)
}.

Inductive rtx_event : Type :=
| EvPrimary (b : list N) (n : N)
| EvRtx (b : list N) (i : N).

Inductive rtx_obs : Type :=
| ObsPrimary (pkt : list N) (ok : bool)          (* b[:n]; checkAndUpdateTrack returned nil *)
| ObsRtx (r : result (option rtx_out)).

Section History.
(* mediaEngine.getRTPParametersByPayloadType succeeds for this payload type *)
Variable known : N -> bool.

Definition check_and_update (st : rtx_state) (b : list N) : rtx_state * bool :=
  match idx b 1 with
  | None => (st, false)                                         (* len(b) < 2 *)
  | Some b1 =>
      let p := N.land b1 127 in
      if negb (p =? st_pt st) || negb (st_params st)
      then if known p then (mkRtxState p (st_ssrc st) true, true) else (st, false)
      else (st, true)
  end.

Definition rtx_step (st : rtx_state) (e : rtx_event) : rtx_state * rtx_obs :=
  match e with
  | EvPrimary b n =>
      (* read() hands back the count n and checkAndUpdateTrack looks at the
         application's buffer; the bytes the application then takes are b[:n] *)
      let (st', ok) := check_and_update st b in (st', ObsPrimary (firstn (N.to_nat n) b) ok)
  | EvRtx b i => (st, ObsRtx (rtx_unwrap (st_pt st) (st_ssrc st) b i))
  end.

Fixpoint rtx_history (st : rtx_state) (evs : list rtx_event) : list rtx_obs :=
  match evs with
  | [] => []
  | e :: t => let (st', o) := rtx_step st e in o :: rtx_history st' t
  end.

Definition rtx_state_after (st : rtx_state) (evs : list rtx_event) : rtx_state :=
  fold_left (fun s e => fst (rtx_step s e)) evs st.

(* specification: the primary stream's current payload type after a history is
   that of the last primary packet whose payload type the media engine knows;
   before any such packet, the initial one *)
Fixpoint current_pt (pt0 : N) (evs : list rtx_event) : N :=
  match evs with
  | [] => pt0
  | EvPrimary b _ :: t =>
      current_pt (match idx b 1 with
                  | Some b1 => if known (N.land b1 127) then N.land b1 127 else pt0
                  | None => pt0
                  end) t
  | EvRtx _ _ :: t => current_pt pt0 t
  end.
End History.

(* ------------------------------------------------------------------------ *)
(* Specification side: RFC 3550 packet layout and the RFC 4588 rewrite.      *)

Definition bN (b : bool) : N := if b then 1 else 0.

Record rtp_hdr := mkHdr {
  h_ver : N;                      (* 2 bits *)
  h_pad : bool;
  h_ext : option (N * list N);    (* profile, extension data (whole words) *)
  h_cc : N;                       (* CSRC count *)
  h_csrc : list N;                (* the CSRC list as raw bytes, 4 * cc of them *)
  h_marker : bool;
  h_pt : N;
  h_seq : N;
  h_ts : N;
  h_ssrc : N
}.

Definition has_ext (h : rtp_hdr) : bool :=
  match h_ext h with Some _ => true | None => false end.

Definition ext_bytes (h : rtp_hdr) : list N :=
  match h_ext h with
  | Some (profile, data) =>
      be_bytes 2 profile ++ be_bytes 2 (N.of_nat (length data) / 4) ++ data
  | None => []
  end.

Definition hdr_bytes (h : rtp_hdr) : list N :=
  [64 * h_ver h + 32 * bN (h_pad h) + 16 * bN (has_ext h) + h_cc h;
   128 * bN (h_marker h) + h_pt h]
  ++ be_bytes 2 (h_seq h) ++ be_bytes 4 (h_ts h) ++ be_bytes 4 (h_ssrc h)
  ++ h_csrc h ++ ext_bytes h.

Definition hdr_ok (h : rtp_hdr) : Prop :=
  h_ver h < 4 /\ h_cc h <= 15 /\ N.of_nat (length (h_csrc h)) = 4 * h_cc h /\
  h_pt h < 128 /\ h_seq h < 65536 /\ h_ts h < 4294967296 /\ h_ssrc h < 4294967296 /\
  match h_ext h with
  | Some (profile, data) =>
      profile < 65536 /\ (N.of_nat (length data) mod 4 = 0)
  | None => True
  end.

(* packet = header ++ payload ++ padding; with the P bit the last byte of the
   packet counts the padding bytes (itself included) *)
Definition pad_ok (h : rtp_hdr) (payload padding : list N) : Prop :=
  if h_pad h
  then payload ++ padding <> [] ->
       exists pre, payload ++ padding = pre ++ [N.of_nat (length padding)]
  else padding = [].

Definition packet (h : rtp_hdr) (payload padding : list N) : list N :=
  hdr_bytes h ++ payload ++ padding.

(* RFC 4588: the original packet has the OSN as sequence number, the primary
   stream's payload type and SSRC, and everything else as in the RTX packet *)
Definition restore (h : rtp_hdr) (osn ppt pssrc : N) : rtp_hdr :=
  mkHdr (h_ver h) (h_pad h) (h_ext h) (h_cc h) (h_csrc h) (h_marker h) ppt osn (h_ts h) pssrc.
