(* C04: negotiationneeded. On top of Model/OfferShape.v (which reports, per
   call, how often onNegotiationNeeded was called and whether setDescription
   entered stable):

   - checkNegotiationNeeded (peerconnection.go) clause by clause;
   - the [[NegotiationNeeded]] flag (isNegotiationNeeded);
   - negotiationNeededOp, and the updateNegotiationNeededFlagOnEmptyChain
     hand-over of operations.go:start.

   The operations queue is reduced by the property's own premise (calls are
   sequential and each call's queued work finishes before the next call): at
   call time the queue is empty, so onNegotiationNeeded enqueues the op; while
   the call is still running its own later Enqueue (startTransports / startRTP
   in SetLocal/SetRemoteDescription) may make a running negotiationNeededOp see
   a non-empty queue -- that is the schedule bit list [sched]; such an op sets
   updateNegotiationNeededFlagOnEmptyChain and aborts, and when the chain
   empties onNegotiationNeeded is called again. After the call the queue is
   drained. No proofs here. *)
From Coq Require Import List ZArith NArith String Ascii Bool.
Import ListNotations.
From Verif Require Import Common.Base Common.NegoText Model.OfferShape.
Open Scope string_scope.

(* ---------- checkNegotiationNeeded ---------- *)

Inductive verdict := Needed | NotNeeded | Continue.

(* the body of the loop over pc.rtpTransceivers, for one transceiver.
   Panic: getByMid(mid, remoteDesc) with remoteDesc == nil dereferences nil *)
Definition check_tcv (ld : desc) (rd : option desc) (t : tcv) : result verdict :=
  match get_by_mid (t_mid t) (d_secs ld) with
  | None => Ok Needed                                            (* step 5.2 *)
  | Some m =>
      (* step 5.3.1 *)
      let send := match t_dir t with Sendrecv | Sendonly => true | _ => false end in
      let s531 :=
        if send then
          match t_sender t with
          | None => Needed
          | Some s =>
              match sender_track s with
              | None => Continue                                 (* replaceTrack(nil): skip this transceiver *)
              | Some tr =>
                  match attr_lookup "msid" (sc_attrs m) with
                  | None => Needed
                  | Some v => if String.eqb v (k_stream tr ++ " " ++ k_id tr) then NotNeeded else Needed
                  end
              end
          end
        else NotNeeded in
      match s531 with
      | Needed => Ok Needed
      | Continue => Ok Continue
      | NotNeeded =>
          match d_type ld with
          | TOffer =>                                            (* step 5.3.2 *)
              match rd with
              | None => Panic
              | Some r =>
                  match get_by_mid (t_mid t) (d_secs r) with
                  | None => Ok Needed
                  | Some rm =>
                      if negb (odir_eqb (sc_dir m) (t_dir t))
                         && negb (odir_eqb (sc_dir rm) (revers (t_dir t)))
                      then Ok Needed else Ok NotNeeded
                  end
              end
          | TAnswer =>                                           (* step 5.3.3 *)
              if odir_eqb (sc_dir m) (t_dir t) then Ok NotNeeded else Ok Needed
          | TPranswer => Ok NotNeeded                            (* the switch's default *)
          end
      end
  end.

Fixpoint check_tcvs (ld : desc) (rd : option desc) (l : list tcv) : result bool :=
  match l with
  | [] => Ok false                                               (* step 6 *)
  | t :: r =>
      match check_tcv ld rd t with
      | Ok Needed => Ok true
      | Ok _ => check_tcvs ld rd r
      | Err e => Err e
      | Panic => Panic
      end
  end.

Definition check_negotiation_needed (p : pc) : result bool :=
  match p_cur_local p with
  | None => Ok true
  | Some ld =>
      if negb (N.eqb (p_dcs p) 0) && negb (have_data_channel (d_secs ld)) then Ok true
      else check_tcvs ld (p_cur_remote p) (p_tcvs p)
  end.

(* ---------- the flag and the op ---------- *)

(* n_panicked: checkNegotiationNeeded dereferenced a nil remote description
   inside the queue's goroutine (the process would die) *)
Record nn := { n_pc : pc; n_flag : bool; n_panicked : bool }.
Definition nn_init (always_dc : bool) : nn :=
  {| n_pc := pc_init always_dc; n_flag := false; n_panicked := false |}.

(* one handler invocation: SignalingState() and [[IsClosed]] at that moment *)
Record firing := { f_sig : sigst; f_closed : bool }.

(* negotiationNeededOp; busy = "the queue is not empty when the op looks".
   Returns the state, the firings, and whether it set
   updateNegotiationNeededFlagOnEmptyChain. *)
Definition nn_op (busy : bool) (s : nn) : nn * list firing * bool :=
  let p := n_pc s in
  if p_closed p then (s, [], false)                              (* 4.7.3.2.1 *)
  else if busy then (s, [], true)                                (* 4.7.3.2.2 *)
  else if negb (sig_eqb (p_sig p) Stable) then (s, [], false)    (* 4.7.3.2.3 *)
  else match check_negotiation_needed p with
       | Ok false => ({| n_pc := p; n_flag := false; n_panicked := n_panicked s |}, [], false) (* 4.7.3.2.4 *)
       | Ok true =>
           if n_flag s then (s, [], false)                              (* 4.7.3.2.5 *)
           else ({| n_pc := p; n_flag := true; n_panicked := n_panicked s |},   (* 4.7.3.2.6 *)
                 [{| f_sig := p_sig p; f_closed := p_closed p |}], false) (* 4.7.3.2.7 *)
       | _ => ({| n_pc := p; n_flag := n_flag s; n_panicked := true |}, [], false)
       end.

(* the ops already queued by the call, in order, each consuming a schedule bit *)
Fixpoint run_pending (pending : nat) (sched : list bool) (on_empty : bool) (s : nn)
  : nn * list firing * list bool * bool :=
  match pending with
  | O => (s, [], sched, on_empty)
  | S k =>
      let b := match sched with [] => false | b :: _ => b end in
      let '(s1, f1, oe) := nn_op b s in
      let '(s2, f2, sched2, oe2) := run_pending k (tl sched) (on_empty || oe) s1 in
      (s2, (f1 ++ f2)%list, sched2, oe2)
  end.

(* operations.start, chain emptied with the flag set: clear it, call
   onNegotiationNeeded (queue empty: enqueue), whose op may again find the queue
   busy; once the schedule is used up nothing else is enqueued *)
Fixpoint rerun (sched : list bool) (s : nn) : nn * list firing :=
  match sched with
  | [] => let '(s1, f1, _) := nn_op false s in (s1, f1)
  | b :: r =>
      let '(s1, f1, oe) := nn_op b s in
      if oe then let (s2, f2) := rerun r s1 in (s2, (f1 ++ f2)%list) else (s1, f1)
  end.

Definition drain (sched : list bool) (pending : nat) (s : nn) : nn * list firing :=
  let '(s1, f1, sched1, oe) := run_pending pending sched false s in
  if oe then let (s2, f2) := rerun sched1 s1 in (s2, (f1 ++ f2)%list) else (s1, f1).

(* one API call followed by the drained queue *)
Definition nstep (s : nn) (o : op) (sched : list bool) : nn * outcome * list firing :=
  let '(p', out, fx) := step (n_pc s) o in
  (* setDescription into stable: isNegotiationNeeded.Store(false), then onNegotiationNeeded *)
  let s1 := {| n_pc := p'; n_flag := if fx_to_stable fx then false else n_flag s;
               n_panicked := n_panicked s |} in
  let (s2, fs) := drain sched (fx_triggers fx) s1 in
  (s2, out, fs).

Fixpoint nrun (s : nn) (h : list (op * list bool)) : nn * list (list firing) :=
  match h with
  | [] => (s, [])
  | (o, sched) :: r =>
      let '(s1, _, fs) := nstep s o sched in
      let (s2, l) := nrun s1 r in
      (s2, fs :: l)
  end.
