(* Model of pkg/media/h264reader/h264reader.go and
   pkg/media/h265reader/h265reader.go (the two files share their code shape;
   they differ in the skip rule and in parseHeader), after the fix: commits of
   branch vb-media1 (a skipped unit left in the buffer at end of stream is
   dropped).  No proofs here.

   The stream is the list of chunks its Read calls deliver (an empty chunk is a
   (0, nil) read; after the last chunk Read returns io.EOF).  nalBuffer is kept
   in reverse (last byte first): append is cons, cutting the zero bytes of a
   start code off its end is dropping from the front; rev_append _ [] is the
   linear-time reversal. *)
From Coq Require Import List ZArith NArith String Bool.
Import ListNotations.
From Verif Require Import Common.V Common.Base Common.Media1Util.
Open Scope N_scope.

Record rstate := {
  chunks : list (list N);   (* what stream.Read will deliver *)
  rbuf : list N;            (* readBuffer *)
  nalrev : list N;          (* nalBuffer, reversed *)
  zeros : N;                (* countOfConsecutiveZeroBytes *)
  parsed : bool             (* nalPrefixParsed *)
}.

Definition init (cs : list (list N)) : rstate :=
  {| chunks := cs; rbuf := []; nalrev := []; zeros := 0; parsed := false |}.

(* len(l) >= k, looking at no more than k elements *)
Fixpoint at_least {A} (k : N) (l : list A) : bool :=
  if k =? 0 then true
  else match l with [] => false | _ :: t => at_least (N.pred k) t end.

(* the refill loop of read:  for len(readBuffer) < numToRead { Read ... }
   result: (false = Read returned io.EOF, readBuffer, remaining chunks) *)
Fixpoint refill (k : N) (rb : list N) (cs : list (list N)) : bool * list N * list (list N) :=
  if at_least k rb then (true, rb, cs)
  else match cs with
       | [] => (false, rb, [])                       (* err != nil: return nil, err *)
       | c :: cs' =>
           match c with
           | [] => (true, rb, cs')                   (* n == 0: break *)
           | _ => refill k (rb ++ c) cs'
           end
       end.

(* read(numToRead): None = error (io.EOF) *)
Definition read (k : N) (s : rstate) : option (list N) * rstate :=
  match refill k (rbuf s) (chunks s) with
  | (false, rb, cs) =>
      (None, {| chunks := cs; rbuf := rb; nalrev := nalrev s; zeros := zeros s; parsed := parsed s |})
  | (true, rb, cs) =>
      (* numShouldRead := min(numToRead, len(readBuffer)) *)
      (Some (takeN k rb),
       {| chunks := cs; rbuf := dropN k rb; nalrev := nalrev s; zeros := zeros s; parsed := parsed s |})
  end.

Definition set_nal (s : rstate) (nb : list N) (z : N) : rstate :=
  {| chunks := chunks s; rbuf := rbuf s; nalrev := nb; zeros := z; parsed := parsed s |}.
Definition set_parsed (s : rstate) : rstate :=
  {| chunks := chunks s; rbuf := rbuf s; nalrev := nalrev s; zeros := zeros s; parsed := true |}.

(* bytes.Equal *)
Fixpoint bytes_eqb (a b : list N) : bool :=
  match a, b with
  | [], [] => true
  | x :: a', y :: b' => (x =? y) && bytes_eqb a' b'
  | _, _ => false
  end.

(* bitStreamStartsWithH26xPrefix *)
Definition starts_with_prefix (s : rstate) : result unit * rstate :=
  match read 4 s with
  | (None, s1) => (Err "eof", s1)
  | (Some pb, s1) =>
      let n := lenN pb in
      if n =? 0 then (Err "eof", s1)
      else if n <? 3 then (Err "notstream", s1)
      else
        let p3 := bytes_eqb [0; 0; 1] (takeN 3 pb) in
        if n =? 3 then (if p3 then (Err "eof", s1) else (Err "notstream", s1))
        else if p3 then
          match dropN 3 pb with
          | b :: _ => (Ok tt, set_nal s1 (b :: nalrev s1) (zeros s1))   (* append(nalBuffer, prefixBuffer[3]) *)
          | [] => (Panic, s1)
          end
        else if bytes_eqb [0; 0; 0; 1] pb then (Ok tt, s1)
        else (Err "notstream", s1)
  end.

(* processByte on (nalBuffer reversed, zero counter): (nalFound, buffer, counter) *)
Definition process_byte (b : N) (nb : list N) (z : N) : bool * list N * N :=
  if b =? 0 then (false, nb, z + 1)
  else if b =? 1 then
    if 2 <=? z then
      let p := if 2 <? z then 3 else 2 in
      (* nalUnitLength := len(nalBuffer) - p; if > 0: nalBuffer = nalBuffer[0:nalUnitLength] *)
      if p <? lenN nb then (true, dropN p nb, 0) else (false, nb, 0)
    else (false, nb, 0)
  else (false, nb, 0).

(* the test made on a found unit before it is returned: both readers index
   nalBuffer[0] first (Panic when empty), then apply the skip rule sk to it *)
Definition skip_unit (sk : N -> bool) (nb : list N) : result bool :=
  match rev_append nb [] with
  | [] => Panic
  | b :: _ => Ok (sk b)
  end.

Inductive loop_end := Broke (s : rstate) | LoopPanic | OutOfFuel.

(* the for loop of NextNAL *)
Fixpoint nal_loop (fuel : nat) (sk : N -> bool) (s : rstate) : loop_end :=
  match fuel with
  | O => OutOfFuel
  | S f =>
      match read 1 s with
      | (None, s1) => Broke s1                                  (* err != nil: break *)
      | (Some [b], s1) =>
          match process_byte b (nalrev s1) (zeros s1) with
          | (true, nb, z) =>
              match skip_unit sk nb with
              | Ok true => nal_loop f sk (set_nal s1 [] z)      (* nalBuffer = nil; continue *)
              | Ok false => Broke (set_nal s1 nb z)
              | _ => LoopPanic
              end
          | (false, nb, z) => nal_loop f sk (set_nal s1 (b :: nb) z)
          end
      | (Some _, s1) => Broke s1                                (* n != 1: break *)
      end
  end.

(* bytes not yet consumed; the loop reads one per iteration *)
Definition remaining (s : rstate) : nat := List.length (rbuf s) + List.length (List.concat (chunks s)).

(* NextNAL: the unit's bytes (header parsing is separate), or an error class *)
Definition next_nal (sk : N -> bool) (s : rstate) : result (list N) * rstate :=
  let pre :=
    if parsed s then (Ok tt, s)
    else match starts_with_prefix s with
         | (Ok _, s1) => (Ok tt, set_parsed s1)
         | (r, s1) => (r, s1)
         end in
  match pre with
  | (Ok _, s1) =>
      match nal_loop (S (S (remaining s1))) sk s1 with
      | Broke s2 =>
          match rev_append (nalrev s2) [] with
          | [] => (Err "eof", s2)                               (* len(nalBuffer) == 0 *)
          | b :: t =>
              let s3 := set_nal s2 [] (zeros s2) in
              if sk b then (Err "eof", s3)   (* fix: a skipped unit left at end of stream *)
              else (Ok (b :: t), s3)
          end
      | LoopPanic => (Panic, s1)
      | OutOfFuel => (Err "out-of-fuel", s1)
      end
  | (Err e, s1) => (Err e, s1)
  | (Panic, s1) => (Panic, s1)
  end.

(* successive NextNAL calls until the first error *)
Fixpoint read_nals (fuel : nat) (sk : N -> bool) (s : rstate) : list (list N) * string :=
  match fuel with
  | O => ([], "out-of-fuel"%string)
  | S f =>
      match next_nal sk s with
      | (Ok n, s1) => let r := read_nals f sk s1 in (n :: fst r, snd r)
      | (Err e, _) => ([], e)
      | (Panic, _) => ([], "panic"%string)
      end
  end.

(* every returned unit has at least one byte *)
Definition read_all (sk : N -> bool) (cs : list (list N)) : list (list N) * string :=
  read_nals (S (S (List.length (List.concat cs)))) sk (init cs).

(* ---------- skip rules ---------- *)

(* h264: !includeSEI && UnitType == 6 *)
Definition sk264 (include_sei : bool) (b : N) : bool :=
  negb include_sei && (N.land b 31 =? 6).
(* h265: !includeSEI && (type == PREFIX_SEI(39) || type == SUFFIX_SEI(40)) *)
Definition sk265 (include_sei : bool) (b : N) : bool :=
  let t := N.shiftr (N.land b 126) 1 in
  negb include_sei && ((t =? 39) || (t =? 40)).

(* ---------- parseHeader ---------- *)

Record hdr264 := { forbidden264 : bool; ref_idc : N; unit_type264 : N }.
(* h.Data[0] is indexed: Panic on an empty unit *)
Definition parse_header264 (data : list N) : result hdr264 :=
  match data with
  | [] => Panic
  | b :: _ =>
      Ok {| forbidden264 := N.shiftr (N.land b 128) 7 =? 1;
            ref_idc := N.shiftr (N.land b 96) 5;
            unit_type264 := N.shiftr (N.land b 31) 0 |}
  end.

Record hdr265 := { forbidden265 : bool; unit_type265 : N; layer_id : N; tid_plus1 : N }.
(* fewer than two bytes: the defaults of newNal stay *)
Definition parse_header265 (data : list N) : hdr265 :=
  match data with
  | b0 :: b1 :: _ =>
      {| forbidden265 := negb (N.land b0 128 =? 0);
         unit_type265 := N.shiftr (N.land b0 126) 1;
         layer_id := N.lor (u8 (N.shiftl (N.land b0 1) 5)) (N.shiftr (N.land b1 248) 3);
         tid_plus1 := N.land b1 7 |}
  | _ => {| forbidden265 := false; unit_type265 := 0; layer_id := 0; tid_plus1 := 0 |}
  end.

(* ---------- the property's side conditions ---------- *)

(* 0 0 0 or 0 0 1 somewhere in the list *)
Fixpoint has_sc (l : list N) : bool :=
  match l with
  | [] => false
  | a :: t =>
      match t with
      | b :: c :: _ => (a =? 0) && (b =? 0) && ((c =? 0) || (c =? 1))
      | _ => false
      end || has_sc t
  end.

Definition last_nonzero (l : list N) : bool :=
  match rev_append l [] with [] => false | x :: _ => negb (x =? 0) end.

(* a unit the property quantifies over: not empty, no trailing zero byte, no
   emulated start code *)
Definition nal_ok (n : list N) : bool := last_nonzero n && negb (has_sc n).

(* The writers (C35) put a 4-byte start code before every unit.  Behind such a
   code the reader cuts exactly three zero bytes, so a unit may end in any
   number of zero bytes and may contain 0 0 0; what it must not contain is
   0 0 1 (the reader would split it there).  nal_ok4 is the domain of the
   round trip over 4-byte framing; it contains nal_ok. *)
Fixpoint has_001 (l : list N) : bool :=
  match l with
  | [] => false
  | a :: t =>
      match t with
      | b :: c :: _ => (a =? 0) && (b =? 0) && (c =? 1)
      | _ => false
      end || has_001 t
  end.

Definition nal_ok4 (n : list N) : bool :=
  match n with [] => false | _ => negb (has_001 n) end.

(* framing: per unit a 4-byte (true) or 3-byte (false) start code *)
Definition start_code (four : bool) : list N := if four then [0; 0; 0; 1] else [0; 0; 1].
Definition frame (l : list (bool * list N)) : list N :=
  flat_map (fun wn => start_code (fst wn) ++ snd wn) l.

(* ---------- the same reader over the plain byte string ----------
   (spec side of c34_chunking: what the chunked reader computes depends on the
   concatenation of the chunks only) *)

(* the for loop of NextNAL over the unread bytes: None = panic, otherwise
   (nalBuffer reversed, zero counter, bytes left) at the break *)
Fixpoint floop (sk : N -> bool) (bytes : list N) (nb : list N) (z : N)
  : option (list N * N * list N) :=
  match bytes with
  | [] => Some (nb, z, [])
  | b :: t =>
      match process_byte b nb z with
      | (true, nb', z') =>
          match skip_unit sk nb' with
          | Ok true => floop sk t [] z'
          | Ok false => Some (nb', z', t)
          | _ => None
          end
      | (false, nb', z') => floop sk t (b :: nb') z'
      end
  end.

(* unread bytes, nalBuffer reversed, zero counter, nalPrefixParsed *)
Definition fstate : Type := list N * list N * N * bool.

(* bitStreamStartsWithH26xPrefix when every Read delivers at least one byte:
   fewer than four bytes left is io.EOF *)
Definition fprefix (bytes nb : list N) : result (list N) * list N :=
  if lenN bytes <? 4 then (Err "eof", bytes)
  else
    let pb := takeN 4 bytes in
    let rest := dropN 4 bytes in
    if bytes_eqb [0; 0; 1] (takeN 3 pb) then
      match dropN 3 pb with
      | b :: _ => (Ok (b :: nb), rest)
      | [] => (Panic, rest)
      end
    else if bytes_eqb [0; 0; 0; 1] pb then (Ok nb, rest)
    else (Err "notstream", rest).

(* the loop and the final test of NextNAL, once the prefix is dealt with *)
Definition fafter (sk : N -> bool) (bytes1 nb1 : list N) (z : N) : result (list N) * fstate :=
  match floop sk bytes1 nb1 z with
  | Some (nb2, z2, rest) =>
      match rev_append nb2 [] with
      | [] => (Err "eof", (rest, nb2, z2, true))
      | b :: t => if sk b then (Err "eof", (rest, [], z2, true))
                  else (Ok (b :: t), (rest, [], z2, true))
      end
  | None => (Panic, (bytes1, nb1, z, true))
  end.

Definition fnext (sk : N -> bool) (f : fstate) : result (list N) * fstate :=
  match f with
  | (bytes, nb, z, p) =>
      match (if p then (Ok nb, bytes) else fprefix bytes nb) with
      | (Ok nb1, bytes1) => fafter sk bytes1 nb1 z
      | (Err e, bytes1) => (Err e, (bytes1, nb, z, p))
      | (Panic, bytes1) => (Panic, (bytes1, nb, z, p))
      end
  end.

Fixpoint fread_nals (fuel : nat) (sk : N -> bool) (f : fstate) : list (list N) * string :=
  match fuel with
  | O => ([], "out-of-fuel"%string)
  | S k =>
      match fnext sk f with
      | (Ok n, f1) => let r := fread_nals k sk f1 in (n :: fst r, snd r)
      | (Err e, _) => ([], e)
      | (Panic, _) => ([], "panic"%string)
      end
  end.

Definition flat_read_all (sk : N -> bool) (bytes : list N) : list (list N) * string :=
  fread_nals (S (S (List.length bytes))) sk (bytes, [], 0, false).

(* is a unit dropped by the skip rule (decided on its first byte) *)
Definition unit_skipped (sk : N -> bool) (n : list N) : bool :=
  match n with b :: _ => sk b | [] => false end.
