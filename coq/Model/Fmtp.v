(* internal/fmtp (fmtp.go, h264.go, vp9.go, av1.go) transcribed over ASCII
   strings. Coq strings are byte strings; Go's strings.ToLower / EqualFold /
   TrimSpace are modelled for bytes < 128 only (non-ASCII input is outside the
   model and is evaluated by the harness's direct oracle alone).
   No proofs here. *)
From Coq Require Import List NArith String Ascii Bool.
Import ListNotations.
Open Scope string_scope.

(* ---------- strings ---------- *)

Definition is_ascii_char (c : ascii) : bool := N.ltb (N_of_ascii c) 128.
Fixpoint ascii_only (s : string) : bool :=
  match s with
  | EmptyString => true
  | String c t => is_ascii_char c && ascii_only t
  end.

(* strings.ToLower on ASCII *)
Definition lower_ascii (c : ascii) : ascii :=
  let n := N_of_ascii c in
  if N.leb 65 n && N.leb n 90 then ascii_of_N (n + 32) else c.
Fixpoint lower (s : string) : string :=
  match s with
  | EmptyString => EmptyString
  | String c t => String (lower_ascii c) (lower t)
  end.

(* strings.EqualFold on ASCII *)
Definition eq_fold (a b : string) : bool := String.eqb (lower a) (lower b).

(* unicode.IsSpace on ASCII: '\t' '\n' '\v' '\f' '\r' ' ' *)
Definition is_space (c : ascii) : bool :=
  let n := N_of_ascii c in
  (N.leb 9 n && N.leb n 13) || N.eqb n 32.

Fixpoint trim_left (s : string) : string :=
  match s with
  | EmptyString => EmptyString
  | String c t => if is_space c then trim_left t else s
  end.
Fixpoint trim_right (s : string) : string :=
  match s with
  | EmptyString => EmptyString
  | String c t =>
      let t' := trim_right t in
      if is_space c && String.eqb t' "" then "" else String c t'
  end.
(* strings.TrimSpace *)
Definition trim_space (s : string) : string := trim_right (trim_left s).

(* strings.Split(s, sep) for a one-byte separator: never returns [] *)
Fixpoint split_on (sep : ascii) (s : string) : list string :=
  match s with
  | EmptyString => [EmptyString]
  | String c t =>
      let r := split_on sep t in
      if Ascii.eqb c sep then EmptyString :: r
      else match r with
           | h :: tl => String c h :: tl
           | [] => [String c EmptyString]
           end
  end.

(* strings.SplitN(s, sep, 2): text before the first sep, and the rest if any *)
Fixpoint cut_at (sep : ascii) (s : string) : string * option string :=
  match s with
  | EmptyString => (EmptyString, None)
  | String c t =>
      if Ascii.eqb c sep then (EmptyString, Some t)
      else let '(k, v) := cut_at sep t in (String c k, v)
  end.

(* ---------- parseParameters: map[string]string, last occurrence wins ---------- *)

Definition params := list (string * string).

Fixpoint plookup (k : string) (l : params) : option string :=
  match l with
  | [] => None
  | (k', v) :: t => if String.eqb k k' then Some v else plookup k t
  end.

(* m[k] = v : overwrite in place, else add *)
Fixpoint pset (k v : string) (l : params) : params :=
  match l with
  | [] => [(k, v)]
  | (k', v') :: t => if String.eqb k k' then (k, v) :: t else (k', v') :: pset k v t
  end.

Definition parse_one (acc : params) (p : string) : params :=
  let '(k, v) := cut_at "=" (trim_space p) in
  pset (lower k) (match v with Some x => x | None => "" end) acc.

Definition parse_parameters (line : string) : params :=
  fold_left parse_one (split_on ";" line) [].

(* ---------- defaults ---------- *)

Definition default_clock_rate (mime : string) : N :=
  let m := lower mime in
  if String.eqb m "audio/opus" then 48000
  else if String.eqb m "audio/pcmu" then 8000
  else if String.eqb m "audio/pcma" then 8000
  else 90000.

Definition default_channels (mime : string) : N :=
  if String.eqb (lower mime) "audio/opus" then 2 else 0.

(* ClockRateEqual *)
Definition clock_rate_equal (mime : string) (a b : N) : bool :=
  let a := if N.eqb a 0 then default_clock_rate mime else a in
  let b := if N.eqb b 0 then default_clock_rate mime else b in
  N.eqb a b.

(* ChannelsEqual *)
Definition channels_equal (mime : string) (a b : N) : bool :=
  let a := if N.eqb a 0 then default_channels mime else a in
  let b := if N.eqb b 0 then default_channels mime else b in
  let a := if N.eqb a 0 then 1%N else a in
  let b := if N.eqb b 0 then 1%N else b in
  N.eqb a b.

(* paramsEqual: two loops over the maps, only keys present on both sides count *)
Definition params_half (a b : params) : bool :=
  forallb (fun kv => match plookup (fst kv) b with
                     | Some vb => eq_fold vb (snd kv)
                     | None => true
                     end) a.
Definition params_equal (a b : params) : bool := params_half a b && params_half b a.

(* ---------- encoding/hex.DecodeString ---------- *)

Definition hexval_go (c : ascii) : option N :=
  let n := N_of_ascii c in
  if N.leb 48 n && N.leb n 57 then Some (n - 48)%N
  else if N.leb 97 n && N.leb n 102 then Some (n - 87)%N
  else if N.leb 65 n && N.leb n 70 then Some (n - 55)%N
  else None.

(* None = any error (invalid byte or odd length) *)
Fixpoint hex_decode_go (s : string) : option (list N) :=
  match s with
  | EmptyString => Some []
  | String a (String b rest) =>
      match hexval_go a, hexval_go b, hex_decode_go rest with
      | Some x, Some y, Some r => Some ((16 * x + y)%N :: r)
      | _, _, _ => None
      end
  | String _ EmptyString => None
  end.

(* h264.go profileLevelIDMatches *)
Definition profile_level_id_matches (a b : string) : bool :=
  match hex_decode_go a with
  | Some (a0 :: a1 :: _) =>
      match hex_decode_go b with
      | Some (b0 :: b1 :: _) => N.eqb a0 b0 && N.eqb a1 b1
      | _ => false
      end
  | _ => false
  end.

(* ---------- Parse / Match ---------- *)

Inductive fkind := FGeneric | FH264 | FVP9 | FAV1.

Record fmtp := mkFmtp {
  f_kind : fkind;
  f_mime : string;       (* generic only; MimeType() of the others is constant *)
  f_clock : N;           (* generic only *)
  f_channels : N;        (* generic only *)
  f_params : params
}.

Definition kind_of_mime (mime : string) : fkind :=
  if eq_fold mime "video/h264" then FH264
  else if eq_fold mime "video/vp9" then FVP9
  else if eq_fold mime "video/av1" then FAV1
  else FGeneric.

Definition fmtp_parse (mime : string) (clock channels : N) (line : string) : fmtp :=
  let p := parse_parameters line in
  match kind_of_mime mime with
  | FGeneric => mkFmtp FGeneric mime clock channels p
  | k => mkFmtp k "" 0 0 p
  end.

Definition fmtp_mime_type (f : fmtp) : string :=
  match f_kind f with
  | FGeneric => f_mime f
  | FH264 => "video/h264"
  | FVP9 => "video/vp9"
  | FAV1 => "video/av1"
  end.

Definition fmtp_parameter (f : fmtp) (k : string) : option string := plookup k (f_params f).

Definition generic_match (g b : fmtp) : bool :=
  eq_fold (f_mime g) (f_mime b)
  && clock_rate_equal (f_mime g) (f_clock g) (f_clock b)
  && channels_equal (f_mime g) (f_channels g) (f_channels b)
  && params_equal (f_params g) (f_params b).

Definition h264_match (h c : params) : bool :=
  match plookup "packetization-mode" h with
  | None => false
  | Some hpmode =>
      match plookup "packetization-mode" c with
      | None => false
      | Some cpmode =>
          if negb (String.eqb hpmode cpmode) then false
          else match plookup "profile-level-id" h with
               | None => false
               | Some hplid =>
                   match plookup "profile-level-id" c with
                   | None => false
                   | Some cplid => profile_level_id_matches hplid cplid
                   end
               end
      end
  end.

Definition with_default (o : option string) (d : string) : string :=
  match o with Some v => v | None => d end.

Definition vp9_match (h c : params) : bool :=
  String.eqb (with_default (plookup "profile-id" h) "0") (with_default (plookup "profile-id" c) "0").

Definition av1_match (h c : params) : bool :=
  String.eqb (with_default (plookup "profile" h) "0") (with_default (plookup "profile" c) "0").

(* a.Match(b): the type assertion fails across kinds *)
Definition fmtp_match (a b : fmtp) : bool :=
  match f_kind a, f_kind b with
  | FGeneric, FGeneric => generic_match a b
  | FH264, FH264 => h264_match (f_params a) (f_params b)
  | FVP9, FVP9 => vp9_match (f_params a) (f_params b)
  | FAV1, FAV1 => av1_match (f_params a) (f_params b)
  | _, _ => false
  end.

(* ---------- codec descriptions as C17 speaks of them ---------- *)

Record cdesc := mkDesc { d_mime : string; d_clock : N; d_channels : N; d_line : string }.

Definition parse_desc (d : cdesc) : fmtp :=
  fmtp_parse (d_mime d) (d_clock d) (d_channels d) (d_line d).

Definition matches (a b : cdesc) : bool := fmtp_match (parse_desc a) (parse_desc b).

(* differs from m only in the case of ASCII letters *)
Definition case_variant (m m' : string) : Prop := lower m' = lower m.

Definition with_mime (d : cdesc) (m : string) : cdesc :=
  mkDesc m (d_clock d) (d_channels d) (d_line d).

(* mediaengine.go RegisterDefaultCodecs, in registration order
   (payload types and feedback do not take part in matching) *)
Definition h264_line (pm plid : string) : string :=
  "level-asymmetry-allowed=1;packetization-mode=" ++ pm ++ ";profile-level-id=" ++ plid.

Definition default_audio : list (cdesc * N) :=
  [ (mkDesc "audio/opus" 48000 2 "minptime=10;useinbandfec=1", 111%N);
    (mkDesc "audio/G722" 8000 0 "", 9%N);
    (mkDesc "audio/PCMU" 8000 0 "", 0%N);
    (mkDesc "audio/PCMA" 8000 0 "", 8%N) ].

Definition default_video : list (cdesc * N) :=
  [ (mkDesc "video/VP8" 90000 0 "", 96%N);
    (mkDesc "video/rtx" 90000 0 "apt=96", 97%N);
    (mkDesc "video/H264" 90000 0 (h264_line "1" "42001f"), 102%N);
    (mkDesc "video/rtx" 90000 0 "apt=102", 103%N);
    (mkDesc "video/H264" 90000 0 (h264_line "0" "42001f"), 104%N);
    (mkDesc "video/rtx" 90000 0 "apt=104", 105%N);
    (mkDesc "video/H264" 90000 0 (h264_line "1" "42e01f"), 106%N);
    (mkDesc "video/rtx" 90000 0 "apt=106", 107%N);
    (mkDesc "video/H264" 90000 0 (h264_line "0" "42e01f"), 108%N);
    (mkDesc "video/rtx" 90000 0 "apt=108", 109%N);
    (mkDesc "video/H264" 90000 0 (h264_line "1" "4d001f"), 127%N);
    (mkDesc "video/rtx" 90000 0 "apt=127", 125%N);
    (mkDesc "video/H264" 90000 0 (h264_line "0" "4d001f"), 39%N);
    (mkDesc "video/rtx" 90000 0 "apt=39", 40%N);
    (mkDesc "video/H265" 90000 0 "", 116%N);
    (mkDesc "video/rtx" 90000 0 "apt=116", 117%N);
    (mkDesc "video/AV1" 90000 0 "", 45%N);
    (mkDesc "video/rtx" 90000 0 "apt=45", 46%N);
    (mkDesc "video/VP9" 90000 0 "profile-id=0", 98%N);
    (mkDesc "video/rtx" 90000 0 "apt=98", 99%N);
    (mkDesc "video/VP9" 90000 0 "profile-id=2", 100%N);
    (mkDesc "video/rtx" 90000 0 "apt=100", 101%N);
    (mkDesc "video/H264" 90000 0 (h264_line "1" "64001f"), 112%N);
    (mkDesc "video/rtx" 90000 0 "apt=112", 113%N) ].

Definition default_codecs : list cdesc := map fst (default_audio ++ default_video).
