(* C12 (and C23): sdp.go:trackDetailsFromSDP for one m-section, over the
   section's attribute list (key, value), transcribed statement by statement.
   The two maps rtxRepairFlows / fecRepairFlows (repair ssrc -> base ssrc) are
   association lists with Go's "assignment replaces" discipline; where the Go
   code ranges over a map and keeps the last hit, the model keeps the last hit
   in list order (the orders can only differ when two repair flows name the same
   base, which the renderer never produces). No proofs here. *)
From Coq Require Import List ZArith NArith String Ascii Bool.
Import ListNotations.
From Verif Require Import Common.Base Common.NegoText Model.OfferShape.
Open Scope string_scope.

Record tdetail := {
  td_mid : string; td_kind : kind; td_stream : string; td_id : string;
  td_ssrcs : list N; td_rtx : option N; td_fec : option N; td_rids : list string
}.

Record tdstate := {
  ts_tracks : list tdetail;            (* tracksInMediaSection *)
  ts_rtx : list (N * N);               (* rtxRepairFlows: repair -> base *)
  ts_fec : list (N * N);               (* fecRepairFlows *)
  ts_stream : string;
  ts_track : string
}.

Definition flow_set (r b : N) (l : list (N * N)) : list (N * N) :=
  (filter (fun x => negb (N.eqb (fst x) r)) l ++ [(r, b)])%list.
Definition flow_has (r : N) (l : list (N * N)) : bool := existsb (fun x => N.eqb (fst x) r) l.
(* for r, base := range flows { if base == ssrc { cur = r } } *)
Definition flow_repair_of (ssrc : N) (l : list (N * N)) (cur : option N) : option N :=
  fold_left (fun acc x => if N.eqb (snd x) ssrc then Some (fst x) else acc) l cur.

Definition td_with_rtx (t : tdetail) (r : option N) : tdetail :=
  {| td_mid := td_mid t; td_kind := td_kind t; td_stream := td_stream t; td_id := td_id t;
     td_ssrcs := td_ssrcs t; td_rtx := r; td_fec := td_fec t; td_rids := td_rids t |}.
Definition td_with_fec (t : tdetail) (r : option N) : tdetail :=
  {| td_mid := td_mid t; td_kind := td_kind t; td_stream := td_stream t; td_id := td_id t;
     td_ssrcs := td_ssrcs t; td_rtx := td_rtx t; td_fec := r; td_rids := td_rids t |}.

(* filterTrackWithSSRC *)
Definition filter_track_with_ssrc (l : list tdetail) (ssrc : N) : list tdetail :=
  filter (fun t => negb (existsb (N.eqb ssrc) (td_ssrcs t))) l.

(* for i := range tracks { if tracks[i].ssrcs[0] == base { set } } -- ssrcs[0]
   panics on an empty slice *)
Fixpoint mark_repair (set : tdetail -> tdetail) (base : N) (l : list tdetail) : result (list tdetail) :=
  match l with
  | [] => Ok []
  | t :: r =>
      match td_ssrcs t with
      | [] => Panic
      | s0 :: _ =>
          match mark_repair set base r with
          | Ok r' => Ok ((if N.eqb s0 base then set t else t) :: r')
          | e => e
          end
      end
  end.

(* index of the last track that lists this ssrc *)
Fixpoint last_with_ssrc (ssrc : N) (l : list tdetail) (i : nat) (cur : option nat) : option nat :=
  match l with
  | [] => cur
  | t :: r => last_with_ssrc ssrc r (S i) (if existsb (N.eqb ssrc) (td_ssrcs t) then Some i else cur)
  end.

Definition with_tracks (st : tdstate) (l : list tdetail) : tdstate :=
  {| ts_tracks := l; ts_rtx := ts_rtx st; ts_fec := ts_fec st; ts_stream := ts_stream st; ts_track := ts_track st |}.

(* case sdp.AttrKeySSRCGroup, for one semantics token: flows / set select the
   FID (rtx) or FEC-FR (fec) variant *)
Definition step_group_with (rtx : bool) (st : tdstate) (sp : list string) : result tdstate :=
  match sp with
  | [_; b; r] =>
      match parse_u32 b with
      | None => Ok st
      | Some base =>
          match parse_u32 r with
          | None => Ok st
          | Some rep =>
              let set := if rtx then (fun t => td_with_rtx t (Some rep)) else (fun t => td_with_fec t (Some rep)) in
              match mark_repair set base (filter_track_with_ssrc (ts_tracks st) rep) with
              | Ok l =>
                  Ok {| ts_tracks := l;
                        ts_rtx := if rtx then flow_set rep base (ts_rtx st) else ts_rtx st;
                        ts_fec := if rtx then ts_fec st else flow_set rep base (ts_fec st);
                        ts_stream := ts_stream st; ts_track := ts_track st |}
              | Err e => Err e
              | Panic => Panic
              end
          end
      end
  | _ => Ok st
  end.

Definition step_group (st : tdstate) (v : string) : result tdstate :=
  let sp := split_sp v in
  match sp with
  | h :: _ =>
      if String.eqb h "FID" then step_group_with true st sp
      else if String.eqb h "FEC-FR" then step_group_with false st sp
      else Ok st
  | [] => Panic
  end.

(* case sdp.AttrKeyMsid *)
Definition step_msid (st : tdstate) (v : string) : result tdstate :=
  match split_sp v with
  | [s; t] => Ok {| ts_tracks := ts_tracks st; ts_rtx := ts_rtx st; ts_fec := ts_fec st;
                    ts_stream := s; ts_track := t |}
  | _ => Ok st
  end.

(* case sdp.AttrKeySSRC *)
Definition step_ssrc (mid : string) (k : kind) (st : tdstate) (v : string) : result tdstate :=
  let sp := split_sp v in
  match sp with
  | [] => Panic
  | h :: _ =>
      match parse_u32 h with
      | None => Ok st
      | Some ssrc =>
          if flow_has ssrc (ts_rtx st) then Ok st
          else if flow_has ssrc (ts_fec st) then Ok st
          else
            let (stream, track) :=
              match sp with
              | [_; m; t] =>
                  match strip_prefix "msid:" m with
                  | Some s => (s, t)
                  | None => (ts_stream st, ts_track st)
                  end
              | _ => (ts_stream st, ts_track st)
              end in
            let existing := last_with_ssrc ssrc (ts_tracks st) 0 None in
            let base := match existing with
                        | Some i => nth_error (ts_tracks st) i
                        | None => None
                        end in
            let rtx0 := match base with Some t => td_rtx t | None => None end in
            let fec0 := match base with Some t => td_fec t | None => None end in
            let rids0 := match base with Some t => td_rids t | None => [] end in
            let t := {| td_mid := mid; td_kind := k; td_stream := stream; td_id := track;
                        td_ssrcs := [ssrc];
                        td_rtx := flow_repair_of ssrc (ts_rtx st) rtx0;
                        td_fec := flow_repair_of ssrc (ts_fec st) fec0;
                        td_rids := rids0 |} in
            let tracks := match existing with
                          | Some i => update_nth i (fun _ => t) (ts_tracks st)
                          | None => (ts_tracks st ++ [t])%list
                          end in
            Ok {| ts_tracks := tracks; ts_rtx := ts_rtx st; ts_fec := ts_fec st;
                  ts_stream := stream; ts_track := track |}
      end
  end.

(* the switch over attr.Key *)
Definition td_step (mid : string) (k : kind) (st : tdstate) (a : string * string) : result tdstate :=
  let (key, v) := a in
  if String.eqb key "ssrc-group" then step_group st v
  else if String.eqb key "msid" then step_msid st v
  else if String.eqb key "ssrc" then step_ssrc mid k st v
  else Ok st.

Fixpoint td_loop (mid : string) (k : kind) (st : tdstate) (attrs : list (string * string)) : result tdstate :=
  match attrs with
  | [] => Ok st
  | a :: r => match td_step mid k st a with
              | Ok st' => td_loop mid k st' r
              | e => e
              end
  end.

(* getRids: the id of every a=rid line *)
Definition rid_ids (attrs : list (string * string)) : list string :=
  flat_map (fun a => if String.eqb (fst a) "rid"
                     then match split_sp (snd a) with h :: _ => [h] | [] => [] end
                     else []) attrs.

Definition td_init : tdstate :=
  {| ts_tracks := []; ts_rtx := []; ts_fec := []; ts_stream := ""; ts_track := "" |}.

(* the body of the loop over s.MediaDescriptions for a section that passed the
   guards (not recvonly/inactive, mid present, audio or video) *)
Definition track_details_media (mid : string) (k : kind) (attrs : list (string * string))
  : result (list tdetail) :=
  match td_loop mid k td_init attrs with
  | Ok st =>
      let rids := rid_ids attrs in
      match rids with
      | [] => Ok (ts_tracks st)
      | _ =>
          if negb (String.eqb (ts_track st) "") && negb (String.eqb (ts_stream st) "")
          then Ok [{| td_mid := mid; td_kind := k; td_stream := ts_stream st; td_id := ts_track st;
                      td_ssrcs := []; td_rtx := None; td_fec := None; td_rids := rids |}]
          else Ok (ts_tracks st)
      end
  | Err e => Err e
  | Panic => Panic
  end.

(* with the guards *)
Definition track_details_sec (s : sec) : result (list tdetail) :=
  match sc_dir s with
  | Some Recvonly | Some Inactive => Ok []
  | _ =>
      if String.eqb (mid_value s) "" then Ok []
      else match kind_of_media (sc_media s) with
           | None => Ok []
           | Some k => track_details_media (mid_value s) k (sc_attrs s)
           end
  end.
