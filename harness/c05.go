//go:build verif_c05

package main

// C05: the operations queue (operations.go) under forced schedules.
//
// input: callback (depth of the op onNegotiationNeeded enqueues, -1 = none),
// client programs ([0,d] Enqueue(op of depth d), [1,0] Done, [2,0]
// GracefulClose, [3,0] set the negotiation-needed flag) and a schedule over
// thread numbers: clients 0..n-1, n+k = a start() goroutine. Every start()
// goroutine is a participant of its own, created when the goroutine reaches
// its first yield point (keyed by goroutine id), so any number of goroutines
// alive at once is seen as such. With Abs the numbers n+k name the k-th
// goroutine in order of creation (what the model replays); without, n+k is
// the k-th goroutine alive at that moment. The executed schedule (given
// schedule, then lowest-first until nothing can move) is always absolute.
//
// Queued functions park at a gate (ops.op.gate, a yield point of the harness)
// right after they are entered and the harness lets a worker that has popped
// one run into it at once: an op is "running" from then until its step is
// scheduled, so two goroutines draining the queue overlap observably.

import (
	"bytes"
	"encoding/json"
	"fmt"
	"runtime"
	"strconv"
	"strings"
	"sync"
	"time"

	"github.com/pion/webrtc/v4"
	"github.com/pion/webrtc/v4/internal/verifhook"
)

type c05In struct {
	Cb    int      `json:"cb"`
	Progs [][2]int `json:"progs"`
	Sched []int    `json:"sched"`
	Drain bool     `json:"drain"`         // continue lowest-first after Sched until quiescent
	Abs   bool     `json:"abs,omitempty"` // Sched names goroutines by creation number
}

type c05Op struct {
	id    int // -1 until accepted
	depth int
}

type c05Step struct {
	res      int   // 0 disabled, 1 ran, 2 blocked
	status   []int // clients
	wlive    []int // 8*k + status for every start() goroutine k that exists
	nworkers int   // start() goroutines seen so far
	qlen     int
	busy     bool
	closed   bool
	flag     bool
	ran      []int
}

type c05Trace struct {
	executed  []int
	cands     [][]int // candidates before each executed step
	steps     []c05Step
	accepted  []int // ids in acceptance order (all 0..k-1)
	waiterOf  map[int]int
	verdict   Verdict
	quiescent bool
	maxLive   int
}

func c05StatusCode(st string, worker bool) int {
	if worker {
		switch st {
		case "finished":
			return 0
		case "parked:ops.worker.start":
			return 1
		case "parked:ops.worker.popped", "parked:ops.op.gate":
			return 2
		case "parked:ops.worker.ran":
			return 3
		case "parked:ops.worker.popnil":
			return 4
		case "parked:ops.worker.flagged":
			return 5
		case "parked:ops.worker.deferred":
			return 6
		}
		return 7
	}
	switch st {
	case "idle":
		return 0
	case "parked:ops.done.enqueued":
		return 1
	case "parked:ops.close.unlocked":
		return 2
	case "running", "blocked":
		return 3
	case "finished":
		return 4
	}
	return 7
}

// c05StartGoroutines: ids of the goroutines that are inside operations.start
// (from the runtime's own listing; a goroutine just created by `go o.start()`
// is listed as soon as the go statement has executed).
func c05StartGoroutines() map[uint64]bool {
	buf := make([]byte, 1<<16)
	for {
		k := runtime.Stack(buf, true)
		if k < len(buf) {
			buf = buf[:k]
			break
		}
		buf = make([]byte, 2*len(buf))
	}
	out := map[uint64]bool{}
	for _, blk := range bytes.Split(buf, []byte("\n\n")) {
		if !bytes.HasPrefix(blk, []byte("goroutine ")) {
			continue
		}
		// inside start(), or created by a method of operations (the only go
		// statements there are `go o.start()`; a goroutine that has not run
		// yet shows the compiler's wrapper, not start, as its only frame)
		frames, creator := blk, []byte(nil)
		if i := bytes.Index(blk, []byte("\ncreated by ")); i >= 0 {
			frames, creator = blk[:i], blk[i:]
		}
		if !bytes.Contains(frames, []byte("webrtc/v4.(*operations).start")) &&
			!bytes.Contains(creator, []byte("webrtc/v4.(*operations).")) {
			continue
		}
		rest := blk[len("goroutine "):]
		sp := bytes.IndexByte(rest, ' ')
		if sp < 0 {
			continue
		}
		if id, err := strconv.ParseUint(string(rest[:sp]), 10, 64); err == nil {
			out[id] = true
		}
	}
	return out
}

// failure classes: 2 = the property's own words (stops the schedule),
// 1 = the mechanism the property rests on (one start() goroutine at a time),
// 0 = bookkeeping that disagrees with the goroutines that exist. The verdict
// is the first failure of the highest class seen in the schedule.
const (
	c05Soft = iota
	c05Mech
	c05Prop
)

// c05Execute runs one schedule on a fresh operations value.
func c05Execute(in c05In) *c05Trace {
	n := len(in.Progs)
	tr := &c05Trace{waiterOf: map[int]int{}}
	var ops *webrtc.VerifOperations
	stale := c05StartGoroutines() // left behind by an earlier (failed) run: not ours
	g0 := runtime.NumGoroutine()  // before any participant has a goroutine
	s := NewSched().Only("ops.")
	s.Grace = 0
	defer s.Close()

	prio := -1
	fail := func(class int, sig, what string) {
		if class > prio {
			prio = class
			tr.verdict = Fail(sig, what)
		}
	}

	// before the next run installs its handler, every goroutine of this run
	// must have ended (or be blocked for good): let them run free and wait
	defer func() {
		s.freeAll()
		wait := robustDeadline
		if prio >= 0 {
			wait = 2 * time.Second
		}
		deadline := time.Now().Add(wait)
		for {
			left := 0
			for g := range c05StartGoroutines() {
				if !stale[g] {
					left++
				}
			}
			if left == 0 || time.Now().After(deadline) {
				break
			}
			runtime.Gosched()
		}
		if prio < 0 {
			waitClientsGone(s, n)
		}
		// ... and their goroutines have really ended: the next run counts
		for time.Now().Before(deadline) && runtime.NumGoroutine() > g0 {
			runtime.Gosched()
		}
	}()

	var mu sync.Mutex // guards the logs below (only one thread runs at a time; the lock is for the race detector)
	var ranLog []int
	var entered []*c05Op // ops whose function has been entered, in order
	running, maxRunning := 0, 0
	var pending *c05Op // the op handed to Enqueue during the current step

	var enqueue func(depth int)
	enqueue = func(depth int) {
		op := &c05Op{id: -1, depth: depth}
		mu.Lock()
		pending = op
		mu.Unlock()
		ops.Enqueue(func() {
			mu.Lock()
			running++
			if running > maxRunning {
				maxRunning = running
			}
			entered = append(entered, op)
			mu.Unlock()
			// the op is running; the rest of it is one step of the schedule
			verifhook.Point("ops.op.gate")
			mu.Lock()
			ranLog = append(ranLog, op.id)
			mu.Unlock()
			if op.depth > 0 {
				enqueue(op.depth - 1)
			}
			mu.Lock()
			running--
			mu.Unlock()
		})
	}
	cb := func() {}
	if in.Cb >= 0 {
		cb = func() { enqueue(in.Cb) }
	}
	ops = webrtc.VerifNewOperations(cb)

	// a goroutine at an ops.worker.* point that no participant owns yet is a
	// new start() goroutine: it becomes the next participant
	verifhook.Install(func(name string) {
		if strings.HasPrefix(name, "ops.worker.") {
			g := goid()
			s.mu.Lock()
			if _, ok := s.byGoid[g]; !ok && !s.free {
				s.parts = append(s.parts, &participant{name: fmt.Sprintf("w%d", len(s.parts)-n), state: psRunning})
				s.byGoid[g] = len(s.parts) - 1
			}
			s.mu.Unlock()
		}
		s.point(name)
	})

	for i, p := range in.Progs {
		p := p
		var fn func()
		switch p[0] {
		case 0:
			fn = func() { enqueue(p[1]) }
		case 1:
			fn = func() { ops.Done() }
		case 2:
			fn = func() { ops.GracefulClose() }
		default:
			fn = func() { ops.Flag.Store(true) }
		}
		s.Add(fmt.Sprintf("c%d", i), fn)
	}

	nparts := func() int {
		s.mu.Lock()
		defer s.mu.Unlock()
		return len(s.parts)
	}

	// settle: every start() goroutine that exists is a participant that is
	// parked (or has announced its end), and every worker participant that was
	// released has parked or its goroutine is gone. Independent of busyCh.
	// Fast path: the number of goroutines of the process is what the
	// participants account for (a goroutine nobody owns yet, or one that has
	// not quite ended, makes it larger). Otherwise the runtime's listing of
	// goroutines decides.
	settle := func() {
		deadline := time.Now().Add(robustDeadline)
		for k := 1; ; k++ {
			s.mu.Lock()
			expected, moving := g0, false
			for t, p := range s.parts {
				if p.state == psRunning || p.state == psParked {
					expected++
				}
				if t >= n && p.state == psRunning {
					moving = true
				}
			}
			s.mu.Unlock()
			if !moving && runtime.NumGoroutine() == expected {
				return
			}
			if k%24 == 0 {
				alive := c05StartGoroutines()
				ok := true
				s.mu.Lock()
				for g := range alive {
					if stale[g] {
						continue
					}
					t, reg := s.byGoid[g]
					if !reg || s.parts[t].state == psRunning {
						ok = false
					}
				}
				for g, t := range s.byGoid {
					if t >= n && s.parts[t].state == psRunning {
						if alive[g] {
							ok = false
						} else {
							s.parts[t].state = psFinished // returned without a point (go o.start(); return)
						}
					}
				}
				s.mu.Unlock()
				if ok {
					return
				}
				if time.Now().After(deadline) {
					fail(c05Prop, "worker-goroutine-neither-parked-nor-gone", "a start() goroutine did not reach a yield point or its end")
					return
				}
			}
			runtime.Gosched()
		}
	}

	released := map[int]bool{} // clients released into a blocking wait
	nextID := 0
	closedSeen := false
	closerDone := -1           // ran length when the closer that set isClosed returned
	setter := -1               // client that parked at ops.close.unlocked
	doneStart := map[int]int{} // Done client -> number of ops accepted when its call started
	var qmirror []int          // ids in the queue, in order (the harness's own bookkeeping)
	holding := map[int]int{}   // worker participant at popped / at the gate -> id it holds

	statuses := func() []string {
		out := make([]string, nparts())
		for i := range out {
			out[i] = s.Status(i)
		}
		return out
	}
	candidates := func(sts []string) []int {
		var c []int
		for i, st := range sts {
			if st == "idle" || strings.HasPrefix(st, "parked:") {
				c = append(c, i)
			}
		}
		return c
	}

	// a worker that has just popped an instrumented op runs into its gate
	enterOps := func() {
		for w := n; w < nparts(); w++ {
			if s.Status(w) != "parked:ops.worker.popped" {
				continue
			}
			if _, seen := holding[w]; seen {
				continue
			}
			id := -1
			if len(qmirror) > 0 {
				id, qmirror = qmirror[0], qmirror[1:]
			}
			holding[w] = id
			if _, waiter := tr.waiterOf[id]; waiter {
				continue // the function Done queued: not instrumented, stays at popped
			}
			mu.Lock()
			before := len(entered)
			mu.Unlock()
			s.Step(w)
			settle()
			mu.Lock()
			var e *c05Op
			if len(entered) == before+1 {
				e = entered[before]
			}
			mu.Unlock()
			switch st := s.Status(w); {
			case st != "parked:ops.op.gate" || e == nil:
				fail(c05Prop, "popped-function-is-not-the-queue-head", fmt.Sprintf("worker %d popped with op %d at the head of the queue and went to %s", w-n, id, st))
			case e.id != id:
				fail(c05Prop, "op-started-out-of-queue-order", fmt.Sprintf("op %d entered, the head of the queue was %d", e.id, id))
			}
		}
	}

	doStep := func(t int) {
		q0, _, closed0 := ops.Snapshot()
		// a Done call starts with this step: everything accepted so far was
		// "queued before the wait" (however Done implements the wait)
		startMark := -1
		if t < n && in.Progs[t][0] == 1 && !closed0 && s.Status(t) == "idle" {
			startMark = nextID
		}
		mu.Lock()
		pending = nil
		mu.Unlock()
		var res int
		switch {
		case t >= nparts():
			res = 0 // no such goroutine (yet)
		case t >= n:
			delete(holding, t)
			if s.Step(t) == "disabled" {
				res = 0
			} else {
				res = 1
			}
		default:
			switch st := robustStep(s, t); st {
			case "disabled":
				res = 0
			case "blocked":
				res = 2
				released[t] = true
			default:
				res = 1
			}
		}
		settle()
		// released clients whose wait is over finish by themselves
		for c := range released {
			if !stillBlocked(s, c) {
				delete(released, c)
			}
		}
		q1, busy, closed := ops.Snapshot()
		if ops.IsEmpty() != (q1 == 0) {
			fail(c05Soft, "isempty-disagrees-with-queue", fmt.Sprintf("IsEmpty()=%v with %d queued", ops.IsEmpty(), q1))
		}
		mu.Lock()
		op := pending
		mu.Unlock()
		// acceptance: the queue grew during this step
		if q1 == q0+1 {
			id := nextID
			nextID++
			tr.accepted = append(tr.accepted, id)
			qmirror = append(qmirror, id)
			if op != nil {
				mu.Lock()
				op.id = id
				mu.Unlock()
			} else {
				tr.waiterOf[id] = t
			}
			if closedSeen {
				fail(c05Prop, "accepted-after-close", fmt.Sprintf("op %d accepted although isClosed was set", id))
			}
		}
		if closed {
			closedSeen = true
		}
		if startMark >= 0 {
			doneStart[t] = startMark
		}
		enterOps()
		mu.Lock()
		ranNow := append([]int(nil), ranLog...)
		mr := maxRunning
		mu.Unlock()
		sts := statuses()
		var wlive []int
		for w := n; w < len(sts); w++ {
			if sts[w] != "finished" {
				wlive = append(wlive, 8*(w-n)+c05StatusCode(sts[w], true))
			}
		}
		if len(wlive) > tr.maxLive {
			tr.maxLive = len(wlive)
		}
		if t < n && in.Progs[t][0] == 2 && sts[t] == "parked:ops.close.unlocked" {
			setter = t
		}
		if setter >= 0 && sts[setter] == "finished" && closerDone < 0 {
			closerDone = len(ranNow)
			if len(wlive) > 0 {
				fail(c05Mech, "close-returned-while-worker-alive", "GracefulClose returned and a start() goroutine still exists")
			}
		}
		if closerDone >= 0 && len(ranNow) > closerDone {
			fail(c05Prop, "op-ran-after-graceful-close-returned", fmt.Sprintf("ran %v, %d had run when GracefulClose returned", ranNow, closerDone))
		}
		if mr > 1 {
			fail(c05Prop, "two-ops-running-at-once", fmt.Sprintf("%d queued functions were entered and not finished at the same time (start() goroutines alive: %d)", mr, len(wlive)))
		}
		if len(wlive) > 1 {
			fail(c05Mech, "worker-started-while-one-alive", fmt.Sprintf("%d start() goroutines exist at once (8*number+state: %v)", len(wlive), wlive))
		}
		if busy != (len(wlive) > 0) {
			fail(c05Soft, "worker-state-inconsistent-with-busy-channel", fmt.Sprintf("busyCh non-nil = %v with %d start() goroutine(s) alive", busy, len(wlive)))
		}
		for c := 0; c < n; c++ {
			if sts[c] == "parked:ops.op.gate" {
				fail(c05Prop, "op-ran-on-the-enqueuing-goroutine", fmt.Sprintf("client %d is inside a queued function", c))
			}
		}
		// in order, once, without gaps (waiter ops are not instrumented)
		for k := 1; k < len(ranNow); k++ {
			if ranNow[k] <= ranNow[k-1] {
				fail(c05Prop, "op-ran-out-of-order-or-twice", fmt.Sprintf("ran %v", ranNow))
			}
		}
		if len(ranNow) > 0 {
			last := ranNow[len(ranNow)-1]
			inst := 0
			for id := 0; id <= last; id++ {
				if _, w := tr.waiterOf[id]; !w {
					inst++
				}
			}
			if inst != len(ranNow) {
				fail(c05Prop, "op-skipped", fmt.Sprintf("ran %v but ops up to %d were accepted earlier", ranNow, last))
			}
		}
		// Done returned: everything accepted before the call started has run
		// to its end (the mark is taken when the call starts, not from the
		// waiter op Done happens to push, so a Done that waits by other means
		// is checked too; an op still parked at its gate has not run)
		for c, mark := range doneStart {
			if sts[c] == "finished" {
				for id := 0; id < mark; id++ {
					if _, w := tr.waiterOf[id]; w {
						continue
					}
					found := false
					for _, r := range ranNow {
						found = found || r == id
					}
					if !found {
						fail(c05Prop, "done-returned-before-earlier-op-ran", fmt.Sprintf("Done of client %d (started with %d ops accepted) returned, op %d has not finished", c, mark, id))
					}
				}
				delete(doneStart, c)
			}
		}
		codes := make([]int, n)
		for i := 0; i < n; i++ {
			codes[i] = c05StatusCode(sts[i], false)
			if released[i] {
				codes[i] = 3
			}
		}
		tr.executed = append(tr.executed, t)
		tr.steps = append(tr.steps, c05Step{res: res, status: codes, wlive: wlive, nworkers: len(sts) - n,
			qlen: q1, busy: busy, closed: closed, flag: ops.Flag.Load(), ran: ranNow})
	}

	// thread number of a schedule entry
	resolve := func(t int) int {
		if in.Abs || t < n {
			return t
		}
		sts := statuses()
		k := t - n
		for w := n; w < len(sts); w++ {
			if sts[w] != "finished" {
				if k == 0 {
					return w
				}
				k--
			}
		}
		return len(sts) + k // a goroutine that does not exist
	}

	for _, t := range in.Sched {
		if t < 0 || t > n+64 || prio >= c05Prop {
			continue
		}
		t = resolve(t)
		tr.cands = append(tr.cands, candidates(statuses()))
		doStep(t)
	}
	if in.Drain {
		for guard := 0; guard < 10000 && prio < c05Prop; guard++ {
			c := candidates(statuses())
			if len(c) == 0 {
				break
			}
			tr.cands = append(tr.cands, c)
			doStep(c[0])
		}
	}
	final := statuses()
	tr.quiescent = len(candidates(final)) == 0
	if tr.quiescent && prio < c05Prop {
		// exactly once: every accepted op has run; every Done has returned
		q, busy, closed := ops.Snapshot()
		mu.Lock()
		ranNow := append([]int(nil), ranLog...)
		mu.Unlock()
		inst := 0
		for _, id := range tr.accepted {
			if _, w := tr.waiterOf[id]; !w {
				inst++
			}
		}
		blockedWaiter := false
		for i := 0; i < n; i++ {
			if in.Progs[i][0] == 1 && final[i] != "finished" {
				blockedWaiter = true
			}
		}
		if inst != len(ranNow) || blockedWaiter || q != 0 {
			if closed && !busy && q > 0 {
				fail(c05Prop, "accepted-op-left-queued-when-worker-exits-after-close",
					fmt.Sprintf("quiescent with %d op(s) still queued, accepted %v, ran %v, Done blocked=%v", q, tr.accepted, ranNow, blockedWaiter))
			} else {
				fail(c05Prop, "accepted-op-never-ran", fmt.Sprintf("quiescent: accepted %v ran %v queue %d busy %v closed %v", tr.accepted, ranNow, q, busy, closed))
			}
		}
		for i := 0; i < n; i++ {
			if in.Progs[i][0] == 2 && final[i] != "finished" {
				fail(c05Prop, "graceful-close-never-returns", "quiescent with GracefulClose still waiting")
			}
		}
	}
	if tr.verdict.Sig == "" {
		// non-trivial: some thread ran between two steps of another thread
		switches := 0
		for k := 1; k < len(tr.executed); k++ {
			if tr.executed[k] != tr.executed[k-1] {
				switches++
			}
		}
		class := "incomplete"
		if tr.quiescent {
			class = "quiescent"
		}
		tr.verdict = Pass(fmt.Sprintf("%s/threads%d/maxlive%d", class, n, tr.maxLive), switches >= 2)
	}
	return tr
}

func (tr *c05Trace) obs() V {
	steps := make(VL, len(tr.steps))
	var ran []int
	for i, st := range tr.steps {
		pack := 0
		for k := len(st.status) - 1; k >= 0; k-- {
			pack = pack*8 + st.status[k]
		}
		b := func(x bool) int {
			if x {
				return 1
			}
			return 0
		}
		qword := st.qlen*8 + b(st.busy)*4 + b(st.closed)*2 + b(st.flag)
		steps[i] = VL{VZ(st.res + 4*(len(st.ran)+64*(qword+512*pack))),
			VZ(len(st.wlive) + 16*st.nworkers), VInts(st.wlive)}
		// the harness's log only ever grows by appending: the final list and
		// the lengths give every intermediate list
		ran = st.ran
	}
	return VL{steps, VInts(ran), VInts(tr.accepted), VB(false)}
}

var c05Cache sync.Map // JSON of the input -> executed schedule (for Coq printing)
var c05Done sync.Map  // JSON of an enumerated input -> *c05Trace (the enumeration already ran it)

func c05Run(in c05In) (V, Verdict) {
	var tr *c05Trace
	if t, ok := c05Done.LoadAndDelete(c05Key(in)); ok {
		tr = t.(*c05Trace)
	} else {
		tr = c05Execute(in)
	}
	v := tr.verdict
	full := c05In{Cb: in.Cb, Progs: in.Progs, Sched: tr.executed, Abs: true}
	raw, _ := json.Marshal(full)
	v.Key = string(raw)
	c05Cache.Store(c05Key(in), tr.executed)
	return tr.obs(), v
}

func c05Key(in c05In) string {
	raw, _ := json.Marshal(in)
	return string(raw)
}

func c05Coq(in c05In) string {
	// the model replays the executed schedule (absolute goroutine numbers)
	ex, ok := c05Cache.Load(c05Key(in))
	if !ok {
		return ""
	}
	sched := ex.([]int)
	progs := make([]string, len(in.Progs))
	for i, p := range in.Progs {
		progs[i] = fmt.Sprintf("(%d, %d)", p[0], p[1])
	}
	ss := make([]string, len(sched))
	for i, t := range sched {
		ss[i] = fmt.Sprintf("%d", t)
	}
	return fmt.Sprintf("(%s, %s, %s)", CoqZ(int64(in.Cb)), CoqList(progs), CoqList(ss))
}

// c05Enumerate: every maximal schedule of a configuration (stateless DFS on
// the implementation: a thread is a candidate when it is idle or parked).
func c05Enumerate(cb int, progs [][2]int, limit int) []c05In {
	var out []c05In
	var rec func(prefix []int)
	rec = func(prefix []int) {
		if limit > 0 && len(out) >= limit || c05EnumFailed >= 60 {
			return // (a broken queue: the first failing schedules are enough)
		}
		tr := c05Execute(c05In{Cb: cb, Progs: progs, Sched: prefix, Drain: true, Abs: true})
		ex := append([]int(nil), tr.executed...)
		leaf := c05In{Cb: cb, Progs: progs, Sched: ex, Abs: true}
		if !tr.verdict.OK {
			c05EnumFailed++
		}
		out = append(out, leaf)
		c05Done.Store(c05Key(leaf), tr)
		for d := len(ex) - 1; d >= len(prefix); d-- {
			for _, c := range tr.cands[d] {
				if c > ex[d] {
					rec(append(append([]int(nil), ex[:d]...), c))
				}
			}
		}
	}
	rec(nil)
	return out
}

var c05EnumFailed int

type c05Config struct {
	cb    int
	progs [][2]int
}

func c05Shrink(in c05In) []c05In {
	var out []c05In
	for i := range in.Sched {
		c := in
		c.Sched = append(append([]int{}, in.Sched[:i]...), in.Sched[i+1:]...)
		c.Drain = true
		out = append(out, c)
	}
	return out
}

func init() {
	witness := c05In{Cb: -1, Progs: [][2]int{{0, 0}, {1, 0}, {2, 0}}, Sched: []int{0, 3, 3, 3, 3, 1, 2, 3, 2, 1}}
	corpus := func() []c05In {
		return []c05In{
			witness,
			// the same window with a plain Enqueue in place of Done
			{Cb: -1, Progs: [][2]int{{0, 0}, {0, 0}, {2, 0}}, Sched: []int{0, 3, 3, 3, 3, 1, 2, 3, 2}, Drain: true},
			// the window opened by the negotiation-needed callback
			{Cb: 0, Progs: [][2]int{{0, 0}, {3, 0}, {2, 0}}, Sched: []int{1, 0, 3, 3, 3, 3, 3, 2, 3, 2}, Drain: true},
			// witness continued to the end
			{Cb: -1, Progs: [][2]int{{0, 0}, {1, 0}, {2, 0}}, Sched: []int{0, 3, 3, 3, 3, 1, 2, 3, 2, 1}, Drain: true},
			// an Enqueue between the worker's last (empty) pop and its deferred
			// exit, then the callback's Enqueue, then the goroutines that exist
			// (3 = the first alive, 4 = the second alive, if any) one step each:
			// with a queue that is marked idle too early two functions are inside
			// their gates at once
			{Cb: 0, Progs: [][2]int{{0, 0}, {3, 0}, {0, 0}}, Sched: []int{1, 0, 3, 3, 3, 2, 3, 3, 3, 3, 4, 4, 3}, Drain: true},
			// the same window, a Done behind the second op: a second goroutine
			// would run Done's function while the op before it is still running
			{Cb: -1, Progs: [][2]int{{0, 0}, {0, 0}, {1, 0}}, Sched: []int{0, 3, 3, 3, 1, 4, 2, 3, 3, 4, 4, 2}, Drain: true},
		}
	}
	Register(Spec[c05In]{
		ID: "C05", Suite: "enum", CoqImports: []string{"Check.C05"},
		CoqType: "Z * list (Z * Z) * list Z", CoqRun: "Check.C05.run",
		Corpus: corpus,
		Exhaustive: func() []c05In {
			cfgs := []c05Config{
				{-1, [][2]int{{0, 0}, {2, 0}}},
				{-1, [][2]int{{0, 1}, {2, 0}}},
				{-1, [][2]int{{1, 0}, {2, 0}}},
				{0, [][2]int{{0, 0}, {3, 0}}},
				{0, [][2]int{{0, 0}, {3, 0}, {2, 0}}},
				{-1, [][2]int{{0, 0}, {1, 0}, {2, 0}}}, // the configuration of the repaired defect
				// an op enqueued by the negotiation-needed callback in the worker's
				// tail (as PeerConnection.onNegotiationNeeded does) while a Done waits
				{0, [][2]int{{0, 0}, {3, 0}, {1, 0}}},
				// two Enqueue callers around a callback that enqueues: three
				// harness ops, the smallest configuration in which a queue with
				// two goroutines would have two ops running at once
				{0, [][2]int{{0, 0}, {3, 0}, {0, 0}}},
			}
			if argTier() == "thorough" {
				cfgs = append(cfgs,
					c05Config{-1, [][2]int{{0, 0}, {0, 0}, {1, 0}}},
					c05Config{-1, [][2]int{{0, 1}, {1, 0}, {2, 0}}},
					c05Config{1, [][2]int{{0, 0}, {3, 0}, {2, 0}}},
					c05Config{-1, [][2]int{{0, 0}, {2, 0}, {2, 0}}},
					c05Config{-1, [][2]int{{0, 0}, {0, 0}, {2, 0}}},
				)
			}
			var out []c05In
			for _, c := range cfgs {
				out = append(out, c05Enumerate(c.cb, c.progs, 0)...)
			}
			return out
		},
		Run: c05Run, Coq: c05Coq, Shrink: c05Shrink,
	})
	// longer random schedules over random thread sets, continued until nothing can move
	Register(Spec[c05In]{
		ID: "C05", Suite: "rand", CoqImports: []string{"Check.C05"},
		CoqType: "Z * list (Z * Z) * list Z", CoqRun: "Check.C05.run",
		Quick: 300, Thorough: 12000,
		Gen: func(r *Rand, i int) c05In {
			n := r.Range(2, 6)
			in := c05In{Cb: r.Range(-1, 1), Drain: true}
			for k := 0; k < n; k++ {
				switch x := r.Intn(10); {
				case x < 4:
					in.Progs = append(in.Progs, [2]int{0, r.Intn(3)})
				case x < 6:
					in.Progs = append(in.Progs, [2]int{1, 0})
				case x < 8:
					in.Progs = append(in.Progs, [2]int{2, 0})
				default:
					in.Progs = append(in.Progs, [2]int{3, 0})
				}
			}
			m := r.Range(0, 40)
			for k := 0; k < m; k++ {
				if r.Chance(2, 5) {
					in.Sched = append(in.Sched, n) // the first start() goroutine alive
				} else if r.Chance(1, 12) {
					in.Sched = append(in.Sched, n+1) // the second one alive, if there is one
				} else {
					in.Sched = append(in.Sched, r.Intn(n+1))
				}
			}
			return in
		},
		Run: c05Run, Coq: c05Coq, Shrink: c05Shrink,
	})
}
