//go:build verif_c05

package main

// C05: the operations queue (operations.go) under forced schedules.
//
// input: callback (depth of the op onNegotiationNeeded enqueues, -1 = none),
// client programs ([0,d] Enqueue(op of depth d), [1,0] Done, [2,0]
// GracefulClose, [3,0] set the negotiation-needed flag) and a schedule over
// thread numbers (clients 0..n-1, n = the worker goroutine). The executed
// schedule (given schedule, then round-robin until nothing can move) is what
// the model replays.

import (
	"encoding/json"
	"fmt"
	"runtime"
	"strings"
	"sync"
	"time"

	"github.com/pion/webrtc/v4"
	"github.com/pion/webrtc/v4/internal/verifhook"
)

type c05In struct {
	Cb    int      `json:"cb"`
	Progs [][2]int `json:"progs"`
	Sched []int    `json:"sched"`
	Drain bool     `json:"drain"` // continue round-robin after Sched until quiescent
}

type c05Op struct {
	id    int // -1 until accepted
	depth int
}

type c05Step struct {
	res    int   // 0 disabled, 1 ran, 2 blocked
	status []int // clients..., worker
	qlen   int
	busy   bool
	closed bool
	flag   bool
	ran    []int
}

type c05Trace struct {
	executed  []int
	cands     [][]int // candidates before each executed step
	steps     []c05Step
	accepted  []int // ids in acceptance order (all 0..k-1)
	waiterOf  map[int]int
	verdict   Verdict
	quiescent bool
}

func c05StatusCode(st string, worker bool) int {
	if worker {
		switch st {
		case "finished":
			return 0
		case "parked:ops.worker.start":
			return 1
		case "parked:ops.worker.popped":
			return 2
		case "parked:ops.worker.ran":
			return 3
		case "parked:ops.worker.popnil":
			return 4
		case "parked:ops.worker.flagged":
			return 5
		case "parked:ops.worker.deferred":
			return 6
		}
		return 7
	}
	switch st {
	case "idle":
		return 0
	case "parked:ops.done.enqueued":
		return 1
	case "parked:ops.close.unlocked":
		return 2
	case "running", "blocked":
		return 3
	case "finished":
		return 4
	}
	return 7
}

// c05Execute runs one schedule on a fresh operations value.
func c05Execute(in c05In) *c05Trace {
	n := len(in.Progs)
	tr := &c05Trace{waiterOf: map[int]int{}}
	var ops *webrtc.VerifOperations
	s := NewSched().Only("ops.")
	s.Grace = 0
	defer s.Close()
	// before the next run installs its handler, every goroutine of this run
	// must have ended (or be blocked for good): let them run free and wait
	defer func() {
		s.freeAll()
		deadline := time.Now().Add(robustDeadline)
		for {
			if _, busy, _ := ops.Snapshot(); !busy || time.Now().After(deadline) {
				break
			}
			runtime.Gosched()
		}
		waitClientsGone(s, n)
	}()

	var mu sync.Mutex // guards the logs below (only one thread runs at a time; the lock is for the race detector)
	var ranLog []int
	running, maxRunning := 0, 0
	var pending *c05Op // the op handed to Enqueue during the current step

	var enqueue func(depth int)
	enqueue = func(depth int) {
		op := &c05Op{id: -1, depth: depth}
		mu.Lock()
		pending = op
		mu.Unlock()
		ops.Enqueue(func() {
			mu.Lock()
			running++
			if running > maxRunning {
				maxRunning = running
			}
			ranLog = append(ranLog, op.id)
			mu.Unlock()
			if op.depth > 0 {
				enqueue(op.depth - 1)
			}
			mu.Lock()
			running--
			mu.Unlock()
		})
	}
	cb := func() {}
	if in.Cb >= 0 {
		cb = func() { enqueue(in.Cb) }
	}
	ops = webrtc.VerifNewOperations(cb)

	// two start() goroutines alive at once would be attributed to one
	// participant by the scheduler; detect it from the goroutine ids
	twoWorkers := false
	var curW uint64
	retired := map[uint64]bool{}
	lastPt := map[uint64]string{}
	verifhook.Install(func(name string) {
		if strings.HasPrefix(name, "ops.worker.") {
			g := goid()
			mu.Lock()
			if g != curW {
				if curW != 0 && lastPt[curW] != "ops.worker.deferred" && lastPt[curW] != "ops.worker.exit" {
					twoWorkers = true
				}
				if curW != 0 {
					retired[curW] = true
				}
				curW = g
			}
			if retired[g] {
				twoWorkers = true
			}
			lastPt[g] = name
			mu.Unlock()
		}
		s.point(name)
	})

	for i, p := range in.Progs {
		p := p
		var fn func()
		switch p[0] {
		case 0:
			fn = func() { enqueue(p[1]) }
		case 1:
			fn = func() { ops.Done() }
		case 2:
			fn = func() { ops.GracefulClose() }
		default:
			fn = func() { ops.Flag.Store(true) }
		}
		s.Add(fmt.Sprintf("c%d", i), fn)
	}
	wtid := s.AddSpawned("worker", "ops.worker.")

	fail := func(sig, what string) {
		if tr.verdict.Sig == "" {
			tr.verdict = Fail(sig, what)
		}
	}
	released := map[int]bool{} // clients released into a blocking wait
	nextID := 0
	closedSeen := false
	closerDone := -1 // ran length when the closer that set isClosed returned
	setter := -1     // client that parked at ops.close.unlocked
	doneStart := map[int]int{} // Done client -> number of ops accepted when its call started

	statuses := func() []string {
		out := make([]string, n+1)
		for i := 0; i <= n; i++ {
			out[i] = s.Status(i)
		}
		return out
	}
	candidates := func(sts []string) []int {
		var c []int
		for i, st := range sts {
			if st == "idle" || strings.HasPrefix(st, "parked:") {
				c = append(c, i)
			}
		}
		return c
	}

	doStep := func(t int) {
		q0, _, closed0 := ops.Snapshot()
		// a Done call starts with this step: everything accepted so far was
		// "queued before the wait" (however Done implements the wait)
		startMark := -1
		if t < n && in.Progs[t][0] == 1 && !closed0 && s.Status(t) == "idle" {
			startMark = nextID
		}
		mu.Lock()
		pending = nil
		mu.Unlock()
		var res int
		switch st := robustStep(s, t); {
		case st == "disabled":
			res = 0
		case st == "blocked":
			res = 2
			released[t] = true
		default:
			res = 1
		}
		// the worker participant follows the implementation's busyCh
		wst := waitStatus(s, wtid, func(st string) bool {
			_, busy, _ := ops.Snapshot()
			if busy {
				return strings.HasPrefix(st, "parked:")
			}
			return st == "finished"
		})
		if strings.HasPrefix(wst, "stuck:") {
			fail("worker-state-inconsistent-with-busy-channel", wst)
		}
		// released clients whose wait is over finish by themselves
		for c := range released {
			if !stillBlocked(s, c) {
				delete(released, c)
			}
		}
		q1, busy, closed := ops.Snapshot()
		if ops.IsEmpty() != (q1 == 0) {
			fail("isempty-disagrees-with-queue", fmt.Sprintf("IsEmpty()=%v with %d queued", ops.IsEmpty(), q1))
		}
		mu.Lock()
		op := pending
		ranNow := append([]int(nil), ranLog...)
		mr := maxRunning
		tw := twoWorkers
		mu.Unlock()
		// acceptance: the queue grew during this step
		if q1 == q0+1 {
			id := nextID
			nextID++
			tr.accepted = append(tr.accepted, id)
			if op != nil {
				mu.Lock()
				op.id = id
				mu.Unlock()
			} else {
				tr.waiterOf[id] = t
			}
			if closedSeen {
				fail("accepted-after-close", fmt.Sprintf("op %d accepted although isClosed was set", id))
			}
		}
		if closed {
			closedSeen = true
		}
		if startMark >= 0 {
			doneStart[t] = startMark
		}
		sts := statuses()
		if t < n && in.Progs[t][0] == 2 && sts[t] == "parked:ops.close.unlocked" {
			setter = t
		}
		if setter >= 0 && sts[setter] == "finished" && closerDone < 0 {
			closerDone = len(ranNow)
			if busy {
				fail("close-returned-while-worker-alive", "GracefulClose returned and a start() goroutine still exists")
			}
		}
		if closerDone >= 0 && len(ranNow) > closerDone {
			fail("op-ran-after-graceful-close-returned", fmt.Sprintf("ran %v, %d had run when GracefulClose returned", ranNow, closerDone))
		}
		if mr > 1 {
			fail("two-ops-running-at-once", "an op started while another was still running")
		}
		if tw {
			fail("two-workers-alive", "two start() goroutines were between their first and last yield point at once")
		}
		// in order, once, without gaps (waiter ops are not instrumented)
		for k := 1; k < len(ranNow); k++ {
			if ranNow[k] <= ranNow[k-1] {
				fail("op-ran-out-of-order-or-twice", fmt.Sprintf("ran %v", ranNow))
			}
		}
		if len(ranNow) > 0 {
			last := ranNow[len(ranNow)-1]
			inst := 0
			for id := 0; id <= last; id++ {
				if _, w := tr.waiterOf[id]; !w {
					inst++
				}
			}
			if inst != len(ranNow) {
				fail("op-skipped", fmt.Sprintf("ran %v but ops up to %d were accepted earlier", ranNow, last))
			}
		}
		// Done returned: everything accepted before the call started has run
		// (the mark is taken when the call starts, not from the waiter op Done
		// happens to push, so a Done that waits by other means is checked too)
		for c, mark := range doneStart {
			if sts[c] == "finished" {
				for id := 0; id < mark; id++ {
					if _, w := tr.waiterOf[id]; w {
						continue
					}
					found := false
					for _, r := range ranNow {
						found = found || r == id
					}
					if !found {
						fail("done-returned-before-earlier-op-ran", fmt.Sprintf("Done of client %d (started with %d ops accepted) returned, op %d has not run", c, mark, id))
					}
				}
				delete(doneStart, c)
			}
		}
		codes := make([]int, n+1)
		for i, st := range sts {
			codes[i] = c05StatusCode(st, i == n)
			if i < n && released[i] {
				codes[i] = 3
			}
		}
		tr.executed = append(tr.executed, t)
		tr.steps = append(tr.steps, c05Step{res: res, status: codes, qlen: q1, busy: busy, closed: closed,
			flag: ops.Flag.Load(), ran: ranNow})
	}

	for _, t := range in.Sched {
		if t < 0 || t > n {
			continue
		}
		tr.cands = append(tr.cands, candidates(statuses()))
		doStep(t)
	}
	if in.Drain {
		for guard := 0; guard < 10000; guard++ {
			c := candidates(statuses())
			if len(c) == 0 {
				break
			}
			tr.cands = append(tr.cands, c)
			doStep(c[0])
		}
	}
	final := statuses()
	tr.quiescent = len(candidates(final)) == 0
	if tr.quiescent {
		// exactly once: every accepted op has run; every Done has returned
		q, busy, closed := ops.Snapshot()
		mu.Lock()
		ranNow := append([]int(nil), ranLog...)
		mu.Unlock()
		inst := 0
		for _, id := range tr.accepted {
			if _, w := tr.waiterOf[id]; !w {
				inst++
			}
		}
		blockedWaiter := false
		for i := 0; i < n; i++ {
			if in.Progs[i][0] == 1 && final[i] != "finished" {
				blockedWaiter = true
			}
		}
		if inst != len(ranNow) || blockedWaiter || q != 0 {
			if closed && !busy && q > 0 {
				fail("accepted-op-left-queued-when-worker-exits-after-close",
					fmt.Sprintf("quiescent with %d op(s) still queued, accepted %v, ran %v, Done blocked=%v", q, tr.accepted, ranNow, blockedWaiter))
			} else {
				fail("accepted-op-never-ran", fmt.Sprintf("quiescent: accepted %v ran %v queue %d busy %v closed %v", tr.accepted, ranNow, q, busy, closed))
			}
		}
		for i := 0; i < n; i++ {
			if in.Progs[i][0] == 2 && final[i] != "finished" {
				fail("graceful-close-never-returns", "quiescent with GracefulClose still waiting")
			}
		}
	}
	if tr.verdict.Sig == "" {
		// non-trivial: some thread ran between two steps of another thread
		switches := 0
		for k := 1; k < len(tr.executed); k++ {
			if tr.executed[k] != tr.executed[k-1] {
				switches++
			}
		}
		class := "incomplete"
		if tr.quiescent {
			class = "quiescent"
		}
		tr.verdict = Pass(fmt.Sprintf("%s/threads%d", class, n), switches >= 2)
	}
	return tr
}

func (tr *c05Trace) obs() V {
	steps := make(VL, len(tr.steps))
	var ran []int
	for i, st := range tr.steps {
		pack := 0
		for k := len(st.status) - 1; k >= 0; k-- {
			pack = pack*8 + st.status[k]
		}
		b := func(x bool) int {
			if x {
				return 1
			}
			return 0
		}
		qword := st.qlen*8 + b(st.busy)*4 + b(st.closed)*2 + b(st.flag)
		steps[i] = VZ(st.res + 4*(len(st.ran)+64*(qword+512*pack)))
		// the harness's log only ever grows by appending: the final list and
		// the lengths give every intermediate list
		ran = st.ran
	}
	return VL{steps, VInts(ran), VInts(tr.accepted), VB(false)}
}

var c05Cache sync.Map // JSON of the input -> executed schedule (for Coq printing)
var c05Done sync.Map  // JSON of an enumerated input -> *c05Trace (the enumeration already ran it)

func c05Run(in c05In) (V, Verdict) {
	var tr *c05Trace
	if t, ok := c05Done.LoadAndDelete(c05Key(in)); ok {
		tr = t.(*c05Trace)
	} else {
		tr = c05Execute(in)
	}
	v := tr.verdict
	full := c05In{Cb: in.Cb, Progs: in.Progs, Sched: tr.executed}
	raw, _ := json.Marshal(full)
	v.Key = string(raw)
	c05Cache.Store(c05Key(in), tr.executed)
	return tr.obs(), v
}

func c05Key(in c05In) string {
	raw, _ := json.Marshal(in)
	return string(raw)
}

func c05Coq(in c05In) string {
	sched := in.Sched
	if in.Drain {
		ex, ok := c05Cache.Load(c05Key(in))
		if !ok {
			return ""
		}
		sched = ex.([]int)
	}
	progs := make([]string, len(in.Progs))
	for i, p := range in.Progs {
		progs[i] = fmt.Sprintf("(%d, %d)", p[0], p[1])
	}
	ss := make([]string, len(sched))
	for i, t := range sched {
		ss[i] = fmt.Sprintf("%d", t)
	}
	return fmt.Sprintf("(%s, %s, %s)", CoqZ(int64(in.Cb)), CoqList(progs), CoqList(ss))
}

// c05Enumerate: every maximal schedule of a configuration (stateless DFS on
// the implementation: a thread is a candidate when it is idle or parked).
func c05Enumerate(cb int, progs [][2]int, limit int) []c05In {
	var out []c05In
	var rec func(prefix []int)
	rec = func(prefix []int) {
		if limit > 0 && len(out) >= limit {
			return
		}
		tr := c05Execute(c05In{Cb: cb, Progs: progs, Sched: prefix, Drain: true})
		ex := append([]int(nil), tr.executed...)
		leaf := c05In{Cb: cb, Progs: progs, Sched: ex}
		out = append(out, leaf)
		c05Done.Store(c05Key(leaf), tr)
		for d := len(ex) - 1; d >= len(prefix); d-- {
			for _, c := range tr.cands[d] {
				if c > ex[d] {
					rec(append(append([]int(nil), ex[:d]...), c))
				}
			}
		}
	}
	rec(nil)
	return out
}

type c05Config struct {
	cb    int
	progs [][2]int
}

func c05Shrink(in c05In) []c05In {
	var out []c05In
	for i := range in.Sched {
		c := in
		c.Sched = append(append([]int{}, in.Sched[:i]...), in.Sched[i+1:]...)
		c.Drain = true
		out = append(out, c)
	}
	return out
}

func init() {
	witness := c05In{Cb: -1, Progs: [][2]int{{0, 0}, {1, 0}, {2, 0}}, Sched: []int{0, 3, 3, 3, 3, 1, 2, 3, 2, 1}}
	corpus := func() []c05In {
		return []c05In{
			witness,
			// the same window with a plain Enqueue in place of Done
			{Cb: -1, Progs: [][2]int{{0, 0}, {0, 0}, {2, 0}}, Sched: []int{0, 3, 3, 3, 3, 1, 2, 3, 2}, Drain: true},
			// the window opened by the negotiation-needed callback
			{Cb: 0, Progs: [][2]int{{0, 0}, {3, 0}, {2, 0}}, Sched: []int{1, 0, 3, 3, 3, 3, 3, 2, 3, 2}, Drain: true},
			// witness continued to the end
			{Cb: -1, Progs: [][2]int{{0, 0}, {1, 0}, {2, 0}}, Sched: []int{0, 3, 3, 3, 3, 1, 2, 3, 2, 1}, Drain: true},
		}
	}
	Register(Spec[c05In]{
		ID: "C05", Suite: "enum", CoqImports: []string{"Check.C05"},
		CoqType: "Z * list (Z * Z) * list Z", CoqRun: "Check.C05.run",
		Corpus: corpus,
		Exhaustive: func() []c05In {
			cfgs := []c05Config{
				{-1, [][2]int{{0, 0}, {2, 0}}},
				{-1, [][2]int{{0, 1}, {2, 0}}},
				{-1, [][2]int{{1, 0}, {2, 0}}},
				{0, [][2]int{{0, 0}, {3, 0}}},
				{0, [][2]int{{0, 0}, {3, 0}, {2, 0}}},
				{-1, [][2]int{{0, 0}, {1, 0}, {2, 0}}}, // the configuration of the repaired defect
				// an op enqueued by the negotiation-needed callback in the worker's
				// tail (as PeerConnection.onNegotiationNeeded does) while a Done waits
				{0, [][2]int{{0, 0}, {3, 0}, {1, 0}}},
			}
			if argTier() == "thorough" {
				cfgs = append(cfgs,
					c05Config{-1, [][2]int{{0, 0}, {0, 0}, {1, 0}}},
					c05Config{-1, [][2]int{{0, 1}, {1, 0}, {2, 0}}},
					c05Config{1, [][2]int{{0, 0}, {3, 0}, {2, 0}}},
					c05Config{-1, [][2]int{{0, 0}, {2, 0}, {2, 0}}},
					c05Config{-1, [][2]int{{0, 0}, {0, 0}, {2, 0}}},
				)
			}
			var out []c05In
			for _, c := range cfgs {
				out = append(out, c05Enumerate(c.cb, c.progs, 0)...)
			}
			return out
		},
		Run: c05Run, Coq: c05Coq, Shrink: c05Shrink,
	})
	// longer random schedules over random thread sets, continued until nothing can move
	Register(Spec[c05In]{
		ID: "C05", Suite: "rand", CoqImports: []string{"Check.C05"},
		CoqType: "Z * list (Z * Z) * list Z", CoqRun: "Check.C05.run",
		Quick: 300, Thorough: 12000,
		Gen: func(r *Rand, i int) c05In {
			n := r.Range(2, 6)
			in := c05In{Cb: r.Range(-1, 1), Drain: true}
			for k := 0; k < n; k++ {
				switch x := r.Intn(10); {
				case x < 4:
					in.Progs = append(in.Progs, [2]int{0, r.Intn(3)})
				case x < 6:
					in.Progs = append(in.Progs, [2]int{1, 0})
				case x < 8:
					in.Progs = append(in.Progs, [2]int{2, 0})
				default:
					in.Progs = append(in.Progs, [2]int{3, 0})
				}
			}
			m := r.Range(0, 40)
			for k := 0; k < m; k++ {
				if r.Chance(2, 5) {
					in.Sched = append(in.Sched, n) // the worker
				} else {
					in.Sched = append(in.Sched, r.Intn(n+1))
				}
			}
			return in
		},
		Run: c05Run, Coq: c05Coq, Shrink: c05Shrink,
	})
}
