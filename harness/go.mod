module github.com/pion/webrtc/v4/verifharness

go 1.24.0

require github.com/pion/webrtc/v4 v4.0.0

require (
	github.com/google/uuid v1.6.0 // indirect
	github.com/pion/datachannel v1.6.2 // indirect
	github.com/pion/dtls/v3 v3.1.5 // indirect
	github.com/pion/ice/v4 v4.4.0 // indirect
	github.com/pion/interceptor v0.1.47 // indirect
	github.com/pion/logging v0.2.4 // indirect
	github.com/pion/mdns/v2 v2.1.0 // indirect
	github.com/pion/randutil v0.1.0 // indirect
	github.com/pion/rtcp v1.2.17 // indirect
	github.com/pion/rtp v1.10.5 // indirect
	github.com/pion/sctp v1.11.1 // indirect
	github.com/pion/sdp/v3 v3.0.19 // indirect
	github.com/pion/srtp/v3 v3.0.13 // indirect
	github.com/pion/stun/v3 v3.1.7 // indirect
	github.com/pion/transport/v4 v4.1.0 // indirect
	github.com/pion/turn/v5 v5.0.13 // indirect
	github.com/wlynxg/anet v0.0.5 // indirect
	golang.org/x/crypto v0.48.0 // indirect
	golang.org/x/net v0.50.0 // indirect
	golang.org/x/sys v0.41.0 // indirect
	golang.org/x/time v0.14.0 // indirect
)

replace github.com/pion/webrtc/v4 => /repo
