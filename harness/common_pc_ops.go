//go:build verif_pc

package main

import (
	"github.com/pion/webrtc/v4"
	"github.com/pion/webrtc/v4/internal/verifhook"
)

// signalOnly switches startTransports/startRTP off (verifhook.Skip("transports")),
// so offer/answer histories run with real SDP generation and parsing but no
// ICE/DTLS/SCTP. Process-wide: use it only in suites that never connect.
func signalOnly(on bool) { verifhook.SetSkip("transports", on) }

// drain waits for the PeerConnection's operations queue.
func drain(pc *webrtc.PeerConnection) { pc.VerifOpsDone() }
