//go:build verif_c35

package main

import (
	"bytes"
	"encoding/binary"
	"encoding/hex"
	"fmt"

	"github.com/pion/rtp"
	"github.com/pion/rtp/codecs"
	"github.com/pion/webrtc/v4/pkg/media/h264writer"
	"github.com/pion/webrtc/v4/pkg/media/h265writer"
)

// C35: H264Writer/H265Writer output, read back by the matching reader, is the
// NAL units from the first keyframe on (keyframe = first SPS or IDR for H.264,
// first VPS/SPS/PPS/IDR for H.265).
//
// suite stream: NAL units grouped into access units -> pion payloader at some
//   MTU -> writer -> reader.  suite kf: isKeyFrame on arbitrary payloads.

type c35In struct {
	H265  bool       `json:"h265"`
	NoAgg bool       `json:"noagg"` // DisableStapA / SkipAggregation
	MTU   int        `json:"mtu"`
	AUs   [][]c34NAL `json:"aus"`           // one Payload call per access unit
	Raw   []string   `json:"raw,omitempty"` // when set: the RTP payloads themselves (hex), AUs unused
	// Reuse: packets reach WriteRTP out of one receive buffer that is overwritten
	// when the call has returned (mediafeed_util.go)
	Reuse bool `json:"reuse,omitempty"`
}

// m1Compress describes bytes as pieces, turning arithmetic runs into patterns.
func m1Compress(b []byte) []m1Pay {
	var out []m1Pay
	lit := []byte{}
	flush := func() {
		if len(lit) > 0 {
			out = append(out, m1Lit(lit))
			lit = []byte{}
		}
	}
	for i := 0; i < len(b); {
		j := i + 1
		if j < len(b) {
			d := b[j] - b[i]
			for j+1 < len(b) && b[j+1]-b[j] == d {
				j++
			}
			if n := j - i + 1; n >= 24 {
				flush()
				out = append(out, m1Pay{Len: n, A: int(b[i]), B: int(d)})
				i = j + 1
				continue
			}
		}
		lit = append(lit, b[i])
		i++
	}
	flush()
	return out
}

func (in c35In) payloads() [][]byte {
	if in.Raw != nil {
		out := make([][]byte, len(in.Raw))
		for i, h := range in.Raw {
			out[i], _ = hex.DecodeString(h)
		}
		return out
	}
	var pl interface {
		Payload(mtu uint16, payload []byte) [][]byte
	}
	if in.H265 {
		pl = &codecs.H265Payloader{SkipAggregation: in.NoAgg}
	} else {
		pl = &codecs.H264Payloader{DisableStapA: in.NoAgg}
	}
	var out [][]byte
	for _, au := range in.AUs {
		var annexb []byte
		for _, n := range au {
			annexb = append(annexb, 0, 0, 0, 1)
			annexb = append(annexb, n.Bytes()...)
		}
		out = append(out, pl.Payload(uint16(in.MTU), annexb)...)
	}
	return out
}

// ---------- independent reading of the RTP payload formats (RFC 6184 / 7798) ----------

type c35Entry struct {
	Pkt  int    // packet in which the unit starts
	Unit []byte // the NAL unit
	Kind string // single | agg | frag
	Pos  int    // position inside an aggregation packet
}

func c35Type(h265 bool, unit []byte) int {
	if h265 {
		return int(unit[0]>>1) & 0x3f
	}
	return int(unit[0] & 0x1f)
}

func c35IsKeyType(h265 bool, t int) bool {
	if h265 {
		return t == 32 || t == 33 || t == 34 || t == 19 || t == 20
	}
	return t == 7 || t == 5
}

func c35Carried(h265 bool, payloads [][]byte) []c35Entry {
	var out []c35Entry
	var frag []byte
	fragPkt := -1
	for i, p := range payloads {
		if len(p) == 0 {
			continue
		}
		aggT, fuT := 24, 28
		hl := 1
		if h265 {
			aggT, fuT, hl = 48, 49, 2
		}
		if len(p) < hl {
			continue
		}
		t := c35Type(h265, p)
		switch t {
		case aggT:
			body := p[hl:]
			pos := 0
			for len(body) >= 2 {
				n := int(binary.BigEndian.Uint16(body))
				if len(body) < 2+n {
					break
				}
				if n > 0 {
					out = append(out, c35Entry{Pkt: i, Unit: body[2 : 2+n], Kind: "agg", Pos: pos})
				}
				pos++
				body = body[2+n:]
			}
		case fuT:
			if len(p) < hl+1 {
				continue
			}
			fu := p[hl]
			if fu&0x80 != 0 {
				fragPkt = i
				if h265 {
					frag = []byte{p[0]&0x81 | (fu&0x3f)<<1, p[1]}
				} else {
					frag = []byte{p[0]&0xe0 | fu&0x1f}
				}
			}
			if fragPkt >= 0 {
				frag = append(frag, p[hl+1:]...)
				if fu&0x40 != 0 {
					out = append(out, c35Entry{Pkt: fragPkt, Unit: frag, Kind: "frag"})
					fragPkt, frag = -1, nil
				}
			}
		default:
			out = append(out, c35Entry{Pkt: i, Unit: p, Kind: "single"})
		}
	}
	return out
}

// the writers' own acceptance rule, restated: used only to decide whether a
// failure is one of the recorded deviations (known/C35.txt) and nothing else
func c35DevAccepts(h265 bool, p []byte) bool {
	if !h265 {
		if len(p) < 4 {
			return false
		}
		return p[0]&0x1f == 7 || (p[0]&0x1f == 24 && p[3]&0x1f == 7)
	}
	if len(p) < 2 {
		return false
	}
	key := func(t byte) bool { return t == 32 || t == 33 || t == 34 || t == 19 || t == 20 }
	t := (p[0] >> 1) & 0x3f
	switch {
	case key(t):
		return true
	case t == 48:
		for _, e := range c35Carried(true, [][]byte{p}) {
			if key(byte(c35Type(true, e.Unit))) {
				return true
			}
		}
	case t == 49 && len(p) >= 3:
		return key((p[2] & 0x7e) >> 1) // the FU header read as a NAL header
	}
	return false
}

func c35Units(es []c35Entry) [][]byte {
	out := make([][]byte, len(es))
	for i := range es {
		out[i] = es[i].Unit
	}
	return out
}

func c35Same(a []c34Unit, b [][]byte) bool {
	if len(a) != len(b) {
		return false
	}
	for i := range a {
		if !bytes.Equal(a[i].Data, b[i]) {
			return false
		}
	}
	return true
}

func c35Run(in c35In) (V, Verdict) {
	payloads := in.payloads()
	var buf bytes.Buffer
	res := make(VL, len(payloads))
	write := func(p []byte) error {
		return nil
	}
	feeder := &mfFeeder{reuse: in.Reuse}
	if in.H265 {
		w := h265writer.NewWith(&buf)
		write = func(p []byte) error { return feeder.feed(w.WriteRTP, rtp.Header{Version: 2}, p) }
	} else {
		w := h264writer.NewWith(&buf)
		write = func(p []byte) error { return feeder.feed(w.WriteRTP, rtp.Header{Version: 2}, p) }
	}
	nerr := 0
	for i, p := range payloads {
		if err := write(p); err != nil {
			res[i] = VS("err")
			nerr++
		} else {
			res[i] = VS("ok")
		}
	}
	written := append([]byte{}, buf.Bytes()...)
	got, end, _ := c34ReadAll(in.H265, true, written, nil)
	gv := make(VL, len(got))
	for i, u := range got {
		gv[i] = m1Digest(u.Data)
	}
	obs := VL{m1Digest(written), res, gv, VS(c34ErrClass(end))}
	codec := "h264"
	if in.H265 {
		codec = "h265"
	}
	if in.Raw != nil {
		return obs, Pass("raw-payloads/"+codec, false)
	}

	// the property: exactly the units from the first keyframe unit on
	entries := c35Carried(in.H265, payloads)
	kprop := -1
	for i, e := range entries {
		if c35IsKeyType(in.H265, c35Type(in.H265, e.Unit)) {
			kprop = i
			break
		}
	}
	var want []c35Entry
	if kprop >= 0 {
		want = entries[kprop:]
	}
	kinds := map[string]bool{}
	for _, e := range entries {
		kinds[e.Kind] = true
	}
	class := fmt.Sprintf("%s/noagg-%v/key-%v", codec, in.NoAgg, kprop >= 0)
	for _, k := range []string{"single", "agg", "frag"} {
		if kinds[k] {
			class += "/" + k
		}
	}
	// units ending in 0x00 that the reader has to hand back whole: behind each
	// the writer puts a 4-byte start code (tz), or the stream ends (tz-last)
	tzMid, tzLast := false, false
	for i, e := range want {
		if e.Unit[len(e.Unit)-1] == 0 {
			if i == len(want)-1 {
				tzLast = true
			} else {
				tzMid = true
			}
		}
	}
	if tzMid {
		class += "/tz"
	}
	if tzLast {
		class += "/tz-last"
	}
	if c35Same(got, c35Units(want)) {
		return obs, Pass(class, kprop >= 0 && len(want) >= 2)
	}
	// the right units, but one came back shorter by zero bytes it ended in: the
	// reader took more than the start code's three zeros
	if len(got) == len(want) && len(got) > 0 {
		short := -1
		for i := range got {
			w := want[i].Unit
			if bytes.Equal(got[i].Data, w) {
				continue
			}
			if len(got[i].Data) < len(w) && bytes.Equal(got[i].Data, w[:len(got[i].Data)]) &&
				len(bytes.TrimRight(w[len(got[i].Data):], "\x00")) == 0 {
				if short < 0 {
					short = i
				}
				continue
			}
			short = -1
			break
		}
		if short >= 0 {
			return obs, Fail("unit-read-back-without-its-trailing-zero-bytes",
				fmt.Sprintf("%s mtu %d: unit %d of %d from the first keyframe has %d bytes (last %#02x), read back %d bytes",
					codec, in.MTU, short, len(want), len(want[short].Unit), want[short].Unit[len(want[short].Unit)-1], len(got[short].Data)))
		}
	}
	// not the property's output: is it exactly one of the recorded deviations?
	gdev := -1
	for i, p := range payloads {
		if len(p) > 0 && c35DevAccepts(in.H265, p) {
			gdev = i
			break
		}
	}
	var dev []c35Entry
	for _, e := range entries {
		if gdev >= 0 && e.Pkt >= gdev {
			dev = append(dev, e)
		}
	}
	if !c35Same(got, c35Units(dev)) || nerr > 0 {
		return obs, Fail("nal-sequence-differs", fmt.Sprintf("%s mtu %d: %d units expected from the first keyframe, %d read back (%d WriteRTP errors)",
			codec, in.MTU, len(want), len(got), nerr))
	}
	kpkt := -1
	if kprop >= 0 {
		kpkt = entries[kprop].Pkt
	}
	describe := func() string {
		return fmt.Sprintf("%s mtu %d: first keyframe unit starts in packet %d, the writer's gate opens at packet %d; %d units expected, %d written",
			codec, in.MTU, kpkt, gdev, len(want), len(got))
	}
	if !in.H265 {
		if kprop < 0 {
			return obs, Fail("gate-differs-unexplained", describe())
		}
		e := entries[kprop]
		switch t := c35Type(false, e.Unit); {
		case t == 5:
			return obs, Fail("h264-idr-before-sps-not-keyframe", describe()+fmt.Sprintf("; the keyframe unit is an IDR sent as %s", e.Kind))
		case t == 7 && e.Kind == "single" && len(e.Unit) < 4:
			return obs, Fail("h264-sps-shorter-than-4", describe()+fmt.Sprintf("; the SPS has %d bytes", len(e.Unit)))
		case t == 7 && e.Kind == "frag":
			return obs, Fail("h264-sps-in-fua", describe()+"; the SPS is fragmented (FU-A)")
		case t == 7 && e.Kind == "agg" && e.Pos > 0:
			return obs, Fail("h264-stapa-sps-not-first", describe())
		}
		return obs, Fail("gate-differs-unexplained", describe())
	}
	switch {
	case gdev >= 0 && (kpkt < 0 || gdev < kpkt):
		if p := payloads[gdev]; (p[0]>>1)&0x3f == 49 {
			return obs, Fail("h265-fu-of-non-keyframe-opens-gate",
				describe()+fmt.Sprintf("; packet %d is an FU with FU header %#02x (FuType %d)", gdev, p[2], p[2]&0x3f))
		}
	case kpkt >= 0 && (gdev < 0 || gdev > kpkt):
		if entries[kprop].Kind == "frag" {
			return obs, Fail("h265-keyframe-in-fu-not-recognised",
				describe()+fmt.Sprintf("; the keyframe unit (type %d) is fragmented", c35Type(true, entries[kprop].Unit)))
		}
	case gdev == kpkt && entries[kprop].Kind == "agg" && entries[kprop].Pos > 0:
		return obs, Fail("h265-ap-leading-non-keyframe-written", describe()+"; the AP carries non-keyframe units before the keyframe unit")
	}
	return obs, Fail("gate-differs-unexplained", describe())
}

func c35Coq(in c35In) string {
	payloads := in.payloads()
	ps := make([]string, len(payloads))
	for i, p := range payloads {
		var parts []string
		for _, piece := range m1Compress(p) {
			parts = append(parts, piece.Coq())
		}
		ps[i] = CoqList(parts)
	}
	return fmt.Sprintf("(%s, %s)", CoqBool(in.H265), CoqList(ps))
}

// ---------- generators ----------

func c35GenNAL(r *Rand, h265 bool, typ, size int) c34NAL {
	for {
		n := c34GenNAL(r, h265, typ, size)
		b := n.Bytes()
		if h265 {
			// pion/rtp refuses F=1 and units of the header alone
			if b[0]&0x80 != 0 || len(b) < 3 {
				size = max(size, 3)
				continue
			}
		}
		if c35Type(h265, b) != typ {
			continue
		}
		return n
	}
}

func c35Size(r *Rand) int {
	switch r.Intn(8) {
	case 0:
		return r.Range(1, 3)
	case 1, 2:
		return r.Range(60, 400)
	}
	return r.Range(4, 30)
}

// with some probability the unit gets one or more trailing 0x00 bytes (the
// property does not exclude them: cabac_zero_words, zero-padded slice data;
// C34's own domain does).  One or two zeros keep the unit free of 00 00 00.
func c35TrailZeros(r *Rand, n c34NAL, num, den int) c34NAL {
	if !r.Chance(num, den) {
		return n
	}
	k := Pick(r, []int{1, 1, 1, 2, 2, 3, 4, 7})
	out := c34NAL{Four: n.Four, Parts: append(append([]m1Pay{}, n.Parts...), m1Lit(make([]byte, k)))}
	return out
}

func c35Gen(r *Rand, i int) c35In {
	in := c35GenBase(r, i)
	// every third case has units ending in zero bytes: of every type, at every
	// position including the first keyframe unit and the last unit of the stream
	if r.Chance(1, 3) {
		num := Pick(r, []int{1, 1, 2, 4})
		for a := range in.AUs {
			au := append([]c34NAL{}, in.AUs[a]...)
			for k := range au {
				au[k] = c35TrailZeros(r, au[k], num, 4)
			}
			in.AUs[a] = au
		}
	}
	in.Reuse = r.Bool()
	return in
}

func c35GenBase(r *Rand, i int) c35In {
	in := c35In{H265: r.Bool(), NoAgg: r.Chance(1, 3)}
	in.MTU = Pick(r, []int{10, 12, 16, 24, 40, 64, 100, 200, 1200})
	if r.Chance(1, 3) {
		in.MTU = r.Range(8, 300)
	}
	other := []int{1, 1, 1, 6, 9, 12, 2, 8}
	key := []int{7, 7, 5}
	params := []int{7, 8}
	if in.H265 {
		other = []int{0, 1, 1, 1, 21, 35, 39, 40, 38, 9}
		key = []int{32, 33, 34, 19, 20}
		params = []int{32, 33, 34}
	}
	var seq []c34NAL
	for k := r.Intn(4); k > 0; k-- { // units before the first keyframe
		seq = append(seq, c35GenNAL(r, in.H265, Pick(r, other), c35Size(r)))
	}
	switch r.Intn(10) {
	case 0: // no keyframe at all
	case 1: // a lone keyframe unit of any kind
		seq = append(seq, c35GenNAL(r, in.H265, Pick(r, key), c35Size(r)))
	case 2: // an IDR first, parameter sets later
		idr := 5
		if in.H265 {
			idr = 19 + r.Intn(2)
		}
		seq = append(seq, c35GenNAL(r, in.H265, idr, c35Size(r)))
		seq = append(seq, c35GenNAL(r, in.H265, Pick(r, other), c35Size(r)))
		for _, t := range params {
			seq = append(seq, c35GenNAL(r, in.H265, t, r.Range(4, 30)))
		}
	default: // parameter sets, then an IDR
		for _, t := range params {
			seq = append(seq, c35GenNAL(r, in.H265, t, r.Range(3, 40)))
		}
		idr := 5
		if in.H265 {
			idr = 19 + r.Intn(2)
		}
		seq = append(seq, c35GenNAL(r, in.H265, idr, c35Size(r)))
	}
	for k := r.Intn(5); k > 0; k-- {
		all := append(append([]int{}, other...), key...)
		seq = append(seq, c35GenNAL(r, in.H265, Pick(r, all), c35Size(r)))
	}
	// group into access units
	for len(seq) > 0 {
		k := 1
		if r.Chance(1, 2) {
			k = r.Range(1, min(4, len(seq)))
		}
		in.AUs = append(in.AUs, seq[:k])
		seq = seq[k:]
	}
	return in
}

func c35Shrink(in c35In) []c35In {
	var out []c35In
	for i := range in.AUs {
		c := in
		c.AUs = append(append([][]c34NAL{}, in.AUs[:i]...), in.AUs[i+1:]...)
		out = append(out, c)
		if len(in.AUs[i]) > 1 {
			for j := range in.AUs[i] {
				c := in
				c.AUs = append([][]c34NAL{}, in.AUs...)
				c.AUs[i] = append(append([]c34NAL{}, in.AUs[i][:j]...), in.AUs[i][j+1:]...)
				out = append(out, c)
			}
		}
	}
	return out
}

func c35Corpus() []c35In {
	lit := func(b ...byte) c34NAL { return c34NAL{Four: true, Parts: []m1Pay{m1Lit(b)}} }
	big := func(h0 byte, h1 int, n int) c34NAL {
		hd := []byte{h0}
		if h1 >= 0 {
			hd = append(hd, byte(h1))
		}
		return c34NAL{Four: true, Parts: []m1Pay{m1Lit(hd), {Len: n, A: 7, B: 3}, m1Lit([]byte{0x80})}}
	}
	sps, pps, idr, p := lit(0x67, 0x42, 0x00, 0x1f, 0x8c), lit(0x68, 0xce, 0x3c, 0x80), lit(0x65, 0x88, 0x84, 0x21), lit(0x41, 0x9a, 0x02, 0x05)
	vps5, sps5, pps5 := lit(0x40, 0x01, 0x0c, 0x01), lit(0x42, 0x01, 0x01, 0x60), lit(0x44, 0x01, 0xc1, 0x73)
	idr5, p5 := lit(0x26, 0x01, 0xaf, 0x06), lit(0x02, 0x01, 0xd0, 0x09)
	au := func(ns ...c34NAL) []c34NAL { return ns }
	tz := func(n c34NAL, k int) c34NAL {
		return c34NAL{Four: true, Parts: append(append([]m1Pay{}, n.Parts...), m1Lit(make([]byte, k)))}
	}
	return []c35In{
		// recognised streams
		{MTU: 1200, AUs: [][]c34NAL{au(p), au(sps, pps, idr), au(p)}},
		{MTU: 1200, NoAgg: true, AUs: [][]c34NAL{au(p), au(sps), au(pps), au(idr), au(p)}},
		{MTU: 20, AUs: [][]c34NAL{au(p), au(sps, pps, big(0x65, -1, 100)), au(big(0x41, -1, 50))}},
		{H265: true, MTU: 1200, AUs: [][]c34NAL{au(p5), au(vps5, sps5, pps5, idr5), au(p5)}},
		{H265: true, MTU: 1200, NoAgg: true, AUs: [][]c34NAL{au(p5), au(vps5), au(sps5), au(pps5), au(idr5), au(p5)}},
		// design probes (recorded: open: lines in known/C35.txt)
		{MTU: 1200, AUs: [][]c34NAL{au(p), au(idr), au(p), au(sps, pps, idr)}},             // IDR first: not a keyframe for the writer
		{MTU: 1200, NoAgg: true, AUs: [][]c34NAL{au(p), au(lit(0x67, 0x42, 0x80)), au(p)}}, // 3-byte SPS
		{MTU: 16, NoAgg: true, AUs: [][]c34NAL{au(p), au(big(0x67, -1, 40)), au(p)}},       // SPS in FU-A
		{H265: true, MTU: 24, AUs: [][]c34NAL{au(p5), au(big(0x26, 1, 60)), au(p5)}},       // IDR in FUs: not recognised
		{H265: true, MTU: 24, AUs: [][]c34NAL{au(big(0x02, 1, 60)), au(p5), au(p5)}},       // end fragment of a TRAIL_R opens the gate
		{H265: true, MTU: 24, AUs: [][]c34NAL{au(p5), au(big(0x4e, 1, 60)), au(p5)}},       // start fragment of an SEI (39) opens the gate
		{H265: true, MTU: 200, AUs: [][]c34NAL{au(p5, vps5, sps5, pps5, idr5), au(p5)}},    // AP led by a non-keyframe unit
		// units ending in 0x00, not the last and the last of the stream, as single
		// NAL / aggregation / fragmentation packets: the reader must cut exactly the
		// three zeros of the writer's 4-byte start code
		{MTU: 1200, AUs: [][]c34NAL{au(sps, pps, tz(idr, 1)), au(tz(p, 1)), au(tz(p, 2)), au(p)}},
		{MTU: 1200, NoAgg: true, Reuse: true, AUs: [][]c34NAL{au(tz(sps, 1)), au(tz(pps, 2)), au(tz(idr, 3)), au(tz(p, 5))}},
		{MTU: 20, AUs: [][]c34NAL{au(sps, pps, tz(big(0x65, -1, 100), 1)), au(tz(big(0x41, -1, 50), 2)), au(tz(p, 1))}},
		{H265: true, MTU: 1200, AUs: [][]c34NAL{au(vps5, sps5, pps5, tz(idr5, 1)), au(tz(p5, 1)), au(tz(p5, 2), p5)}},
		{H265: true, MTU: 1200, NoAgg: true, Reuse: true, AUs: [][]c34NAL{au(tz(vps5, 1)), au(tz(sps5, 1)), au(tz(pps5, 2)), au(tz(idr5, 3)), au(tz(p5, 4))}},
		{H265: true, MTU: 24, AUs: [][]c34NAL{au(vps5, sps5, pps5), au(tz(big(0x26, 1, 60), 1)), au(tz(big(0x02, 1, 60), 2)), au(tz(p5, 1))}},
		// hand-made payloads: STAP-A with the SPS second
		{Raw: []string{"419a0205", "780004419a0205000567420001f0", "419a0207"}},
		// witness of the repaired defect: fragmented units fed out of one receive
		// buffer (before the fix H265Depacketizer kept the fragments as sub-slices of
		// the caller's payload: the rebuilt unit had the filler bytes in it)
		{H265: true, MTU: 24, Reuse: true, AUs: [][]c34NAL{au(vps5, sps5, pps5), au(big(0x28, 1, 60)), au(big(0x02, 1, 60)), au(p5)}},
		{MTU: 20, Reuse: true, AUs: [][]c34NAL{au(sps, pps), au(big(0x65, -1, 100)), au(big(0x41, -1, 50)), au(p)}},
	}
}

// ---------- suite kf ----------

type c35KF struct {
	H265 bool   `json:"h265"`
	Hex  string `json:"hex"`
}

func c35RunKF(in c35KF) (V, Verdict) {
	p, _ := hex.DecodeString(in.Hex)
	var r bool
	if in.H265 {
		r = h265writer.VerifIsKeyFrame(p)
	} else {
		r = h264writer.VerifIsKeyFrame(p)
	}
	codec := "h264"
	if in.H265 {
		codec = "h265"
	}
	return VB(r), Pass(fmt.Sprintf("%s/%v", codec, r), len(p) >= 2)
}

func c35GenKF(r *Rand, i int) c35KF {
	in := c35KF{H265: r.Bool()}
	var p []byte
	if !in.H265 {
		p = r.Bytes(r.Range(0, 12))
		if len(p) > 0 && r.Chance(2, 3) {
			p[0] = byte(Pick(r, []int{7, 24, 5, 28, 1, 0x67, 0x78, 0x65}))
		}
		if len(p) > 3 && r.Chance(1, 2) {
			p[3] = byte(Pick(r, []int{7, 0x67, 8, 5, 0x27}))
		}
	} else {
		switch r.Intn(4) {
		case 0:
			p = r.Bytes(r.Range(0, 8))
		case 1: // FU
			p = append([]byte{0x62, 0x01, byte(r.U64())}, r.Bytes(r.Intn(4))...)
			p = p[:r.Range(1, len(p))]
		default: // aggregation packets with good and hostile sizes
			p = []byte{0x60, 0x01}
			for k := r.Range(0, 4); k > 0; k-- {
				n := r.Range(0, 6)
				unit := r.Bytes(n)
				if n > 0 {
					unit[0] = byte(Pick(r, []int{32, 33, 34, 19, 20, 1, 0, 21, 39})) << 1
				}
				sz := n
				if r.Chance(1, 6) {
					sz = Pick(r, []int{0, n + 1, n + 100, 65535, max(n-1, 0)})
				}
				p = append(p, byte(sz>>8), byte(sz))
				p = append(p, unit...)
			}
			if r.Chance(1, 4) {
				p = p[:r.Range(2, len(p))]
			}
		}
	}
	in.Hex = hex.EncodeToString(p)
	return in
}

func init() {
	Register(Spec[c35In]{
		ID: "C35", Suite: "stream", CoqImports: []string{"Common.Media1Util", "Check.C35"},
		CoqType: "bool * list (list pspec)", CoqRun: "Check.C35.run_stream",
		Quick: 300, Thorough: 3000, Parallel: 8,
		Corpus: c35Corpus, Gen: c35Gen, Run: c35Run, Coq: c35Coq, Shrink: c35Shrink,
	})
	Register(Spec[c35KF]{
		ID: "C35", Suite: "kf", CoqImports: []string{"Check.C35"},
		CoqType: "bool * string", CoqRun: "Check.C35.run_kf",
		Quick: 1000, Thorough: 20000,
		Exhaustive: func() []c35KF {
			var out []c35KF
			for b := 0; b < 256; b++ {
				// every FU header value; every first byte (NAL header / payload header)
				out = append(out,
					c35KF{H265: true, Hex: fmt.Sprintf("6201%02x00", b)},
					c35KF{H265: true, Hex: fmt.Sprintf("%02x010000", b)},
					c35KF{H265: true, Hex: fmt.Sprintf("60010002%02x01", b)},
					c35KF{Hex: fmt.Sprintf("%02x000167", b)},
					c35KF{Hex: fmt.Sprintf("780001%02x", b)},
					c35KF{Hex: fmt.Sprintf("%02x0001", b)},
				)
			}
			return out
		},
		Gen: c35GenKF, Run: c35RunKF,
		Coq: func(in c35KF) string { return fmt.Sprintf("(%s, \"%s\")", CoqBool(in.H265), in.Hex) },
	})
}
