//go:build verif_c05 || verif_c11 || verif_c18

package main

// Helpers on top of sched.go for the C05/C11/C18 family: blocked-detection
// that does not depend on a timing grace period. A released participant is
// reported "blocked" only when the Go runtime itself says its goroutine sits
// in a channel receive / WaitGroup wait (goroutine header of runtime.Stack);
// otherwise the helper keeps waiting until the participant parks or finishes.

import (
	"bytes"
	"os"
	"runtime"
	"strconv"
	"strings"
	"time"
)

const robustDeadline = 20 * time.Second

// goroutineStates returns the wait state of every goroutine, keyed by id
// ("running", "runnable", "chan receive", "sync.WaitGroup.Wait", ...).
func goroutineStates() map[uint64]string {
	buf := make([]byte, 1<<16)
	for {
		n := runtime.Stack(buf, true)
		if n < len(buf) {
			buf = buf[:n]
			break
		}
		buf = make([]byte, 2*len(buf))
	}
	out := map[uint64]string{}
	for _, blk := range bytes.Split(buf, []byte("\n\n")) {
		if !bytes.HasPrefix(blk, []byte("goroutine ")) {
			continue
		}
		line := blk
		if i := bytes.IndexByte(blk, '\n'); i >= 0 {
			line = blk[:i]
		}
		rest := line[len("goroutine "):]
		sp := bytes.IndexByte(rest, ' ')
		lb := bytes.IndexByte(rest, '[')
		rb := bytes.LastIndexByte(rest, ']')
		if sp < 0 || lb < 0 || rb < lb {
			continue
		}
		id, err := strconv.ParseUint(string(rest[:sp]), 10, 64)
		if err != nil {
			continue
		}
		state := string(rest[lb+1 : rb])
		if c := strings.IndexByte(state, ','); c >= 0 { // "chan receive, 2 minutes"
			state = state[:c]
		}
		out[id] = state
	}
	return out
}

func semanticWait(state string) bool {
	switch state {
	case "chan receive", "sync.WaitGroup.Wait", "semacquire", "select", "chan receive (nil chan)":
		return true
	}
	return false
}

func (s *Sched) goidOf(tid int) (uint64, bool) {
	s.mu.Lock()
	defer s.mu.Unlock()
	for g, t := range s.byGoid {
		if t == tid {
			return g, true
		}
	}
	return 0, false
}

// stillBlocked reports whether a released participant is (still) waiting on
// the code's own synchronisation. When it is not, the helper waits for it to
// park or finish and returns false.
func stillBlocked(s *Sched, tid int) bool {
	deadline := time.Now().Add(robustDeadline)
	for k := 1; s.Status(tid) == "running"; k++ {
		if g, ok := s.goidOf(tid); ok && k%32 == 0 {
			if semanticWait(goroutineStates()[g]) && s.Status(tid) == "running" {
				return true
			}
		}
		if time.Now().After(deadline) {
			panic("participant neither blocked nor progressing: " + s.parts[tid].name)
		}
		runtime.Gosched()
	}
	return false
}

// robustStep releases participant tid and returns "parked:<point>",
// "finished", "blocked" (waiting on the code's own channel / WaitGroup) or
// "disabled" (nothing to release).
func robustStep(s *Sched, tid int) string {
	st := s.Step(tid)
	if st != "running" {
		return st
	}
	if stillBlocked(s, tid) {
		return "blocked"
	}
	return s.Status(tid)
}

// waitStatus polls until ok(status of tid) holds.
func waitStatus(s *Sched, tid int, ok func(string) bool) string {
	deadline := time.Now().Add(robustDeadline)
	for {
		st := s.Status(tid)
		if ok(st) {
			return st
		}
		if time.Now().After(deadline) {
			return "stuck:" + st
		}
		runtime.Gosched()
	}
}

// freeAll lets every parked goroutine run free (points no longer park) but
// keeps the handler installed and the scheduler lock held, so the caller can
// wait for the goroutines of this run to end before the next run starts.
func (s *Sched) freeAll() {
	s.mu.Lock()
	s.free = true
	for _, p := range s.parts {
		if p.state == psParked {
			p.state = psRunning
			close(p.release)
		}
	}
	s.mu.Unlock()
}

// waitClientsGone waits until each of the first n participants has finished
// or is blocked on the code's own synchronisation for good.
func waitClientsGone(s *Sched, n int) {
	for t := 0; t < n; t++ {
		if s.Status(t) == "idle" {
			continue
		}
		stillBlocked(s, t)
	}
}

// enumSchedules lists every maximal schedule by stateless depth-first search:
// exec runs a prefix, continues it with the lowest candidate until nothing is
// schedulable and returns the executed schedule with the candidate set seen
// before each step.
func enumSchedules(exec func(prefix []int) (executed []int, cands [][]int), limit int) [][]int {
	var out [][]int
	var rec func(prefix []int)
	rec = func(prefix []int) {
		if limit > 0 && len(out) >= limit {
			return
		}
		ex, cands := exec(prefix)
		ex = append([]int(nil), ex...)
		out = append(out, ex)
		for d := len(ex) - 1; d >= len(prefix); d-- {
			for _, c := range cands[d] {
				if c > ex[d] {
					rec(append(append([]int(nil), ex[:d]...), c))
				}
			}
		}
	}
	rec(nil)
	return out
}

func argTier() string {
	for i, a := range os.Args {
		if a == "--tier" && i+1 < len(os.Args) {
			return os.Args[i+1]
		}
		if strings.HasPrefix(a, "--tier=") {
			return a[len("--tier="):]
		}
	}
	return "quick"
}
