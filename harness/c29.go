//go:build verif_c29

package main

import (
	"bytes"
	"errors"
	"fmt"
	"reflect"

	"github.com/pion/interceptor"
	"github.com/pion/rtp"
	"github.com/pion/webrtc/v4"
)

// C29: TrackLocalStaticRTP bind/unbind/write histories through the public API
// with fake TrackLocalContexts whose TrackLocalWriters capture what they get.
// Suite "inflight" (c29_inflight.go): Unbind/Bind while a write is parked inside a writer, direct oracle only.

type c29Pkt struct {
	Marker  bool     `json:"m"`
	PadFlag bool     `json:"pf"`
	PT      uint8    `json:"pt"`
	Seq     uint16   `json:"seq"`
	TS      uint32   `json:"ts"`
	SSRC    uint32   `json:"ssrc"`
	CSRC    []uint32 `json:"csrc"`
	ExtKind int      `json:"xk"` // 0 none, 1 one-byte, 2 two-byte
	ExtIDs  []uint8  `json:"xi"`
	ExtData [][]byte `json:"xd"`
	HPad    uint8    `json:"hpad"` // Header.PaddingSize
	PPad    uint8    `json:"ppad"` // Packet.PaddingSize (deprecated field)
	Payload []byte   `json:"pay"`
}

type c29Op struct {
	K     int     `json:"k"`            // 1 bind, 2 unbind, 3 write
	ID    int     `json:"id,omitempty"` // context id
	SSRC  uint32  `json:"ssrc,omitempty"`
	Codec int     `json:"codec"`       // payload type the context negotiated for the track's codec, -1 = none
	W     int     `json:"w,omitempty"` // writer index
	Fail  bool    `json:"fail,omitempty"`
	P     *c29Pkt `json:"p,omitempty"`
	Cut   int     `json:"cut,omitempty"` // kind 4: keep only the first Cut bytes of the marshalled packet (0 = all)
}

// c29Raw: the buffer a kind-4 op hands to Write, and what pion/rtp's Unmarshal
// (run here, on a fresh packet) makes of it - the value of the model's abstract
// unmarshal function at this buffer.
func c29Raw(op c29Op) (raw []byte, up *rtp.Packet, uerr error) {
	pk := op.P.build()
	pk.Header.Padding, pk.Header.PaddingSize, pk.PaddingSize = false, 0, 0
	raw, merr := pk.Marshal()
	if merr != nil {
		panic(merr)
	}
	if op.Cut > 0 && op.Cut < len(raw) {
		raw = raw[:op.Cut]
	}
	up = &rtp.Packet{}
	uerr = up.Unmarshal(append([]byte{}, raw...))
	return raw, up, uerr
}

func (p *c29Pkt) build() *rtp.Packet {
	pk := &rtp.Packet{Header: rtp.Header{Version: 2, Padding: p.PadFlag, Marker: p.Marker, PayloadType: p.PT,
		SequenceNumber: p.Seq, Timestamp: p.TS, SSRC: p.SSRC, CSRC: append([]uint32{}, p.CSRC...),
		PaddingSize: p.HPad}, Payload: append([]byte{}, p.Payload...), PaddingSize: p.PPad}
	if p.ExtKind != 0 {
		pk.Header.Extension = true
		pk.Header.ExtensionProfile = 0xBEDE
		if p.ExtKind == 2 {
			pk.Header.ExtensionProfile = 0x1000
		}
		for i, id := range p.ExtIDs {
			if err := pk.Header.SetExtension(id, append([]byte{}, p.ExtData[i]...)); err != nil {
				panic(err)
			}
		}
	}
	return pk
}

// c29Rest is "every other header field": the header marshalled with the three
// fields the track may touch zeroed.
func c29Rest(h *rtp.Header) []byte {
	c := h.Clone()
	c.SSRC, c.PayloadType, c.PaddingSize = 0, 0, 0
	b, err := c.Marshal()
	if err != nil {
		panic(err)
	}
	return b
}

type c29Capture struct {
	w       int
	hdr     rtp.Header
	rest    []byte
	payload []byte
}

type c29Writer struct {
	idx  int
	fail bool
	log  *[]c29Capture
}

var errC29Write = errors.New("scripted writer failure")

func (w *c29Writer) WriteRTP(h *rtp.Header, payload []byte) (int, error) {
	*w.log = append(*w.log, c29Capture{w: w.idx, hdr: h.Clone(), rest: c29Rest(h), payload: append([]byte{}, payload...)})
	if w.fail {
		return 0, errC29Write
	}
	return len(payload), nil
}
func (w *c29Writer) Write(b []byte) (int, error) { panic("c29: Write not expected") }

type c29Ctx struct {
	id     string
	ssrc   uint32
	codecs []webrtc.RTPCodecParameters
	w      *c29Writer
}

func (c *c29Ctx) CodecParameters() []webrtc.RTPCodecParameters           { return c.codecs }
func (c *c29Ctx) HeaderExtensions() []webrtc.RTPHeaderExtensionParameter { return nil }
func (c *c29Ctx) SSRC() webrtc.SSRC                                      { return webrtc.SSRC(c.ssrc) }
func (c *c29Ctx) SSRCRetransmission() webrtc.SSRC                        { return 0 }
func (c *c29Ctx) SSRCForwardErrorCorrection() webrtc.SSRC                { return 0 }
func (c *c29Ctx) WriteStream() webrtc.TrackLocalWriter                   { return c.w }
func (c *c29Ctx) ID() string                                             { return c.id }
func (c *c29Ctx) RTCPReader() interceptor.RTCPReader                     { return nil }

var c29Codec = webrtc.RTPCodecCapability{MimeType: webrtc.MimeTypeVP8, ClockRate: 90000}

func c29EncPkt(ssrc uint32, pt, hpad uint8, ppad int, rest, payload []byte) []byte {
	out := []byte{byte(ssrc >> 24), byte(ssrc >> 16), byte(ssrc >> 8), byte(ssrc), pt, hpad}
	if ppad >= 0 {
		out = append(out, byte(ppad))
	}
	out = append(out, byte(len(rest)))
	out = append(out, rest...)
	out = append(out, byte(len(payload)))
	out = append(out, payload...)
	return out
}

type c29Bound struct {
	id, w, pt int
	ssrc      uint32
	fail      bool
}

func c29Run(ops []c29Op) (V, Verdict) {
	track, err := webrtc.NewTrackLocalStaticRTP(c29Codec, "t", "s")
	if err != nil {
		panic(err)
	}
	var obs []byte
	verdict := Pass("", false)
	fail := func(sig, what string) {
		if verdict.OK {
			verdict = Fail(sig, what)
		}
	}
	// direct oracle state: the bound senders by the property's words
	var bound []c29Bound
	everBound := map[int]bool{}
	ambiguous := false
	nWrites, nFan, maxBound, unbinds, dup := 0, 0, 0, 0, false
	var log []c29Capture
	// every packet a caller handed to WriteRTP stays the caller's: checked again after each later op
	type heldPkt struct {
		at     int
		p, was *rtp.Packet
	}
	var held []heldPkt

	for k, op := range ops {
		switch op.K {
		case 4: // Write(bytes): the model sees WriteRaw with pion/rtp's Unmarshal result supplied by c29Raw
			raw, up, uerr := c29Raw(op)
			rawBefore := append([]byte{}, raw...)
			log = log[:0]
			n, werr := track.Write(raw)
			if uerr != nil {
				if werr != nil && len(log) == 0 {
					obs = append(obs, 4, 2)
				} else { // not what an unmarshal error looks like: shows up as a model mismatch too
					obs = append(obs, 4, 3, byte(len(log)))
				}
				if werr == nil || n != 0 || len(log) != 0 {
					fail("static-write-bytes-unparsed-delivered", fmt.Sprintf("op %d: Write of %x (unmarshal: %v) returned (%d, %v) and reached %d writers", k, raw, uerr, n, werr, len(log)))
				}
				break
			}
			nerr := 0
			for _, b := range bound {
				if b.fail {
					nerr++
				}
			}
			ef := byte(0)
			if werr != nil {
				ef = 1
			}
			obs = append(obs, 4, ef, byte(len(log)))
			for _, c := range log {
				obs = append(obs, byte(c.w))
				obs = append(obs, c29EncPkt(c.hdr.SSRC, c.hdr.PayloadType, c.hdr.PaddingSize, -1, c.rest, c.payload)...)
			}
			nWrites++
			if len(bound) > maxBound {
				maxBound = len(bound)
			}
			nFan += len(log)
			if n != len(raw) {
				fail("static-write-bytes-count", fmt.Sprintf("op %d: Write of %d bytes returned %d", k, len(raw), n))
			}
			if !ambiguous && (werr != nil) != (nerr > 0) {
				fail("static-write-error", fmt.Sprintf("op %d: Write returned %v with %d failing bound writers", k, werr, nerr))
			}
			if !bytes.Equal(raw, rawBefore) {
				fail("static-caller-bytes-modified", fmt.Sprintf("op %d: Write changed the caller's buffer", k))
			}
			if !ambiguous && len(log) != len(bound) {
				fail("static-delivery-count", fmt.Sprintf("op %d: Write reached %d writers with %d bindings", k, len(log), len(bound)))
			}
			wantRest := c29Rest(&up.Header)
			for _, c := range log {
				if !bytes.Equal(c.payload, up.Payload) {
					fail("static-payload-changed", fmt.Sprintf("op %d: Write delivered payload %x, the buffer carries %x", k, c.payload, up.Payload))
				}
				if !bytes.Equal(c.rest, wantRest) {
					fail("static-field-changed", fmt.Sprintf("op %d: Write delivered header fields %x, the buffer carries %x", k, c.rest, wantRest))
				}
				okb := false
				for _, b := range bound {
					if b.w == c.w && b.ssrc == c.hdr.SSRC && int(c.hdr.PayloadType) == b.pt {
						okb = true
					}
				}
				if !okb && !ambiguous {
					fail("static-write-unbound-or-wrong-ssrc-pt", fmt.Sprintf("op %d: Write delivered to writer %d with ssrc %d pt %d, no such binding", k, c.w, c.hdr.SSRC, c.hdr.PayloadType))
				}
			}
		case 1:
			ctx := &c29Ctx{id: fmt.Sprintf("ctx-%d", op.ID), ssrc: op.SSRC,
				w: &c29Writer{idx: op.W, fail: op.Fail, log: &log}}
			// a context always negotiated something else too; the track's codec only when Codec >= 0
			ctx.codecs = []webrtc.RTPCodecParameters{{RTPCodecCapability: webrtc.RTPCodecCapability{
				MimeType: webrtc.MimeTypeH264, ClockRate: 90000}, PayloadType: 102}}
			if op.Codec >= 0 {
				ctx.codecs = append(ctx.codecs, webrtc.RTPCodecParameters{RTPCodecCapability: c29Codec,
					PayloadType: webrtc.PayloadType(op.Codec)})
			}
			got, berr := track.Bind(ctx)
			if op.Codec >= 0 {
				obs = append(obs, 1, byte(got.PayloadType))
				if berr != nil || int(got.PayloadType) != op.Codec {
					fail("static-bind-result", fmt.Sprintf("op %d: Bind returned (%d, %v), want payload type %d", k, got.PayloadType, berr, op.Codec))
				}
				for _, b := range bound {
					if b.id == op.ID {
						dup = true
					}
				}
				bound = append(bound, c29Bound{op.ID, op.W, op.Codec, op.SSRC, op.Fail})
				everBound[op.W] = true
			} else {
				obs = append(obs, 1, 255)
				if !errors.Is(berr, webrtc.ErrUnsupportedCodec) {
					fail("static-bind-result", fmt.Sprintf("op %d: Bind without a matching codec returned %v", k, berr))
				}
			}
		case 2:
			uerr := track.Unbind(&c29Ctx{id: fmt.Sprintf("ctx-%d", op.ID)})
			var cands []int
			for i, b := range bound {
				if b.id == op.ID {
					cands = append(cands, i)
				}
			}
			if len(cands) == 0 {
				obs = append(obs, 2, 1)
				if !errors.Is(uerr, webrtc.ErrUnbindFailed) {
					fail("static-unbind-result", fmt.Sprintf("op %d: Unbind of an unbound id returned %v", k, uerr))
				}
				break
			}
			obs = append(obs, 2, 0)
			if uerr != nil {
				fail("static-unbind-result", fmt.Sprintf("op %d: Unbind of a bound id returned %v", k, uerr))
			}
			unbinds++
			for _, i := range cands[1:] { // same id bound more than once with different parameters
				if bound[i] != bound[cands[0]] {
					ambiguous = true
				}
			}
			bound = append(bound[:cands[0]], bound[cands[0]+1:]...)
		case 3:
			p := op.P.build()
			before := p.Clone()
			beforeRaw := *p
			log = log[:0]
			werr := track.WriteRTP(p)
			held = append(held, heldPkt{k, p, before})
			nWrites++
			if len(bound) > maxBound {
				maxBound = len(bound)
			}
			nFan += len(log)
			// observation
			nerr := 0
			for _, b := range bound {
				if b.fail {
					nerr++
				}
			}
			ef := byte(0)
			if werr != nil {
				ef = 1
			}
			obs = append(obs, 3, ef, byte(len(log)))
			for _, c := range log {
				obs = append(obs, byte(c.w))
				obs = append(obs, c29EncPkt(c.hdr.SSRC, c.hdr.PayloadType, c.hdr.PaddingSize, -1, c.rest, c.payload)...)
			}
			obs = append(obs, c29EncPkt(p.Header.SSRC, p.Header.PayloadType, p.Header.PaddingSize, int(p.PaddingSize),
				c29Rest(&p.Header), p.Payload)...)
			// ---- direct oracle ----
			if !ambiguous && (werr != nil) != (nerr > 0) {
				fail("static-write-error", fmt.Sprintf("op %d: WriteRTP returned %v with %d failing bound writers", k, werr, nerr))
			}
			// caller's packet: deep equal to the copy taken before, and the very same slices
			if !reflect.DeepEqual(p, before) || !reflect.DeepEqual(*p, beforeRaw) {
				fail("static-caller-packet-modified", fmt.Sprintf("op %d: caller's packet %+v became %+v", k, before, p))
			}
			want := append([]c29Bound{}, bound...)
			wantRest := c29Rest(&before.Header)
			effPad := before.Header.PaddingSize
			if effPad == 0 {
				effPad = before.PaddingSize
			}
			if ambiguous && len(log) != len(bound) {
				fail("static-delivery-count", fmt.Sprintf("op %d: %d deliveries with %d bindings", k, len(log), len(bound)))
			}
			for _, c := range log {
				// which bound sender is this?
				at := -1
				for i, b := range want {
					if b.w == c.w && b.ssrc == c.hdr.SSRC && int(c.hdr.PayloadType) == b.pt {
						at = i
						break
					}
				}
				if ambiguous {
					// one id was bound twice with different parameters and unbound once: which
					// of the two remains is not fixed by the property; fields are still checked
					want = nil
					at = -2
				}
				if at == -1 {
					stillBound, wrongField := false, ""
					for _, b := range bound {
						if b.w == c.w {
							stillBound = true
							if b.ssrc != c.hdr.SSRC {
								wrongField = "ssrc"
							} else if int(c.hdr.PayloadType) != b.pt {
								wrongField = "pt"
							}
						}
					}
					switch {
					case stillBound && wrongField == "ssrc":
						fail("static-wrong-ssrc", fmt.Sprintf("op %d: writer %d got ssrc %d", k, c.w, c.hdr.SSRC))
					case stillBound && wrongField == "pt":
						fail("static-wrong-pt", fmt.Sprintf("op %d: writer %d got payload type %d", k, c.w, c.hdr.PayloadType))
					case stillBound:
						fail("static-write-duplicate-delivery", fmt.Sprintf("op %d: writer %d was called more often than it is bound", k, c.w))
					case everBound[c.w]:
						fail("static-delivery-after-unbind", fmt.Sprintf("op %d: writer %d got a packet after its binding was removed", k, c.w))
					default:
						fail("static-delivery-to-never-bound", fmt.Sprintf("op %d: writer %d was never bound", k, c.w))
					}
					continue
				}
				if at >= 0 {
					want = append(want[:at], want[at+1:]...)
				}
				switch {
				case !bytes.Equal(c.rest, wantRest):
					fail("static-field-changed", fmt.Sprintf("op %d: header %x, caller's %x (ssrc/pt/padding size zeroed)", k, c.rest, wantRest))
				case !bytes.Equal(c.payload, before.Payload):
					fail("static-payload-changed", fmt.Sprintf("op %d: payload %x, caller's %x", k, c.payload, before.Payload))
				case c.hdr.PaddingSize != effPad:
					fail("static-padding-size-lost", fmt.Sprintf("op %d: padding size %d, caller's %d", k, c.hdr.PaddingSize, effPad))
				}
			}
			if len(want) > 0 {
				fail("static-write-missed-binding", fmt.Sprintf("op %d: bound writer %d (ctx %d) got nothing", k, want[0].w, want[0].id))
			}
		}
		for _, h := range held {
			if h.at < k && !reflect.DeepEqual(h.p, h.was) {
				fail("static-caller-packet-modified-later",
					fmt.Sprintf("op %d changed the packet the caller passed to WriteRTP at op %d: %+v became %+v", k, h.at, h.was, h.p))
			}
		}
	}
	if verdict.OK {
		verdict.NonTrivial = nFan >= 2 && maxBound >= 2
		wfc := "wf"
		if dup {
			wfc = "dup"
		}
		verdict.Class = fmt.Sprintf("%s/writes%d/maxbound%d/unbinds%d", wfc, min(nWrites, 2), min(maxBound, 3), min(unbinds, 2))
	}
	return VBy(obs), verdict
}

func c29Prog(ops []c29Op) []byte {
	var out []byte
	for _, op := range ops {
		switch op.K {
		case 1:
			codec := byte(255)
			if op.Codec >= 0 {
				codec = byte(op.Codec)
			}
			f := byte(0)
			if op.Fail {
				f = 1
			}
			out = append(out, 1, byte(op.ID), byte(op.SSRC>>24), byte(op.SSRC>>16), byte(op.SSRC>>8), byte(op.SSRC), codec, byte(op.W), f)
		case 2:
			out = append(out, 2, byte(op.ID))
		case 3:
			p := op.P.build()
			out = append(out, 3)
			out = append(out, c29EncPkt(p.Header.SSRC, p.Header.PayloadType, p.Header.PaddingSize, int(p.PaddingSize),
				c29Rest(&p.Header), p.Payload)...)
		case 4:
			_, up, uerr := c29Raw(op)
			if uerr != nil {
				out = append(out, 4, 0)
				break
			}
			out = append(out, 4, 1)
			out = append(out, c29EncPkt(up.Header.SSRC, up.Header.PayloadType, up.Header.PaddingSize, int(up.PaddingSize),
				c29Rest(&up.Header), up.Payload)...)
		}
	}
	return out
}

func c29Coq(ops []c29Op) string { return CoqBytes(c29Prog(ops)) }

func c29GenPkt(r *Rand) *c29Pkt {
	p := &c29Pkt{Marker: r.Bool(), PT: uint8(r.Range(0, 127)), Seq: uint16(r.U64()), TS: uint32(r.U64()), SSRC: uint32(r.U64())}
	for n := r.Intn(4); n > 0; n-- {
		p.CSRC = append(p.CSRC, uint32(r.U64()))
	}
	switch r.Intn(4) {
	case 1:
		p.ExtKind = 1
		for n, id := r.Range(1, 2), 1; n > 0; n, id = n-1, id+r.Range(1, 5) {
			p.ExtIDs = append(p.ExtIDs, uint8(id))
			p.ExtData = append(p.ExtData, r.Bytes(r.Range(1, 6)))
		}
	case 2:
		p.ExtKind = 2
		p.ExtIDs = []uint8{uint8(r.Range(1, 200))}
		p.ExtData = [][]byte{r.Bytes(r.Range(0, 9))}
	}
	switch r.Intn(5) {
	case 1: // padding via the header field
		p.PadFlag, p.HPad = true, uint8(r.Range(1, 40))
	case 2: // padding via the deprecated packet field only
		p.PadFlag, p.PPad = true, uint8(r.Range(1, 40))
	case 3: // both set, different
		p.PadFlag, p.HPad, p.PPad = true, uint8(r.Range(1, 40)), uint8(r.Range(1, 40))
	}
	p.Payload = r.Bytes(r.Range(0, 20))
	return p
}

func c29Gen(r *Rand, i int) []c29Op {
	n := r.Range(3, 30)
	var ops []c29Op
	boundIDs := map[int]bool{}
	wf := !r.Chance(1, 6) // a share of histories binds an id that is already bound
	nextW := 0
	for len(ops) < n {
		switch k := r.Intn(10); {
		case k < 4: // bind
			id := r.Intn(6)
			if boundIDs[id] && wf {
				continue
			}
			op := c29Op{K: 1, ID: id, SSRC: uint32(r.U64()), Codec: r.Range(96, 127), W: nextW % 200, Fail: r.Chance(1, 10)}
			nextW++
			if r.Chance(1, 12) {
				op.Codec = -1
			}
			if boundIDs[id] && r.Bool() && len(ops) > 0 { // re-bind of the very same context
				for _, o := range ops {
					if o.K == 1 && o.ID == id && o.Codec >= 0 {
						op.SSRC, op.Codec, op.W, op.Fail = o.SSRC, o.Codec, o.W, o.Fail
					}
				}
			}
			if op.Codec >= 0 {
				boundIDs[id] = true
			}
			ops = append(ops, op)
		case k < 6: // unbind (mostly of something bound)
			id := r.Intn(6)
			if !boundIDs[id] && r.Chance(3, 4) {
				for cand := range 6 {
					if boundIDs[cand] {
						id = cand
					}
				}
			}
			ops = append(ops, c29Op{K: 2, ID: id})
			if wf {
				delete(boundIDs, id)
			}
		default:
			if r.Chance(1, 4) {
				o4 := c29Op{K: 4, P: c29GenPkt(r)}
				if r.Chance(1, 5) {
					o4.Cut = r.Range(1, 40) // truncated buffer: unmarshal error below 12 bytes, shorter packet or error above
				}
				ops = append(ops, o4)
			} else {
				ops = append(ops, c29Op{K: 3, P: c29GenPkt(r)})
			}
		}
	}
	return ops
}

func c29Shrink(ops []c29Op) [][]c29Op {
	var out [][]c29Op
	for i := range ops {
		out = append(out, append(append([]c29Op{}, ops[:i]...), ops[i+1:]...))
	}
	return out
}

func init() {
	plain := &c29Pkt{PT: 96, Seq: 7, TS: 90000, SSRC: 42, Payload: []byte{1, 2, 3}}
	padded := &c29Pkt{PT: 96, Seq: 8, TS: 90001, SSRC: 42, PadFlag: true, PPad: 4, CSRC: []uint32{5, 6}, ExtKind: 1,
		ExtIDs: []uint8{3}, ExtData: [][]byte{{9, 9}}, Marker: true, Payload: []byte{4, 5}}
	bind := func(id int, ssrc uint32, pt, w int) c29Op { return c29Op{K: 1, ID: id, SSRC: ssrc, Codec: pt, W: w} }
	Register(Spec[[]c29Op]{
		ID: "C29", Suite: "hist", CoqImports: []string{"Common.BytesUtil", "Check.C29"},
		CoqType: "list byte", CoqRun: "Check.C29.run",
		Quick: 500, Thorough: 5000, Parallel: 8,
		Corpus: func() [][]c29Op {
			return [][]c29Op{
				// three bindings, unbind the first (swap-delete moves the last into slot 0), write, unbind the middle one
				{bind(0, 1000, 96, 0), bind(1, 2000, 97, 1), bind(2, 3000, 98, 2), {K: 3, P: plain}, {K: 2, ID: 0},
					{K: 3, P: padded}, {K: 2, ID: 1}, {K: 3, P: plain}, {K: 2, ID: 2}, {K: 3, P: plain}, {K: 2, ID: 2}},
				// unbind the last / the only binding; re-bind after unbind with new parameters
				{bind(0, 1000, 96, 0), {K: 2, ID: 0}, {K: 3, P: plain}, bind(0, 1001, 100, 1), {K: 3, P: padded}},
				// no codec match: error, nothing bound
				{{K: 1, ID: 0, SSRC: 5, Codec: -1, W: 0}, {K: 3, P: plain}, {K: 2, ID: 0}},
				// a failing writer does not stop the fan-out
				{{K: 1, ID: 0, SSRC: 5, Codec: 96, W: 0, Fail: true}, bind(1, 6, 97, 1), {K: 3, P: plain}},
				// one id bound twice with different parameters (one writer failing), slot 0 unbound first so that the
				// swap-delete reorders them: which of the two the next Unbind removes is not fixed by the property
				{bind(0, 7, 120, 0), {K: 1, ID: 5, SSRC: 8, Codec: 110, W: 2, Fail: true}, bind(5, 9, 107, 4), {K: 2, ID: 0}, {K: 2, ID: 5},
					{K: 3, P: padded}},
				// same context bound twice, unbound once
				{bind(0, 1000, 96, 0), bind(0, 1000, 96, 0), {K: 3, P: plain}, {K: 2, ID: 0}, {K: 3, P: plain}},
			}
		},
		Gen: c29Gen, Run: c29Run, Coq: c29Coq, Shrink: c29Shrink,
	})
}
