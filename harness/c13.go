//go:build verif_c13

package main

import (
	"fmt"
	"strings"
	"sync"
	"time"

	"github.com/pion/webrtc/v4"
	"github.com/pion/webrtc/v4/internal/verifhook"
)

// C13: complementary ICE and DTLS roles over the whole configuration matrix.
//
// One cell = (ICE-lite offerer, ICE-lite answerer, answerer's configured DTLS
// role, a=setup of the offer).  Both ends are real PeerConnections in
// signalling-only mode.  The offer is pion's own offer with its a=setup lines
// rewritten (pion always offers actpass), the answer is what CreateAnswer
// produces, the ICE role and the remote DTLS role of each end are the two
// arguments SetRemoteDescription hands to startTransports (verifhook.Note),
// and the DTLS role is DTLSTransport.role() evaluated on the connection's own
// transport with exactly those two values (VerifDTLSRole).

type c13Cell struct {
	LiteA bool `json:"lite_offerer"`
	LiteB bool `json:"lite_answerer"`
	Role  int  `json:"answering_role"` // 0 unset, 1 client, 2 server
	Setup int  `json:"offer_setup"`    // 0 actpass, 1 active, 2 passive, 3 absent
	Shape int  `json:"shape"`          // 0 data channel only, 1 audio only, 2 audio + data channel
}

var (
	c13RoleNames  = []string{"unset", "client", "server"}
	c13SetupNames = []string{"actpass", "active", "passive", "absent"}
)

const (
	c13Controlling = int(webrtc.ICERoleControlling)
	c13Controlled  = int(webrtc.ICERoleControlled)
	c13Client      = int(webrtc.DTLSRoleClient)
	c13Server      = int(webrtc.DTLSRoleServer)
)

func c13API(lite bool, role int) *webrtc.API {
	se := webrtc.SettingEngine{}
	se.SetICEMulticastDNSMode(0 + 1) // ice.MulticastDNSModeDisabled
	se.SetNetworkTypes([]webrtc.NetworkType{webrtc.NetworkTypeUDP4})
	se.SetInterfaceFilter(func(string) bool { return false })
	se.SetIncludeLoopbackCandidate(false)
	se.SetLite(lite)
	switch role {
	case 1:
		if err := se.SetAnsweringDTLSRole(webrtc.DTLSRoleClient); err != nil {
			panic(err)
		}
	case 2:
		if err := se.SetAnsweringDTLSRole(webrtc.DTLSRoleServer); err != nil {
			panic(err)
		}
	}
	return webrtc.NewAPI(webrtc.WithSettingEngine(se))
}

// notes taken at pc.startTransports, keyed by connection
var (
	c13Mu    sync.Mutex
	c13Notes = map[*webrtc.PeerConnection][]int{}
)

func c13Take(pc *webrtc.PeerConnection) ([]int, bool) {
	c13Mu.Lock()
	defer c13Mu.Unlock()
	v, ok := c13Notes[pc]
	delete(c13Notes, pc)
	return v, ok
}

func c13MungeSetup(sdpText string, setup int) string {
	lines := strings.Split(sdpText, "\r\n")
	out := lines[:0:0]
	for _, l := range lines {
		if strings.HasPrefix(l, "a=setup:") {
			if setup == 3 {
				continue
			}
			l = "a=setup:" + c13SetupNames[setup]
		}
		out = append(out, l)
	}
	return strings.Join(out, "\r\n")
}

func c13Setups(sd webrtc.SessionDescription) ([]string, error) {
	p, err := sd.Unmarshal()
	if err != nil {
		return nil, err
	}
	var out []string
	for _, a := range p.Attributes {
		if a.Key == "setup" {
			out = append(out, "session:"+a.Value)
		}
	}
	for _, m := range p.MediaDescriptions {
		v, ok := m.Attribute("setup")
		if !ok {
			v = "<none>"
		}
		out = append(out, v)
	}
	return out, nil
}

func c13Run(c c13Cell) (V, Verdict) {
	signalOnly(true)
	must := func(err error) {
		if err != nil {
			panic(err)
		}
	}
	pcA, err := c13API(c.LiteA, 0).NewPeerConnection(webrtc.Configuration{})
	must(err)
	defer pcA.Close() //nolint
	pcB, err := c13API(c.LiteB, c.Role).NewPeerConnection(webrtc.Configuration{})
	must(err)
	defer pcB.Close() //nolint

	if c.Shape >= 1 {
		_, err = pcA.AddTransceiverFromKind(webrtc.RTPCodecTypeAudio)
		must(err)
	}
	if c.Shape != 1 {
		_, err = pcA.CreateDataChannel("d", nil)
		must(err)
	}
	offer, err := pcA.CreateOffer(nil)
	must(err)
	must(pcA.SetLocalDescription(offer))
	own, err := c13Setups(offer)
	must(err)
	for _, s := range own {
		if s != "actpass" {
			return VS("offer"), Fail("pion-offer-setup-not-actpass", fmt.Sprintf("pion's own offer carries setup %v", own))
		}
	}
	if strings.Contains(offer.SDP, "a=ice-lite") != c.LiteA {
		return VS("offer"), Fail("offer-ice-lite-attribute-wrong", fmt.Sprintf("lite=%v but offer ice-lite=%v", c.LiteA, !c.LiteA))
	}
	munged := webrtc.SessionDescription{Type: webrtc.SDPTypeOffer, SDP: c13MungeSetup(offer.SDP, c.Setup)}

	must(pcB.SetRemoteDescription(munged))
	drain(pcB)
	nb, ok := c13Take(pcB)
	if !ok {
		return VS("no-start"), Fail("answerer-never-starts-transports", "SetRemoteDescription(offer) did not reach startTransports")
	}
	answer, err := pcB.CreateAnswer(nil)
	must(err)
	must(pcB.SetLocalDescription(answer))
	if strings.Contains(answer.SDP, "a=ice-lite") != c.LiteB {
		return VS("answer"), Fail("answer-ice-lite-attribute-wrong", fmt.Sprintf("lite=%v but answer ice-lite=%v", c.LiteB, !c.LiteB))
	}
	ansSetups, err := c13Setups(answer)
	must(err)
	ansSetup := ansSetups[0]
	for _, s := range ansSetups {
		if s != ansSetup {
			return VS("answer"), Fail("answer-setup-differs-between-sections", fmt.Sprintf("%v", ansSetups))
		}
	}
	must(pcA.SetRemoteDescription(answer))
	drain(pcA)
	na, ok := c13Take(pcA)
	if !ok {
		return VS("no-start"), Fail("offerer-never-starts-transports", "SetRemoteDescription(answer) did not reach startTransports")
	}
	iceA, remA := na[0], na[1]
	iceB, remB := nb[0], nb[1]
	dtlsA := int(pcA.VerifDTLSRole(webrtc.ICERole(iceA), webrtc.DTLSRole(remA)))
	dtlsB := int(pcB.VerifDTLSRole(webrtc.ICERole(iceB), webrtc.DTLSRole(remB)))

	obs := VL{VS(ansSetup), VZ(iceA), VZ(iceB), VZ(dtlsA), VZ(dtlsB)}
	cell := fmt.Sprintf("liteA%d-liteB%d-role-%s-offer-%s", b2i(c.LiteA), b2i(c.LiteB), c13RoleNames[c.Role], c13SetupNames[c.Setup])
	class := fmt.Sprintf("role-%s/offer-%s", c13RoleNames[c.Role], c13SetupNames[c.Setup])

	// ---- direct oracle: the property's own words on the observed values ----
	// (1) the answer's a=setup is active or passive, never actpass
	if ansSetup != "active" && ansSetup != "passive" {
		return obs, Fail("answer-setup-"+ansSetup+"-"+cell, "answer a=setup is "+ansSetup)
	}
	// (2) exactly one ICE controlling agent, the one RFC 8445 6.1.1 names: with
	// exactly one lite agent the full agent, otherwise the offerer
	wantA, wantB := c13Controlling, c13Controlled
	if c.LiteA && !c.LiteB {
		wantA, wantB = c13Controlled, c13Controlling
	}
	if (iceA == c13Controlling) == (iceB == c13Controlling) {
		return obs, Fail("ice-not-exactly-one-controlling-"+cell, fmt.Sprintf("ICE roles offerer=%d answerer=%d", iceA, iceB))
	}
	if iceA != wantA || iceB != wantB {
		return obs, Fail("ice-controlling-agent-not-rfc8445-"+cell, fmt.Sprintf("ICE roles offerer=%d answerer=%d, RFC 8445 6.1.1 says %d/%d", iceA, iceB, wantA, wantB))
	}
	// (3) opposite DTLS roles, consistent with the exchanged a=setup values
	isRole := func(r int) bool { return r == c13Client || r == c13Server }
	if !isRole(dtlsA) || !isRole(dtlsB) {
		return obs, Fail("dtls-role-undetermined-"+cell, fmt.Sprintf("DTLS roles offerer=%d answerer=%d", dtlsA, dtlsB))
	}
	if dtlsA == dtlsB {
		which := "client"
		if dtlsA == c13Server {
			which = "server"
		}
		return obs, Fail("dtls-both-"+which+"-"+cell, fmt.Sprintf("both ends take DTLS role %s (answer a=setup:%s)", which, ansSetup))
	}
	wantOf := func(setup string) int {
		switch setup {
		case "active":
			return c13Client
		case "passive":
			return c13Server
		}
		return 0
	}
	if w := wantOf(ansSetup); w != 0 && dtlsB != w {
		return obs, Fail("dtls-answerer-role-contradicts-its-answer-"+cell, fmt.Sprintf("answer says %s, answerer takes %d", ansSetup, dtlsB))
	}
	if w := wantOf(c13SetupNames[c.Setup]); w != 0 && dtlsA != w {
		return obs, Fail("dtls-offerer-role-contradicts-its-offer-"+cell, fmt.Sprintf("offer says %s, offerer takes %d", c13SetupNames[c.Setup], dtlsA))
	}
	v := Pass(class, true)
	v.Key = cell
	return obs, v
}

// ---- connected mode (thorough tier): the same cells with real ICE and DTLS
// over loopback.  Two ICE-lite agents never send connectivity checks, so the
// lite/lite cells are left out.

func c13ConnAPI(lite bool, role int) *webrtc.API {
	se := webrtc.SettingEngine{}
	se.SetICEMulticastDNSMode(0 + 1)
	se.SetNetworkTypes([]webrtc.NetworkType{webrtc.NetworkTypeUDP4})
	se.SetInterfaceFilter(func(n string) bool { return n == "lo" })
	se.SetIncludeLoopbackCandidate(true)
	se.SetLite(lite)
	switch role {
	case 1:
		_ = se.SetAnsweringDTLSRole(webrtc.DTLSRoleClient)
	case 2:
		_ = se.SetAnsweringDTLSRole(webrtc.DTLSRoleServer)
	}
	return webrtc.NewAPI(webrtc.WithSettingEngine(se))
}

func c13ConnCells() []c13Cell {
	var out []c13Cell
	for _, la := range []bool{false, true} {
		for _, lb := range []bool{false, true} {
			if la && lb {
				continue
			}
			for role := 0; role < 3; role++ {
				for setup := 0; setup < 4; setup++ {
					out = append(out, c13Cell{la, lb, role, setup, 0})
				}
			}
		}
	}
	return out
}

func c13ConnRun(c c13Cell) (V, Verdict) {
	signalOnly(false)
	must := func(err error) {
		if err != nil {
			panic(err)
		}
	}
	cell := fmt.Sprintf("liteA%d-liteB%d-role-%s-offer-%s", b2i(c.LiteA), b2i(c.LiteB), c13RoleNames[c.Role], c13SetupNames[c.Setup])
	pcA, err := c13ConnAPI(c.LiteA, 0).NewPeerConnection(webrtc.Configuration{})
	must(err)
	defer pcA.Close() //nolint
	pcB, err := c13ConnAPI(c.LiteB, c.Role).NewPeerConnection(webrtc.Configuration{})
	must(err)
	defer pcB.Close() //nolint
	connected := make(chan struct{}, 4)
	watch := func(pc *webrtc.PeerConnection) {
		pc.OnConnectionStateChange(func(s webrtc.PeerConnectionState) {
			if s == webrtc.PeerConnectionStateConnected {
				connected <- struct{}{}
			}
		})
	}
	watch(pcA)
	watch(pcB)
	_, err = pcA.CreateDataChannel("d", nil)
	must(err)
	offer, err := pcA.CreateOffer(nil)
	must(err)
	ga := webrtc.GatheringCompletePromise(pcA)
	must(pcA.SetLocalDescription(offer))
	<-ga
	munged := webrtc.SessionDescription{Type: webrtc.SDPTypeOffer, SDP: c13MungeSetup(pcA.LocalDescription().SDP, c.Setup)}
	must(pcB.SetRemoteDescription(munged))
	answer, err := pcB.CreateAnswer(nil)
	must(err)
	gb := webrtc.GatheringCompletePromise(pcB)
	must(pcB.SetLocalDescription(answer))
	<-gb
	ansSetups, err := c13Setups(answer)
	must(err)
	must(pcA.SetRemoteDescription(*pcB.LocalDescription()))
	deadline := time.After(12 * time.Second)
	for n := 0; n < 2; {
		select {
		case <-connected:
			n++
		case <-deadline:
			return VS("not-connected"), Fail("no-connection-"+cell,
				fmt.Sprintf("states after 12 s: offerer %s, answerer %s (answer a=setup:%s)", pcA.ConnectionState(), pcB.ConnectionState(), ansSetups[0]))
		}
	}
	iceA := int(pcA.SCTP().Transport().ICETransport().Role())
	iceB := int(pcB.SCTP().Transport().ICETransport().Role())
	dtlsA, dtlsB := int(pcA.VerifDTLSRoleLive()), int(pcB.VerifDTLSRoleLive())
	obs := VL{VS(ansSetups[0]), VZ(iceA), VZ(iceB), VZ(dtlsA), VZ(dtlsB)}
	if dtlsA == dtlsB || (iceA == c13Controlling) == (iceB == c13Controlling) {
		return obs, Fail("connected-with-equal-roles-"+cell, fmt.Sprintf("ice %d/%d dtls %d/%d", iceA, iceB, dtlsA, dtlsB))
	}
	v := Pass(fmt.Sprintf("connected/role-%s/offer-%s", c13RoleNames[c.Role], c13SetupNames[c.Setup]), true)
	v.Key = cell
	return obs, v
}

func b2i(b bool) int {
	if b {
		return 1
	}
	return 0
}

func c13Coq(c c13Cell) string {
	return fmt.Sprintf("(%s, %s, %d, %d)", CoqBool(c.LiteA), CoqBool(c.LiteB), c.Role, c.Setup)
}

// setter suite: SettingEngine.SetAnsweringDTLSRole accepts client and server only
func c13SetterRun(r int) (V, Verdict) {
	se := webrtc.SettingEngine{}
	err := se.SetAnsweringDTLSRole(webrtc.DTLSRole(r))
	accepted := err == nil
	want := r == c13Client || r == c13Server
	cr := webrtc.VerifConnectionRoleFromDTLSRole(webrtc.DTLSRole(r)).String()
	obs := VL{VB(accepted), VS(cr)}
	if accepted != want {
		return obs, Fail("answering-role-setter-accepts-non-role", fmt.Sprintf("SetAnsweringDTLSRole(%d) accepted=%v", r, accepted))
	}
	v := Pass(fmt.Sprintf("accepted-%v", accepted), true)
	return obs, v
}

func init() {
	signalOnly(true)
	verifhook.InstallNote(func(name string, who any, vals []int) {
		if name != "pc.startTransports" {
			return
		}
		if pc, ok := who.(*webrtc.PeerConnection); ok {
			c13Mu.Lock()
			c13Notes[pc] = append([]int(nil), vals...)
			c13Mu.Unlock()
		}
	})
	Register(Spec[c13Cell]{
		ID: "C13", Suite: "cells", CoqImports: []string{"Check.C13"},
		CoqType: "bool * bool * Z * Z", CoqRun: "Check.C13.run",
		Parallel: 8,
		Corpus: func() []c13Cell {
			// the cells design-phase reading predicted to fail (kept as regression witnesses)
			var out []c13Cell
			for _, la := range []bool{false, true} {
				for _, lb := range []bool{false, true} {
					out = append(out, c13Cell{la, lb, 1, 1, 1}, c13Cell{la, lb, 2, 2, 1})
				}
			}
			return append(out, c13Cell{true, false, 0, 2, 1})
		},
		Exhaustive: func() []c13Cell {
			var out []c13Cell
			for shape := 0; shape < 3; shape++ {
				for _, la := range []bool{false, true} {
					for _, lb := range []bool{false, true} {
						for role := 0; role < 3; role++ {
							for setup := 0; setup < 4; setup++ {
								out = append(out, c13Cell{la, lb, role, setup, shape})
							}
						}
					}
				}
			}
			return out
		},
		Run: c13Run, Coq: c13Coq,
	})
	Register(Spec[c13Cell]{
		ID: "C13", Suite: "connected", CoqImports: []string{"Check.C13"},
		CoqType: "bool * bool * Z * Z", CoqRun: "Check.C13.run",
		Quick: 1, Thorough: 36, Parallel: 6, Timeout: 40 * time.Second,
		Gen: func(r *Rand, i int) c13Cell { cells := c13ConnCells(); return cells[i%len(cells)] },
		Run: c13ConnRun, Coq: c13Coq,
	})
	Register(Spec[int]{
		ID: "C13", Suite: "setter", CoqImports: []string{"Check.C13"},
		CoqType: "Z", CoqRun: "Check.C13.run_setter",
		Exhaustive: func() []int { return []int{0, 1, 2, 3, 4} },
		Run:        c13SetterRun,
		Coq:        func(r int) string { return fmt.Sprintf("%d", r) },
	})
}
