//go:build verif_c15

package main

import (
	"errors"
	"fmt"
	"strconv"
	"strings"

	"github.com/pion/sdp/v3"
	"github.com/pion/webrtc/v4"
	"github.com/pion/webrtc/v4/internal/fmtp"
)

// C15: after a remote description is applied the negotiated codecs are the
// offered ones that a registered codec matches; remote payload types; exact
// before partial; feedback intersection; payload lookup in the negotiated set
// first.

type c15Case struct {
	Video  []cdc    `json:"video"` // RegisterCodec calls, in order
	Audio  []cdc    `json:"audio"`
	Multi  bool     `json:"multi"` // negotiateMultiCodecs (PeerConnection default: true)
	Descs  [][]rsec `json:"descs"` // remote descriptions applied in turn
	Probes []uint8  `json:"probes"`
}

type c15Parsed struct {
	kind   int
	codecs []cdc
	err    error
}

// sections of one description as the real codecsFromMediaDescription reads them
func c15Parse(secs []rsec) ([]*sdp.MediaDescription, []c15Parsed) {
	mds := make([]*sdp.MediaDescription, len(secs))
	ps := make([]c15Parsed, len(secs))
	for i, s := range secs {
		mds[i] = s.media()
		got, err := webrtc.VerifCodecsFromMediaDescription(mds[i])
		ps[i] = c15Parsed{kind: kindZ(s.Kind), codecs: cdcsOf(got), err: err}
	}
	return mds, ps
}

func c15ErrClass(err error) string {
	var ne *strconv.NumError
	switch {
	case err == nil:
		return "ok"
	case errors.Is(err, webrtc.ErrCodecAlreadyRegistered):
		return "codec-already-registered"
	case errors.As(err, &ne):
		return "parse-apt"
	}
	return "other:" + err.Error()
}

// ----- the direct oracle's own reading of "matched exactly / partially" -----

func c15Exact(a, b cdc) bool {
	return fmtp.Parse(a.Mime, a.Clock, a.Ch, a.Line).Match(fmtp.Parse(b.Mime, b.Clock, b.Ch, b.Line))
}

func c15DefClock(m string) uint32 { return fmtpDefaultClockFor(m) }

func c15Partial(a, b cdc) bool {
	if !strings.EqualFold(a.Mime, b.Mime) {
		return false
	}
	ca, cb := a.Clock, b.Clock
	if ca == 0 {
		ca = c15DefClock(a.Mime)
	}
	if cb == 0 {
		cb = c15DefClock(a.Mime)
	}
	if ca != cb {
		return false
	}
	ch := func(x uint16) uint16 {
		if x == 0 && strings.EqualFold(a.Mime, "audio/opus") {
			x = 2
		}
		if x == 0 {
			x = 1
		}
		return x
	}
	return ch(a.Ch) == ch(b.Ch)
}

func c15Run(c c15Case) (V, Verdict) {
	me := &webrtc.MediaEngine{}
	var verr, aerr VL
	for _, x := range c.Video {
		verr = append(verr, VB(me.RegisterCodec(x.params(), webrtc.RTPCodecTypeVideo) != nil))
	}
	for _, x := range c.Audio {
		aerr = append(aerr, VB(me.RegisterCodec(x.params(), webrtc.RTPCodecTypeAudio) != nil))
	}
	me.VerifSetMultiCodecNegotiation(c.Multi)
	local := map[int][]cdc{1: cdcsOf(me.VerifRegisteredCodecs(webrtc.RTPCodecTypeAudio)),
		2: cdcsOf(me.VerifRegisteredCodecs(webrtc.RTPCodecTypeVideo))}

	verdict := Pass("", false)
	fail := func(sig, what string) {
		if verdict.OK {
			verdict = Fail(sig, what)
		}
	}
	var errs VL
	var stale []string         // reported last: a known cause must not hide another failure of the same case
	offered := map[int][]cdc{} // every codec of every section handed to the engine, by kind
	anyErr := false
	nExact, nPartial := 0, 0
	for di, d := range c.Descs {
		mds, ps := c15Parse(d)
		for i, s := range d {
			if ps[i].err == nil && s.clean() {
				want := s.intended()
				if fmt.Sprint(want) != fmt.Sprint(ps[i].codecs) {
					fail("remote-codecs-misread", fmt.Sprintf("desc %d section %d: offered %v, read as %v", di, i, want, ps[i].codecs))
				}
			}
			offered[ps[i].kind] = append(offered[ps[i].kind], ps[i].codecs...)
		}
		before := map[int][]cdc{}
		for k := 1; k <= 2; k++ {
			_, l := me.VerifNegotiated(kindType(k))
			before[k] = cdcsOf(l)
		}
		err := me.VerifUpdateFromRemoteDescription(sdp.SessionDescription{MediaDescriptions: mds})
		errs = append(errs, VS(c15ErrClass(err)))
		if err != nil {
			anyErr = true
		}
		// clause "the remote's payload type is used", read for the description just
		// applied: a codec it offers (no apt parameter, payload type listed once in
		// its section) that a registered codec matches exactly is negotiated under
		// its payload type -- with its own fmtp line and the feedback both sides
		// share.  Sections reach the codec part of the loop with multi-codec
		// negotiation (the PeerConnection default).
		if err == nil && c.Multi {
			for i := range d {
				k := ps[i].kind
				if ps[i].err != nil || (k != 1 && k != 2) {
					continue
				}
				_, l := me.VerifNegotiated(kindType(k))
				now := cdcsOf(l)
				for _, rc := range ps[i].codecs {
					if _, isApt := c15HasApt(rc); isApt {
						continue
					}
					times := 0
					for _, o := range ps[i].codecs {
						if o.PT == rc.PT {
							times++
						}
					}
					var first *cdc
					for j := range local[k] {
						if c15Exact(rc, local[k][j]) {
							first = &local[k][j]
							break
						}
					}
					if times != 1 || first == nil {
						continue
					}
					var n *cdc
					for j := range now {
						if now[j].PT == rc.PT {
							n = &now[j]
							break
						}
					}
					if n == nil {
						fail("exactly-matched-offered-codec-not-negotiated", fmt.Sprintf("desc %d section %d: %v matches registered %v exactly; negotiated: %v", di, i, rc, *first, now))
						continue
					}
					var want [][2]string
					for _, f := range first.FB {
						for _, g := range rc.FB {
							if f == g {
								want = append(want, f)
								break
							}
						}
					}
					if !n.sameButFB(rc) || fmt.Sprint(want) != fmt.Sprint(n.FB) {
						stale = append(stale, fmt.Sprintf("desc %d section %d offers %v (matches registered %v exactly, shared feedback %v), applied without error; payload type %d stays negotiated as %v", di, i, rc, *first, want, rc.PT, *n))
					}
				}
			}
		}
		// clause "exact matches are preferred over partial ones", per section whose
		// codecs were all added in this call: evaluated on what this description added
		for k := 1; k <= 2; k++ {
			_, l := me.VerifNegotiated(kindType(k))
			after := cdcsOf(l)
			added := after[len(before[k]):]
			// sections of this kind in this description
			var secs [][]cdc
			for i := range d {
				if ps[i].kind == k && ps[i].err == nil {
					secs = append(secs, ps[i].codecs)
				}
			}
			for _, a := range added {
				if _, isApt := c15HasApt(a); isApt {
					continue
				}
				aExact := false
				for _, l := range local[k] {
					aExact = aExact || c15Exact(a, l)
				}
				if aExact {
					nExact++
					continue
				}
				nPartial++
				// a was taken on a partial match: allowed only if some section of this
				// description that lists it has no exactly matching codec
				listed, excused := false, false
				witness := ""
				for _, sc := range secs {
					here := false
					for _, rc := range sc {
						here = here || rc.sameButFB(a)
					}
					if !here {
						continue
					}
					listed = true
					hasExact := false
					for _, rc := range sc {
						if _, isApt := c15HasApt(rc); isApt {
							continue
						}
						for _, l := range local[k] {
							if c15Exact(rc, l) {
								hasExact = true
								witness = fmt.Sprintf("offered %v matches registered %v exactly", rc, l)
							}
						}
					}
					excused = excused || !hasExact
				}
				if listed && !excused {
					fail("partial-match-negotiated-beside-exact",
						fmt.Sprintf("kind %d: %v negotiated on a partial match although %s", k, a, witness))
				}
			}
		}
	}

	negV, nv := me.VerifNegotiated(webrtc.RTPCodecTypeVideo)
	negA, na := me.VerifNegotiated(webrtc.RTPCodecTypeAudio)
	neg := map[int][]cdc{1: cdcsOf(na), 2: cdcsOf(nv)}
	negFlag := map[int]bool{1: negA, 2: negV}

	for k := 1; k <= 2; k++ {
		for _, n := range neg[k] {
			// offered by the remote, under the remote's payload type
			var src *cdc
			for i := range offered[k] {
				if offered[k][i].sameButFB(n) {
					src = &offered[k][i]
					break
				}
			}
			if src == nil {
				fail("negotiated-codec-not-offered", fmt.Sprintf("kind %d: %v is not a codec of any offered section of that kind", k, n))
				continue
			}
			// matched exactly or partially by a registered codec
			var first *cdc
			for i := range local[k] {
				if c15Exact(n, local[k][i]) {
					first = &local[k][i]
					break
				}
			}
			if first == nil {
				for i := range local[k] {
					if c15Partial(local[k][i], n) {
						first = &local[k][i]
						break
					}
				}
			}
			if first == nil {
				fail("negotiated-codec-not-matched-locally", fmt.Sprintf("kind %d: %v matches no registered codec", k, n))
				continue
			}
			// feedback: both sides
			apt, isApt := c15HasApt(n)
			for _, f := range n.FB {
				inRemote := false
				for i := range offered[k] {
					if offered[k][i].sameButFB(n) {
						for _, g := range offered[k][i].FB {
							inRemote = inRemote || g == f
						}
					}
				}
				inLocal := false
				for _, l := range local[k] {
					for _, g := range l.FB {
						inLocal = inLocal || g == f
					}
				}
				if !inRemote || !inLocal {
					fail("feedback-outside-intersection", fmt.Sprintf("kind %d: %v carries feedback %v (remote has it: %v, a registered codec has it: %v)", k, n, f, inRemote, inLocal))
				}
			}
			if !isApt {
				// = registered codec's feedback filtered by membership in the offer's, in registered order.
				// The same codec may be offered twice (same payload type in two sections); any of them may be the source.
				ok := false
				for i := range offered[k] {
					if !offered[k][i].sameButFB(n) {
						continue
					}
					var want [][2]string
					for _, f := range first.FB {
						for _, g := range offered[k][i].FB {
							if f == g {
								want = append(want, f)
								break
							}
						}
					}
					ok = ok || fmt.Sprint(want) == fmt.Sprint(n.FB)
				}
				if !ok {
					fail("feedback-not-the-intersection", fmt.Sprintf("kind %d: %v: registered %v, offered %v", k, n.FB, first.FB, src.FB))
				}
			} else {
				// an RTX-like entry: its apt names a negotiated payload type
				p, err := strconv.ParseUint(apt, 10, 8)
				found := false
				for _, m := range neg[k] {
					found = found || (err == nil && uint64(m.PT) == p)
				}
				if !found {
					fail("negotiated-rtx-without-negotiated-primary", fmt.Sprintf("kind %d: %v: apt %q names no negotiated payload type", k, n, apt))
				}
			}
		}
	}

	// payload lookup: negotiated set before the registered one
	var probes VL
	for _, p := range c.Probes {
		got, typ, err := me.VerifCodecByPayload(webrtc.PayloadType(p))
		if err != nil {
			probes = append(probes, VL{VS("codec-not-found")})
		} else {
			probes = append(probes, VL{VS("ok"), vcodec(cdcOf(got)), VZ(int64(typ))})
		}
		var inNeg *cdc
		for _, k := range []int{2, 1} {
			if !negFlag[k] {
				continue
			}
			for i := range neg[k] {
				if neg[k][i].PT == p && inNeg == nil {
					inNeg = &neg[k][i]
				}
			}
		}
		if inNeg != nil {
			okv := err == nil
			if okv {
				g := cdcOf(got)
				okv = false
				for _, k := range []int{1, 2} {
					for _, n := range neg[k] {
						okv = okv || (negFlag[k] && fmt.Sprint(n) == fmt.Sprint(g))
					}
				}
			}
			if !okv {
				fail("payload-resolved-outside-negotiated-set", fmt.Sprintf("pt %d is negotiated as %v but resolves to %v (err %v)", p, *inNeg, got, err))
			}
		}
	}

	obs := VL{verr, aerr, errs, VB(negV), VB(negA), vcodecs(neg[2]), vcodecs(neg[1]),
		vcodecs(cdcsOf(me.VerifCodecsByKind(webrtc.RTPCodecTypeVideo))),
		vcodecs(cdcsOf(me.VerifCodecsByKind(webrtc.RTPCodecTypeAudio))), probes}

	n := len(neg[1]) + len(neg[2])
	cls := "none"
	switch {
	case anyErr:
		cls = "error"
	case nExact > 0 && nPartial > 0:
		cls = "exact+partial"
	case nExact > 0:
		cls = "exact"
	case nPartial > 0:
		cls = "partial"
	case n > 0:
		cls = "apt-only"
	}
	if verdict.OK && len(stale) > 0 {
		verdict = Fail("renegotiated-pt-keeps-earlier-parameters", stale[0])
	}
	if verdict.OK {
		verdict.Class = fmt.Sprintf("%s/descs%d", cls, len(c.Descs))
		verdict.NonTrivial = n > 0
	}
	return obs, verdict
}

func c15Coq(c c15Case) string {
	if !cdcsASCII(c.Video) || !cdcsASCII(c.Audio) {
		return ""
	}
	var ds []string
	for _, d := range c.Descs {
		_, ps := c15Parse(d)
		var secs []string
		for _, p := range ps {
			if p.err != nil || !cdcsASCII(p.codecs) {
				return "" // a section the SDP layer rejects is outside the model
			}
			secs = append(secs, fmt.Sprintf("(%d, %s)", p.kind, coqCodecs(p.codecs)))
		}
		ds = append(ds, CoqList(secs))
	}
	pr := make([]string, len(c.Probes))
	for i, p := range c.Probes {
		pr[i] = coqN(uint64(p))
	}
	return fmt.Sprintf("(%s, %s, %s, %s, %s)", coqCodecs(c.Video), coqCodecs(c.Audio), CoqBool(c.Multi), CoqList(ds), CoqList(pr))
}

// ---------- generation ----------

func c15GenDesc(r *Rand, video, audio []cdc, remap bool) []rsec {
	var secs []rsec
	n := r.Range(1, 3)
	for i := 0; i < n; i++ {
		switch r.Intn(10) {
		case 0:
			secs = append(secs, rsec{Kind: Pick(r, []string{"application", "text"})})
		case 1, 2, 3:
			secs = append(secs, rsec{Kind: Pick(r, []string{"audio", "audio", "AUDIO"}), Codecs: genOffer(r, "audio", audio, remap)})
		default:
			secs = append(secs, rsec{Kind: Pick(r, []string{"video", "video", "video", "Video"}), Codecs: genOffer(r, "video", video, remap)})
		}
	}
	return secs
}

func c15Gen(r *Rand, _ int) c15Case {
	c := c15Case{Video: genLocalTable(r, "video", 4), Audio: genLocalTable(r, "audio", 3), Multi: !r.Chance(1, 4)}
	remap := r.Chance(3, 5)
	nd := 1
	if r.Chance(1, 3) {
		nd = 2
	}
	for i := 0; i < nd; i++ {
		c.Descs = append(c.Descs, c15GenDesc(r, c.Video, c.Audio, remap))
	}
	seen := map[uint8]bool{}
	add := func(p uint8) {
		if !seen[p] && len(c.Probes) < 8 {
			seen[p] = true
			c.Probes = append(c.Probes, p)
		}
	}
	for _, d := range c.Descs {
		for _, s := range d {
			for _, x := range s.Codecs {
				if r.Chance(1, 2) {
					add(x.PT)
				}
			}
		}
	}
	for _, x := range c.Video {
		if r.Chance(1, 2) {
			add(x.PT)
		}
	}
	for _, x := range c.Audio {
		if r.Chance(1, 2) {
			add(x.PT)
		}
	}
	add(uint8(r.Intn(128)))
	return c
}

func c15Shrink(c c15Case) []c15Case {
	var out []c15Case
	cp := func() c15Case {
		x := c
		x.Video = append([]cdc{}, c.Video...)
		x.Audio = append([]cdc{}, c.Audio...)
		x.Probes = append([]uint8{}, c.Probes...)
		x.Descs = make([][]rsec, len(c.Descs))
		for i, d := range c.Descs {
			x.Descs[i] = make([]rsec, len(d))
			for j, s := range d {
				x.Descs[i][j] = rsec{Kind: s.Kind, Codecs: append([]rcodec{}, s.Codecs...), Exts: s.Exts}
			}
		}
		return x
	}
	for i := range c.Descs {
		if len(c.Descs) > 1 {
			x := cp()
			x.Descs = append(x.Descs[:i], x.Descs[i+1:]...)
			out = append(out, x)
		}
		for j := range c.Descs[i] {
			if len(c.Descs[i]) > 1 {
				x := cp()
				x.Descs[i] = append(x.Descs[i][:j], x.Descs[i][j+1:]...)
				out = append(out, x)
			}
			for k := range c.Descs[i][j].Codecs {
				x := cp()
				x.Descs[i][j].Codecs = append(x.Descs[i][j].Codecs[:k], x.Descs[i][j].Codecs[k+1:]...)
				out = append(out, x)
			}
			for k := range c.Descs[i][j].Codecs {
				if len(c.Descs[i][j].Codecs[k].FB) > 0 {
					x := cp()
					x.Descs[i][j].Codecs[k].FB = nil
					out = append(out, x)
				}
			}
		}
	}
	for i := range c.Video {
		x := cp()
		x.Video = append(x.Video[:i], x.Video[i+1:]...)
		out = append(out, x)
	}
	for i := range c.Audio {
		x := cp()
		x.Audio = append(x.Audio[:i], x.Audio[i+1:]...)
		out = append(out, x)
	}
	for i := range c.Probes {
		x := cp()
		x.Probes = append(x.Probes[:i], x.Probes[i+1:]...)
		out = append(out, x)
	}
	return out
}

func c15Corpus() []c15Case {
	fbv := [][2]string{{"goog-remb", ""}, {"ccm", "fir"}, {"nack", ""}, {"nack", "pli"}}
	vp8 := cdc{Mime: "video/VP8", Clock: 90000, FB: fbv, PT: 96}
	rtx := cdc{Mime: "video/rtx", Clock: 90000, Line: "apt=96", PT: 97}
	h264 := cdc{Mime: "video/H264", Clock: 90000, Line: "level-asymmetry-allowed=1;packetization-mode=1;profile-level-id=42001f", FB: fbv, PT: 102}
	h264rtx := cdc{Mime: "video/rtx", Clock: 90000, Line: "apt=102", PT: 103}
	opus := cdc{Mime: "audio/opus", Clock: 48000, Ch: 2, Line: "minptime=10;useinbandfec=1", PT: 111}
	return []c15Case{
		// remapped payload types, RTX listed before its primary, feedback subset
		{Video: []cdc{vp8, rtx, h264, h264rtx}, Audio: []cdc{opus}, Multi: true, Probes: []uint8{96, 100, 101, 120, 111, 109},
			Descs: [][]rsec{{
				{Kind: "video", Codecs: []rcodec{
					{Name: "rtx", Clock: 90000, Line: "apt=100", PT: 101},
					{Name: "VP8", Clock: 90000, PT: 100, FB: [][2]string{{"nack", "pli"}, {"transport-cc", ""}, {"nack", ""}}},
					{Name: "H264", Clock: 90000, Line: "packetization-mode=1;profile-level-id=42e01f", PT: 120},
					{Name: "rtx", Clock: 90000, Line: "apt=120", PT: 121}}},
				{Kind: "audio", Codecs: []rcodec{{Name: "OPUS", Clock: 48000, Ch: 2, Line: "useinbandfec=1", PT: 109}}},
			}}},
		// only partial matches; second description re-offers with another payload type
		{Video: []cdc{h264, h264rtx}, Multi: true, Probes: []uint8{102, 103, 98, 99},
			Descs: [][]rsec{
				{{Kind: "video", Codecs: []rcodec{{Name: "H264", Clock: 90000, Line: "packetization-mode=1;profile-level-id=640032", PT: 98},
					{Name: "rtx", Clock: 90000, Line: "apt=98", PT: 99}}}},
				{{Kind: "video", Codecs: []rcodec{{Name: "VP8", Clock: 90000, PT: 98}, {Name: "H264", Clock: 90000, Line: "packetization-mode=1;profile-level-id=42001f", PT: 98}}}},
			}},
		// payload type clash with an already negotiated codec in a later section
		{Video: []cdc{vp8, h264}, Multi: true, Probes: []uint8{96},
			Descs: [][]rsec{{
				{Kind: "video", Codecs: []rcodec{{Name: "VP8", Clock: 90000, PT: 96}}},
				{Kind: "video", Codecs: []rcodec{{Name: "H264", Clock: 90000, Line: "packetization-mode=1;profile-level-id=42001f", PT: 96}}},
			}}},
		// renegotiation under the same payload type with another fmtp line and less
		// feedback: accepted without error, the first description's entry stays
		// (finding renegotiated-pt-keeps-earlier-parameters; c15_current_binding_refuted)
		{Video: []cdc{
			{Mime: "video/H264", Clock: 90000, Line: "packetization-mode=1;profile-level-id=42e01f", FB: [][2]string{{"nack", ""}, {"nack", "pli"}}, PT: 102},
			{Mime: "video/H264", Clock: 90000, Line: "packetization-mode=0;profile-level-id=42e01f", FB: [][2]string{{"nack", ""}, {"nack", "pli"}}, PT: 104}},
			Multi: true, Probes: []uint8{102, 104},
			Descs: [][]rsec{
				{{Kind: "video", Codecs: []rcodec{{Name: "H264", Clock: 90000, Line: "packetization-mode=1;profile-level-id=42e01f", FB: [][2]string{{"nack", ""}, {"nack", "pli"}}, PT: 102}}}},
				{{Kind: "video", Codecs: []rcodec{{Name: "H264", Clock: 90000, Line: "packetization-mode=0;profile-level-id=42e01f", FB: [][2]string{{"nack", ""}}, PT: 102}}}},
			}},
		// malformed apt
		{Video: []cdc{vp8, rtx}, Multi: true, Probes: []uint8{96, 97},
			Descs: [][]rsec{{{Kind: "video", Codecs: []rcodec{{Name: "VP8", Clock: 90000, PT: 96}, {Name: "rtx", Clock: 90000, Line: "apt=x", PT: 97}}}}}},
	}
}

// ---------- fuzzy suite ----------

type c15Fuzzy struct {
	Needle cdc   `json:"needle"`
	Hay    []cdc `json:"hay"`
}

func c15FuzzyRun(c c15Fuzzy) (V, Verdict) {
	got, mt := webrtc.VerifFuzzySearch(c.Needle.params(), paramsOf(c.Hay))
	g := cdcOf(got)
	v := Pass(fmt.Sprintf("mt%d", mt), mt != 0)
	// direct: exact means the first exactly matching entry, partial the first
	// entry equal in mime/clock/channels when no entry matches exactly
	want, wmt := cdc{}, 0
	for _, h := range c.Hay {
		if c15Exact(c.Needle, h) {
			want, wmt = h, 2
			break
		}
	}
	if wmt == 0 {
		for _, h := range c.Hay {
			if c15Partial(h, c.Needle) {
				want, wmt = h, 1
				break
			}
		}
	}
	if wmt != mt || fmt.Sprint(want) != fmt.Sprint(g) {
		v = Fail("fuzzy-search-not-first-exact-else-first-partial", fmt.Sprintf("got %d %v, want %d %v", mt, g, wmt, want))
	}
	return VL{VZ(int64(mt)), vcodec(g)}, v
}

func init() {
	imports := []string{"Common.CodecUtil", "Check.CodecIO", "Check.C15"}
	Register(Spec[c15Case]{
		ID: "C15", Suite: "engine", CoqImports: imports,
		CoqType: "list codec_in * list codec_in * bool * list Check.C15.desc_in * list N", CoqRun: "Check.C15.run",
		Quick: 1500, Thorough: 14000, Parallel: 8,
		Corpus: c15Corpus, Gen: c15Gen, Run: c15Run, Coq: c15Coq, Shrink: c15Shrink,
	})
	Register(Spec[c15Fuzzy]{
		ID: "C15", Suite: "fuzzy", CoqImports: imports,
		CoqType: "codec_in * list codec_in", CoqRun: "Check.C15.run_fuzzy",
		Quick: 1200, Thorough: 14000, Parallel: 8,
		Gen: func(r *Rand, _ int) c15Fuzzy {
			kind := Pick(r, []string{"video", "video", "audio"})
			hay := genLocalTable(r, kind, 4)
			off := genOffer(r, kind, hay, r.Bool())
			if len(off) == 0 {
				off = []rcodec{{Name: "VP8", Clock: 90000, PT: 96}}
			}
			o := Pick(r, off)
			n := cdc{Mime: kind + "/" + o.Name, Clock: o.Clock, Ch: o.Ch, Line: o.Line, FB: o.FB, PT: o.PT}
			if r.Chance(1, 6) {
				n.Clock = 0
			}
			return c15Fuzzy{Needle: n, Hay: hay}
		},
		Run: c15FuzzyRun,
		Coq: func(c c15Fuzzy) string {
			if !c.Needle.ascii() || !cdcsASCII(c.Hay) {
				return ""
			}
			return fmt.Sprintf("(%s, %s)", coqCodec(c.Needle), coqCodecs(c.Hay))
		},
	})
}
