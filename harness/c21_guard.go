//go:build verif_c21

package main

// C21 suite "guard": every API that changes negotiation state, called on an
// open connection, after Close / GracefulClose returned, and while a closer is
// parked inside close() (after its first block).  Property clause: "calls that
// would change negotiation state return an InvalidStateError".

import (
	"errors"
	"fmt"
	"time"

	"github.com/pion/webrtc/v4"
	"github.com/pion/webrtc/v4/pkg/rtcerr"
)

var c21APINames = []string{
	"CreateOffer", "CreateAnswer", "SetLocalDescription", "SetRemoteDescription",
	"AddTrack", "RemoveTrack", "AddTransceiverFromKind", "AddTransceiverFromTrack",
	"CreateDataChannel", "SetConfiguration", "AddICECandidate",
}

var c21ModeNames = []string{"open", "after-Close", "after-GracefulClose",
	"closer-parked-after-swap", "closer-parked-after-teardown", "graceful-closer-parked-before-graceful-ops"}

type c21GuardCase struct {
	API    int  `json:"api"`
	Mode   int  `json:"mode"`
	Remote bool `json:"remote"`
}

func c21Classify(err error) string {
	var ise *rtcerr.InvalidStateError
	if errors.As(err, &ise) {
		switch {
		case errors.Is(ise.Err, webrtc.ErrConnectionClosed):
			return "invalid-state:closed"
		case errors.Is(ise.Err, webrtc.ErrNoRemoteDescription):
			return "invalid-state:no-remote-description"
		}
		return "invalid-state:other"
	}
	return "proceeds"
}

func c21RunGuard(c c21GuardCase) (V, Verdict) {
	env := c21NewEnv(false)
	pc := env.pc
	track, err := webrtc.NewTrackLocalStaticSample(webrtc.RTPCodecCapability{MimeType: webrtc.MimeTypeVP8}, "video", "c21")
	if err != nil {
		panic(err)
	}
	track2, _ := webrtc.NewTrackLocalStaticSample(webrtc.RTPCodecCapability{MimeType: webrtc.MimeTypeVP8}, "video2", "c21")
	sender, err := pc.AddTrack(track)
	if err != nil {
		panic(err)
	}
	if _, err := pc.CreateDataChannel("before", nil); err != nil {
		panic(err)
	}
	// a remote offer, and a local description to hand to SetLocalDescription
	other := c21NewEnv(false)
	defer other.pc.Close()
	if _, err := other.pc.CreateDataChannel("o", nil); err != nil {
		panic(err)
	}
	if _, err := other.pc.AddTransceiverFromKind(webrtc.RTPCodecTypeVideo); err != nil {
		panic(err)
	}
	remoteOffer, err := other.pc.CreateOffer(nil)
	if err != nil {
		panic(err)
	}
	var local webrtc.SessionDescription
	if c.Remote {
		if err := pc.SetRemoteDescription(remoteOffer); err != nil {
			panic(err)
		}
		if local, err = pc.CreateAnswer(nil); err != nil {
			panic(err)
		}
	} else if local, err = pc.CreateOffer(nil); err != nil {
		panic(err)
	}

	var r *c21Runner
	switch c.Mode {
	case 1:
		_ = pc.Close()
	case 2:
		_ = pc.GracefulClose()
	case 3, 4, 5:
		r = c21NewRunner()
		tid := r.add("closer", func() {
			if c.Mode == 5 {
				_ = pc.GracefulClose()
			} else {
				_ = pc.Close()
			}
		})
		want := map[int]string{3: "parked:pc.close.swapped", 4: "parked:pc.close.torndown", 5: "parked:pc.close.graceful"}[c.Mode]
		for k := 0; k < 8; k++ {
			st, err := r.step(tid)
			if err != nil {
				r.close()
				return VS("stuck"), Fail("participant-stuck", err.Error())
			}
			if st == want {
				break
			}
			if st == "finished" || st == "disabled" {
				r.close()
				return VS("stuck"), Fail("participant-stuck", "closer never reached "+want)
			}
		}
	}
	nTrans, nSend := len(pc.GetTransceivers()), len(pc.GetSenders())
	sigBefore := pc.SignalingState()

	done := make(chan error, 1)
	go func() {
		var err error
		switch c.API {
		case 0:
			_, err = pc.CreateOffer(nil)
		case 1:
			_, err = pc.CreateAnswer(nil)
		case 2:
			err = pc.SetLocalDescription(local)
		case 3:
			err = pc.SetRemoteDescription(remoteOffer)
		case 4:
			_, err = pc.AddTrack(track2)
		case 5:
			err = pc.RemoveTrack(sender)
		case 6:
			_, err = pc.AddTransceiverFromKind(webrtc.RTPCodecTypeAudio)
		case 7:
			_, err = pc.AddTransceiverFromTrack(track2)
		case 8:
			_, err = pc.CreateDataChannel("after", nil)
		case 9:
			err = pc.SetConfiguration(webrtc.Configuration{})
		case 10:
			err = pc.AddICECandidate(webrtc.ICECandidateInit{Candidate: "candidate:1 1 udp 2130706431 127.0.0.1 50000 typ host"})
		}
		done <- err
	}()
	var apiErr error
	returned := true
	select {
	case apiErr = <-done:
	case <-time.After(10 * time.Second):
		returned = false
	}
	class := c21Classify(apiErr)
	verdict := Pass(fmt.Sprintf("%s/%s/remote=%v/%s", c21APINames[c.API], c21ModeNames[c.Mode], c.Remote, class), c.Mode != 0)
	switch {
	case !returned:
		verdict = Fail("api-call-hangs-during-close:"+c21APINames[c.API], "no return within 10 s in mode "+c21ModeNames[c.Mode])
	case c.Mode != 0:
		var ise *rtcerr.InvalidStateError
		if !errors.As(apiErr, &ise) {
			verdict = Fail("api-after-close-not-invalid-state:"+c21APINames[c.API],
				fmt.Sprintf("%s in mode %s (remote description: %v) returned %v", c21APINames[c.API], c21ModeNames[c.Mode], c.Remote, apiErr))
		} else if len(pc.GetTransceivers()) != nTrans || len(pc.GetSenders()) != nSend {
			verdict = Fail("api-after-close-changed-state:"+c21APINames[c.API], "transceiver or sender set changed")
		} else if (c.Mode == 1 || c.Mode == 2) && (pc.SignalingState() != webrtc.SignalingStateClosed || sigBefore != webrtc.SignalingStateClosed) {
			verdict = Fail("signaling-state-not-closed-after-close", pc.SignalingState().String())
		}
	}
	if r != nil {
		r.close()
	}
	_ = pc.Close()
	return VS(class), verdict
}

func init() {
	Register(Spec[c21GuardCase]{
		ID: "C21", Suite: "guard", CoqImports: []string{"Check.C21"},
		CoqType: "Z * bool * bool", CoqRun: "Check.C21.run_guard",
		Parallel: 1, Timeout: 60 * time.Second,
		Exhaustive: func() []c21GuardCase {
			var out []c21GuardCase
			for api := range c21APINames {
				for mode := range c21ModeNames {
					for _, remote := range []bool{false, true} {
						out = append(out, c21GuardCase{api, mode, remote})
					}
				}
			}
			return out
		},
		Run: c21RunGuard,
		Coq: func(c c21GuardCase) string {
			return fmt.Sprintf("(%d, %s, %s)", c.API, CoqBool(c.Mode != 0), CoqBool(c.Remote))
		},
	})
}
