//go:build verif_c30

package main

// C30: no remote input can crash the process.
//
// Walker suites (walk, recv, params, undecl): in-repo attribute walkers run
// through export wrappers on parsed descriptions and are compared with the
// explicit-Panic Gallina models (result class ok / err / panic and a
// projection of the value).  The direct oracle is the property itself: no
// panic, every call returned a value or an error.

import (
	"fmt"
	"io"
	"runtime/debug"
	"strings"

	"github.com/pion/interceptor"
	"github.com/pion/logging"
	"github.com/pion/sdp/v3"
	"github.com/pion/webrtc/v4"
)

// every log line is formatted and thrown away: the arguments of log calls are
// evaluated at any level, rendering them exercises the %d/%s paths too
type c30LogFactory struct{}

func (c30LogFactory) NewLogger(scope string) logging.LeveledLogger {
	return logging.NewDefaultLeveledLoggerForScope(scope, logging.LogLevelTrace, io.Discard)
}

// c30API: cheap PeerConnections; audio/video say which codecs are registered.
func c30API(audio, video, defaultInterceptors bool, mtu ...uint) *webrtc.API {
	me := &webrtc.MediaEngine{}
	if audio {
		_ = me.RegisterCodec(webrtc.RTPCodecParameters{
			RTPCodecCapability: webrtc.RTPCodecCapability{MimeType: webrtc.MimeTypeOpus, ClockRate: 48000, Channels: 2,
				SDPFmtpLine: "minptime=10;useinbandfec=1"},
			PayloadType: 111,
		}, webrtc.RTPCodecTypeAudio)
	}
	if video {
		fb := []webrtc.RTCPFeedback{{Type: "goog-remb"}, {Type: "ccm", Parameter: "fir"}, {Type: "nack"}, {Type: "nack", Parameter: "pli"}}
		_ = me.RegisterCodec(webrtc.RTPCodecParameters{
			RTPCodecCapability: webrtc.RTPCodecCapability{MimeType: webrtc.MimeTypeVP8, ClockRate: 90000, RTCPFeedback: fb},
			PayloadType:        96,
		}, webrtc.RTPCodecTypeVideo)
		_ = me.RegisterCodec(webrtc.RTPCodecParameters{
			RTPCodecCapability: webrtc.RTPCodecCapability{MimeType: webrtc.MimeTypeRTX, ClockRate: 90000, SDPFmtpLine: "apt=96"},
			PayloadType:        97,
		}, webrtc.RTPCodecTypeVideo)
		_ = me.RegisterCodec(webrtc.RTPCodecParameters{
			RTPCodecCapability: webrtc.RTPCodecCapability{MimeType: webrtc.MimeTypeH264, ClockRate: 90000, RTCPFeedback: fb,
				SDPFmtpLine: "level-asymmetry-allowed=1;packetization-mode=1;profile-level-id=42001f"},
			PayloadType: 102,
		}, webrtc.RTPCodecTypeVideo)
	}
	se := webrtc.SettingEngine{}
	se.SetICEMulticastDNSMode(0 + 1) // ice.MulticastDNSModeDisabled
	se.SetNetworkTypes([]webrtc.NetworkType{webrtc.NetworkTypeUDP4})
	se.SetInterfaceFilter(func(string) bool { return false })
	se.SetIncludeLoopbackCandidate(false)
	se.LoggerFactory = c30LogFactory{}
	if len(mtu) > 0 {
		se.SetReceiveMTU(mtu[0])
	}
	opts := []func(*webrtc.API){webrtc.WithSettingEngine(se), webrtc.WithMediaEngine(me)}
	if !defaultInterceptors {
		opts = append(opts, webrtc.WithInterceptorRegistry(&interceptor.Registry{}))
	} else {
		for _, uri := range []string{sdp.SDESMidURI, sdp.SDESRTPStreamIDURI, sdp.SDESRepairRTPStreamIDURI} {
			if audio {
				_ = me.RegisterHeaderExtension(webrtc.RTPHeaderExtensionCapability{URI: uri}, webrtc.RTPCodecTypeAudio)
			}
			if video {
				_ = me.RegisterHeaderExtension(webrtc.RTPHeaderExtensionCapability{URI: uri}, webrtc.RTPCodecTypeVideo)
			}
		}
	}
	return webrtc.NewAPI(opts...)
}

// c30Site names the innermost pion frame of a stack trace (the cause recorded
// in a finding signature).
func c30Site(stack string) string {
	lines := strings.Split(stack, "\n")
	for _, l := range lines {
		l = strings.TrimSpace(l)
		if !strings.HasPrefix(l, "github.com/pion/") {
			continue
		}
		if strings.Contains(l, "/verifharness") || strings.Contains(l, ".Verif") || strings.Contains(l, ".verifC30") {
			continue
		}
		if i := strings.LastIndex(l, "("); i > 0 {
			l = l[:i]
		}
		l = strings.TrimPrefix(l, "github.com/pion/")
		l = strings.NewReplacer("(*", "", ")", "", "/", ".", " ", "").Replace(l)
		return l
	}
	return "unknown-frame"
}

// c30Catch runs f; a panic becomes (class "panic", site).
func c30Catch(f func()) (panicked bool, site, msg string) {
	defer func() {
		if r := recover(); r != nil {
			panicked = true
			site = c30Site(string(debug.Stack()))
			msg = fmt.Sprint(r)
		}
	}()
	f()
	return false, "", ""
}

func c30Ok(v V) V       { return VL{VS("ok"), v} }
func c30Err(c string) V { return VL{VS("err"), VS(c)} }
func c30PanicV() V      { return VL{VS("panic")} }
func c30VStrs(xs []string) V {
	out := make(VL, len(xs))
	for i, x := range xs {
		out[i] = VS(x)
	}
	return out
}

type c30Acc struct {
	sig, what string
}

func (a *c30Acc) fail(sig, what string) {
	if a.sig == "" {
		a.sig, a.what = sig, what
	}
}

// run one walker: value or error class, panics caught and recorded
func c30Walker(acc *c30Acc, name string, f func() (V, error)) V {
	var v V
	var err error
	if p, site, msg := c30Catch(func() { v, err = f() }); p {
		acc.fail("panic-"+name+"-at-"+site, name+" panicked: "+msg)
		return c30PanicV()
	}
	if err != nil {
		c := webrtc.VerifC30ErrClass(err)
		if c == "other" {
			c = "candidate"
		}
		return c30Err(c)
	}
	return c30Ok(v)
}

func c30TrackV(t webrtc.VerifC30Track) V {
	opt := func(x int64) V {
		if x < 0 {
			return VL{}
		}
		return VL{VZ(x)}
	}
	return VL{VS(t.Mid), VZ(int64(t.Kind)), VS(t.StreamID), VS(t.ID), VInts(t.SSRCs), opt(t.RTX), opt(t.FEC), c30VStrs(t.RIDs)}
}

// ---------- suite walk ----------

type c30WalkIn struct {
	D       c30Desc `json:"d"`
	ViaText bool    `json:"via_text"`
	Origin  string  `json:"origin,omitempty"`
}

func c30WalkRun(in c30WalkIn) (V, Verdict) {
	s := c30Parse(in.D, in.ViaText)
	if s == nil {
		return VS("rejected-by-pion-sdp"), Pass("text-rejected", false)
	}
	acc := &c30Acc{}
	var tracks []webrtc.VerifC30Track
	tdV := c30Walker(acc, "trackDetailsFromSDP", func() (V, error) {
		tracks = webrtc.VerifC30TrackDetailsFromSDP(s)
		out := make(VL, len(tracks))
		for i, t := range tracks {
			out[i] = c30TrackV(t)
		}
		return out, nil
	})
	fpClass := "ok"
	fpV := c30Walker(acc, "extractFingerprint", func() (V, error) {
		fp, hash, err := webrtc.VerifC30ExtractFingerprint(s)
		if err != nil {
			fpClass = webrtc.VerifC30ErrClass(err)
		}
		return VL{VS(fp), VS(hash)}, err
	})
	bundleV := c30Walker(acc, "extractBundleID", func() (V, error) {
		return VS(webrtc.VerifC30ExtractBundleID(s)), nil
	})
	iceClass := "ok"
	iceV := c30Walker(acc, "extractICEDetails", func() (V, error) {
		u, p, n, err := webrtc.VerifC30ExtractICEDetails(s)
		if err != nil {
			iceClass = webrtc.VerifC30ErrClass(err)
			if iceClass == "other" {
				iceClass = "candidate"
			}
		}
		return VL{VS(u), VS(p), VZ(int64(n))}, err
	})
	planbV := c30Walker(acc, "descriptionIsPlanB", func() (V, error) {
		return VB(webrtc.VerifC30DescriptionIsPlanB(s)), nil
	})
	var possibly V = VB(false)
	if p, site, msg := c30Catch(func() { possibly = VB(webrtc.VerifC30DescriptionPossiblyPlanB(s)) }); p {
		acc.fail("panic-descriptionPossiblyPlanB-at-"+site, msg)
	}
	nrids := 0
	perMedia := make(VL, len(s.MediaDescriptions))
	for i, m := range s.MediaDescriptions {
		ridsV := c30Walker(acc, "getRids", func() (V, error) {
			rids := webrtc.VerifC30GetRids(m)
			nrids += len(rids)
			out := make(VL, len(rids))
			for k, r := range rids {
				out[k] = VL{VS(r.ID), VS(r.AttrValue), VB(r.Paused)}
			}
			return out, nil
		})
		dir := 0
		if p, site, msg := c30Catch(func() { dir = webrtc.VerifC30GetPeerDirection(m) }); p {
			acc.fail("panic-getPeerDirection-at-"+site, msg)
		}
		perMedia[i] = VL{ridsV, VZ(int64(dir))}
	}
	obs := VL{tdV, fpV, bundleV, iceV, planbV, possibly, perMedia}

	// direct oracle: no panic (above), and the shape every caller of
	// trackDetailsFromSDP relies on
	for _, t := range tracks {
		switch {
		case t.Mid == "" || (t.Kind != 1 && t.Kind != 2):
			acc.fail("track-without-mid-or-kind", fmt.Sprintf("%+v", t))
		case len(t.RIDs) == 0 && len(t.SSRCs) != 1:
			acc.fail("ssrc-track-without-exactly-one-ssrc", fmt.Sprintf("%+v", t))
		case len(t.RIDs) > 0 && len(t.SSRCs) != 0:
			acc.fail("rid-track-with-ssrc", fmt.Sprintf("%+v", t))
		}
	}
	if acc.sig != "" {
		return obs, Fail(acc.sig, acc.what)
	}
	nt := min(len(tracks), 3)
	v := Pass(fmt.Sprintf("tracks%d/rids%d/fp:%s/ice:%s", nt, min(nrids, 3), fpClass, iceClass),
		len(tracks) > 0 || nrids > 0 || fpClass == "ok" || iceClass == "ok")
	return obs, v
}

func c30WalkCoq(in c30WalkIn) string {
	s := c30Parse(in.D, in.ViaText)
	if s == nil || c30AmbiguousRepair(s) {
		return ""
	}
	d, ok := c30CoqDesc(s)
	if !ok {
		return ""
	}
	return d
}

func c30ShrinkDesc(d c30Desc) []c30Desc {
	var out []c30Desc
	for i := range d.Media {
		c := c30CloneDesc(d)
		c.Media = append(c.Media[:i:i], c.Media[i+1:]...)
		out = append(out, c)
	}
	for i := range d.Session {
		c := c30CloneDesc(d)
		c.Session = append(c.Session[:i:i], c.Session[i+1:]...)
		out = append(out, c)
	}
	for i := range d.Media {
		for j := range d.Media[i].Attrs {
			c := c30CloneDesc(d)
			c.Media[i].Attrs = append(c.Media[i].Attrs[:j:j], c.Media[i].Attrs[j+1:]...)
			out = append(out, c)
		}
	}
	return out
}

// ---------- suite recv: startRTPReceivers ----------

type c30RecvIn struct {
	Sem     int     `json:"sem"` // 0 unified, 1 plan-b, 2 unified with fallback
	D       c30Desc `json:"d"`
	Audio   bool    `json:"audio"`
	Video   bool    `json:"video"`
	ViaText bool    `json:"via_text"`
}

func c30Sem(i int) webrtc.SDPSemantics {
	switch i {
	case 1:
		return webrtc.SDPSemanticsPlanB
	case 2:
		return webrtc.SDPSemanticsUnifiedPlanWithFallback
	}
	return webrtc.SDPSemanticsUnifiedPlan
}

func c30RecvRun(in c30RecvIn) (V, Verdict) {
	s := c30Parse(in.D, in.ViaText)
	if s == nil {
		return VS("rejected-by-pion-sdp"), Pass("text-rejected", false)
	}
	pc, err := c30API(in.Audio, in.Video, false).NewPeerConnection(webrtc.Configuration{SDPSemantics: c30Sem(in.Sem)})
	if err != nil {
		panic(err)
	}
	defer func() { _ = pc.Close() }()
	ntracks := 0
	if p, site, msg := c30Catch(func() { ntracks = len(webrtc.VerifC30TrackDetailsFromSDP(s)) }); p {
		return c30PanicV(), Fail("panic-trackDetailsFromSDP-at-"+site, msg)
	}
	if p, site, msg := c30Catch(func() { pc.VerifC30StartRTPReceiversWith(s, webrtc.SDPTypeOffer) }); p {
		return c30PanicV(), Fail("panic-startRTPReceivers-at-"+site, msg)
	}
	kinds := VL{}
	for _, t := range pc.GetTransceivers() {
		kinds = append(kinds, VZ(int64(t.Kind())))
	}
	return c30Ok(kinds), Pass(fmt.Sprintf("sem%d/tracks%d/added%d", in.Sem, min(ntracks, 3), min(len(kinds), 3)), ntracks > 0)
}

func c30RecvCoq(in c30RecvIn) string {
	s := c30Parse(in.D, in.ViaText)
	if s == nil {
		return ""
	}
	d, ok := c30CoqDesc(s)
	if !ok {
		return ""
	}
	return fmt.Sprintf("(%d, %s, %s, %s)", in.Sem, d, CoqBool(in.Audio), CoqBool(in.Video))
}

// the design-round witness: a simulcast (rid-only) video section and no video
// codec registered, Plan-B semantics
func c30PlanBWitness() c30Desc {
	return c30Desc{Media: []c30Media{{
		Kind: "video", Port: 9, Proto: "UDP/TLS/RTP/SAVPF", Formats: []string{"96"},
		Attrs: []c30Attr{{"mid", "0"}, {"sendonly", ""}, {"msid", "s t"}, {"rid", "hi send"}, {"simulcast", "send hi"}},
	}}}
}

// ---------- suite params ----------

type c30ParamsIn struct {
	RIDs  []string `json:"rids"`
	SSRCs []uint32 `json:"ssrcs"`
	RTX   int64    `json:"rtx"`
	FEC   int64    `json:"fec"`
}

func c30ParamsRun(in c30ParamsIn) (V, Verdict) {
	var rows [][4]string
	if p, site, msg := c30Catch(func() {
		rows = webrtc.VerifC30ReceiveParameters(webrtc.VerifC30Track{Kind: 2, RIDs: in.RIDs, SSRCs: in.SSRCs, RTX: in.RTX, FEC: in.FEC})
	}); p {
		return c30PanicV(), Fail("panic-trackDetailsToRTPReceiveParameters-at-"+site, msg)
	}
	out := make(VL, len(rows))
	for i, r := range rows {
		var n [3]int64
		for k := 0; k < 3; k++ {
			fmt.Sscan(r[k+1], &n[k])
		}
		out[i] = VL{VS(r[0]), VZ(n[0]), VZ(n[1]), VZ(n[2])}
	}
	want := max(len(in.RIDs), len(in.SSRCs))
	if len(rows) != want {
		return c30Ok(out), Fail("encoding-count", fmt.Sprintf("%d encodings for %d rids and %d ssrcs", len(rows), len(in.RIDs), len(in.SSRCs)))
	}
	return c30Ok(out), Pass(fmt.Sprintf("rids%d/ssrcs%d", len(in.RIDs), len(in.SSRCs)), want > 0)
}

func c30ParamsCoq(in c30ParamsIn) string {
	rids := make([]string, len(in.RIDs))
	for i, r := range in.RIDs {
		if !c30Printable(r) {
			return ""
		}
		rids[i] = CoqString(r)
	}
	ss := make([]string, len(in.SSRCs))
	for i, s := range in.SSRCs {
		ss[i] = CoqZ(int64(s))
	}
	return fmt.Sprintf("(%s, %s, %s, %s)", CoqList(rids), CoqList(ss), CoqZ(in.RTX), CoqZ(in.FEC))
}

// ---------- suite undecl: handleUndeclaredSSRC ----------

type c30UndeclIn struct {
	M     c30Media `json:"m"`
	Audio bool     `json:"audio"`
	Video bool     `json:"video"`
}

func c30UndeclRun(in c30UndeclIn) (V, Verdict) {
	s := c30Desc{Media: []c30Media{in.M}}.Struct()
	pc, err := c30API(in.Audio, in.Video, false).NewPeerConnection(webrtc.Configuration{})
	if err != nil {
		panic(err)
	}
	defer func() { _ = pc.Close() }()
	var handled bool
	var herr error
	if p, site, msg := c30Catch(func() { handled, herr = pc.VerifC30HandleUndeclaredSSRC(4242, s.MediaDescriptions[0]) }); p {
		return c30PanicV(), Fail("panic-handleUndeclaredSSRC-at-"+site, msg)
	}
	if herr != nil {
		c := webrtc.VerifC30ErrClass(herr)
		if handled {
			return c30Err(c), Fail("handled-and-error", herr.Error())
		}
		return c30Err(c), Pass("err:"+c, true)
	}
	if !handled {
		return c30Ok(VL{VB(false), VZ(0), VS(""), VS("")}), Pass("not-handled", true)
	}
	trs := pc.GetTransceivers()
	if len(trs) != 1 || trs[0].Receiver() == nil || trs[0].Receiver().Track() == nil {
		return VS("no-transceiver"), Fail("handled-without-receiver", fmt.Sprint(len(trs)))
	}
	tr := trs[0].Receiver().Track()
	if uint32(tr.SSRC()) != 4242 {
		return VS("wrong-ssrc"), Fail("handled-with-wrong-ssrc", fmt.Sprint(tr.SSRC()))
	}
	return c30Ok(VL{VB(true), VZ(int64(trs[0].Kind())), VS(tr.StreamID()), VS(tr.ID())}), Pass("handled", true)
}

func c30UndeclCoq(in c30UndeclIn) string {
	s := c30Desc{Media: []c30Media{in.M}}.Struct()
	m, ok := c30CoqMedia(s.MediaDescriptions[0])
	if !ok {
		return ""
	}
	return fmt.Sprintf("(%s, %s, %s)", m, CoqBool(in.Audio), CoqBool(in.Video))
}

func init() {
	Register(Spec[c30WalkIn]{
		ID: "C30", Suite: "walk", CoqImports: []string{"Check.C30"},
		CoqType: "Check.C30.desc_in", CoqRun: "Check.C30.run_walk",
		Quick: 320, Thorough: 4000, Parallel: 8,
		Corpus: func() []c30WalkIn {
			w := c30PlanBWitness()
			return []c30WalkIn{
				{D: w, ViaText: true, Origin: "planb-witness"},
				{D: w, ViaText: false, Origin: "planb-witness"},
				// chrome-style unified plan video with rtx and fec
				{D: c30Desc{
					Session: []c30Attr{{"group", "BUNDLE 0"}, {"fingerprint", "sha-256 " + c30FP}},
					Media: []c30Media{{Kind: "video", Port: 9, Formats: []string{"96", "97"}, Attrs: []c30Attr{
						{"ice-ufrag", "ab12"}, {"ice-pwd", "abcdefghijklmnopqrstuv"}, {"mid", "0"}, {"sendrecv", ""},
						{"msid", "s t"}, {"ssrc-group", "FID 1 2"}, {"ssrc-group", "FEC-FR 1 3"},
						{"ssrc", "1 cname:a"}, {"ssrc", "1 msid:s t"}, {"ssrc", "2 cname:a"}, {"ssrc", "3 cname:a"},
						{"candidate", c30Candidates[0]}, {"candidate", c30Candidates[6]}, {"candidate", c30Candidates[8]},
					}}},
				}, ViaText: true},
				// ssrc declared before its FID group; rtx first declared as a track
				{D: c30Desc{Media: []c30Media{{Kind: "video", Port: 9, Formats: []string{"96"}, Attrs: []c30Attr{
					{"mid", "video"}, {"ssrc", "2 msid:a b"}, {"ssrc", "1 msid:a b"}, {"ssrc-group", "FID 1 2"}, {"ssrc", "1 cname:x"},
					{"ssrc", "5 msid:c d"}, {"ssrc", "5 msid:e f"},
				}}}}, ViaText: false},
				// every split with too few fields
				{D: c30Desc{Session: []c30Attr{{"group", "BUNDLE"}, {"fingerprint", "sha-256"}},
					Media: []c30Media{{Kind: "video", Port: 9, Formats: []string{"96"}, Attrs: []c30Attr{
						{"mid", "0"}, {"ssrc", ""}, {"ssrc-group", ""}, {"msid", ""}, {"rid", ""}, {"simulcast", " "},
						{"ssrc-group", "FID"}, {"ssrc", "1 msid:"}, {"simulcast", "send ~"}, {"ssrc", "1  "},
					}}}}, ViaText: false},
			}
		},
		Gen: func(r *Rand, i int) c30WalkIn {
			in := c30WalkIn{ViaText: r.Bool()}
			switch {
			case i%3 == 0:
				in.D, _ = c30GenValid(r)
				in.Origin = "valid"
			default:
				d, _ := c30GenValid(r)
				var names []string
				in.D, names = c30Mutate(r, d, r.Range(1, 4))
				in.Origin = "mutated:" + strings.Join(names, ",")
			}
			in.D = c30ShortenFP(in.D)
			return in
		},
		Shrink: func(in c30WalkIn) []c30WalkIn {
			var out []c30WalkIn
			for _, d := range c30ShrinkDesc(in.D) {
				out = append(out, c30WalkIn{D: d, ViaText: in.ViaText, Origin: in.Origin})
			}
			return out
		},
		Run: c30WalkRun, Coq: c30WalkCoq,
	})

	// the same walkers on descriptions assembled from the hostile vocabulary alone
	Register(Spec[c30WalkIn]{
		ID: "C30", Suite: "wild", CoqImports: []string{"Check.C30"},
		CoqType: "Check.C30.desc_in", CoqRun: "Check.C30.run_walk",
		Quick: 320, Thorough: 4000, Parallel: 8,
		Gen: func(r *Rand, i int) c30WalkIn {
			return c30WalkIn{D: c30ShortenFP(c30GenWild(r)), ViaText: r.Chance(1, 3), Origin: "wild"}
		},
		Shrink: func(in c30WalkIn) []c30WalkIn {
			var out []c30WalkIn
			for _, d := range c30ShrinkDesc(in.D) {
				out = append(out, c30WalkIn{D: d, ViaText: in.ViaText, Origin: in.Origin})
			}
			return out
		},
		Run: c30WalkRun, Coq: c30WalkCoq,
	})

	Register(Spec[c30RecvIn]{
		ID: "C30", Suite: "recv", CoqImports: []string{"Check.C30"},
		CoqType: "Z * Check.C30.desc_in * bool * bool", CoqRun: "Check.C30.run_recv",
		Quick: 300, Thorough: 3000, Parallel: 8,
		Corpus: func() []c30RecvIn {
			w := c30PlanBWitness()
			out := []c30RecvIn{}
			for sem := 0; sem < 3; sem++ {
				for _, video := range []bool{false, true} {
					out = append(out, c30RecvIn{Sem: sem, D: w, Audio: true, Video: video, ViaText: true})
				}
			}
			// fallback semantics take the Plan-B branch when a mid is audio/video/data
			w2 := c30CloneDesc(w)
			w2.Media[0].Attrs[0] = c30Attr{"mid", "video"}
			out = append(out, c30RecvIn{Sem: 2, D: w2, Audio: false, Video: false, ViaText: true})
			return out
		},
		Gen: func(r *Rand, i int) c30RecvIn {
			in := c30RecvIn{Sem: r.Intn(3), Audio: r.Chance(2, 3), Video: r.Chance(1, 2), ViaText: r.Bool()}
			if r.Chance(2, 3) {
				in.Sem = r.Range(1, 2)
			}
			d, _ := c30GenValid(r)
			switch i % 3 {
			case 0:
				in.D = d
			case 1:
				in.D, _ = c30Mutate(r, d, r.Range(1, 3))
			default:
				in.D = c30GenWild(r)
			}
			in.D = c30ShortenFP(in.D)
			return in
		},
		Shrink: func(in c30RecvIn) []c30RecvIn {
			var out []c30RecvIn
			for _, d := range c30ShrinkDesc(in.D) {
				c := in
				c.D = d
				out = append(out, c)
			}
			return out
		},
		Run: c30RecvRun, Coq: c30RecvCoq,
	})

	Register(Spec[c30ParamsIn]{
		ID: "C30", Suite: "params", CoqImports: []string{"Check.C30"},
		CoqType: "list string * list Z * Z * Z", CoqRun: "Check.C30.run_params",
		Exhaustive: func() []c30ParamsIn {
			var out []c30ParamsIn
			rids := []string{"hi", "mid", "lo", "x"}
			ssrcs := []uint32{7, 4294967295, 0, 9}
			for nr := 0; nr <= 4; nr++ {
				for ns := 0; ns <= 4; ns++ {
					for _, rtx := range []int64{-1, 0, 55} {
						for _, fec := range []int64{-1, 66} {
							out = append(out, c30ParamsIn{RIDs: rids[:nr], SSRCs: ssrcs[:ns], RTX: rtx, FEC: fec})
						}
					}
				}
			}
			return out
		},
		Run: c30ParamsRun, Coq: c30ParamsCoq,
	})

	Register(Spec[c30UndeclIn]{
		ID: "C30", Suite: "undecl", CoqImports: []string{"Check.C30"},
		CoqType: "Check.C30.media_in * bool * bool", CoqRun: "Check.C30.run_undecl",
		Quick: 200, Thorough: 2000, Parallel: 8,
		Corpus: func() []c30UndeclIn {
			return []c30UndeclIn{
				{M: c30Media{Kind: "video", Attrs: []c30Attr{{"mid", "0"}, {"msid", "s t"}}}, Audio: true, Video: true},
				{M: c30Media{Kind: "video", Attrs: []c30Attr{{"mid", "0"}, {"msid", "s"}}}, Audio: true, Video: false},
				{M: c30Media{Kind: "audio", Attrs: []c30Attr{{"msid", ""}, {"msid", " "}}}, Audio: true, Video: false},
				{M: c30Media{Kind: "AUDIO", Attrs: []c30Attr{}}, Audio: true, Video: false},
				{M: c30Media{Kind: "application", Attrs: []c30Attr{{"rid", ""}, {"ssrc", ""}}}, Audio: false, Video: false},
				{M: c30Media{Kind: "video", Attrs: []c30Attr{{"ssrc", ""}}}, Audio: false, Video: true},
			}
		},
		Gen: func(r *Rand, i int) c30UndeclIn {
			m := c30Media{Kind: Pick(r, c30Kinds), Port: 9, Proto: "UDP/TLS/RTP/SAVPF"}
			for j, n := 0, r.Intn(5); j < n; j++ {
				k := Pick(r, []string{"msid", "msid", "msid", "mid", "sendrecv", "x", "ssrc", "rid"})
				if (k == "ssrc" || k == "rid") && r.Chance(2, 3) {
					k = "msid"
				}
				m.Attrs = append(m.Attrs, c30Attr{k, c30HostileValue(r, k)})
			}
			return c30UndeclIn{M: m, Audio: r.Chance(2, 3), Video: r.Chance(2, 3)}
		},
		Run: c30UndeclRun, Coq: c30UndeclCoq,
	})
}
