//go:build verif_c39

package main

import (
	"crypto"
	"crypto/ecdsa"
	"crypto/elliptic"
	"crypto/rand"
	"crypto/rsa"
	"crypto/x509"
	"crypto/x509/pkix"
	"encoding/pem"
	"errors"
	"fmt"
	"math/big"
	"reflect"
	"regexp"
	"slices"
	"strconv"
	"sync"
	"time"

	"github.com/pion/webrtc/v4"
	"github.com/pion/webrtc/v4/pkg/rtcerr"
)

// C39: SetConfiguration never changes immutable settings.
//
// One case = an initial Configuration (NewPeerConnection) and a list of steps
// on that connection: SetConfiguration(new), a successful
// SetLocalDescription, Close.  Public API only.

type c39Server struct {
	ID       int   `json:"id"`
	URLs     []int `json:"urls"`     // 0 unparsable, 1 stun, 2 turn, 3 stuns, 4 turns
	User     bool  `json:"user"`     // Username set
	Cred     int   `json:"cred"`     // 0 nil, 1 string, 2 OAuthCredential, 3 int
	CredType int   `json:"credtype"` // 0 password, 1 oauth, 2 undeclared
}

type c39Config struct {
	Servers   []c39Server `json:"servers"`
	Policy    int         `json:"policy"`
	Bundle    int         `json:"bundle"`
	RTCPMux   int         `json:"rtcpmux"`
	Identity  string      `json:"identity"`
	Certs     []int       `json:"certs"` // indices into the certificate pool (c39InitCerts); 3 = zero Certificate{}
	Pool      int         `json:"pool"`
	Semantics int         `json:"semantics"`
	AlwaysDC  bool        `json:"always_dc"`
}

type c39Step struct {
	K   int        `json:"k"` // 0 SetConfiguration, 1 SetLocalDescription, 2 Close
	New *c39Config `json:"new,omitempty"`
}

type c39Case struct {
	Init  c39Config `json:"init"`
	Steps []c39Step `json:"steps"`
}

// The certificate pool.  Keys k0,k1,k2 are ECDSA P-256, k3 is RSA-2048.
//
//	0 (k0,a)  1 (k1,a)  2 (k2,a)      GenerateCertificate(k)
//	3                                 the zero Certificate{} (only ever an argument)
//	4 (k0,b)  5 (k1,b)                GenerateCertificate of the SAME key again: another
//	                                  serial number and validity, a different certificate
//	6 (k0,a)                          certificate 0 exported with PEM() and re-imported with
//	                                  CertificateFromPEM: the same certificate
//	7 (k3,a)  8 (k3,b)                the same for an RSA key
//	9 (k1, x509 of 0)                 CertificateFromX509(k1, certificate 0's x509): the same
//	                                  x509 certificate held with another key
//	10 (k4, x509 of 7)                the same for RSA: another RSA key k4 with certificate 7's x509
//	11 (k0, x509 of 7)                an ECDSA key with the RSA certificate 7's x509 (key type differs)
//
// Expiry (T0 = the instant the pool is built; certificates 0-11 expire about a month later).
// k5 is a fresh ECDSA key; x509 certificates 12-14 are self-signed with it and go through
// x509.CreateCertificate / x509.ParseCertificate / webrtc.CertificateFromX509.
//
//	12 (k5,e)                         NotAfter = T0 - 1h: expired
//	13 (k5,v)                         NotAfter = T0 + 1h: not yet expired
//	14 (k5,z)                         NotAfter = the zero time.Time: Expires().IsZero()
//	15 (k0, x509 of 0, reads T0-1h)   CertificateFromX509(k0, &copy) where copy is certificate 0's parsed
//	                                  x509 certificate with the NotAfter FIELD overwritten: same key, same
//	                                  DER bytes (Equals says equal), Expires() says expired
//	16 (k5, x509 of 12, reads T0+1h)  the other way round: the expired certificate 12 whose NotAfter field
//	                                  was overwritten with a future instant
var (
	c39T0      time.Time // the clock reading the model is given as `now`
	c39Certs   []webrtc.Certificate
	c39KeyIDs  = map[string]int{} // PKCS#8 bytes of a private key -> key id
	c39X509IDs = map[string]int{} // DER bytes of an x509 certificate -> id (pool index of its first holder)
)

// what a Certificate is, read off the bytes it exports -- independent of
// Certificate.Equals: (key type 0 none/1 RSA/2 ECDSA, key id, x509 id);
// anything not in the pool (the certificate pion generates itself) is id 100
// seconds from 0001-01-01 00:00:00 UTC to what Expires() returns (0 = the zero time.Time)
func c39ExpiresSec(c webrtc.Certificate) int64 { return c.Expires().Unix() + 62135596800 }

// the same instant in nanoseconds, as a Gallina Z literal
func c39Nanos(t time.Time) string {
	n := new(big.Int).Mul(big.NewInt(t.Unix()+62135596800), big.NewInt(1000000000))
	n.Add(n, big.NewInt(int64(t.Nanosecond())))
	return n.String()
}

func c39Ident(c webrtc.Certificate) (id [3]int) {
	defer func() {
		if recover() != nil { // the zero Certificate{} has nothing to export
			id = [3]int{0, 0, 0}
		}
	}()
	text, err := c.PEM()
	if err != nil {
		return [3]int{0, 0, 0}
	}
	id = [3]int{0, 100, 100}
	rest := []byte(text)
	for {
		var blk *pem.Block
		blk, rest = pem.Decode(rest)
		if blk == nil {
			break
		}
		switch blk.Type {
		case "CERTIFICATE":
			if n, ok := c39X509IDs[string(blk.Bytes)]; ok {
				id[2] = n
			}
		case "PRIVATE KEY":
			k, err := x509.ParsePKCS8PrivateKey(blk.Bytes)
			if err != nil {
				panic(err)
			}
			switch k.(type) {
			case *rsa.PrivateKey:
				id[0] = 1
			case *ecdsa.PrivateKey:
				id[0] = 2
			}
			if n, ok := c39KeyIDs[string(blk.Bytes)]; ok {
				id[1] = n
			}
		}
	}
	return id
}

var c39PoolOnce sync.Once

func c39InitCerts() { c39PoolOnce.Do(c39BuildPool) }

func c39BuildPool() {
	must := func(err error) {
		if err != nil {
			panic(err)
		}
	}
	var keys []crypto.PrivateKey
	for i := 0; i < 3; i++ {
		sk, err := ecdsa.GenerateKey(elliptic.P256(), rand.Reader)
		must(err)
		keys = append(keys, sk)
	}
	for i := 0; i < 2; i++ { // k3, k4
		rk, err := rsa.GenerateKey(rand.Reader, 2048)
		must(err)
		keys = append(keys, rk)
	}
	k5, err := ecdsa.GenerateKey(elliptic.P256(), rand.Reader)
	must(err)
	keys = append(keys, k5)
	c39T0 = time.Now()
	for i, k := range keys {
		b, err := x509.MarshalPKCS8PrivateKey(k)
		must(err)
		c39KeyIDs[string(b)] = i
	}
	gen := func(k int) webrtc.Certificate {
		c, err := webrtc.GenerateCertificate(keys[k])
		must(err)
		return *c
	}
	derOf := func(c webrtc.Certificate) []byte {
		text, err := c.PEM()
		must(err)
		blk, _ := pem.Decode([]byte(text))
		return blk.Bytes
	}
	pool := make([]webrtc.Certificate, 17)
	pool[0], pool[1], pool[2] = gen(0), gen(1), gen(2)
	pool[3] = webrtc.Certificate{}
	pool[4], pool[5] = gen(0), gen(1)
	text, err := pool[0].PEM()
	must(err)
	re, err := webrtc.CertificateFromPEM(text)
	must(err)
	pool[6] = *re
	pool[7], pool[8] = gen(3), gen(3)
	x0, err := x509.ParseCertificate(derOf(pool[0]))
	must(err)
	pool[9] = webrtc.CertificateFromX509(keys[1], x0)
	x7, err := x509.ParseCertificate(derOf(pool[7]))
	must(err)
	pool[10] = webrtc.CertificateFromX509(keys[4], x7)
	pool[11] = webrtc.CertificateFromX509(keys[0], x7)
	selfSigned := func(serial int64, notAfter time.Time) *x509.Certificate {
		tpl := x509.Certificate{SerialNumber: big.NewInt(serial), Subject: pkix.Name{CommonName: "c39"},
			NotBefore: c39T0.Add(-48 * time.Hour), NotAfter: notAfter}
		der, err := x509.CreateCertificate(rand.Reader, &tpl, &tpl, k5.Public(), k5)
		must(err)
		x, err := x509.ParseCertificate(der)
		must(err)
		return x
	}
	xe := selfSigned(12, c39T0.Add(-time.Hour))
	xv := selfSigned(13, c39T0.Add(time.Hour))
	xz := selfSigned(14, time.Time{})
	if !xz.NotAfter.IsZero() || !xe.NotAfter.Before(c39T0) || !xv.NotAfter.After(c39T0) {
		panic("validity of the self-signed certificates is not what was asked for")
	}
	pool[12] = webrtc.CertificateFromX509(k5, xe)
	pool[13] = webrtc.CertificateFromX509(k5, xv)
	pool[14] = webrtc.CertificateFromX509(k5, xz)
	x0copy := *x0
	x0copy.NotAfter = xe.NotAfter
	pool[15] = webrtc.CertificateFromX509(keys[0], &x0copy)
	xecopy := *xe
	xecopy.NotAfter = xv.NotAfter
	pool[16] = webrtc.CertificateFromX509(k5, &xecopy)
	for _, i := range []int{0, 1, 2, 4, 5, 7, 8, 12, 13, 14} {
		c39X509IDs[string(derOf(pool[i]))] = i
	}
	if len(c39X509IDs) != 10 {
		panic("certificates generated for one key are not distinct")
	}
	c39Certs = pool
}

func c39ServerValid(s c39Server) bool {
	for _, u := range s.URLs {
		switch u {
		case 0:
			return false
		case 2, 4:
			if !s.User || s.Cred == 0 {
				return false
			}
			if !(s.CredType == 0 && s.Cred == 1 || s.CredType == 1 && s.Cred == 2) {
				return false
			}
		}
	}
	return true
}

func c39MakeServer(s c39Server) webrtc.ICEServer {
	out := webrtc.ICEServer{CredentialType: webrtc.ICECredentialType(s.CredType)}
	for j, u := range s.URLs {
		host := fmt.Sprintf("192.0.2.%d:%d", s.ID, 3478+j)
		switch u {
		case 0:
			out.URLs = append(out.URLs, "http://"+host+"/x")
		case 1:
			out.URLs = append(out.URLs, "stun:"+host)
		case 2:
			out.URLs = append(out.URLs, "turn:"+host+"?transport=udp")
		case 3:
			out.URLs = append(out.URLs, "stuns:"+host)
		case 4:
			out.URLs = append(out.URLs, "turns:"+host+"?transport=tcp")
		}
	}
	if s.User {
		out.Username = fmt.Sprintf("u%d", s.ID)
	}
	switch s.Cred {
	case 1:
		out.Credential = "secret"
	case 2:
		out.Credential = webrtc.OAuthCredential{MACKey: "k", AccessToken: "t"}
	case 3:
		out.Credential = 7
	}
	return out
}

func c39Make(c c39Config) webrtc.Configuration {
	out := webrtc.Configuration{
		ICETransportPolicy: webrtc.ICETransportPolicy(c.Policy), BundlePolicy: webrtc.BundlePolicy(c.Bundle),
		RTCPMuxPolicy: webrtc.RTCPMuxPolicy(c.RTCPMux), PeerIdentity: c.Identity,
		ICECandidatePoolSize: uint8(c.Pool), SDPSemantics: webrtc.SDPSemantics(c.Semantics),
		AlwaysNegotiateDataChannels: c.AlwaysDC,
	}
	for _, s := range c.Servers {
		out.ICEServers = append(out.ICEServers, c39MakeServer(s))
	}
	for _, i := range c.Certs {
		out.Certificates = append(out.Certificates, c39Certs[i])
	}
	return out
}

var c39IP = regexp.MustCompile(`192\.0\.2\.(\d+)`)

func c39ServerID(s webrtc.ICEServer) int {
	if len(s.URLs) > 0 {
		if m := c39IP.FindStringSubmatch(s.URLs[0]); m != nil {
			n, _ := strconv.Atoi(m[1])
			return n
		}
		return -1
	}
	if len(s.Username) > 1 {
		n, err := strconv.Atoi(s.Username[1:])
		if err == nil {
			return n
		}
	}
	return -1
}

// (key type, key id, x509 id, Expires() in seconds since year 1); the expiry of
// the certificate pion generates itself is derived from its own time.Now(): -1
func c39CertV(c webrtc.Certificate) V {
	id := c39Ident(c)
	exp := c39ExpiresSec(c)
	if id[2] == 100 {
		exp = -1
	}
	return VL{VZ(int64(id[0])), VZ(int64(id[1])), VZ(int64(id[2])), VZ(exp)}
}

// expired at t, said without After/IsZero: a NotAfter that is not the zero
// instant and lies strictly before t
func c39Expired(c webrtc.Certificate, t time.Time) bool {
	e := c.Expires()
	return (e.Unix() != -62135596800 || e.Nanosecond() != 0) && e.Compare(t) < 0
}

// position by position the same Expires()
func c39ExpiryEqual(a, b []webrtc.Certificate) bool {
	if len(a) != len(b) {
		return false
	}
	for i := range a {
		if !a[i].Expires().Equal(b[i].Expires()) {
			return false
		}
	}
	return true
}

func c39Project(c webrtc.Configuration) V {
	var sv, cs VL
	for _, s := range c.ICEServers {
		sv = append(sv, VZ(c39ServerID(s)))
	}
	for _, x := range c.Certificates {
		cs = append(cs, c39CertV(x))
	}
	if sv == nil {
		sv = VL{}
	}
	if cs == nil {
		cs = VL{}
	}
	return VL{sv, VZ(int64(c.ICETransportPolicy)), VZ(int64(c.BundlePolicy)), VZ(int64(c.RTCPMuxPolicy)),
		VS(c.PeerIdentity), cs, VZ(int64(c.ICECandidatePoolSize)), VZ(int64(c.SDPSemantics)), VB(c.AlwaysNegotiateDataChannels)}
}

func c39Snapshot(c webrtc.Configuration) webrtc.Configuration {
	c.ICEServers = slices.Clone(c.ICEServers)
	for i := range c.ICEServers {
		c.ICEServers[i].URLs = slices.Clone(c.ICEServers[i].URLs)
	}
	c.Certificates = slices.Clone(c.Certificates)
	return c
}

// the same certificates in the same order: same key bytes and same x509
// bytes, entry by entry (the zero Certificate{} is the same as nothing).
// Deliberately not Certificate.Equals.
func c39CertsEqual(a, b []webrtc.Certificate) bool { return c39CertsEq(a, b, false) }

// for before/after comparisons of the stored list a stored zero Certificate{}
// is unchanged when it still is the zero Certificate{}
func c39CertsUnchanged(a, b []webrtc.Certificate) bool { return c39CertsEq(a, b, true) }

func c39CertsEq(a, b []webrtc.Certificate, zeroIsZero bool) bool {
	if len(a) != len(b) {
		return false
	}
	for i := range a {
		ia, ib := c39Ident(a[i]), c39Ident(b[i])
		if (ia[0] == 0 && !zeroIsZero) || ia != ib {
			return false
		}
		if ia[1] == 100 || ia[2] == 100 { // outside the pool: compare what they export
			ta, _ := a[i].PEM()
			tb, _ := b[i].PEM()
			if ta != tb {
				return false
			}
		}
	}
	return true
}

// first field in which two configurations differ ("" = none)
func c39Diff(a, b webrtc.Configuration) string {
	switch {
	case a.PeerIdentity != b.PeerIdentity:
		return "peer-identity"
	case !c39CertsUnchanged(a.Certificates, b.Certificates):
		return "certificates"
	case !c39ExpiryEqual(a.Certificates, b.Certificates):
		return "certificate-expiry"
	case a.BundlePolicy != b.BundlePolicy:
		return "bundle-policy"
	case a.RTCPMuxPolicy != b.RTCPMuxPolicy:
		return "rtcp-mux-policy"
	case a.ICECandidatePoolSize != b.ICECandidatePoolSize:
		return "candidate-pool-size"
	case a.ICETransportPolicy != b.ICETransportPolicy:
		return "ice-transport-policy"
	case a.SDPSemantics != b.SDPSemantics:
		return "sdp-semantics"
	case a.AlwaysNegotiateDataChannels != b.AlwaysNegotiateDataChannels:
		return "always-negotiate-data-channels"
	case len(a.ICEServers) != len(b.ICEServers) || (len(a.ICEServers) > 0 && !reflect.DeepEqual(a.ICEServers, b.ICEServers)):
		return "ice-servers"
	}
	return ""
}

// how a named certificate list relates to the stored one (input distribution only)
func c39CertSituation(cur, new []webrtc.Certificate) string {
	if c39CertsEqual(cur, new) {
		return "same"
	}
	if len(cur) == len(new) {
		keyOnly, x509Only := true, true
		multiset := map[[3]int]int{}
		for i := range cur {
			a, b := c39Ident(cur[i]), c39Ident(new[i])
			keyOnly = keyOnly && a[0] != 0 && a[0] == b[0] && a[1] == b[1]
			x509Only = x509Only && a[2] == b[2] && b[0] != 0
			multiset[a]++
		}
		if keyOnly {
			return "same-key-other-x509"
		}
		if x509Only {
			return "same-x509-other-key"
		}
		all := true
		for i := range new {
			all = all && multiset[c39Ident(new[i])] > 0
		}
		if all {
			return "reordered-or-duplicated"
		}
	}
	return "other"
}

var c39ClassCode = map[string]int{"ok": 0, "InvalidState": 1, "InvalidModification": 2, "InvalidAccess": 3, "NotSupported": 4, "other": 9}

func c39ErrClass(err error) string {
	var e1 *rtcerr.InvalidStateError
	var e2 *rtcerr.InvalidModificationError
	var e3 *rtcerr.InvalidAccessError
	var e4 *rtcerr.NotSupportedError
	switch {
	case err == nil:
		return "ok"
	case errors.As(err, &e1):
		return "InvalidState"
	case errors.As(err, &e2):
		return "InvalidModification"
	case errors.As(err, &e3):
		return "InvalidAccess"
	case errors.As(err, &e4):
		return "NotSupported"
	}
	return "other"
}

func c39Run(c c39Case) (V, Verdict) {
	c39InitCerts()
	api := newQuietAPI(nil)
	initCfg := c39Make(c.Init)
	// ---- direct oracle for NewPeerConnection: an expired certificate anywhere
	// in the list is refused with InvalidAccess (before the pool size is looked
	// at); nothing else in these configurations is a reason to refuse
	tBefore := time.Now()
	pc, err := api.NewPeerConnection(initCfg)
	tAfter := time.Now()
	expiredBefore, expiredAfter := false, false
	for _, x := range initCfg.Certificates {
		expiredBefore = expiredBefore || c39Expired(x, tBefore)
		expiredAfter = expiredAfter || c39Expired(x, tAfter)
	}
	if expiredBefore != expiredAfter {
		panic("a pool certificate expires during the run: the margins in c39BuildPool are wrong")
	}
	if err != nil {
		class := c39ErrClass(err)
		obs := VL{VL{VZ(c39ClassCode[class])}, VL{}}
		switch {
		case expiredBefore && class == "InvalidAccess":
			return obs, Pass("init-rejected/expired-certificate", true)
		case expiredBefore:
			return obs, Fail("expired-certificate-rejected-with-"+class, err.Error())
		case c.Init.Pool > 1 && class == "NotSupported":
			return obs, Pass("init-rejected/pool-size", false)
		}
		if class == "InvalidAccess" && len(c.Init.Servers) == 0 { // no ICE server to blame: the certificate check
			for _, x := range initCfg.Certificates {
				if x.Expires().IsZero() {
					return obs, Fail("zero-expiry-certificate-rejected-as-expired", err.Error())
				}
			}
			return obs, Fail("unexpired-certificate-rejected-as-expired", err.Error())
		}
		return obs, Fail("initial-configuration-rejected", err.Error())
	}
	defer pc.Close() //nolint
	verdict := Pass("", false)
	fail := func(v Verdict) {
		if verdict.OK {
			verdict = v
		}
	}
	if expiredBefore {
		fail(Fail("expired-certificate-accepted-by-new-peer-connection", fmt.Sprintf("certificates %v", c.Init.Certs)))
	}
	if c.Init.Pool > 1 {
		fail(Fail("pool-size-above-one-accepted", fmt.Sprint(c.Init.Pool)))
	}
	for i, x := range pc.GetConfiguration().Certificates {
		if c39Expired(x, tBefore) {
			fail(Fail("new-peer-connection-stored-expired-certificate", fmt.Sprintf("position %d", i)))
		}
		if len(initCfg.Certificates) == 0 && !x.Expires().After(tAfter) {
			fail(Fail("generated-certificate-not-valid", x.Expires().String()))
		}
		if len(initCfg.Certificates) > 0 && !x.Expires().Equal(initCfg.Certificates[i].Expires()) {
			fail(Fail("new-peer-connection-stored-other-expiry", fmt.Sprintf("position %d", i)))
		}
	}
	obs := VL{VL{VZ(0), c39Project(pc.GetConfiguration())}}
	var steps VL
	closed, haveDC := false, false
	namedExpired, storedZero := false, false
	for _, x := range initCfg.Certificates {
		storedZero = storedZero || x.Expires().IsZero()
	}
	nSet, nRejected, nAccepted := 0, 0, 0
	phases := map[string]bool{}
	certSit := map[string]bool{}
	for k, st := range c.Steps {
		switch st.K {
		case 1:
			if closed {
				if _, err := pc.CreateOffer(nil); err == nil {
					fail(Fail("create-offer-on-closed-connection-succeeds", fmt.Sprintf("step %d", k)))
				}
				steps = append(steps, VZ(1))
				continue
			}
			if pc.LocalDescription() != nil { // already there: nothing to do
				steps = append(steps, VZ(0))
				continue
			}
			if !haveDC {
				if _, err := pc.CreateDataChannel("d", nil); err != nil {
					panic(err)
				}
				haveDC = true
			}
			offer, err := pc.CreateOffer(nil)
			if err == nil {
				err = pc.SetLocalDescription(offer)
			}
			if err != nil {
				steps = append(steps, VZ(1))
				fail(Fail("set-local-description-fails", fmt.Sprintf("step %d: %v", k, err)))
				continue
			}
			steps = append(steps, VZ(0))
		case 2:
			_ = pc.Close()
			closed = true
			steps = append(steps, VZ(0))
		case 0:
			nSet++
			newCfg := c39Make(*st.New)
			before := c39Snapshot(pc.GetConfiguration())
			hasLocal := pc.LocalDescription() != nil
			err := pc.SetConfiguration(newCfg)
			after := pc.GetConfiguration()
			class := c39ErrClass(err)
			if pa, pb := c39Project(after), c39Project(before); pa.Coq() == pb.Coq() {
				steps = append(steps, VL{VZ(c39ClassCode[class])})
			} else {
				steps = append(steps, VL{VZ(c39ClassCode[class]), pa})
			}
			phase := "fresh"
			if closed {
				phase = "closed"
			} else if hasLocal {
				phase = "local"
			}
			phases[phase+"/"+class] = true
			// ---- direct oracle ----
			if len(newCfg.Certificates) > 0 {
				sit := c39CertSituation(before.Certificates, newCfg.Certificates)
				if sit == "same" && !c39ExpiryEqual(before.Certificates, newCfg.Certificates) {
					sit = "same-but-other-expiry"
				}
				certSit[sit] = true
			}
			for _, x := range newCfg.Certificates {
				namedExpired = namedExpired || c39Expired(x, time.Now())
			}

			attempt := ""
			switch {
			case newCfg.PeerIdentity != "" && newCfg.PeerIdentity != before.PeerIdentity:
				attempt = "peer-identity"
			case len(newCfg.Certificates) > 0 && !c39CertsEqual(before.Certificates, newCfg.Certificates):
				attempt = "certificates"
			case newCfg.BundlePolicy != 0 && newCfg.BundlePolicy != before.BundlePolicy:
				attempt = "bundle-policy"
			case newCfg.RTCPMuxPolicy != 0 && newCfg.RTCPMuxPolicy != before.RTCPMuxPolicy:
				attempt = "rtcp-mux-policy"
			case newCfg.ICECandidatePoolSize != 0 && newCfg.ICECandidatePoolSize != before.ICECandidatePoolSize && hasLocal:
				attempt = "candidate-pool-size"
			}
			invalidServer := false
			for _, s := range st.New.Servers {
				if !c39ServerValid(s) {
					invalidServer = true
				}
			}
			if err != nil {
				nRejected++
				if d := c39Diff(before, after); d == "certificate-expiry" {
					fail(Fail("rejected-call-changed-certificate-expiry", fmt.Sprintf(
						"step %d: error %v but the stored certificates now expire %v instead of %v", k, err,
						c39ExpiresList(after.Certificates), c39ExpiresList(before.Certificates))))
				} else if d != "" {
					fail(Fail("rejected-call-changed-"+d, fmt.Sprintf("step %d: error %v but %s changed", k, err, d)))
				}
			} else {
				nAccepted++
				for _, d := range []string{"peer-identity", "certificates", "bundle-policy", "rtcp-mux-policy", "candidate-pool-size"} {
					b2, a2 := before, after
					if c39Diff(b2, a2) == d {
						fail(Fail("accepted-call-changed-"+d, fmt.Sprintf("step %d: %s changed by a successful call", k, d)))
					}
				}
				if c39Diff(before, after) == "certificate-expiry" {
					fail(Fail("accepted-call-changed-certificate-expiry", fmt.Sprintf(
						"step %d: the stored certificates now expire %v instead of %v", k,
						c39ExpiresList(after.Certificates), c39ExpiresList(before.Certificates))))
				}
			}
			switch {
			case closed:
				if class != "InvalidState" {
					fail(Fail("closed-connection-error-class-"+class, fmt.Sprintf("step %d", k)))
				}
			case attempt != "":
				if err == nil {
					fail(Fail("change-of-"+attempt+"-accepted", fmt.Sprintf("step %d", k)))
				} else if class != "InvalidModification" {
					fail(Fail("change-of-"+attempt+"-rejected-with-"+class, fmt.Sprintf("step %d: %v", k, err)))
				}
			case invalidServer:
				if err == nil {
					fail(Fail("invalid-ice-server-accepted", fmt.Sprintf("step %d", k)))
				}
			default:
				if err != nil {
					fail(Fail("valid-call-rejected-with-"+class, fmt.Sprintf("step %d: %v", k, err)))
				}
			}
		}
	}
	if steps == nil {
		steps = VL{}
	}
	obs = append(obs, steps)
	if verdict.OK {
		verdict.NonTrivial = nSet >= 1
		verdict.Class = fmt.Sprintf("sets%d/rejected%d/accepted%d/phases%d", min(nSet, 4), min(nRejected, 3), min(nAccepted, 3), len(phases))
		if namedExpired {
			verdict.Class += "/names-expired"
		}
		if storedZero {
			verdict.Class += "/stored-zero-expiry"
		}
		for _, k := range []string{"same-but-other-expiry", "same-x509-other-key", "reordered-or-duplicated", "same-key-other-x509", "other", "same"} {
			if certSit[k] { // the most specific certificate situation the case contains
				verdict.Class += "/certs:" + k
				break
			}
		}
	}
	return obs, verdict
}

func c39ExpiresList(cs []webrtc.Certificate) []string {
	out := make([]string, len(cs))
	for i, c := range cs {
		out[i] = c.Expires().UTC().Format(time.RFC3339)
	}
	return out
}

func c39ServerCoq(s c39Server) string {
	urls := make([]string, len(s.URLs))
	for i, u := range s.URLs {
		urls[i] = fmt.Sprint(u)
	}
	return fmt.Sprintf("mks %d %s %s %d %d", s.ID, CoqList(urls), CoqBool(s.User), s.Cred, s.CredType)
}

func c39ConfigCoq(c c39Config) string {
	sv := make([]string, len(c.Servers))
	for i, s := range c.Servers {
		sv[i] = c39ServerCoq(s)
	}
	c39InitCerts()
	cs := make([]string, len(c.Certs))
	for i, x := range c.Certs {
		id := c39Ident(c39Certs[x])
		cs[i] = fmt.Sprintf("mkcert %d %d %d %s", id[0], id[1], id[2], c39Nanos(c39Certs[x].Expires()))
	}
	return fmt.Sprintf("(mkc %s %d %d %d %s %s %d %d %s)", CoqList(sv), c.Policy, c.Bundle, c.RTCPMux,
		CoqString(c.Identity), CoqList(cs), c.Pool, c.Semantics, CoqBool(c.AlwaysDC))
}

func c39Coq(c c39Case) string {
	steps := make([]string, len(c.Steps))
	for i, st := range c.Steps {
		switch st.K {
		case 0:
			steps[i] = "CSet " + c39ConfigCoq(*st.New)
		case 1:
			steps[i] = "CLocal"
		default:
			steps[i] = "CClose"
		}
	}
	c39InitCerts()
	// now: the instant the pool was built; every pool certificate expires an hour
	// or more before or after it, the real time.Now() of the run lies minutes after it
	return "(" + c39Nanos(c39T0) + ", " + c39ConfigCoq(c.Init) + ", " + CoqList(steps) + ")"
}

// ---- generation ----

func c39GenServer(r *Rand, id int, valid bool) c39Server {
	if valid {
		switch r.Intn(6) {
		case 0:
			return c39Server{ID: id, URLs: []int{1}}
		case 1:
			return c39Server{ID: id, URLs: []int{1, 3}, User: r.Bool()}
		case 2:
			return c39Server{ID: id, URLs: []int{2}, User: true, Cred: 1, CredType: 0}
		case 3:
			return c39Server{ID: id, URLs: []int{4, 1}, User: true, Cred: 2, CredType: 1}
		case 4:
			return c39Server{ID: id, URLs: []int{}, User: true, Cred: r.Intn(4), CredType: r.Intn(3)}
		default:
			return c39Server{ID: id, URLs: []int{3}, Cred: 3, CredType: 2}
		}
	}
	switch r.Intn(8) {
	case 0:
		return c39Server{ID: id, URLs: []int{0}}
	case 1:
		return c39Server{ID: id, URLs: []int{1, 0}, User: true, Cred: 1}
	case 2:
		return c39Server{ID: id, URLs: []int{2}, User: false, Cred: 1}
	case 3:
		return c39Server{ID: id, URLs: []int{2}, User: true, Cred: 0}
	case 4:
		return c39Server{ID: id, URLs: []int{4}, User: true, Cred: 1, CredType: 1}
	case 5:
		return c39Server{ID: id, URLs: []int{2}, User: true, Cred: 2, CredType: 0}
	case 6:
		return c39Server{ID: id, URLs: []int{1, 2}, User: true, Cred: 3, CredType: 0}
	default:
		return c39Server{ID: id, URLs: []int{2}, User: true, Cred: 1, CredType: 2}
	}
}

type c39Gen struct {
	r      *Rand
	nextID int
}

func (g *c39Gen) servers(allowInvalid bool) []c39Server {
	n := Pick(g.r, []int{0, 0, 1, 1, 2, 3})
	out := []c39Server{}
	bad := -1
	if allowInvalid && n > 0 && g.r.Chance(1, 3) {
		bad = g.r.Intn(n)
	}
	for i := 0; i < n; i++ {
		g.nextID++
		out = append(out, c39GenServer(g.r, g.nextID, i != bad))
	}
	return out
}

func c39Effective(c c39Config) c39Config {
	if c.Bundle == 0 {
		c.Bundle = 1
	}
	if c.RTCPMux == 0 {
		c.RTCPMux = 2
	}
	return c
}

func (g *c39Gen) newConfig(cur c39Config) c39Config {
	r := g.r
	cur = c39Effective(cur)
	n := c39Config{Servers: g.servers(true), Policy: r.Intn(3), Semantics: Pick(r, []int{0, 0, 2}), AlwaysDC: r.Chance(1, 4)}
	// each immutable field: mostly unchanged or zero, sometimes changed
	mode := func() int { return Pick(r, []int{0, 0, 0, 1, 1, 1, 1, 2}) } // 0 zero, 1 unchanged, 2 changed
	switch mode() {
	case 1:
		n.Identity = cur.Identity
	case 2:
		n.Identity = Pick(r, []string{"a", "b", "c"})
	}
	switch Pick(r, []int{0, 0, 1, 1, 1, 2, 2, 2}) { // certificates: changed more often, there are more ways
	case 1:
		n.Certs = append([]int{}, cur.Certs...)
	case 2:
		n.Certs = c39ChangeCerts(r, cur.Certs)
	}
	if n.Certs == nil {
		n.Certs = []int{}
	}
	switch mode() {
	case 1:
		n.Bundle = cur.Bundle
	case 2:
		n.Bundle = r.Range(1, 4)
	}
	switch mode() {
	case 1:
		n.RTCPMux = cur.RTCPMux
	case 2:
		n.RTCPMux = r.Range(1, 3)
	}
	switch mode() {
	case 1:
		n.Pool = cur.Pool
	case 2:
		n.Pool = Pick(r, []int{1, 2, 5, 255})
	}
	return n
}

// another certificate for the same key (a renewal), both ways
var c39Renewed = map[int][]int{0: {4}, 4: {0, 6}, 6: {4}, 1: {5}, 5: {1}, 7: {8}, 8: {7},
	12: {13, 14}, 13: {12, 14, 16}, 14: {13, 12}, 16: {13, 14}}

// the same key and the same x509 bytes through an object that reports another expiry
var c39OtherExpiry = map[int]int{0: 15, 6: 15, 15: 0, 16: 12, 12: 16}

// the same certificate through another object (PEM round trip)
var c39Reimported = map[int]int{0: 6, 6: 0}

// a certificate list that relates to the stored one in one of the ways a
// caller can get wrong -- or, for the re-import, right
func c39ChangeCerts(r *Rand, cur []int) []int {
	out := append([]int{}, cur...)
	subst := func(m func(int) (int, bool)) bool {
		start := r.Intn(len(out))
		for d := range out {
			i := (start + d) % len(out)
			if v, ok := m(out[i]); ok {
				out[i] = v
				return true
			}
		}
		return false
	}
	if len(cur) > 0 {
		switch r.Intn(9) {
		case 8: // the stored certificate through an object whose NotAfter field was overwritten
			if subst(func(x int) (int, bool) { v, ok := c39OtherExpiry[x]; return v, ok }) {
				return out
			}
		case 0, 1, 2: // same key, other x509 certificate, at one position
			if subst(func(x int) (int, bool) {
				if l := c39Renewed[x]; len(l) > 0 {
					return Pick(r, l), true
				}
				return 0, false
			}) {
				return out
			}
		case 3: // re-imported from PEM: still the same certificate
			if subst(func(x int) (int, bool) { v, ok := c39Reimported[x]; return v, ok }) {
				return out
			}
		case 4: // re-ordered
			if len(out) >= 2 {
				out[0], out[len(out)-1] = out[len(out)-1], out[0]
				return out
			}
		case 5: // one entry duplicated over another / appended
			if len(out) >= 2 {
				out[r.Intn(len(out))] = out[r.Intn(len(out))]
				return out
			}
			return append(out, out[0])
		case 6: // the same x509 certificate held with another key
			if subst(func(x int) (int, bool) {
				switch x {
				case 0, 6:
					return 9, true
				case 7:
					return Pick(r, []int{10, 11}), true
				}
				return 0, false
			}) {
				return out
			}
		case 7: // an entry dropped
			return out[:len(out)-1]
		}
	}
	return Pick(r, [][]int{{0}, {1}, {2}, {4}, {7}, {8}, {0, 1}, {1, 0}, {0, 4}, {0, 1, 2}, {3}, {0, 3}, {9}, {6}, {10}, {11}, {12}, {13}, {14}, {15}, {16}})
}

func c39GenCase(r *Rand, i int) c39Case {
	g := &c39Gen{r: r}
	init := c39Config{Servers: g.servers(false), Policy: r.Intn(3), Bundle: r.Intn(4), RTCPMux: r.Intn(3),
		Identity: Pick(r, []string{"", "", "a", "b"}), Certs: Pick(r, [][]int{{}, {}, {0}, {0}, {1}, {0, 1}, {2, 0}, {4}, {6}, {7}, {8, 1}, {0, 4}, {5, 7, 0},
			{13}, {14}, {16}, {14, 13}, {0, 13}, {0}, {13}, {14, 0}, {12}, {0, 12}, {16, 1}}),
		Pool: Pick(r, []int{0, 0, 1}), Semantics: Pick(r, []int{0, 0, 2}), AlwaysDC: r.Chance(1, 4)}
	c := c39Case{Init: init}
	n := r.Range(1, 5)
	for k := 0; k < n; k++ {
		switch x := r.Intn(10); {
		case x < 2:
			c.Steps = append(c.Steps, c39Step{K: 1})
		case x < 3:
			c.Steps = append(c.Steps, c39Step{K: 2})
		default:
			nc := g.newConfig(init)
			c.Steps = append(c.Steps, c39Step{K: 0, New: &nc})
		}
	}
	return c
}

func c39Shrink(c c39Case) []c39Case {
	var out []c39Case
	for i := range c.Steps {
		d := c
		d.Steps = append(append([]c39Step{}, c.Steps[:i]...), c.Steps[i+1:]...)
		out = append(out, d)
	}
	for i, st := range c.Steps {
		if st.K != 0 {
			continue
		}
		if len(st.New.Servers) > 0 {
			d := c
			d.Steps = append([]c39Step{}, c.Steps...)
			nc := *st.New
			nc.Servers = nc.Servers[:len(nc.Servers)-1]
			d.Steps[i] = c39Step{K: 0, New: &nc}
			out = append(out, d)
		}
	}
	return out
}

func init() {
	set := func(c c39Config) c39Step { return c39Step{K: 0, New: &c} }
	Register(Spec[c39Case]{
		ID: "C39", Suite: "hist", CoqImports: []string{"Check.C39"},
		CoqType: "Z * config * list istep", CoqRun: "Check.C39.run",
		Quick: 600, Thorough: 25000, Parallel: 8,
		Corpus: func() []c39Case {
			base := c39Config{Servers: []c39Server{}, Certs: []int{0}, Identity: "a", Bundle: 2, RTCPMux: 1, Pool: 1}
			same := base
			return []c39Case{
				// one change per immutable field, fresh / with local description / closed
				{Init: base, Steps: []c39Step{set(c39Config{Servers: []c39Server{}, Certs: []int{}, Identity: "b"})}},
				{Init: base, Steps: []c39Step{set(c39Config{Servers: []c39Server{}, Certs: []int{1}})}},
				{Init: base, Steps: []c39Step{set(c39Config{Servers: []c39Server{}, Certs: []int{}, Bundle: 3})}},
				{Init: base, Steps: []c39Step{set(c39Config{Servers: []c39Server{}, Certs: []int{}, RTCPMux: 2})}},
				{Init: base, Steps: []c39Step{set(c39Config{Servers: []c39Server{}, Certs: []int{}, Pool: 2}), {K: 1},
					set(c39Config{Servers: []c39Server{}, Certs: []int{}, Pool: 2}), set(same)}},
				// unchanged fields + an invalid server behind a valid one: nothing may change
				{Init: base, Steps: []c39Step{set(c39Config{Servers: []c39Server{{ID: 1, URLs: []int{1}}, {ID: 2, URLs: []int{2}, User: true}},
					Certs: []int{0}, Identity: "a", Bundle: 2, RTCPMux: 1, Policy: 1, AlwaysDC: true})}},
				{Init: base, Steps: []c39Step{{K: 2}, set(same), {K: 1}}},
				// another certificate generated for the SAME key: a different certificate
				{Init: base, Steps: []c39Step{set(c39Config{Servers: []c39Server{}, Certs: []int{4}}), {K: 1},
					set(c39Config{Servers: []c39Server{}, Certs: []int{4}})}},
				{Init: c39Config{Servers: []c39Server{}, Certs: []int{7, 1}}, Steps: []c39Step{
					set(c39Config{Servers: []c39Server{}, Certs: []int{8, 1}}), set(c39Config{Servers: []c39Server{}, Certs: []int{7, 5}}),
					set(c39Config{Servers: []c39Server{}, Certs: []int{10, 1}}), set(c39Config{Servers: []c39Server{}, Certs: []int{11, 1}}),
					set(c39Config{Servers: []c39Server{}, Certs: []int{7, 1}})}},
				// the same certificate re-imported from PEM is the same certificate
				{Init: base, Steps: []c39Step{set(c39Config{Servers: []c39Server{}, Certs: []int{6}, Policy: 1}),
					set(c39Config{Servers: []c39Server{}, Certs: []int{0}})}},
				// re-ordered, duplicated, same x509 certificate with another key
				{Init: c39Config{Servers: []c39Server{}, Certs: []int{0, 1}}, Steps: []c39Step{
					set(c39Config{Servers: []c39Server{}, Certs: []int{1, 0}}), set(c39Config{Servers: []c39Server{}, Certs: []int{0, 0}}),
					set(c39Config{Servers: []c39Server{}, Certs: []int{9, 1}}), set(c39Config{Servers: []c39Server{}, Certs: []int{0, 1}})}},
				// ---- certificate expiry ----
				// NewPeerConnection: an expired certificate, alone; second in the list together with a pool
				// size that is refused later (InvalidAccess, not NotSupported); the pool size alone
				{Init: c39Config{Servers: []c39Server{}, Certs: []int{12}}, Steps: []c39Step{}},
				{Init: c39Config{Servers: []c39Server{}, Certs: []int{0, 12}, Pool: 2}, Steps: []c39Step{}},
				{Init: c39Config{Servers: []c39Server{}, Certs: []int{}, Pool: 2}, Steps: []c39Step{}},
				// a parsed certificate whose NotAfter field was overwritten: the field is what counts
				{Init: c39Config{Servers: []c39Server{}, Certs: []int{15}}, Steps: []c39Step{}},
				// not yet expired: stored; SetConfiguration with it, with the expired and the never
				// expiring certificate of the same key (rejected as different certificates)
				{Init: c39Config{Servers: []c39Server{}, Certs: []int{13}}, Steps: []c39Step{
					set(c39Config{Servers: []c39Server{}, Certs: []int{13}}), set(c39Config{Servers: []c39Server{}, Certs: []int{12}}),
					set(c39Config{Servers: []c39Server{}, Certs: []int{14}}), {K: 1}, set(c39Config{Servers: []c39Server{}, Certs: []int{12}})}},
				// zero NotAfter never expires
				{Init: c39Config{Servers: []c39Server{}, Certs: []int{14, 0}}, Steps: []c39Step{
					set(c39Config{Servers: []c39Server{}, Certs: []int{14, 0}}), set(c39Config{Servers: []c39Server{}, Certs: []int{13, 0}})}},
				// the zero Certificate{} has a zero Expires(): stored; no list is ever equal to it
				{Init: c39Config{Servers: []c39Server{}, Certs: []int{3}}, Steps: []c39Step{
					set(c39Config{Servers: []c39Server{}, Certs: []int{3}}), set(c39Config{Servers: []c39Server{}, Certs: []int{}, Policy: 1})}},
				// WITNESSES of the repaired defect (known/C39.txt, fixed:): the stored certificate named
				// through an object that reports another expiry, in a call that is rejected for its bundle
				// policy / for an invalid ICE server / accepted: SetConfiguration used to store the
				// argument's objects before its remaining checks; the stored expiry must stay
				{Init: base, Steps: []c39Step{set(c39Config{Servers: []c39Server{}, Certs: []int{15}, Bundle: 3})}},
				{Init: base, Steps: []c39Step{set(c39Config{Servers: []c39Server{{ID: 1, URLs: []int{0}}}, Certs: []int{15}})}},
				{Init: base, Steps: []c39Step{set(c39Config{Servers: []c39Server{}, Certs: []int{15}})}},
				// SetConfiguration accepts a certificate that reports it has expired (same key, same DER as
				// the stored one) -- and used to store it
				{Init: c39Config{Servers: []c39Server{}, Certs: []int{16}}, Steps: []c39Step{
					set(c39Config{Servers: []c39Server{}, Certs: []int{12}})}},
			}
		},
		Gen: c39GenCase, Run: c39Run, Coq: c39Coq, Shrink: c39Shrink,
	})
}
