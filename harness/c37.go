//go:build verif_c37

package main

// C37: container readers never crash or hang on arbitrary bytes.
// Real readers are driven over hand-built valid files and mutations of them
// (truncation, byte flips, hostile length fields, random bytes). The direct
// oracle: no panic, no hang, and the number of successful calls is bounded by
// the input length (every successful call consumes at least one byte).

import (
	"bytes"
	"encoding/binary"
	"encoding/hex"
	"errors"
	"fmt"
	"io"
	"runtime"
	"strings"
	"time"

	"github.com/pion/webrtc/v4/pkg/media/h264reader"
	"github.com/pion/webrtc/v4/pkg/media/h265reader"
	"github.com/pion/webrtc/v4/pkg/media/ivfreader"
	"github.com/pion/webrtc/v4/pkg/media/oggreader"
	"github.com/pion/webrtc/v4/pkg/media/rtpdump"
)

type c37In struct {
	Reader string `json:"reader"` // ivf | oggnew | oggcrc | oggnocrc | h264 | h264sei | h265 | h265sei | rtpdump | opushead | opustags
	Hex    string `json:"hex"`
	Chunk  int    `json:"chunk"` // max bytes per Read of the underlying stream (0 = all)
	Mut    string `json:"mut"`   // how the input was derived (for the distribution)
}

// chunkReader delivers at most n bytes per Read.
type chunkReader struct {
	r io.Reader
	n int
}

func (c *chunkReader) Read(p []byte) (int, error) {
	if c.n > 0 && len(p) > c.n {
		p = p[:c.n]
	}
	return c.r.Read(p)
}

func c37ErrClass(err error) string {
	if errors.Is(err, io.EOF) {
		return "eof"
	}
	if errors.Is(err, io.ErrUnexpectedEOF) {
		return "unexpected-EOF"
	}
	s := err.Error()
	for _, kv := range [][2]string{
		{"incomplete frame header", "incomplete-frame-header"}, {"incomplete frame data", "incomplete-frame-data"},
		{"incomplete file header", "incomplete-file-header"}, {"IVF signature mismatch", "signature"},
		{"IVF version unknown", "version"}, {"invalid media timebase", "timebase"},
		{"bad header signature", "id-signature"}, {"bad opus tags signature", "tags"},
		{"wrong header, expected beginning", "id-type"}, {"payload for id page", "id-length"},
		{"bad payload signature", "id-payload-signature"}, {"not enough data for payload header", "short-page-header"},
		{"checksum do not match", "checksum"}, {"unsupported channel mapping", "unsupported-family"},
		{"malformed rtpdump", "malformed"}, {"stream is nil", "nil"},
		{"data is not a H264 bitstream", "notstream"}, {"data is not a H265/HEVC bitstream", "notstream"},
	} {
		if strings.Contains(s, kv[0]) {
			return kv[1]
		}
	}
	return "other"
}

func c37Run(in c37In) (V, Verdict) {
	data, err := hex.DecodeString(in.Hex)
	if err != nil {
		panic(err)
	}
	src := &chunkReader{r: bytes.NewReader(data), n: in.Chunk}
	var obs VL
	okCalls := 0
	limit := len(data) + 2
	fin := func(err error) {
		c := c37ErrClass(err)
		if c == "eof" {
			obs = append(obs, VS("eof"))
		} else {
			obs = append(obs, VL{VS("err"), VS(c)})
		}
	}
	stage := "open"
	loop := func(next func() (int, error)) {
		stage = "read"
		for okCalls <= limit {
			n, err := next()
			if err != nil {
				fin(err)
				return
			}
			if n < 0 { // reader signalled end without an error
				obs = append(obs, VS("eof"))
				return
			}
			okCalls++
			obs = append(obs, VL{VS("ok"), VZ(int64(n))})
		}
	}
	switch in.Reader {
	case "ivf":
		r, hdr, err := ivfreader.NewWith(src)
		if err != nil {
			fin(err)
			break
		}
		_ = hdr
		obs = append(obs, VL{VS("ok"), VZ(32)})
		loop(func() (int, error) {
			p, _, err := r.ParseNextFrame()
			return len(p), err
		})
	case "oggnew":
		_, h, err := oggreader.NewWith(src)
		if err != nil {
			fin(err)
			break
		}
		stage = "read"
		okCalls++
		obs = append(obs, VL{VS("ok"), VZ(int64(h.Channels))})
	case "oggcrc", "oggnocrc":
		r, err := oggreader.NewWithOptions(src, oggreader.WithDoChecksum(in.Reader == "oggcrc"))
		if err != nil {
			fin(err)
			break
		}
		loop(func() (int, error) {
			p, _, err := r.ParseNextPage()
			return len(p), err
		})
	case "h264", "h264sei":
		r, err := h264reader.NewReaderWithOptions(src, h264reader.WithIncludeSEI(in.Reader == "h264sei"))
		if err != nil {
			fin(err)
			break
		}
		loop(func() (int, error) {
			n, err := r.NextNAL()
			if err != nil {
				return 0, err
			}
			return len(n.Data), nil
		})
	case "h265", "h265sei":
		r, err := h265reader.NewReaderWithOptions(src, h265reader.WithIncludeSEI(in.Reader == "h265sei"))
		if err != nil {
			fin(err)
			break
		}
		loop(func() (int, error) {
			n, err := r.NextNAL()
			if err != nil {
				return 0, err
			}
			return len(n.Data), nil
		})
	case "rtpdump":
		r, _, err := rtpdump.NewReader(src)
		if err != nil {
			fin(err)
			break
		}
		obs = append(obs, VL{VS("header")})
		loop(func() (int, error) {
			p, err := r.Next()
			return len(p.Payload), err
		})
	case "opushead":
		h, err := oggreader.ParseOpusHead(data)
		if err != nil {
			fin(err)
		} else {
			_ = h.Channels
			obs = append(obs, VL{VS("ok"), VZ(int64(len(h.ChannelMapping)))})
		}
	case "opustags":
		t, err := oggreader.ParseOpusTags(data)
		if err != nil {
			fin(err)
		} else {
			obs = append(obs, VL{VS("ok"), VZ(int64(len(t.UserComments)))})
		}
	default:
		panic("unknown reader " + in.Reader)
	}
	v := Pass(in.Reader+"/"+in.Mut, stage == "read" && (okCalls > 0 || in.Mut != "valid"))
	if in.Reader == "opushead" || in.Reader == "opustags" {
		v.NonTrivial = len(data) >= 8
	}
	if okCalls > limit {
		v = Fail("no-progress-"+in.Reader, fmt.Sprintf("%d successful calls on %d bytes of input", okCalls, len(data)))
	}
	return obs, v
}

// ---------- hand-built valid files ----------

func le16(v int) []byte { b := make([]byte, 2); binary.LittleEndian.PutUint16(b, uint16(v)); return b }
func le32(v uint32) []byte {
	b := make([]byte, 4)
	binary.LittleEndian.PutUint32(b, v)
	return b
}
func le64(v uint64) []byte { b := make([]byte, 8); binary.LittleEndian.PutUint64(b, v); return b }

func c37IVF(r *Rand) []byte {
	var b []byte
	b = append(b, "DKIF"...)
	b = append(b, le16(0)...)
	b = append(b, le16(32)...)
	b = append(b, Pick(r, []string{"VP80", "VP90", "AV01"})...)
	b = append(b, le16(r.Range(1, 1920))...)
	b = append(b, le16(r.Range(1, 1080))...)
	b = append(b, le32(uint32(r.Range(1, 90000)))...)
	b = append(b, le32(uint32(r.Range(1, 30)))...)
	n := r.Range(0, 5)
	b = append(b, le32(uint32(n))...)
	b = append(b, le32(0)...)
	for i := 0; i < n; i++ {
		sz := r.Range(0, 60)
		b = append(b, le32(uint32(sz))...)
		b = append(b, le64(uint64(i*3000))...)
		b = append(b, r.Bytes(sz)...)
	}
	return b
}

var c37crcTable = func() [256]uint32 {
	var t [256]uint32
	for i := range t {
		r := uint32(i) << 24
		for j := 0; j < 8; j++ {
			if r&0x80000000 != 0 {
				r = (r << 1) ^ 0x04c11db7
			} else {
				r <<= 1
			}
		}
		t[i] = r
	}
	return t
}()

func c37OggPage(htype byte, granule uint64, serial, index uint32, payload []byte) []byte {
	var segs []byte
	n := len(payload)
	for n >= 255 {
		segs = append(segs, 255)
		n -= 255
	}
	segs = append(segs, byte(n))
	h := append([]byte("OggS"), 0, htype)
	h = append(h, le64(granule)...)
	h = append(h, le32(serial)...)
	h = append(h, le32(index)...)
	h = append(h, 0, 0, 0, 0, byte(len(segs)))
	page := append(append(h, segs...), payload...)
	var crc uint32
	for _, v := range page {
		crc = (crc << 8) ^ c37crcTable[byte(crc>>24)^v]
	}
	binary.LittleEndian.PutUint32(page[22:], crc)
	return page
}

func c37OpusHead(r *Rand) []byte {
	b := append([]byte("OpusHead"), 1, byte(r.Range(1, 2)))
	b = append(b, le16(r.Range(0, 4000))...)
	b = append(b, le32(48000)...)
	b = append(b, le16(0)...)
	b = append(b, 0)
	return b
}

func c37OpusTags(r *Rand) []byte {
	vendor := "pion" + strings.Repeat("x", r.Range(0, 6))
	b := append([]byte("OpusTags"), le32(uint32(len(vendor)))...)
	b = append(b, vendor...)
	n := r.Range(0, 3)
	b = append(b, le32(uint32(n))...)
	for i := 0; i < n; i++ {
		c := fmt.Sprintf("K%d=%s", i, strings.Repeat("v", r.Range(0, 5)))
		b = append(b, le32(uint32(len(c)))...)
		b = append(b, c...)
	}
	return b
}

func c37Ogg(r *Rand) []byte {
	serial := uint32(r.U64())
	out := c37OggPage(2, 0, serial, 0, c37OpusHead(r))
	out = append(out, c37OggPage(0, 0, serial, 1, c37OpusTags(r))...)
	n := r.Range(0, 4)
	for i := 0; i < n; i++ {
		sz := r.Range(1, 300)
		ht := byte(0)
		if i == n-1 {
			ht = 4
		}
		out = append(out, c37OggPage(ht, uint64((i+1)*960), serial, uint32(i+2), r.Bytes(sz))...)
	}
	return out
}

func c37AnnexB(r *Rand, h265 bool) []byte {
	var out []byte
	n := r.Range(1, 6)
	for i := 0; i < n; i++ {
		if r.Bool() {
			out = append(out, 0)
		}
		out = append(out, 0, 0, 1)
		sz := r.Range(1, 40)
		nal := r.Bytes(sz)
		if h265 {
			t := Pick(r, []int{32, 33, 34, 19, 1, 39, 40})
			nal[0] = byte(t << 1)
		} else {
			nal[0] = byte(Pick(r, []int{7, 8, 5, 1, 6, 6}))
		}
		for k := range nal { // avoid emulated start codes in the valid seed
			if nal[k] < 2 {
				nal[k] = 2 + nal[k]
			}
		}
		out = append(out, nal...)
	}
	return out
}

func c37RtpDump(r *Rand) []byte {
	out := []byte(fmt.Sprintf("#!rtpplay1.0 %d.%d.%d.%d/%d\n", r.Intn(256), r.Intn(256), r.Intn(256), r.Intn(256), r.Intn(65536)))
	hdr := make([]byte, 16)
	binary.BigEndian.PutUint32(hdr[0:], uint32(r.U64()))
	binary.BigEndian.PutUint32(hdr[4:], uint32(r.Intn(1000000)))
	copy(hdr[8:12], r.Bytes(4))
	binary.BigEndian.PutUint16(hdr[12:], uint16(r.Intn(65536)))
	out = append(out, hdr...)
	n := r.Range(0, 5)
	for i := 0; i < n; i++ {
		sz := r.Range(1, 50)
		rec := make([]byte, 8)
		binary.BigEndian.PutUint16(rec[0:], uint16(sz+8))
		if r.Chance(3, 4) {
			binary.BigEndian.PutUint16(rec[2:], uint16(sz))
		}
		binary.BigEndian.PutUint32(rec[4:], uint32(i*20))
		out = append(out, rec...)
		out = append(out, r.Bytes(sz)...)
	}
	return out
}

// c37OggStructured builds an Ogg file whose pages carry VALID checksums but
// whose header payloads are mutated (truncated / bit-flipped / random OpusHead
// and OpusTags, odd header types): byte-level mutation never gets past the CRC.
func c37OggStructured(r *Rand) []byte {
	serial := uint32(r.U64())
	mut := func(b []byte) []byte {
		switch r.Intn(5) {
		case 0:
			return b[:r.Intn(len(b)+1)]
		case 1:
			c := append([]byte(nil), b...)
			if len(c) > 0 {
				c[r.Intn(len(c))] ^= byte(1 << r.Intn(8))
			}
			return c
		case 2:
			keep := 8
			if keep > len(b) {
				keep = len(b)
			}
			return append(append([]byte(nil), b[:keep]...), r.Bytes(r.Range(0, 24))...)
		case 3:
			return append(append([]byte(nil), b...), r.Bytes(r.Range(1, 12))...)
		}
		return b
	}
	ht := byte(2)
	if r.Chance(1, 6) {
		ht = byte(r.Intn(8))
	}
	out := c37OggPage(ht, 0, serial, 0, mut(c37OpusHead(r)))
	out = append(out, c37OggPage(0, 0, serial, 1, mut(c37OpusTags(r)))...)
	for i, n := 0, r.Range(0, 3); i < n; i++ {
		out = append(out, c37OggPage(byte(r.Intn(8)), uint64((i+1)*960), serial, uint32(i+2), r.Bytes(r.Range(0, 600)))...)
	}
	return out
}

func c37Valid(r *Rand, reader string) []byte {
	switch reader {
	case "ivf":
		return c37IVF(r)
	case "oggnew", "oggcrc", "oggnocrc":
		return c37Ogg(r)
	case "h264", "h264sei":
		return c37AnnexB(r, false)
	case "h265", "h265sei":
		return c37AnnexB(r, true)
	case "rtpdump":
		return c37RtpDump(r)
	case "opushead":
		return c37OpusHead(r)
	case "opustags":
		return c37OpusTags(r)
	}
	panic(reader)
}

var c37Readers = []string{"ivf", "oggnew", "oggcrc", "oggnocrc", "h264", "h264sei", "h265", "h265sei", "rtpdump", "opushead", "opustags"}

func c37Mutate(r *Rand, data []byte) ([]byte, string) {
	d := append([]byte(nil), data...)
	switch r.Intn(8) {
	case 0:
		return d, "valid"
	case 1:
		return d[:r.Intn(len(d)+1)], "truncate"
	case 2:
		for k := r.Range(1, 3); k > 0 && len(d) > 0; k-- {
			d[r.Intn(len(d))] ^= byte(1 << r.Intn(8))
		}
		return d, "bitflip"
	case 3:
		if len(d) >= 4 { // hostile 16/32-bit field somewhere
			off := r.Intn(len(d) - 3)
			v := Pick(r, []uint32{0, 1, 7, 8, 0xff, 0xffff, 0x7fffffff, 0xffffffff, 0x80000000, uint32(len(d))})
			if r.Bool() {
				binary.LittleEndian.PutUint32(d[off:], v)
			} else {
				binary.BigEndian.PutUint32(d[off:], v)
			}
		}
		return d, "hostile-field"
	case 4:
		if len(d) > 0 { // delete a byte run
			a := r.Intn(len(d))
			b := a + r.Intn(len(d)-a+1)
			d = append(d[:a], d[b:]...)
		}
		return d, "delete-run"
	case 5:
		a := r.Intn(len(d) + 1)
		d = append(d[:a], append(r.Bytes(r.Range(1, 20)), d[a:]...)...)
		return d, "insert-run"
	case 6:
		keep := 4 + r.Intn(12)
		if keep > len(d) {
			keep = len(d)
		}
		return append(d[:keep], r.Bytes(r.Range(0, 80))...), "magic+random"
	}
	return r.Bytes(r.Range(0, 64)), "random"
}

func c37Coq(in c37In) string { return c37CoqModel(in) }

// c37RunAlloc: same run, sequentially, with the bytes allocated measured: a
// reader must not allocate what a length field declares before the bytes are
// there (a 44-byte IVF file used to make ParseNextFrame allocate up to 4 GiB).
func c37RunAlloc(in c37In) (V, Verdict) {
	var m0, m1 runtime.MemStats
	runtime.GC()
	runtime.ReadMemStats(&m0)
	obs, v := c37Run(in)
	runtime.ReadMemStats(&m1)
	alloc := m1.TotalAlloc - m0.TotalAlloc
	budget := uint64(8<<20) + 4096*uint64(len(in.Hex)/2)
	if v.OK && alloc > budget {
		v = Fail("unbounded-allocation-"+in.Reader,
			fmt.Sprintf("%d bytes of input made the reader allocate %d bytes", len(in.Hex)/2, alloc))
	}
	return obs, v
}

func init() {
	Register(Spec[c37In]{
		ID: "C37", Suite: "mut", CoqImports: c37CoqImports, CoqType: "string * string * Z", CoqRun: c37CoqRun,
		// thorough: 48000 cases = 120 case files of 400, evaluated 8 at a time.
		// Measured on a 16-core machine that other jobs kept at load 30-60:
		// 48000 cases 13.1 min wall / 60 CPU-min; 60000 cases 19.6 min / 92
		// CPU-min; 200000 cases stopped after 25 min with 190 of 501 files done.
		// About 30 s of Coq time per file, 15 rounds of 8, plus 63 s coqchk and
		// the build: about 9-10 min on an idle machine.
		Quick: 6000, Thorough: 48000, Parallel: 4, Timeout: 20 * time.Second,
		Corpus: func() []c37In {
			return []c37In{
				{Reader: "rtpdump", Mut: "len-field-4", Hex: hex.EncodeToString(append(append([]byte("#!rtpplay1.0 1.2.3.4/5\n"), make([]byte, 16)...), 0, 4, 0, 0, 0, 0, 0, 0, 9, 9))},
				{Reader: "ivf", Mut: "hostile-field", Hex: hex.EncodeToString(append(c37IVF(NewRand(3)), 0xff, 0xff, 0xff, 0x7f, 0, 0, 0, 0, 0, 0, 0, 0, 1))},
				{Reader: "opushead", Mut: "truncate", Hex: ""},
				{Reader: "opustags", Mut: "hostile-field", Hex: hex.EncodeToString(append([]byte("OpusTags"), 0xff, 0xff, 0xff, 0xff))},
			}
		},
		Gen: func(r *Rand, i int) c37In {
			reader := c37Readers[i%len(c37Readers)]
			d, mut := c37Mutate(r, c37Valid(r, reader))
			if strings.HasPrefix(reader, "ogg") && r.Chance(1, 2) {
				d, mut = c37OggStructured(r), "valid-crc-mutated-payload"
			}
			if reader == "opustags" && r.Chance(1, 3) {
				// well-formed payload with ONE length field (vendor length, comment count or a
				// comment length) replaced by a hostile value, incl. values near 2^32 that wrap
				// 32-bit sums
				vendor := "pion"
				nc := r.Range(1, 3)
				hostile := Pick(r, []uint32{0xffffffff, 0xfffffff0, 0xffffffe8, 0xfffffffc, 0x80000000, 0x7fffffff,
					0xffffffff - uint32(r.Intn(64)), uint32(r.Intn(64)), 0x10000})
				which := r.Intn(nc + 2)
				put := func(i int, v uint32) []byte {
					if i == which {
						v = hostile
					}
					return le32(v)
				}
				b := append([]byte("OpusTags"), put(0, uint32(len(vendor)))...)
				b = append(b, vendor...)
				b = append(b, put(1, uint32(nc))...)
				for k := 0; k < nc; k++ {
					c := fmt.Sprintf("K%d=%s", k, strings.Repeat("v", r.Range(0, 5)))
					b = append(b, put(2+k, uint32(len(c)))...)
					b = append(b, c...)
				}
				d, mut = b, "hostile-length-field"
			}
			if (reader == "opushead" || reader == "opustags") && mut != "hostile-length-field" && r.Chance(1, 4) {
				// every prefix length matters for the fixed-offset field reads
				v := c37Valid(r, reader)
				d, mut = append(v[:r.Intn(len(v)+1)], r.Bytes(r.Intn(3))...), "prefix+random"
			}
			chunk := 0
			if r.Bool() {
				chunk = r.Range(1, 9)
			}
			return c37In{Reader: reader, Hex: hex.EncodeToString(d), Chunk: chunk, Mut: mut}
		},
		Run: c37Run, Coq: c37Coq,
	})
	// hostile length fields, run one at a time with the allocation measured
	Register(Spec[c37In]{
		ID: "C37", Suite: "alloc", CoqImports: c37CoqImports, CoqType: "string * string * Z", CoqRun: c37CoqRun,
		Quick: 150, Thorough: 3000, Parallel: 1, Timeout: 60 * time.Second,
		Corpus: func() []c37In {
			ivf := c37IVF(NewRand(5))[:32]
			var out []c37In
			for _, sz := range []uint32{0x7fffffff, 0xffffffff, 0x10000000} {
				d := append(append(append([]byte(nil), ivf...), le32(sz)...), le64(0)...)
				d = append(d, 1, 2, 3)
				out = append(out, c37In{Reader: "ivf", Hex: hex.EncodeToString(d), Mut: "hostile-frame-size"})
			}
			return out
		},
		Gen: func(r *Rand, i int) c37In {
			reader := c37Readers[i%len(c37Readers)]
			d := c37Valid(r, reader)
			for k := r.Range(1, 2); k > 0 && len(d) >= 4; k-- {
				off := r.Intn(len(d) - 3)
				v := Pick(r, []uint32{0xffffffff, 0x7fffffff, 0xfffffff0, 0x40000000, 0xffff0000, 0x00ffffff})
				if r.Bool() {
					binary.LittleEndian.PutUint32(d[off:], v)
				} else {
					binary.BigEndian.PutUint32(d[off:], v)
				}
			}
			return c37In{Reader: reader, Hex: hex.EncodeToString(d), Mut: "hostile-field"}
		},
		Run: c37RunAlloc, Coq: c37Coq,
	})
	// every truncation of one valid file per reader
	Register(Spec[c37In]{
		ID: "C37", Suite: "trunc", CoqImports: c37CoqImports, CoqType: "string * string * Z", CoqRun: c37CoqRun,
		Parallel: 4, Timeout: 20 * time.Second,
		Exhaustive: func() []c37In {
			var out []c37In
			for k, reader := range c37Readers {
				d := c37Valid(NewRand(uint64(100+k)), reader)
				for n := 0; n <= len(d); n++ {
					out = append(out, c37In{Reader: reader, Hex: hex.EncodeToString(d[:n]), Chunk: 1 + n%5, Mut: "truncate"})
				}
			}
			return out
		},
		Run: c37Run, Coq: c37Coq,
	})
}
