//go:build verif_c38

package main

// C38: public value types survive their JSON / text / PEM encodings.
//
// Suites
//   enum    every declared value of every enum (plus values past the end):
//           String(), the text decoder, real json.Marshal / json.Unmarshal
//   dec     the enum decoders on arbitrary strings (names, case variants, junk)
//   struct  SessionDescription / ICECandidateInit / ICEServer values through
//           real encoding/json, compared with reflect.DeepEqual
//   srvjson ICEServer.UnmarshalJSON on arbitrary JSON trees
//   stats   every Stats type, populated by reflection, through json.Marshal
//           and UnmarshalStatsJSON, for every type tag and kind
//   pem     Certificate.PEM / CertificateFromPEM with ECDSA and RSA
//           certificates, and re-assembled block sequences

import (
	"bytes"
	"crypto/ecdsa"
	"crypto/elliptic"
	"crypto/rand"
	"crypto/rsa"
	"crypto/x509"
	"crypto/x509/pkix"
	"encoding/base64"
	"encoding/json"
	"encoding/pem"
	"fmt"
	"math"
	"math/big"
	"reflect"
	"sort"
	"strings"
	"sync"
	"time"
	"unicode/utf8"

	"github.com/pion/webrtc/v4"
)

// ---------------------------------------------------------------- helpers

func hexS(s string) V       { return VS(fmt.Sprintf("%x", s)) }
func coqHexS(s string) string { return fmt.Sprintf("\"%x\"", s) }

func vResultOK(v V) V      { return VL{VS("ok"), v} }
func vResultErr(c string) V { return VL{VS("err"), VS(c)} }
func vOpt(present bool, v V) V {
	if !present {
		return VL{}
	}
	return VL{v}
}

// JSON text -> tree in document order, rendered like Check/C38.v json_V.
// Numbers must be integers (the shapes compared tree-wise hold no floats).
func c38TreeV(b []byte) (V, error) {
	dec := json.NewDecoder(bytes.NewReader(b))
	dec.UseNumber()
	v, err := c38TreeVal(dec)
	if err != nil {
		return nil, err
	}
	if _, err := dec.Token(); err == nil {
		return nil, fmt.Errorf("trailing data")
	}
	return v, nil
}

func c38TreeVal(dec *json.Decoder) (V, error) {
	tok, err := dec.Token()
	if err != nil {
		return nil, err
	}
	switch t := tok.(type) {
	case nil:
		return VL{VS("n")}, nil
	case bool:
		return VL{VS("b"), VB(t)}, nil
	case json.Number:
		z, err := t.Int64()
		if err != nil {
			return nil, fmt.Errorf("non-integer number %s", t)
		}
		return VL{VS("z"), VZ(z)}, nil
	case string:
		return VL{VS("s"), hexS(t)}, nil
	case json.Delim:
		switch t {
		case '[':
			items := VL{}
			for dec.More() {
				x, err := c38TreeVal(dec)
				if err != nil {
					return nil, err
				}
				items = append(items, x)
			}
			if _, err := dec.Token(); err != nil {
				return nil, err
			}
			return VL{VS("a"), items}, nil
		case '{':
			items := VL{}
			for dec.More() {
				k, err := dec.Token()
				if err != nil {
					return nil, err
				}
				x, err := c38TreeVal(dec)
				if err != nil {
					return nil, err
				}
				items = append(items, VL{hexS(k.(string)), x})
			}
			if _, err := dec.Token(); err != nil {
				return nil, err
			}
			return VL{VS("o"), items}, nil
		}
	}
	return nil, fmt.Errorf("unexpected token %v", tok)
}

// a decoded `any` (Go map: no order), rendered like json_V_sorted
func c38AnyV(x any) V {
	switch t := x.(type) {
	case nil:
		return VL{VS("n")}
	case bool:
		return VL{VS("b"), VB(t)}
	case float64:
		return VL{VS("z"), VZ(int64(t))}
	case string:
		return VL{VS("s"), hexS(t)}
	case []any:
		items := VL{}
		for _, e := range t {
			items = append(items, c38AnyV(e))
		}
		return VL{VS("a"), items}
	case map[string]any:
		keys := make([]string, 0, len(t))
		for k := range t {
			keys = append(keys, k)
		}
		sort.Strings(keys)
		items := VL{}
		for _, k := range keys {
			items = append(items, VL{hexS(k), c38AnyV(t[k])})
		}
		return VL{VS("o"), items}
	}
	return VS(fmt.Sprintf("?%T", x))
}

// unusual but valid UTF-8 strings
var c38Pieces = []string{
	"a", "Z", "0", " ", "\"", "\\", "/", "<", ">", "&", "'", "\n", "\r\n", "\t", "\x00", "\x1f", "\x7f",
	"\u00e9", "\u00df", "\u65e5\u672c", "\U0001F600", "\u2028", "\u00a0", "\ufffd", "e\u0301", "\u212a", "\u017f",
	"null", "{}", "[",
	"stun:", "turn:host:3478?transport=udp", "a=mid:0", "candidate:1 1 udp 2130706431 10.0.0.1 5000 typ host",
}

func c38Str(r *Rand) string {
	switch r.Intn(24) {
	case 0, 1:
		return ""
	case 2, 3:
		return "v=0\r\no=- 4215775240449105457 1 IN IP4 0.0.0.0\r\ns=-\r\nt=0 0\r\n"
	case 4:
		var b strings.Builder
		n := r.Range(100, 400)
		if r.Chance(1, 10) {
			n = 2500
		}
		for b.Len() < n {
			b.WriteString(Pick(r, c38Pieces))
		}
		return b.String()
	}
	var b strings.Builder
	for i, n := 0, r.Range(1, 12); i < n; i++ {
		b.WriteString(Pick(r, c38Pieces))
	}
	return b.String()
}

// ---------------------------------------------------------------- enums

type c38Enum struct {
	name     string
	n        int  // declared values are 0..n-1
	signed   bool // a negative value is representable
	max      int  // largest representable probe value
	hasJSON  bool // MarshalJSON or MarshalText: JSON string form
	str      func(v int) string
	marshal  func(v int) ([]byte, error)
	unmarshal func(b []byte) (int, error)
}

type c38Int interface {
	~int | ~int32 | ~uint32 | ~uint8
	String() string
}

func c38Mk[T c38Int](name string, n int, hasJSON bool) c38Enum {
	var zero T
	signed := zero-1 < zero
	max := 1 << 20
	if reflect.TypeOf(zero).Kind() == reflect.Uint8 {
		max = 255
	}
	return c38Enum{
		name: name, n: n, signed: signed, max: max, hasJSON: hasJSON,
		str:     func(v int) string { return T(v).String() },
		marshal: func(v int) ([]byte, error) { return json.Marshal(T(v)) },
		unmarshal: func(b []byte) (int, error) {
			var t T
			err := json.Unmarshal(b, &t)
			return int(t), err
		},
	}
}

// declared-value counts are read off the const blocks; the exhaustive suite
// checks String() of value n is "unknown", i.e. that no constant was missed
var c38Enums = []c38Enum{
	c38Mk[webrtc.SDPType]("SDPType", 5, true),
	c38Mk[webrtc.SignalingState]("SignalingState", 7, false),
	c38Mk[webrtc.ICEConnectionState]("ICEConnectionState", 8, false),
	c38Mk[webrtc.ICEGatheringState]("ICEGatheringState", 4, false),
	c38Mk[webrtc.ICEGathererState]("ICEGathererState", 5, false),
	c38Mk[webrtc.ICETransportState]("ICETransportState", 8, true),
	c38Mk[webrtc.ICERole]("ICERole", 3, true),
	c38Mk[webrtc.ICEComponent]("ICEComponent", 3, false),
	c38Mk[webrtc.ICEProtocol]("ICEProtocol", 3, false),
	c38Mk[webrtc.ICECandidateType]("ICECandidateType", 5, true),
	c38Mk[webrtc.ICECredentialType]("ICECredentialType", 2, true),
	c38Mk[webrtc.ICETransportPolicy]("ICETransportPolicy", 3, true),
	c38Mk[webrtc.DTLSTransportState]("DTLSTransportState", 6, true),
	c38Mk[webrtc.DTLSRole]("DTLSRole", 4, false),
	c38Mk[webrtc.SCTPTransportState]("SCTPTransportState", 4, false),
	c38Mk[webrtc.DataChannelState]("DataChannelState", 5, true),
	c38Mk[webrtc.PeerConnectionState]("PeerConnectionState", 7, false),
	c38Mk[webrtc.BundlePolicy]("BundlePolicy", 4, true),
	c38Mk[webrtc.RTCPMuxPolicy]("RTCPMuxPolicy", 3, true),
	c38Mk[webrtc.SDPSemantics]("SDPSemantics", 3, true),
	c38Mk[webrtc.RTPTransceiverDirection]("RTPTransceiverDirection", 5, false),
	c38Mk[webrtc.NetworkType]("NetworkType", 5, false),
	c38Mk[webrtc.ICETrickleCapability]("ICETrickleCapability", 3, false),
	c38Mk[webrtc.RTPCodecType]("RTPCodecType", 3, false),
}

func c38FindEnum(name string) *c38Enum {
	for i := range c38Enums {
		if c38Enums[i].name == name {
			return &c38Enums[i]
		}
	}
	return nil
}

const c38UnknownStr = "unknown"

func c38ErrV(val int, err error) V {
	if err != nil {
		return vResultErr(webrtc.VerifErrClass(err))
	}
	return vResultOK(VZ(int64(val)))
}

type c38EnumIn struct {
	Name string `json:"name"`
	V    int    `json:"v"`
}

func c38EnumRun(in c38EnumIn) (V, Verdict) {
	e := c38FindEnum(in.Name)
	s := e.str(in.V)
	tv, terr, hasText := webrtc.VerifEnumOfText(in.Name, s)
	enc, merr := e.marshal(in.V)
	if merr != nil {
		return VS("marshal-error"), Fail("enum-marshal-error/"+in.Name, merr.Error())
	}
	tree, err := c38TreeV(enc)
	if err != nil {
		return VS("bad-json"), Fail("enum-marshal-bad-json/"+in.Name, err.Error())
	}
	jv, jerr := e.unmarshal(enc)
	obs := VL{VS(s), vOpt(hasText, c38ErrV(tv, terr)), tree, c38ErrV(jv, jerr)}

	declared := in.V >= 0 && in.V < e.n
	if !declared {
		// not a value of the enumeration: only its String() is pinned here
		if s != c38UnknownStr {
			return obs, Fail("undeclared-enum-value-has-a-name/"+in.Name,
				fmt.Sprintf("%s(%d).String() = %q: the const block has more values than the check's table", in.Name, in.V, s))
		}
		return obs, Pass("out-of-range", false)
	}
	// the property: decoding the encoding yields the value
	isUnknownConst := in.V == 0 && s == c38UnknownStr
	var bad []string
	if hasText && (terr != nil || tv != in.V) {
		bad = append(bad, fmt.Sprintf("text %q -> (%d, %v)", s, tv, terr))
	}
	if jerr != nil || jv != in.V {
		bad = append(bad, fmt.Sprintf("json %s -> (%d, %v)", enc, jv, jerr))
	}
	if len(bad) > 0 {
		what := fmt.Sprintf("%s(%d): %s", in.Name, in.V, strings.Join(bad, "; "))
		if isUnknownConst && (terr != nil || jerr != nil) {
			return obs, Fail("unknown-enum-marshals-to-unparseable-string/"+in.Name, what)
		}
		return obs, Fail("enum-roundtrip-differs/"+in.Name, what)
	}
	cl := "declared"
	if isUnknownConst {
		cl = "declared-unknown"
	}
	return obs, Pass(cl, true)
}

func c38EnumAll() []c38EnumIn {
	var out []c38EnumIn
	for _, e := range c38Enums {
		if e.signed {
			out = append(out, c38EnumIn{e.name, -1})
		}
		for v := 0; v < e.n+2; v++ {
			out = append(out, c38EnumIn{e.name, v})
		}
		for _, v := range []int{17, 100, 255} {
			if v <= e.max {
				out = append(out, c38EnumIn{e.name, v})
			}
		}
	}
	return out
}

// ---- decoders on arbitrary strings

type c38DecIn struct {
	Name string `json:"name"`
	JSON bool   `json:"json"`
	Raw  string `json:"raw"`
}

func c38Printable(s string) bool {
	for i := 0; i < len(s); i++ {
		if s[i] < 32 || s[i] > 126 {
			return false
		}
	}
	return true
}

func c38DecRun(in c38DecIn) (V, Verdict) {
	e := c38FindEnum(in.Name)
	var val int
	var err error
	if in.JSON {
		if !e.hasJSON {
			return VS("no-decoder"), Pass("no-decoder", false)
		}
		q, _ := json.Marshal(in.Raw)
		val, err = e.unmarshal(q)
	} else {
		var known bool
		val, err, known = webrtc.VerifEnumOfText(in.Name, in.Raw)
		if !known {
			return VS("no-decoder"), Pass("no-decoder", false)
		}
	}
	obs := c38ErrV(val, err)
	// independent oracle: a decoder inverts String() on the named values and
	// names nothing else (up to letter case)
	named := -1
	for v := 0; v < e.n; v++ {
		if s := e.str(v); s != c38UnknownStr && s == in.Raw {
			named = v
		}
	}
	if named >= 0 && (err != nil || val != named) {
		return obs, Fail("enum-decoder-misses-own-name/"+in.Name,
			fmt.Sprintf("%q is %s(%d).String() but decodes to (%d, %v)", in.Raw, in.Name, named, val, err))
	}
	if err == nil && val >= 0 && val < e.n && e.str(val) != c38UnknownStr &&
		!strings.EqualFold(e.str(val), in.Raw) {
		// the fallback value of a lenient decoder may itself be a named value
		// (ICETransportPolicy: all, SDPSemantics: unified-plan): that is the default arm
		if val != 0 {
			return obs, Fail("enum-decoder-accepts-foreign-name/"+in.Name,
				fmt.Sprintf("%q decodes to %s(%d) = %q", in.Raw, in.Name, val, e.str(val)))
		}
	}
	cl := "junk"
	switch {
	case named >= 0:
		cl = "own-name"
	case err == nil && val > 0:
		cl = "case-variant"
	case err != nil:
		cl = "rejected"
	}
	return obs, Pass(cl, named >= 0 || (err == nil && val > 0))
}

func c38DecGen(r *Rand, _ int) c38DecIn {
	var e *c38Enum
	for {
		e = &c38Enums[r.Intn(len(c38Enums))]
		if _, _, known := webrtc.VerifEnumOfText(e.name, ""); known || e.hasJSON {
			break
		}
	}
	in := c38DecIn{Name: e.name, JSON: e.hasJSON && r.Bool()}
	if _, _, known := webrtc.VerifEnumOfText(e.name, ""); !known {
		in.JSON = true
	}
	src := e
	if r.Chance(1, 5) {
		src = &c38Enums[r.Intn(len(c38Enums))] // another type's vocabulary
	}
	s := src.str(r.Intn(src.n + 1))
	switch r.Intn(9) {
	case 0:
		s = strings.ToUpper(s)
	case 1:
		s = strings.ToUpper(s[:1]) + s[1:]
	case 2:
		b := []byte(s)
		for i := range b {
			if r.Bool() {
				b[i] = byte(strings.ToUpper(string(b[i]))[0])
			}
		}
		s = string(b)
	case 3:
		s = " " + s
	case 4:
		s += "x"
	case 5:
		s = s[:len(s)-1]
	case 6:
		s = Pick(r, []string{"", "unknown", "Unknown", "null", "0", "1", "-", "offer answer", "rollbac\u212a", "udp ", "TCP4"})
	}
	in.Raw = s
	return in
}

// ---------------------------------------------------------------- structs

type c38SD struct {
	Type int    `json:"type"`
	SDP  string `json:"sdp"`
}
type c38Cand struct {
	Candidate string  `json:"candidate"`
	Mid       *string `json:"mid"`
	Idx       *uint16 `json:"idx"`
	Ufrag     *string `json:"ufrag"`
}
type c38Srv struct {
	URLs     []string `json:"urls"` // nil and empty are distinct inputs
	Username string   `json:"username"`
	CredKind int      `json:"cred_kind"` // 0 nil, 1 string, 2 OAuthCredential
	Cred     string   `json:"cred"`
	MAC      string   `json:"mac"`
	Token    string   `json:"token"`
	CT       int      `json:"ct"`
}
type c38StructIn struct {
	SD   *c38SD   `json:"sd,omitempty"`
	Cand *c38Cand `json:"cand,omitempty"`
	Srv  *c38Srv  `json:"srv,omitempty"`
}

func c38ServerV(s webrtc.ICEServer) V {
	urls := VL{}
	if s.URLs != nil {
		l := VL{}
		for _, u := range s.URLs {
			l = append(l, hexS(u))
		}
		urls = VL{l}
	}
	var cred V
	switch c := s.Credential.(type) {
	case nil:
		cred = VL{VS("none")}
	case string:
		cred = VL{VS("str"), hexS(c)}
	case webrtc.OAuthCredential:
		cred = VL{VS("oauth"), hexS(c.MACKey), hexS(c.AccessToken)}
	default:
		cred = VL{VS("raw"), c38AnyV(c)}
	}
	return VL{urls, hexS(s.Username), cred, VZ(int64(s.CredentialType))}
}

func (s *c38Srv) value() webrtc.ICEServer {
	out := webrtc.ICEServer{URLs: s.URLs, Username: s.Username, CredentialType: webrtc.ICECredentialType(s.CT)}
	switch s.CredKind {
	case 1:
		out.Credential = s.Cred
	case 2:
		out.Credential = webrtc.OAuthCredential{MACKey: s.MAC, AccessToken: s.Token}
	}
	return out
}

func c38StructRun(in c38StructIn) (V, Verdict) {
	var enc []byte
	var merr, uerr error
	var equal bool
	var decoded V
	var kind string
	switch {
	case in.SD != nil:
		kind = "SessionDescription"
		v := webrtc.SessionDescription{Type: webrtc.SDPType(in.SD.Type), SDP: in.SD.SDP}
		enc, merr = json.Marshal(v)
		var out webrtc.SessionDescription
		if merr == nil {
			uerr = json.Unmarshal(enc, &out)
		}
		equal = reflect.DeepEqual(v, out)
		decoded = VL{VZ(int64(out.Type)), hexS(out.SDP)}
	case in.Cand != nil:
		kind = "ICECandidateInit"
		v := webrtc.ICECandidateInit{Candidate: in.Cand.Candidate, SDPMid: in.Cand.Mid,
			SDPMLineIndex: in.Cand.Idx, UsernameFragment: in.Cand.Ufrag}
		enc, merr = json.Marshal(v)
		var out webrtc.ICECandidateInit
		if merr == nil {
			uerr = json.Unmarshal(enc, &out)
		}
		equal = reflect.DeepEqual(v, out)
		decoded = VL{hexS(out.Candidate),
			vOpt(out.SDPMid != nil, hexS(deref(out.SDPMid))),
			vOpt(out.SDPMLineIndex != nil, VZ(int64(deref(out.SDPMLineIndex)))),
			vOpt(out.UsernameFragment != nil, hexS(deref(out.UsernameFragment)))}
	case in.Srv != nil:
		kind = "ICEServer"
		v := in.Srv.value()
		enc, merr = json.Marshal(v)
		var out webrtc.ICEServer
		if merr == nil {
			uerr = json.Unmarshal(enc, &out)
		}
		equal = reflect.DeepEqual(v, out)
		decoded = c38ServerV(out)
	default:
		panic("empty struct case")
	}
	if merr != nil {
		return VS("marshal-error"), Fail("marshal-error/"+kind, merr.Error())
	}
	tree, err := c38TreeV(enc)
	if err != nil {
		return VS("bad-json"), Fail("marshal-bad-json/"+kind, err.Error())
	}
	var res V
	if uerr != nil {
		res = vResultErr(webrtc.VerifErrClass(uerr))
	} else {
		res = vResultOK(decoded)
	}
	obs := VL{tree, res}

	// out of the property's domain: an integer that is no declared constant
	if in.SD != nil && (in.SD.Type < 0 || in.SD.Type > 4) {
		return obs, Pass("sd/undeclared-type", false)
	}
	if in.Srv != nil && (in.Srv.CT < 0 || in.Srv.CT > 1) {
		return obs, Pass("srv/undeclared-credential-type", false)
	}
	if uerr == nil && equal {
		cl := kind
		switch {
		case in.Srv != nil && in.Srv.URLs == nil:
			cl += "/nil-urls"
		case in.Srv != nil && len(in.Srv.URLs) == 0:
			cl += "/empty-urls"
		case in.Cand != nil && in.Cand.Mid == nil && in.Cand.Idx == nil && in.Cand.Ufrag == nil:
			cl += "/all-nil"
		}
		return obs, Pass(cl, true)
	}
	what := fmt.Sprintf("%s %s -> decode err=%v equal=%v", kind, enc, uerr, equal)
	// causes, most specific first
	switch {
	case in.SD != nil && in.SD.Type == 0 && uerr != nil:
		return obs, Fail("unknown-enum-marshals-to-unparseable-string/SDPType", what)
	case in.Srv != nil && ((in.Srv.CT == 0 && in.Srv.CredKind == 2) || (in.Srv.CT == 1 && in.Srv.CredKind == 1)):
		return obs, Fail("iceserver-credential-kind-differs-from-credential-type", what)
	case in.Srv != nil && in.Srv.URLs == nil && uerr != nil:
		return obs, Fail("iceserver-nil-urls-marshal-to-null-rejected", what)
	}
	return obs, Fail("roundtrip-differs/"+kind, what)
}

func deref[T any](p *T) T {
	var z T
	if p == nil {
		return z
	}
	return *p
}

func c38StructCoq(in c38StructIn) string {
	optS := func(p *string) string {
		if p == nil {
			return "None"
		}
		return "(Some " + coqHexS(*p) + ")"
	}
	switch {
	case in.SD != nil:
		return fmt.Sprintf("S_SD %s %s", CoqZ(int64(in.SD.Type)), coqHexS(in.SD.SDP))
	case in.Cand != nil:
		idx := "None"
		if in.Cand.Idx != nil {
			idx = fmt.Sprintf("(Some %d)", *in.Cand.Idx)
		}
		return fmt.Sprintf("S_Cand %s %s %s %s", coqHexS(in.Cand.Candidate), optS(in.Cand.Mid), idx, optS(in.Cand.Ufrag))
	case in.Srv != nil:
		urls := "None"
		if in.Srv.URLs != nil {
			parts := make([]string, len(in.Srv.URLs))
			for i, u := range in.Srv.URLs {
				parts[i] = coqHexS(u)
			}
			urls = "(Some " + CoqList(parts) + ")"
		}
		cred := "CI_None"
		switch in.Srv.CredKind {
		case 1:
			cred = "(CI_Str " + coqHexS(in.Srv.Cred) + ")"
		case 2:
			cred = "(CI_OAuth " + coqHexS(in.Srv.MAC) + " " + coqHexS(in.Srv.Token) + ")"
		}
		return fmt.Sprintf("S_Srv %s %s %s %s", urls, coqHexS(in.Srv.Username), cred, CoqZ(int64(in.Srv.CT)))
	}
	return ""
}

func c38StructCorpus() []c38StructIn {
	u16 := uint16(0)
	empty := ""
	return []c38StructIn{
		{SD: &c38SD{}},                        // SessionDescription{}: witness
		{SD: &c38SD{Type: 0, SDP: "v=0\r\n"}}, // SDPType(0) inside a description
		{Srv: &c38Srv{}},                      // ICEServer{URLs: nil}: repaired witness
		{Srv: &c38Srv{URLs: []string{}}},      // empty, non-nil
		{Srv: &c38Srv{URLs: []string{"turn:h"}, Username: "u", CredKind: 1, Cred: "p", CT: 1}},         // string under oauth
		{Srv: &c38Srv{URLs: []string{"turn:h"}, Username: "u", CredKind: 2, MAC: "m", Token: "t", CT: 0}}, // oauth under password
		{Srv: &c38Srv{URLs: []string{"turn:h"}, Username: "u", CredKind: 2, MAC: "m", Token: "t", CT: 1}},
		{Srv: &c38Srv{URLs: []string{"stun:h"}, CredKind: 1, Cred: ""}},
		{Cand: &c38Cand{}},
		{Cand: &c38Cand{Candidate: "", Mid: &empty, Idx: &u16, Ufrag: &empty}},
		{SD: &c38SD{Type: 1, SDP: " <>&\"\\\x00😀"}},
	}
}

func c38StructGen(r *Rand, _ int) c38StructIn {
	optS := func() *string {
		if r.Chance(1, 3) {
			return nil
		}
		s := c38Str(r)
		return &s
	}
	switch r.Intn(3) {
	case 0:
		ty := r.Range(1, 4)
		if r.Chance(1, 8) {
			ty = r.Range(0, 6)
		}
		return c38StructIn{SD: &c38SD{Type: ty, SDP: c38Str(r)}}
	case 1:
		c := &c38Cand{Candidate: c38Str(r), Mid: optS(), Ufrag: optS()}
		if r.Chance(2, 3) {
			i := uint16(c38Pick16(r))
			c.Idx = &i
		}
		return c38StructIn{Cand: c}
	}
	s := &c38Srv{Username: ""}
	switch r.Intn(6) {
	case 0: // nil
	case 1:
		s.URLs = []string{}
	default:
		for i, n := 0, r.Range(1, 4); i < n; i++ {
			s.URLs = append(s.URLs, c38Str(r))
		}
	}
	if r.Chance(2, 3) {
		s.Username = c38Str(r)
	}
	s.CT = r.Intn(2)
	switch r.Intn(4) {
	case 0: // no credential
	case 1, 2: // the kind the type calls for
		if s.CT == 0 {
			s.CredKind, s.Cred = 1, c38Str(r)
		} else {
			s.CredKind, s.MAC, s.Token = 2, c38Str(r), c38Str(r)
		}
	case 3: // any kind
		s.CredKind = r.Range(1, 2)
		s.Cred, s.MAC, s.Token = c38Str(r), c38Str(r), c38Str(r)
	}
	if r.Chance(1, 25) {
		s.CT = r.Range(2, 5)
	}
	return c38StructIn{Srv: s}
}

func c38Pick16(r *Rand) int {
	switch r.Intn(4) {
	case 0:
		return 0
	case 1:
		return 65535
	}
	return r.Intn(65536)
}

func c38StructShrink(in c38StructIn) []c38StructIn {
	var out []c38StructIn
	switch {
	case in.SD != nil:
		if in.SD.SDP != "" {
			out = append(out, c38StructIn{SD: &c38SD{Type: in.SD.Type}})
		}
	case in.Cand != nil:
		c := *in.Cand
		if c.Candidate != "" {
			d := c
			d.Candidate = ""
			out = append(out, c38StructIn{Cand: &d})
		}
		for k := 0; k < 3; k++ {
			d := c
			switch k {
			case 0:
				d.Mid = nil
			case 1:
				d.Idx = nil
			case 2:
				d.Ufrag = nil
			}
			if !reflect.DeepEqual(d, c) {
				out = append(out, c38StructIn{Cand: &d})
			}
		}
	case in.Srv != nil:
		s := *in.Srv
		if len(s.URLs) > 1 {
			d := s
			d.URLs = s.URLs[:1]
			out = append(out, c38StructIn{Srv: &d})
		}
		if s.Username != "" {
			d := s
			d.Username = ""
			out = append(out, c38StructIn{Srv: &d})
		}
		for _, f := range []func(*c38Srv){
			func(d *c38Srv) { d.Cred = "" }, func(d *c38Srv) { d.MAC = "" }, func(d *c38Srv) { d.Token = "" },
			func(d *c38Srv) {
				if len(d.URLs) == 1 {
					d.URLs = []string{"u"}
				}
			},
		} {
			d := s
			f(&d)
			if !reflect.DeepEqual(d, s) {
				out = append(out, c38StructIn{Srv: &d})
			}
		}
	}
	return out
}

// ---------------------------------------------------------------- ICEServer.UnmarshalJSON on trees

type c38J struct {
	T string  `json:"t"` // n b z s a o
	B bool    `json:"b,omitempty"`
	Z int64   `json:"z,omitempty"`
	S string  `json:"s,omitempty"`
	A []c38J  `json:"a,omitempty"`
	O []c38KV `json:"o,omitempty"`
}
type c38KV struct {
	K string `json:"k"`
	V c38J   `json:"v"`
}

func jS(s string) c38J { return c38J{T: "s", S: s} }
func jO(kv ...c38KV) c38J { return c38J{T: "o", O: kv} }
func jA(xs ...c38J) c38J  { return c38J{T: "a", A: xs} }

func (j c38J) text(b *bytes.Buffer) {
	switch j.T {
	case "n":
		b.WriteString("null")
	case "b":
		fmt.Fprintf(b, "%v", j.B)
	case "z":
		fmt.Fprintf(b, "%d", j.Z)
	case "s":
		q, _ := json.Marshal(j.S)
		b.Write(q)
	case "a":
		b.WriteByte('[')
		for i, x := range j.A {
			if i > 0 {
				b.WriteByte(',')
			}
			x.text(b)
		}
		b.WriteByte(']')
	case "o":
		b.WriteByte('{')
		for i, kv := range j.O {
			if i > 0 {
				b.WriteByte(',')
			}
			q, _ := json.Marshal(kv.K)
			b.Write(q)
			b.WriteByte(':')
			kv.V.text(b)
		}
		b.WriteByte('}')
	}
}

func (j c38J) coq() string {
	switch j.T {
	case "n":
		return "JNull"
	case "b":
		return "(JBool " + CoqBool(j.B) + ")"
	case "z":
		return "(JNum " + CoqZ(j.Z) + ")"
	case "s":
		return "(JStr " + coqHexS(j.S) + ")"
	case "a":
		parts := make([]string, len(j.A))
		for i, x := range j.A {
			parts[i] = x.coq()
		}
		return "(JArr " + CoqList(parts) + ")"
	}
	parts := make([]string, len(j.O))
	for i, kv := range j.O {
		parts[i] = "(" + coqHexS(kv.K) + ", " + kv.V.coq() + ")"
	}
	return "(JObj " + CoqList(parts) + ")"
}

func c38SrvJSONRun(j c38J) (V, Verdict) {
	var b bytes.Buffer
	j.text(&b)
	var s webrtc.ICEServer
	err := json.Unmarshal(b.Bytes(), &s)
	if err != nil {
		return vResultErr(webrtc.VerifErrClass(err)), Pass("rejected", false)
	}
	obs := vResultOK(c38ServerV(s))
	// an accepted ICEServer must itself survive its encoding
	enc, merr := json.Marshal(s)
	var again webrtc.ICEServer
	var uerr error
	if merr == nil {
		uerr = json.Unmarshal(enc, &again)
	}
	if merr != nil || uerr != nil || !reflect.DeepEqual(s, again) {
		return obs, Fail("iceserver-decoded-value-does-not-roundtrip",
			fmt.Sprintf("%s decodes to %+v, which re-encodes to %s: err=%v/%v", b.String(), s, enc, merr, uerr))
	}
	cl := "accepted"
	if _, raw := s.Credential.(map[string]any); raw {
		cl = "accepted/raw-credential"
	}
	return obs, Pass(cl, true)
}

func c38SrvJSONGen(r *Rand, _ int) c38J {
	str := func() c38J { return jS(c38Str(r)) }
	odd := func() c38J { // a value of some other shape
		switch r.Intn(7) {
		case 0:
			return c38J{T: "n"}
		case 1:
			return c38J{T: "b", B: r.Bool()}
		case 2:
			return c38J{T: "z", Z: int64(r.Intn(1000)) - 3}
		case 3:
			return jA()
		case 4:
			return jA(str(), c38J{T: "z", Z: 6})
		case 5:
			return jO(c38KV{"MACKey", str()})
		}
		return str()
	}
	var kv []c38KV
	if !r.Chance(1, 8) {
		var urls c38J
		switch r.Intn(8) {
		case 0:
			urls = odd()
		case 1:
			urls = jA()
		default:
			var xs []c38J
			for i, n := 0, r.Range(1, 3); i < n; i++ {
				xs = append(xs, str())
			}
			if r.Chance(1, 10) {
				xs = append(xs, odd())
			}
			urls = jA(xs...)
		}
		kv = append(kv, c38KV{"urls", urls})
	}
	if r.Chance(2, 3) {
		u := str()
		if r.Chance(1, 8) {
			u = odd()
		}
		kv = append(kv, c38KV{"username", u})
	}
	ct := ""
	if r.Chance(3, 4) {
		ct = Pick(r, []string{"password", "password", "oauth", "oauth", "Password", "", "unknown", "invalid"})
		v := jS(ct)
		if r.Chance(1, 10) {
			v = odd()
		}
		kv = append(kv, c38KV{"credentialType", v})
	}
	if r.Chance(3, 4) {
		var c c38J
		switch r.Intn(6) {
		case 0:
			c = odd()
		case 1, 2:
			c = str()
		default:
			mk := []c38KV{{"MACKey", str()}, {"AccessToken", str()}}
			if r.Chance(1, 6) {
				mk = mk[:1]
			}
			if r.Chance(1, 6) {
				mk[0].V = odd()
			}
			if r.Chance(1, 6) {
				mk = append(mk, c38KV{"extra", odd()})
			}
			c = jO(mk...)
		}
		kv = append(kv, c38KV{"credential", c})
	}
	if r.Chance(1, 6) {
		kv = append(kv, c38KV{"other", odd()})
	}
	// shuffle: member order must not matter
	for i := len(kv) - 1; i > 0; i-- {
		k := r.Intn(i + 1)
		kv[i], kv[k] = kv[k], kv[i]
	}
	if r.Chance(1, 30) {
		return odd()
	}
	return jO(kv...)
}

// ---------------------------------------------------------------- stats

type c38StatsDesc struct {
	name  string
	typ   reflect.Type
	tags  []string // Type member values carried by values of this Go type
	kind  string   // Kind member the dispatch needs ("" = not looked at)
	enums []string // names of enum-typed members, declaration order
}

// second transcription of the type <-> tag relation, from the StatsType
// constants' doc comments and the collectors, not from the model
var c38Stats = []c38StatsDesc{
	{"CodecStats", reflect.TypeOf(webrtc.CodecStats{}), []string{"codec"}, "", nil},
	{"InboundRTPStreamStats", reflect.TypeOf(webrtc.InboundRTPStreamStats{}), []string{"inbound-rtp"}, "", nil},
	{"OutboundRTPStreamStats", reflect.TypeOf(webrtc.OutboundRTPStreamStats{}), []string{"outbound-rtp"}, "", nil},
	{"RemoteInboundRTPStreamStats", reflect.TypeOf(webrtc.RemoteInboundRTPStreamStats{}), []string{"remote-inbound-rtp"}, "", nil},
	{"RemoteOutboundRTPStreamStats", reflect.TypeOf(webrtc.RemoteOutboundRTPStreamStats{}), []string{"remote-outbound-rtp"}, "", nil},
	{"RTPContributingSourceStats", reflect.TypeOf(webrtc.RTPContributingSourceStats{}), []string{"csrc"}, "", nil},
	{"AudioSourceStats", reflect.TypeOf(webrtc.AudioSourceStats{}), []string{"media-source"}, "audio", nil},
	{"VideoSourceStats", reflect.TypeOf(webrtc.VideoSourceStats{}), []string{"media-source"}, "video", nil},
	{"AudioPlayoutStats", reflect.TypeOf(webrtc.AudioPlayoutStats{}), []string{"media-playout"}, "", nil},
	{"PeerConnectionStats", reflect.TypeOf(webrtc.PeerConnectionStats{}), []string{"peer-connection"}, "", nil},
	{"DataChannelStats", reflect.TypeOf(webrtc.DataChannelStats{}), []string{"data-channel"}, "", []string{"DataChannelState"}},
	{"MediaStreamStats", reflect.TypeOf(webrtc.MediaStreamStats{}), []string{"stream"}, "", nil},
	{"AudioSenderStats", reflect.TypeOf(webrtc.AudioSenderStats{}), []string{"sender"}, "audio", nil},
	{"SenderAudioTrackAttachmentStats", reflect.TypeOf(webrtc.SenderAudioTrackAttachmentStats{}), []string{"track"}, "audio", nil},
	{"VideoSenderStats", reflect.TypeOf(webrtc.VideoSenderStats{}), []string{"sender"}, "video", nil},
	{"SenderVideoTrackAttachmentStats", reflect.TypeOf(webrtc.SenderVideoTrackAttachmentStats{}), []string{"track"}, "video", nil},
	{"AudioReceiverStats", reflect.TypeOf(webrtc.AudioReceiverStats{}), []string{"receiver"}, "audio", nil},
	{"VideoReceiverStats", reflect.TypeOf(webrtc.VideoReceiverStats{}), []string{"receiver"}, "video", nil},
	{"TransportStats", reflect.TypeOf(webrtc.TransportStats{}), []string{"transport"}, "", []string{"ICERole", "DTLSTransportState", "ICETransportState"}},
	{"ICECandidatePairStats", reflect.TypeOf(webrtc.ICECandidatePairStats{}), []string{"candidate-pair"}, "", nil},
	{"ICECandidateStats", reflect.TypeOf(webrtc.ICECandidateStats{}), []string{"local-candidate", "remote-candidate"}, "", []string{"ICECandidateType"}},
	{"CertificateStats", reflect.TypeOf(webrtc.CertificateStats{}), []string{"certificate"}, "", nil},
	{"SCTPTransportStats", reflect.TypeOf(webrtc.SCTPTransportStats{}), []string{"sctp-transport"}, "", nil},
}

var c38AllTags = []string{"codec", "inbound-rtp", "outbound-rtp", "remote-inbound-rtp", "remote-outbound-rtp",
	"csrc", "media-source", "media-playout", "peer-connection", "data-channel", "stream", "track", "sender",
	"receiver", "transport", "candidate-pair", "local-candidate", "remote-candidate", "certificate",
	"sctp-transport", "", "Codec", "bogus"}
var c38AllKinds = []string{"audio", "video", "", "Audio"}

func c38FindStats(name string) *c38StatsDesc {
	for i := range c38Stats {
		if c38Stats[i].name == name {
			return &c38Stats[i]
		}
	}
	return nil
}

type c38StatsIn struct {
	GoType string `json:"go_type"`
	Tag    string `json:"tag"`
	Kind   string `json:"kind"`
	Seed   uint64 `json:"seed"`
	Mode   int    `json:"mode"`  // 0 zero payload, 1 random payload, 2 extreme payload
	Enums  []int  `json:"enums"` // enum members (declaration order)
}

var c38EnumTypeNames = map[string]bool{"DataChannelState": true, "ICERole": true, "DTLSTransportState": true,
	"ICETransportState": true, "ICECandidateType": true}

func c38Fill(v reflect.Value, r *Rand, mode int, enums *[]int) {
	switch v.Kind() {
	case reflect.Struct:
		for i := 0; i < v.NumField(); i++ {
			if v.Type().Field(i).IsExported() {
				c38Fill(v.Field(i), r, mode, enums)
			}
		}
	case reflect.String:
		if mode > 0 {
			v.SetString(c38Str(r))
		}
	case reflect.Bool:
		if mode > 0 {
			v.SetBool(r.Bool())
		}
	case reflect.Int, reflect.Int32, reflect.Int64:
		if c38EnumTypeNames[v.Type().Name()] {
			if len(*enums) > 0 {
				v.SetInt(int64((*enums)[0]))
				*enums = (*enums)[1:]
			}
			return
		}
		switch mode {
		case 1:
			v.SetInt(int64(int32(r.U64())))
		case 2:
			if r.Bool() {
				v.SetInt(math.MaxInt32)
			} else {
				v.SetInt(math.MinInt32)
			}
		}
	case reflect.Uint8, reflect.Uint16, reflect.Uint32, reflect.Uint64:
		bits := v.Type().Bits()
		switch mode {
		case 1:
			v.SetUint(r.U64() >> (64 - bits))
		case 2:
			v.SetUint(^uint64(0) >> (64 - bits))
		}
	case reflect.Float64, reflect.Float32:
		switch mode {
		case 1:
			switch r.Intn(4) {
			case 0:
				v.SetFloat(float64(r.Intn(100000)) / 1000)
			case 1:
				v.SetFloat(math.Float64frombits(r.U64()&^(0x7ff<<52) | uint64(r.Range(1, 2046))<<52)) // any finite
			case 2:
				v.SetFloat(-float64(r.U64()))
			default:
				v.SetFloat(1.7e12 + float64(r.Intn(1000000))/1000) // a millisecond timestamp
			}
		case 2:
			v.SetFloat(Pick(r, []float64{math.MaxFloat64, -math.MaxFloat64, math.SmallestNonzeroFloat64, 1e21, 1e-7, 0.1}))
		}
	case reflect.Map:
		if mode == 0 || r.Chance(1, 4) {
			return // nil map
		}
		m := reflect.MakeMap(v.Type())
		if !r.Chance(1, 4) { // else: empty, non-nil
			for i, n := 0, r.Range(1, 4); i < n; i++ {
				k := reflect.New(v.Type().Key()).Elem()
				k.SetString(c38Str(r))
				e := reflect.New(v.Type().Elem()).Elem()
				c38Fill(e, r, mode, enums)
				m.SetMapIndex(k, e)
			}
		}
		v.Set(m)
	case reflect.Slice:
		if mode == 0 || r.Chance(1, 4) {
			return
		}
		n := 0
		if !r.Chance(1, 4) {
			n = r.Range(1, 4)
		}
		s := reflect.MakeSlice(v.Type(), n, n)
		for i := 0; i < n; i++ {
			c38Fill(s.Index(i), r, mode, enums)
		}
		v.Set(s)
	case reflect.Ptr:
		if mode == 0 || r.Chance(1, 3) {
			return
		}
		p := reflect.New(v.Type().Elem())
		c38Fill(p.Elem(), r, mode, enums)
		v.Set(p)
	default:
		panic("c38Fill: unhandled kind " + v.Kind().String() + " in " + v.Type().String())
	}
}

func c38StatsBuild(in c38StatsIn) (reflect.Value, *c38StatsDesc, string) {
	d := c38FindStats(in.GoType)
	v := reflect.New(d.typ).Elem()
	es := append([]int(nil), in.Enums...)
	c38Fill(v, NewRand(in.Seed), in.Mode, &es)
	v.FieldByName("Type").SetString(in.Tag)
	kind := ""
	if f := v.FieldByName("Kind"); f.IsValid() {
		f.SetString(in.Kind)
		kind = in.Kind
	}
	return v, d, kind
}

func c38StatsRun(in c38StatsIn) (V, Verdict) {
	v, d, kind := c38StatsBuild(in)
	enc, merr := json.Marshal(v.Interface())
	if merr != nil {
		return VS("marshal-error"), Fail("stats-marshal-error/"+in.GoType, merr.Error())
	}
	got, uerr := webrtc.UnmarshalStatsJSON(enc)

	canonical := false
	for _, t := range d.tags {
		canonical = canonical || t == in.Tag
	}
	canonical = canonical && (d.kind == "" || d.kind == kind)
	declaredEnums := true
	for i, name := range d.enums {
		declaredEnums = declaredEnums && in.Enums[i] >= 0 && in.Enums[i] < c38FindEnum(name).n
	}

	var obs V
	sameType := false
	if uerr != nil {
		cls := "unmarshal-member"
		if webrtc.VerifErrClass(uerr) == "unknown-type" {
			cls = "unknown-type"
			if strings.HasPrefix(uerr.Error(), "kind:") {
				cls = "unknown-kind"
			}
		}
		obs = vResultErr(cls)
	} else {
		gt := reflect.TypeOf(got)
		sameType = gt == d.typ
		es := VL{}
		if sameType {
			for _, name := range d.enums {
				es = append(es, VZ(c38EnumMember(reflect.ValueOf(got), name)))
			}
		}
		obs = vResultOK(VL{VS(gt.Name()), es})
	}
	if !canonical || !declaredEnums {
		return obs, Pass("foreign-tag-or-kind", false) // replayed inputs only
	}
	// the property: the value comes back, as its own Go type, equal
	if uerr == nil && sameType && reflect.DeepEqual(got, v.Interface()) {
		return obs, Pass(fmt.Sprintf("canonical/mode%d", in.Mode), true)
	}
	what := fmt.Sprintf("%s (type %q kind %q): UnmarshalStatsJSON -> %T, err=%v", in.GoType, in.Tag, kind, got, uerr)
	for i, name := range d.enums {
		e := c38FindEnum(name)
		if in.Enums[i] == 0 && e.str(0) == c38UnknownStr && uerr != nil &&
			webrtc.VerifErrClass(uerr) != "unknown-type" {
			if _, err := e.unmarshal([]byte(`"` + c38UnknownStr + `"`)); err != nil {
				return obs, Fail("unknown-enum-marshals-to-unparseable-string/"+name, what)
			}
		}
	}
	if uerr != nil {
		return obs, Fail("stats-unmarshal-error/"+in.GoType, what)
	}
	if !sameType {
		return obs, Fail("stats-tag-routes-to-other-type/"+in.GoType, what)
	}
	return obs, Fail("stats-roundtrip-differs/"+in.GoType, what+": "+c38Diff(v.Interface(), got))
}

func c38EnumMember(v reflect.Value, typeName string) int64 {
	for i := 0; i < v.NumField(); i++ {
		if v.Type().Field(i).Type.Name() == typeName {
			return v.Field(i).Int()
		}
	}
	panic("no member of type " + typeName)
}

func c38Diff(a, b any) string {
	va, vb := reflect.ValueOf(a), reflect.ValueOf(b)
	if va.Type() != vb.Type() {
		return "types differ"
	}
	for i := 0; i < va.NumField(); i++ {
		if !reflect.DeepEqual(va.Field(i).Interface(), vb.Field(i).Interface()) {
			return fmt.Sprintf("member %s: %#v vs %#v", va.Type().Field(i).Name, va.Field(i).Interface(), vb.Field(i).Interface())
		}
	}
	return "?"
}

func c38StatsCoq(in c38StatsIn) string {
	_, _, kind := c38StatsBuild(in)
	es := make([]string, len(in.Enums))
	for i, e := range in.Enums {
		es[i] = CoqZ(int64(e))
	}
	return fmt.Sprintf("(%s, %s, %s, %s)", CoqString(in.GoType), coqHexS(in.Tag), coqHexS(kind), CoqList(es))
}

func c38StatsEnums(d *c38StatsDesc, r *Rand, zero bool) []int {
	out := make([]int, len(d.enums))
	for i, name := range d.enums {
		e := c38FindEnum(name)
		switch {
		case zero:
			out[i] = 0
		case name == "ICECandidateType":
			out[i] = r.Range(1, e.n-1) // zero is the recorded finding; it has its own corpus case
		default:
			out[i] = r.Intn(e.n)
		}
	}
	return out
}

// every Go type with each of its tags, every kind, every payload mode
func c38StatsExhaustive() []c38StatsIn {
	var out []c38StatsIn
	seed := uint64(1)
	for i := range c38Stats {
		d := &c38Stats[i]
		for _, tag := range d.tags {
			kinds := []string{d.kind}
			if d.kind == "" {
				kinds = c38AllKinds // not looked at by the dispatch
			}
			for _, kind := range kinds {
				for mode := 0; mode <= 2; mode++ {
					seed++
					out = append(out, c38StatsIn{GoType: d.name, Tag: tag, Kind: kind, Seed: seed, Mode: mode,
						Enums: c38StatsEnums(d, NewRand(seed), false)})
				}
			}
		}
	}
	return out
}

// ---- the dispatch alone: {"type":tag,"kind":kind} with no other member

type c38DispIn struct {
	Tag     string `json:"tag"`
	Kind    string `json:"kind"`
	HasKind bool   `json:"has_kind"`
}

func c38DispRun(in c38DispIn) (V, Verdict) {
	m := map[string]string{"type": in.Tag}
	if in.HasKind {
		m["kind"] = in.Kind
	}
	enc, _ := json.Marshal(m)
	got, err := webrtc.UnmarshalStatsJSON(enc)
	// independent expectation from the per-type table
	var want *c38StatsDesc
	for i := range c38Stats {
		d := &c38Stats[i]
		for _, t := range d.tags {
			if t == in.Tag && (d.kind == "" || (in.HasKind && d.kind == in.Kind)) {
				if want != nil {
					return VS("harness"), Fail("harness-stats-table-ambiguous", in.Tag)
				}
				want = d
			}
		}
	}
	var obs V
	if err != nil {
		cls := "other"
		if webrtc.VerifErrClass(err) == "unknown-type" {
			cls = "unknown-type"
			if strings.HasPrefix(err.Error(), "kind:") {
				cls = "unknown-kind"
			}
		}
		obs = vResultErr(cls)
	} else {
		obs = vResultOK(VS(reflect.TypeOf(got).Name()))
	}
	switch {
	case want == nil && err == nil:
		return obs, Fail("stats-tag-accepted-without-owner", fmt.Sprintf("%s -> %T", enc, got))
	case want != nil && err != nil:
		return obs, Fail("stats-tag-of-type-rejected/"+want.name, fmt.Sprintf("%s -> %v", enc, err))
	case want != nil && reflect.TypeOf(got) != want.typ:
		return obs, Fail("stats-tag-routes-to-other-type/"+want.name, fmt.Sprintf("%s -> %T", enc, got))
	}
	if want == nil {
		return obs, Pass("no-owner", false)
	}
	return obs, Pass("owned", true)
}

func c38DispAll() []c38DispIn {
	var out []c38DispIn
	for _, tag := range c38AllTags {
		out = append(out, c38DispIn{Tag: tag})
		for _, kind := range c38AllKinds {
			out = append(out, c38DispIn{Tag: tag, Kind: kind, HasKind: true})
		}
	}
	return out
}

func c38StatsCorpus() []c38StatsIn {
	var out []c38StatsIn
	// the zero value of every Stats type apart from its tag (and kind)
	for i := range c38Stats {
		d := &c38Stats[i]
		for _, tag := range d.tags {
			out = append(out, c38StatsIn{GoType: d.name, Tag: tag, Kind: d.kind, Mode: 0, Enums: c38StatsEnums(d, nil, true)})
		}
	}
	return out
}

func c38StatsGen(r *Rand, _ int) c38StatsIn {
	d := &c38Stats[r.Intn(len(c38Stats))]
	in := c38StatsIn{GoType: d.name, Tag: Pick(r, d.tags), Kind: d.kind, Seed: r.U64(), Mode: 1,
		Enums: c38StatsEnums(d, r, false)}
	if d.kind == "" {
		in.Kind = Pick(r, []string{"audio", "video", "", c38Str(r)})
	}
	if r.Chance(1, 6) {
		in.Mode = 2
	}
	if r.Chance(1, 12) {
		in.Mode = 0
	}
	return in
}

// ---------------------------------------------------------------- PEM

type c38Pool struct {
	certs []*webrtc.Certificate
	der   [][]byte
	key   [][]byte
	text  []string
}

var (
	c38PoolOnce sync.Once
	c38PoolVal  *c38Pool
)

// certificates 0,1: generated ECDSA P-256; 2: generated RSA-2048; 3: ECDSA
// P-384 with a caller-supplied template (other names, ten-year validity)
func c38GetPool() *c38Pool {
	c38PoolOnce.Do(func() {
		p := &c38Pool{}
		add := func(c *webrtc.Certificate, err error) {
			if err != nil {
				panic(err)
			}
			text, err := c.PEM()
			if err != nil {
				panic(err)
			}
			b1, rest := pem.Decode([]byte(text))
			b2, _ := pem.Decode(rest)
			p.certs = append(p.certs, c)
			p.der = append(p.der, b1.Bytes)
			p.key = append(p.key, b2.Bytes)
			p.text = append(p.text, text)
		}
		for i := 0; i < 2; i++ {
			k, err := ecdsa.GenerateKey(elliptic.P256(), rand.Reader)
			if err != nil {
				panic(err)
			}
			add(webrtc.GenerateCertificate(k))
		}
		rk, err := rsa.GenerateKey(rand.Reader, 2048)
		if err != nil {
			panic(err)
		}
		add(webrtc.GenerateCertificate(rk))
		k384, err := ecdsa.GenerateKey(elliptic.P384(), rand.Reader)
		if err != nil {
			panic(err)
		}
		add(webrtc.NewCertificate(k384, x509.Certificate{
			SerialNumber: big.NewInt(0x38), Version: 2,
			Subject:   pkix.Name{CommonName: "verif user-supplied", Organization: []string{"O"}},
			Issuer:    pkix.Name{CommonName: "verif user-supplied"},
			NotBefore: time.Date(2020, 1, 2, 3, 4, 5, 0, time.UTC),
			NotAfter:  time.Date(2036, 2, 29, 23, 59, 59, 0, time.UTC),
		}))
		c38PoolVal = p
	})
	return c38PoolVal
}

// blocks: "C<n>" certificate n, "B<n>" certificate n as base64 text inside the
// block, "CX" unparsable certificate, "K<n>" key n, "KX" unparsable key,
// "O" a block of another type.  "F" alone: a freshly generated certificate's
// own PEM() output.
type c38PEMIn struct {
	Blocks []string `json:"blocks"`
}

func c38PEMText(p *c38Pool, blocks []string) string {
	var b strings.Builder
	for _, s := range blocks {
		var blk pem.Block
		n := 0
		if len(s) > 1 && s[1] >= '0' && s[1] <= '9' {
			n = int(s[1] - '0')
		}
		switch s[0] {
		case 'C':
			blk = pem.Block{Type: "CERTIFICATE", Bytes: p.der[n]}
			if s == "CX" {
				blk.Bytes = []byte{0x30, 0x03, 0x02, 0x01, 0x01, 0xff}
			}
		case 'B':
			blk = pem.Block{Type: "CERTIFICATE", Bytes: []byte(base64.StdEncoding.EncodeToString(p.der[n]))}
		case 'K':
			blk = pem.Block{Type: "PRIVATE KEY", Bytes: p.key[n]}
			if s == "KX" {
				blk.Bytes = []byte{0x30, 0x03, 0x02, 0x01, 0x01, 0xff}
			}
		default:
			blk = pem.Block{Type: "EC PARAMETERS", Bytes: []byte{6, 8, 42, 134, 72, 206, 61, 3, 1, 7}}
		}
		if err := pem.Encode(&b, &blk); err != nil {
			panic(err)
		}
	}
	return b.String()
}

func c38SameCert(a, b *webrtc.Certificate) string {
	if !a.Equals(*b) || !b.Equals(*a) {
		return "Equals is false"
	}
	fa, err1 := a.GetFingerprints()
	fb, err2 := b.GetFingerprints()
	if err1 != nil || err2 != nil || !reflect.DeepEqual(fa, fb) || len(fa) == 0 {
		return fmt.Sprintf("fingerprints differ: %v %v (%v %v)", fa, fb, err1, err2)
	}
	if !a.Expires().Equal(b.Expires()) {
		return fmt.Sprintf("expiry differs: %v %v", a.Expires(), b.Expires())
	}
	return ""
}

func c38PEMRun(in c38PEMIn) (V, Verdict) {
	p := c38GetPool()
	if len(in.Blocks) == 1 && in.Blocks[0] == "F" {
		k, err := ecdsa.GenerateKey(elliptic.P256(), rand.Reader)
		if err != nil {
			panic(err)
		}
		c, err := webrtc.GenerateCertificate(k)
		if err != nil {
			panic(err)
		}
		text, err := c.PEM()
		if err != nil {
			return VS("pem-error"), Fail("pem-encode-error", err.Error())
		}
		back, err := webrtc.CertificateFromPEM(text)
		if err != nil {
			return vResultErr("x"), Fail("pem-own-output-rejected", err.Error())
		}
		if d := c38SameCert(c, back); d != "" {
			return vResultOK(VL{VZ(9), VZ(9)}), Fail("pem-roundtrip-differs", d)
		}
		return vResultOK(VL{VZ(9), VZ(9)}), Pass("fresh-ecdsa", true)
	}
	text := c38PEMText(p, in.Blocks)
	got, err := webrtc.CertificateFromPEM(text)
	canonical := -1
	if len(in.Blocks) == 2 && in.Blocks[0][0] == 'C' && in.Blocks[1][0] == 'K' &&
		in.Blocks[0][1] == in.Blocks[1][1] && in.Blocks[0][1] != 'X' {
		canonical = int(in.Blocks[0][1] - '0')
		if text != p.text[canonical] {
			return VS("harness"), Fail("harness-pem-assembly-differs-from-PEM()", "re-assembled text is not PEM()'s output")
		}
	}
	if err != nil {
		cls := webrtc.VerifErrClass(err)
		if cls == "other" && strings.HasPrefix(err.Error(), "failed to decode") {
			cls = "decode-failed"
		}
		if canonical >= 0 {
			return vResultErr(cls), Fail("pem-own-output-rejected", err.Error())
		}
		return vResultErr(cls), Pass("rejected/"+cls, false)
	}
	// which certificate and key came back
	text2, err := got.PEM()
	if err != nil {
		return VS("pem-error"), Fail("pem-encode-error", err.Error())
	}
	b1, rest := pem.Decode([]byte(text2))
	b2, _ := pem.Decode(rest)
	ci, ki := -1, -1
	for i := range p.der {
		if bytes.Equal(p.der[i], b1.Bytes) {
			ci = i
		}
		if bytes.Equal(p.key[i], b2.Bytes) {
			ki = i
		}
	}
	obs := vResultOK(VL{VZ(int64(ki)), VZ(int64(ci))})
	if canonical >= 0 {
		if d := c38SameCert(p.certs[canonical], got); d != "" {
			return obs, Fail("pem-roundtrip-differs", d)
		}
		return obs, Pass(fmt.Sprintf("own-output/cert%d", canonical), true)
	}
	if ci >= 0 && ci == ki {
		if d := c38SameCert(p.certs[ci], got); d != "" {
			return obs, Fail("pem-roundtrip-differs", d)
		}
	}
	return obs, Pass("accepted-reassembled", true)
}

func c38PEMCoq(in c38PEMIn) string {
	if len(in.Blocks) == 1 && in.Blocks[0] == "F" {
		return "[BCert 9; BKey 9]"
	}
	parts := make([]string, len(in.Blocks))
	for i, s := range in.Blocks {
		switch {
		case s == "CX":
			parts[i] = "BCertBad"
		case s == "KX":
			parts[i] = "BKeyBad"
		case s[0] == 'C':
			parts[i] = "BCert " + s[1:]
		case s[0] == 'B':
			parts[i] = "BCertB64 " + s[1:]
		case s[0] == 'K':
			parts[i] = "BKey " + s[1:]
		default:
			parts[i] = "BOther"
		}
	}
	return CoqList(parts)
}

func c38PEMGen(r *Rand, _ int) c38PEMIn {
	if r.Chance(1, 5) {
		return c38PEMIn{Blocks: []string{"F"}}
	}
	n := r.Intn(4)
	c, k := fmt.Sprintf("C%d", n), fmt.Sprintf("K%d", n)
	if r.Chance(1, 4) {
		c = fmt.Sprintf("B%d", n)
	}
	blocks := []string{c, k}
	if r.Bool() {
		blocks = []string{k, c}
	}
	for i, m := 0, r.Intn(3); i < m; i++ {
		x := Pick(r, []string{"O", "O", "CX", "KX", fmt.Sprintf("C%d", r.Intn(4)), fmt.Sprintf("K%d", r.Intn(4)),
			fmt.Sprintf("B%d", r.Intn(4))})
		at := r.Intn(len(blocks) + 1)
		blocks = append(blocks[:at], append([]string{x}, blocks[at:]...)...)
	}
	if r.Chance(1, 8) {
		blocks = append(blocks[:0:0], blocks[1:]...)
	}
	return c38PEMIn{Blocks: blocks}
}

// ---------------------------------------------------------------- registration

func init() {
	if !utf8.ValidString(strings.Join(c38Pieces, "")) {
		panic("c38Pieces must be valid UTF-8")
	}
	Register(Spec[c38EnumIn]{
		ID: "C38", Suite: "enum", CoqImports: []string{"Check.C38"},
		CoqType: "string * Z", CoqRun: "Check.C38.run_enum",
		Exhaustive: c38EnumAll,
		Run:        c38EnumRun,
		Coq: func(in c38EnumIn) string {
			return fmt.Sprintf("(%s, %s)", CoqString(in.Name), CoqZ(int64(in.V)))
		},
	})
	Register(Spec[c38DecIn]{
		ID: "C38", Suite: "dec", CoqImports: []string{"Check.C38"},
		CoqType: "string * bool * string", CoqRun: "Check.C38.run_dec",
		Quick: 800, Thorough: 10000,
		Corpus: func() []c38DecIn {
			return []c38DecIn{{"SDPType", true, "Offer"}, {"SDPType", false, "Offer"}, {"ICEProtocol", false, "UDP"},
				{"SDPType", true, "unknown"}, {"ICECandidateType", true, "unknown"}, {"BundlePolicy", true, "unknown"},
				{"RTPCodecType", false, "AUDIO"}, {"ICECredentialType", true, "oauth"}}
		},
		Gen: c38DecGen, Run: c38DecRun,
		Coq: func(in c38DecIn) string {
			if !c38Printable(in.Raw) {
				return ""
			}
			return fmt.Sprintf("(%s, %s, %s)", CoqString(in.Name), CoqBool(in.JSON), CoqString(in.Raw))
		},
	})
	Register(Spec[c38StructIn]{
		ID: "C38", Suite: "struct", CoqImports: []string{"Check.C38"},
		CoqType: "Check.C38.struct_in", CoqRun: "Check.C38.run_struct",
		Quick: 1000, Thorough: 10000,
		Corpus: c38StructCorpus, Gen: c38StructGen, Run: c38StructRun, Coq: c38StructCoq, Shrink: c38StructShrink,
	})
	Register(Spec[c38J]{
		ID: "C38", Suite: "srvjson", CoqImports: []string{"Model.Serial", "Check.C38"},
		CoqType: "Model.Serial.json", CoqRun: "Check.C38.run_srvjson",
		Quick: 1000, Thorough: 8000,
		Corpus: func() []c38J {
			return []c38J{
				jO(c38KV{"urls", c38J{T: "n"}}),
				jO(),
				jO(c38KV{"urls", jS("NOTAURL")}),
				jO(c38KV{"urls", jA()}, c38KV{"credential", c38J{T: "n"}}),
				jO(c38KV{"urls", jA(jS("turn:h"))}, c38KV{"credentialType", jS("oauth")},
					c38KV{"credential", jO(c38KV{"MACKey", jS("m")}, c38KV{"AccessToken", jS("t")})}),
				jA(), {T: "n"},
			}
		},
		Gen: c38SrvJSONGen, Run: c38SrvJSONRun, Coq: func(j c38J) string { return j.coq() },
	})
	Register(Spec[c38StatsIn]{
		ID: "C38", Suite: "stats", CoqImports: []string{"Check.C38"},
		CoqType: "string * string * string * list Z", CoqRun: "Check.C38.run_stats",
		Quick: 700, Thorough: 8000, Parallel: 8,
		Corpus: func() []c38StatsIn {
			out := c38StatsCorpus()
			// ICECandidateType(0) inside a stats object: witness
			out = append(out, c38StatsIn{GoType: "ICECandidateStats", Tag: "remote-candidate", Seed: 7, Mode: 1, Enums: []int{0}})
			return out
		},
		Exhaustive: c38StatsExhaustive,
		Gen:        c38StatsGen, Run: c38StatsRun, Coq: c38StatsCoq,
	})
	Register(Spec[c38DispIn]{
		ID: "C38", Suite: "dispatch", CoqImports: []string{"Check.C38"},
		CoqType: "string * string", CoqRun: "Check.C38.run_dispatch",
		Exhaustive: c38DispAll, Run: c38DispRun,
		Coq: func(in c38DispIn) string { return fmt.Sprintf("(%s, %s)", coqHexS(in.Tag), coqHexS(in.Kind)) },
	})
	Register(Spec[c38PEMIn]{
		ID: "C38", Suite: "pem", CoqImports: []string{"Check.C38"},
		CoqType: "list Check.C38.blk", CoqRun: "Check.C38.run_pem",
		Quick: 300, Thorough: 3000, Parallel: 8,
		Corpus: func() []c38PEMIn {
			return []c38PEMIn{
				{[]string{"C0", "K0"}}, {[]string{"C1", "K1"}}, {[]string{"C2", "K2"}}, {[]string{"C3", "K3"}},
				{[]string{"F"}}, {[]string{"K2", "C2"}}, {[]string{"B0", "K0"}}, {[]string{"C0", "C0", "K0"}},
				{[]string{"C0", "K0", "K0"}}, {[]string{"C0"}}, {[]string{"K0"}}, {[]string{}}, {[]string{"O", "C0", "O", "K1"}},
				{[]string{"CX", "K0"}}, {[]string{"C0", "KX"}},
			}
		},
		Gen: c38PEMGen, Run: c38PEMRun, Coq: c38PEMCoq,
	})
}
