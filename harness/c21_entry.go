//go:build verif_c21

package main

// C21, suite "entry": Close / GracefulClose callers that arrive while pc.mu is
// held by somebody else (an API call in flight: CreateOffer, AddTrack,
// SetLocalDescription and the getters all hold pc.mu).
//
// The sched and tree suites interleave the callers at the verifhook yield
// points; the first of those sits AFTER close()'s entry critical section, so
// the callers always pass that section one at a time and whole.  A change that
// moves part of the entry protocol in front of pc.mu.Lock() (or behind the
// Unlock) creates an interleaving window without a yield point.  Here the
// window is opened with the mutex itself:
//
//   the harness takes pc.mu (VerifC21LockMu / VerifC21RLockMu);
//   callers P1..Pk (Close / GracefulClose) are started one after another, each
//   awaited until it is parked on the mutex, blocked elsewhere inside close(),
//   or has returned (wait state and frames from runtime.Stack, no grace period);
//   callers R1..Rm are made ready to run the moment the mutex is released;
//   the mutex is released, either by an idle goroutine or by a goroutine that
//   calls Close / GracefulClose itself right behind the Unlock (it is running
//   and barges past the parked waiters);
//   everybody is awaited.
//
// sync.Mutex decides who gets the lock in which order; every order is a legal
// interleaving of the calls, so each configuration runs several times and the
// oracle must hold for whatever order happened.  No yield point parks anybody:
// the hook handler only counts the passes through the teardown block and
// through doGracefulCloseOps.
//
// Direct oracle (the property): every call returns, none panics; the teardown
// and the graceful-only steps run exactly once; a GracefulClose caller returns
// only after both; afterwards isClosed, both done-channels, signaling state
// and connection state are final.  The final flags are also compared with the
// model (any complete schedule ends in the same flags: c21_final_state).

import (
	"bytes"
	"fmt"
	"runtime"
	"strconv"
	"strings"
	"sync"
	"sync/atomic"
	"time"

	"github.com/pion/webrtc/v4"
	"github.com/pion/webrtc/v4/internal/verifhook"
)

type c21EntryCase struct {
	Setup   int   `json:"setup"`
	Hold    int   `json:"hold"`    // 0 the harness holds pc.mu.Lock, 1 pc.mu.RLock
	Parked  []int `json:"parked"`  // 0 Close, 1 GracefulClose: started in this order while the mutex is held, each awaited
	Racing  []int `json:"racing"`  // callers released at the moment of the Unlock
	Release int   `json:"release"` // -1 an idle goroutine unlocks; 0 / 1 the unlocking goroutine calls Close / GracefulClose next
	Reps    int   `json:"reps"`
}

// c21GoWait returns how goroutine gid waits: "" (running / runnable / gone),
// "mutex" or "chan", and whether a frame of PeerConnection.close is on its stack.
func c21GoWait(gid uint64) (kind string, inClose bool) {
	buf := make([]byte, 1<<16)
	for {
		n := runtime.Stack(buf, true)
		if n < len(buf) {
			buf = buf[:n]
			break
		}
		buf = make([]byte, 2*len(buf))
	}
	head := []byte("\ngoroutine " + strconv.FormatUint(gid, 10) + " [")
	nb := append([]byte("\n"), buf...)
	i := bytes.Index(nb, head)
	if i < 0 {
		return "", false
	}
	blk := nb[i+len(head):]
	if e := bytes.Index(blk, []byte("\n\n")); e >= 0 {
		blk = blk[:e]
	}
	st := string(blk)
	if nl := strings.IndexByte(st, '\n'); nl >= 0 {
		st = st[:nl]
	}
	switch {
	case strings.HasPrefix(st, "sync.Mutex.Lock"), strings.HasPrefix(st, "sync.RWMutex."), strings.HasPrefix(st, "semacquire"):
		kind = "mutex"
	case strings.HasPrefix(st, "chan receive"):
		kind = "chan"
	}
	return kind, bytes.Contains(blk, []byte("(*PeerConnection).close("))
}

type c21EntryCall struct {
	kind      int
	gid       atomic.Uint64
	done      chan struct{}
	panicked  string
	sawCloses int // at the return of a GracefulClose: interceptor closes, passes through doGracefulCloseOps
	sawGrace  int
}

type c21EntryRep struct {
	obs       VL
	verdict   Verdict
	firstRole string // who ran the teardown: "parked0", "parked", "racing", "releaser"
	parkedHow []string
}

func c21EntryOnce(c c21EntryCase) c21EntryRep {
	env := c21NewEnv(false)
	env.setup(c.Setup)
	pc := env.pc

	var torndown, graceful atomic.Int32
	var tdMu sync.Mutex
	var tdBy []uint64
	schedMu.Lock()
	verifhook.Install(func(name string) {
		switch name {
		case "pc.close.torndown":
			torndown.Add(1)
			tdMu.Lock()
			tdBy = append(tdBy, goid())
			tdMu.Unlock()
		case "pc.close.graceful":
			graceful.Add(1)
		}
	})
	defer func() {
		verifhook.Install(nil)
		schedMu.Unlock()
	}()

	var calls []*c21EntryCall
	role := map[*c21EntryCall]string{}
	body := func(cl *c21EntryCall) {
		defer close(cl.done)
		defer func() {
			if p := recover(); p != nil {
				cl.panicked = fmt.Sprint(p)
			}
		}()
		if cl.kind == 1 {
			_ = pc.GracefulClose()
			cl.sawCloses, cl.sawGrace = int(env.closes.Load()), int(graceful.Load())
		} else {
			_ = pc.Close()
		}
	}
	mk := func(kind int, r string) *c21EntryCall {
		cl := &c21EntryCall{kind: kind & 1, done: make(chan struct{})}
		calls = append(calls, cl)
		role[cl] = r
		return cl
	}
	rep := c21EntryRep{}
	fail := func(sig, what string) {
		if rep.verdict.Sig == "" {
			rep.verdict = Fail(sig, what)
		}
	}

	if c.Hold == 1 {
		pc.VerifC21RLockMu()
	} else {
		pc.VerifC21LockMu()
	}
	held := true
	unlock := func() {
		if !held {
			return
		}
		held = false
		if c.Hold == 1 {
			pc.VerifC21RUnlockMu()
		} else {
			pc.VerifC21UnlockMu()
		}
	}

	// P1..Pk, one after another
	for i, kind := range c.Parked {
		r := "parked"
		if i == 0 {
			r = "parked0"
		}
		cl := mk(kind, r)
		go func() {
			cl.gid.Store(goid())
			body(cl)
		}()
		how := ""
		deadline := time.Now().Add(10 * time.Second)
		seen := 0
		for how == "" {
			select {
			case <-cl.done:
				how = "returned"
				continue
			default:
			}
			if g := cl.gid.Load(); g != 0 {
				if k, in := c21GoWait(g); k != "" && in {
					seen++
					if seen >= 3 { // the same kind of wait three looks in a row
						how = k
						continue
					}
				} else {
					seen = 0
				}
			}
			if time.Now().After(deadline) {
				how = "stuck"
				continue
			}
			time.Sleep(100 * time.Microsecond)
		}
		rep.parkedHow = append(rep.parkedHow, how)
		if how == "stuck" {
			fail("participant-stuck", fmt.Sprintf("caller %d neither returned nor blocked inside close() while pc.mu was held", i))
		}
	}

	// R1..Rm: ready, released by the unlocking goroutine just before the Unlock
	start := make(chan struct{})
	var ready sync.WaitGroup
	for _, kind := range c.Racing {
		cl := mk(kind, "racing")
		ready.Add(1)
		go func() {
			cl.gid.Store(goid())
			ready.Done()
			<-start
			body(cl)
		}()
	}
	ready.Wait()
	var releaser *c21EntryCall
	if c.Release >= 0 {
		releaser = mk(c.Release, "releaser")
	}
	released := make(chan struct{})
	go func() {
		defer close(released)
		if releaser != nil {
			releaser.gid.Store(goid())
		}
		close(start)
		unlock()
		if releaser != nil { // right behind the Unlock: this goroutine is running, the parked callers are asleep
			body(releaser)
		}
	}()

	timeout := time.After(15 * time.Second)
	for i, cl := range calls {
		select {
		case <-cl.done:
		case <-timeout:
			fail("closer-never-returns", fmt.Sprintf("caller %d (%s, kind %d) has not returned 15 s after pc.mu was released; parked callers were %v",
				i, role[cl], cl.kind, rep.parkedHow))
		}
		if rep.verdict.Sig != "" {
			break
		}
	}
	if rep.verdict.Sig != "" {
		return rep
	}
	<-released
	env.waitArrivals(2 * time.Second)

	// ---- direct oracle ----
	anyGraceful := false
	for i, cl := range calls {
		if cl.panicked != "" {
			fail("close-panics", fmt.Sprintf("caller %d (%s, kind %d) panicked: %s (hold=%d parked=%v racing=%v release=%d)",
				i, role[cl], cl.kind, cl.panicked, c.Hold, c.Parked, c.Racing, c.Release))
		}
		anyGraceful = anyGraceful || cl.kind == 1
	}
	td, gr, ic := int(torndown.Load()), int(graceful.Load()), int(env.closes.Load())
	tdMu.Lock()
	if len(tdBy) > 0 {
		for _, cl := range calls {
			if cl.gid.Load() == tdBy[0] {
				rep.firstRole = role[cl]
			}
		}
	}
	tdMu.Unlock()
	isClosed, gflag, closeDone, gracefulDone := pc.VerifC21CloseFlags()
	cs, ss := pc.ConnectionState(), pc.SignalingState()
	anyPanic := rep.verdict.Sig == "close-panics"
	rep.obs = VL{VB(isClosed), VB(gflag), VB(closeDone), VB(gracefulDone), VB(ss == webrtc.SignalingStateClosed),
		VZ(int64(cs)), VZ(int64(td)), VZ(int64(gr)), VB(anyPanic)}
	dispatch := env.logger.snapshot()
	switch {
	case rep.verdict.Sig != "":
	case td > 1 || ic > 1:
		fail("teardown-more-than-once", fmt.Sprintf("%d passes through the teardown block, interceptor closed %d times", td, ic))
	case gr > 1:
		fail("graceful-ops-more-than-once", fmt.Sprintf("%d passes through doGracefulCloseOps", gr))
	case !c21ClosedIsFinal(dispatch):
		fail("stale-connection-state-after-closed", fmt.Sprintf("connection states handed to the handler, in order: %v", dispatch))
	case !isClosed || !closeDone || (anyGraceful && (!gracefulDone || !gflag)):
		fail("close-flags-not-final", fmt.Sprintf("isClosed=%v graceful=%v closeDone=%v gracefulDone=%v", isClosed, gflag, closeDone, gracefulDone))
	case ss != webrtc.SignalingStateClosed:
		fail("signaling-state-not-closed-after-close", ss.String())
	case cs != webrtc.PeerConnectionStateClosed:
		fail("connection-state-not-closed-after-close", cs.String())
	case td != 1 || ic != 1 || pc.SCTP().Transport().State() != webrtc.DTLSTransportStateClosed:
		fail("teardown-not-run", fmt.Sprintf("all callers returned; teardown passes %d, interceptor closes %d", td, ic))
	case anyGraceful && gr != 1:
		fail("graceful-ops-not-run", "a GracefulClose returned, doGracefulCloseOps never ran")
	}
	for i, cl := range calls {
		if cl.kind == 1 && cl.panicked == "" && (cl.sawCloses != 1 || cl.sawGrace != 1) {
			fail("graceful-close-returned-early", fmt.Sprintf("GracefulClose caller %d (%s) returned with teardown runs=%d graceful passes=%d",
				i, role[cl], cl.sawCloses, cl.sawGrace))
		}
	}
	if rep.verdict.Sig == "" {
		rep.verdict = Pass("", false)
	}
	return rep
}

func c21EntryRun(c c21EntryCase) (V, Verdict) {
	reps := c.Reps
	if reps < 1 {
		reps = 1
	}
	var first *c21EntryRep
	winners := map[string]bool{}
	parkedOnMutex := 0
	for i := 0; i < reps; i++ {
		rep := c21EntryOnce(c)
		if !rep.verdict.OK {
			if rep.obs == nil {
				rep.obs = VL{VS("abandoned")}
			}
			return rep.obs, rep.verdict
		}
		winners[rep.firstRole] = true
		for _, h := range rep.parkedHow {
			if h == "mutex" {
				parkedOnMutex++
			}
		}
		if first == nil {
			first = &rep
		} else if first.obs.Coq() != rep.obs.Coq() {
			return rep.obs, Fail("close-flags-not-final", fmt.Sprintf("two runs of the same configuration ended in different final flags: %s / %s", first.obs.Coq(), rep.obs.Coq()))
		}
	}
	rel := "idle"
	if c.Release == 0 {
		rel = "close"
	} else if c.Release == 1 {
		rel = "graceful"
	}
	hold := "lock"
	if c.Hold == 1 {
		hold = "rlock"
	}
	v := Pass(fmt.Sprintf("%s/parked%d/racing%d/release=%s", hold, len(c.Parked), len(c.Racing), rel), false)
	if winners["releaser"] || winners["racing"] || winners["parked"] {
		v.Class += "/overtaken" // somebody other than the first parked caller ran the teardown in some run
	}
	ncallers := len(c.Parked) + len(c.Racing)
	if c.Release >= 0 {
		ncallers++
	}
	// non-trivial: a caller really was parked on the mutex and a second caller competed with it
	v.NonTrivial = parkedOnMutex > 0 && ncallers >= 2
	return first.obs, v
}

func c21EntryCoq(c c21EntryCase) string {
	var ks []string
	for _, k := range c.Parked {
		ks = append(ks, CoqZ(int64(k&1)))
	}
	for _, k := range c.Racing {
		ks = append(ks, CoqZ(int64(k&1)))
	}
	if c.Release >= 0 {
		ks = append(ks, CoqZ(int64(c.Release&1)))
	}
	return CoqList(ks)
}

func c21EntrySeqs(maxLen int) [][]int {
	out := [][]int{}
	frontier := [][]int{{}}
	for l := 1; l <= maxLen; l++ {
		var next [][]int
		for _, s := range frontier {
			for k := 0; k < 2; k++ {
				next = append(next, append(append([]int{}, s...), k))
			}
		}
		out = append(out, next...)
		frontier = next
	}
	return out
}

func init() {
	Register(Spec[c21EntryCase]{
		ID: "C21", Suite: "entry", CoqImports: []string{"Check.C21"},
		CoqType: "list Z", CoqRun: "Check.C21.run_entry",
		Quick: 30, Thorough: 1500, Parallel: 1, Timeout: 120 * time.Second,
		Corpus: func() []c21EntryCase {
			return []c21EntryCase{
				// one GracefulClose parked on pc.mu, a second one right behind the Unlock
				{Setup: 0, Hold: 0, Parked: []int{1}, Release: 1, Reps: 6},
				// ... and arriving from other goroutines at the moment of the Unlock
				{Setup: 1, Hold: 0, Parked: []int{1}, Racing: []int{1, 1}, Release: -1, Reps: 6},
				{Setup: 2, Hold: 0, Parked: []int{0, 1}, Racing: []int{1}, Release: 1, Reps: 6},
			}
		},
		// every (parked list up to 2) x (racing list) x (who unlocks) x (Lock / RLock held);
		// parked lists of 3 with the smaller racing lists
		Exhaustive: func() []c21EntryCase {
			var out []c21EntryCase
			n := 0
			add := func(parked, racing []int, release, hold int) {
				out = append(out, c21EntryCase{Setup: n % 3, Hold: hold, Parked: parked, Racing: racing, Release: release, Reps: 3})
				n++
			}
			for _, parked := range c21EntrySeqs(3) {
				for _, racing := range [][]int{{}, {0}, {1}, {1, 1}} {
					for release := -1; release <= 1; release++ {
						for hold := 0; hold < 2; hold++ {
							switch {
							case len(parked) <= 2:
								add(parked, racing, release, hold)
							case len(racing) == 0 && hold == 0:
								add(parked, racing, release, hold)
							case len(racing) == 1 && racing[0] == 1 && release != 0:
								add(parked, racing, release, hold)
							}
						}
					}
				}
			}
			return out
		},
		Gen: func(r *Rand, i int) c21EntryCase {
			c := c21EntryCase{Setup: r.Intn(3), Hold: 0, Release: r.Range(-1, 1), Reps: 3}
			if r.Chance(1, 4) {
				c.Hold = 1
			}
			for k := r.Range(1, 5); k > 0; k-- {
				c.Parked = append(c.Parked, r.Intn(2))
			}
			for k := r.Range(0, 3); k > 0; k-- {
				c.Racing = append(c.Racing, r.Intn(2))
			}
			return c
		},
		Shrink: func(c c21EntryCase) []c21EntryCase {
			var out []c21EntryCase
			for i := range c.Parked {
				d := c
				d.Parked = append(append([]int{}, c.Parked[:i]...), c.Parked[i+1:]...)
				if len(d.Parked) > 0 {
					out = append(out, d)
				}
			}
			for i := range c.Racing {
				d := c
				d.Racing = append(append([]int{}, c.Racing[:i]...), c.Racing[i+1:]...)
				out = append(out, d)
			}
			if c.Setup > 0 {
				d := c
				d.Setup = 0
				out = append(out, d)
			}
			return out
		},
		Run: c21EntryRun, Coq: c21EntryCoq,
	})
}
