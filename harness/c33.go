//go:build verif_c33

package main

import (
	"bytes"
	"encoding/binary"
	"encoding/hex"
	"errors"
	"fmt"
	"hash/adler32"
	"io"
	"os"
	"path/filepath"
	"strings"
	"sync"
	"unicode/utf8"

	"github.com/pion/rtp"
	"github.com/pion/webrtc/v4/pkg/media/oggreader"
	"github.com/pion/webrtc/v4/pkg/media/oggwriter"
)

// C33: Ogg/Opus writers (single-track OggWriter, multi-track Writer) over
// seekable and non-seekable outputs; the bytes are parsed by OggReader and by
// an independent page walker with its own CRC.
//
// suite "write": random configurations and packet sequences.
// suite "read":  OggReader over truncated / corrupted files.
// suite "toc":   all 256 TOC bytes x frame-count bytes through the writer.
// suite "cfg":   NewTrack on accepted and refused configurations.

type c33Comment struct {
	Name  string `json:"n"`
	Value string `json:"v"`
}

type c33Track struct {
	SSRC     uint32       `json:"ssrc"`
	Serial   uint32       `json:"serial"`
	Rate     uint32       `json:"rate"`
	Family   uint8        `json:"family"`
	Channels uint8        `json:"channels"`
	Streams  uint8        `json:"streams"`
	Coupled  uint8        `json:"coupled"`
	Mapping  []byte       `json:"mapping,omitempty"`
	Vendor   string       `json:"vendor,omitempty"` // "" = inherit
	VGenLen  int          `json:"vgen,omitempty"`   // > 0: vendor is generated (97 + (i*seed)%26)
	VSeed    byte         `json:"vseed,omitempty"`
	Comments []c33Comment `json:"comments,omitempty"`
}

type c33Op struct {
	Track  int    `json:"t"`
	Hex    string `json:"p,omitempty"`
	GenLen int    `json:"gen,omitempty"` // > 0: generated payload
	Toc    byte   `json:"toc,omitempty"`
	B1     byte   `json:"b1,omitempty"`
	Seed   byte   `json:"seed,omitempty"`
}

type c33Case struct {
	ID        uint64       `json:"id"`
	Multi     bool         `json:"multi"`
	Seekable  bool         `json:"seekable"`
	WVendor   string       `json:"wvendor,omitempty"`   // writer-level WithVendor ("" = unset)
	WComments []c33Comment `json:"wcomments,omitempty"` // writer-level WithUserComments
	Tracks    []c33Track   `json:"tracks"`
	Ops       []c33Op      `json:"ops"`
	// Reuse: every packet is handed to WriteRTP out of ONE receive buffer
	// (marshalled into it, rtp.Packet.Unmarshal makes Payload a sub-slice) and
	// the whole buffer is overwritten as soon as WriteRTP has returned.
	Reuse bool   `json:"reuse,omitempty"`
	Note  string `json:"note,omitempty"`
}

func (o c33Op) payload() []byte {
	if o.GenLen > 0 {
		b := make([]byte, o.GenLen)
		for i := range b {
			switch i {
			case 0:
				b[i] = o.Toc
			case 1:
				b[i] = o.B1
			default:
				b[i] = byte((i*int(o.Seed) + i/251) % 256)
			}
		}
		return b
	}
	b, _ := hex.DecodeString(o.Hex)
	return b
}

func (t c33Track) genVendor() string {
	b := make([]byte, t.VGenLen)
	for i := range b {
		b[i] = byte(97 + (i*int(t.VSeed))%26)
	}
	return string(b)
}

// effective OpusTags of a track: writer defaults, then track options
func c33EffTags(c c33Case, t c33Track) (string, []c33Comment) {
	vendor := "pion"
	if c.Multi && c.WVendor != "" {
		vendor = c.WVendor
	}
	if t.VGenLen > 0 {
		vendor = t.genVendor()
	} else if t.Vendor != "" {
		vendor = t.Vendor
	}
	var cs []c33Comment
	if c.Multi {
		cs = append(cs, c.WComments...)
	}
	cs = append(cs, t.Comments...)
	return vendor, cs
}

// ---------------- outputs ----------------

type c33Plain struct{ b []byte }

func (m *c33Plain) Write(p []byte) (int, error) { m.b = append(m.b, p...); return len(p), nil }

// in-memory file: io.Writer + io.Seeker + io.WriterAt
type c33Mem struct {
	b   []byte
	pos int64
}

func (m *c33Mem) grow(end int64) {
	if end > int64(len(m.b)) {
		m.b = append(m.b, make([]byte, end-int64(len(m.b)))...)
	}
}
func (m *c33Mem) Write(p []byte) (int, error) {
	m.grow(m.pos + int64(len(p)))
	copy(m.b[m.pos:], p)
	m.pos += int64(len(p))
	return len(p), nil
}
func (m *c33Mem) WriteAt(p []byte, off int64) (int, error) {
	m.grow(off + int64(len(p)))
	copy(m.b[off:], p)
	return len(p), nil
}
func (m *c33Mem) Seek(off int64, whence int) (int64, error) {
	switch whence {
	case io.SeekStart:
		m.pos = off
	case io.SeekCurrent:
		m.pos += off
	case io.SeekEnd:
		m.pos = int64(len(m.b)) + off
	}
	return m.pos, nil
}

// serial chosen at random by the single-track writer, remembered for the model input
var c33Serials sync.Map

type c33Written struct {
	out      []byte
	statuses []byte
	err      string
}

func c33Write(c c33Case) c33Written {
	var res c33Written
	feeder := &mfFeeder{reuse: c.Reuse} // mediafeed_util.go
	status := func(err error) {
		if err != nil {
			res.statuses = append(res.statuses, 1)
		} else {
			res.statuses = append(res.statuses, 0)
		}
	}
	if !c.Multi {
		t := c.Tracks[0]
		if c.Seekable {
			dir, err := os.MkdirTemp("", "verif-c33-")
			if err != nil {
				panic(err)
			}
			defer os.RemoveAll(dir)
			name := filepath.Join(dir, "out.ogg")
			w, err := oggwriter.New(name, t.Rate, uint16(t.Channels))
			if err != nil {
				res.err = err.Error()
				return res
			}
			for _, op := range c.Ops {
				status(feeder.feed(w.WriteRTP, rtp.Header{Version: 2, SSRC: t.SSRC}, op.payload()))
			}
			if err := w.Close(); err != nil {
				res.err = "close: " + err.Error()
			}
			res.out, _ = os.ReadFile(name)
			return res
		}
		out := &c33Plain{}
		w, err := oggwriter.NewWith(out, t.Rate, uint16(t.Channels))
		if err != nil {
			res.err = err.Error()
			return res
		}
		for _, op := range c.Ops {
			status(feeder.feed(w.WriteRTP, rtp.Header{Version: 2, SSRC: t.SSRC}, op.payload()))
		}
		if err := w.Close(); err != nil {
			res.err = "close: " + err.Error()
		}
		res.out = out.b
		return res
	}
	var wopts []oggwriter.WriterOption
	mem, plain := &c33Mem{}, &c33Plain{}
	var stream io.Writer = plain
	if c.Seekable {
		stream = mem
		wopts = append(wopts, oggwriter.WithSeekableOutput(mem))
	}
	if c.WVendor != "" {
		wopts = append(wopts, oggwriter.WithVendor(c.WVendor))
	}
	if len(c.WComments) > 0 {
		wopts = append(wopts, oggwriter.WithUserComments(c33UC(c.WComments)...))
	}
	w, err := oggwriter.NewWriter(stream, wopts...)
	if err != nil {
		res.err = err.Error()
		return res
	}
	tracks := make([]*oggwriter.Track, len(c.Tracks))
	for i, t := range c.Tracks {
		topts := []oggwriter.TrackOption{oggwriter.WithSerial(t.Serial), oggwriter.WithSampleRate(t.Rate)}
		if t.Family == 0 {
			topts = append(topts, oggwriter.WithChannelCount(uint16(t.Channels)))
		} else {
			topts = append(topts, oggwriter.WithChannelMapping(t.Family, t.Streams, t.Coupled, t.Mapping))
		}
		if t.VGenLen > 0 {
			topts = append(topts, oggwriter.WithVendor(t.genVendor()))
		} else if t.Vendor != "" {
			topts = append(topts, oggwriter.WithVendor(t.Vendor))
		}
		if len(t.Comments) > 0 {
			topts = append(topts, oggwriter.WithUserComments(c33UC(t.Comments)...))
		}
		tr, err := w.NewTrack(t.SSRC, topts...)
		if err != nil {
			res.err = fmt.Sprintf("track %d: %v", i, err)
			return res
		}
		tracks[i] = tr
	}
	for _, op := range c.Ops {
		status(feeder.feed(tracks[op.Track].WriteRTP, rtp.Header{Version: 2, SSRC: c.Tracks[op.Track].SSRC}, op.payload()))
	}
	if err := w.Close(); err != nil {
		res.err = "close: " + err.Error()
	}
	if c.Seekable {
		res.out = mem.b
	} else {
		res.out = plain.b
	}
	return res
}

func c33UC(cs []c33Comment) []oggwriter.UserComment {
	out := make([]oggwriter.UserComment, len(cs))
	for i, c := range cs {
		out[i] = oggwriter.UserComment{Comment: c.Name, Value: c.Value}
	}
	return out
}

// ---------------- independent page walker ----------------

type c33Page struct {
	htype   byte
	granule uint64
	serial  uint32
	index   uint32
	segs    []byte
	payload []byte
	raw     []byte
}

// bitwise CRC-32 (poly 0x04c11db7, init 0, no reflection), no table
func c33CRC(b []byte) uint32 {
	var r uint32
	for _, x := range b {
		r ^= uint32(x) << 24
		for i := 0; i < 8; i++ {
			if r&0x80000000 != 0 {
				r = r<<1 ^ 0x04c11db7
			} else {
				r <<= 1
			}
		}
	}
	return r
}

// returns the pages and "" or the reason the bytes are not a sequence of valid pages
func c33Walk(b []byte) ([]c33Page, string) {
	var pages []c33Page
	off := 0
	for off < len(b) {
		if len(b)-off < 27 {
			return pages, "truncated-page-header"
		}
		h := b[off:]
		if string(h[0:4]) != "OggS" {
			return pages, "capture-pattern-missing"
		}
		if h[4] != 0 {
			return pages, "stream-structure-version-not-zero"
		}
		n := int(h[26])
		if len(h) < 27+n {
			return pages, "truncated-segment-table"
		}
		size := 0
		for _, s := range h[27 : 27+n] {
			size += int(s)
		}
		if len(h) < 27+n+size {
			return pages, "truncated-page-body"
		}
		raw := h[:27+n+size]
		tmp := append([]byte(nil), raw...)
		tmp[22], tmp[23], tmp[24], tmp[25] = 0, 0, 0, 0
		if c33CRC(tmp) != binary.LittleEndian.Uint32(raw[22:]) {
			return pages, "page-crc-invalid"
		}
		pages = append(pages, c33Page{htype: h[5], granule: binary.LittleEndian.Uint64(h[6:]),
			serial: binary.LittleEndian.Uint32(h[14:]), index: binary.LittleEndian.Uint32(h[18:]),
			segs: h[27 : 27+n], payload: h[27+n : 27+n+size], raw: raw})
		off += len(raw)
	}
	return pages, ""
}

// RFC 6716 section 3.1: samples at 48 kHz for a packet, ok=false if malformed or > 120 ms
func c33Samples(p []byte) (uint64, bool) {
	if len(p) == 0 {
		return 0, false
	}
	cfg := p[0] >> 3
	var per uint64
	switch {
	case cfg < 12:
		per = []uint64{480, 960, 1920, 2880}[cfg%4]
	case cfg < 16:
		per = []uint64{480, 960}[cfg%2]
	default:
		per = []uint64{120, 240, 480, 960}[cfg%4]
	}
	var frames uint64
	switch p[0] & 3 {
	case 0:
		frames = 1
	case 1, 2:
		frames = 2
	default:
		if len(p) < 2 || p[1]&63 == 0 {
			return 0, false
		}
		frames = uint64(p[1] & 63)
	}
	if per*frames > 5760 {
		return 0, false
	}
	return per * frames, true
}

// RFC 7845 section 5.1 / 5.2
func c33OpusHead(t c33Track) []byte {
	b := []byte("OpusHead")
	b = append(b, 1, t.Channels)
	b = binary.LittleEndian.AppendUint16(b, 3840)
	b = binary.LittleEndian.AppendUint32(b, t.Rate)
	b = binary.LittleEndian.AppendUint16(b, 0)
	b = append(b, t.Family)
	if t.Family != 0 {
		b = append(b, t.Streams, t.Coupled)
		b = append(b, t.Mapping...)
	}
	return b
}

func c33OpusTags(vendor string, cs []c33Comment) []byte {
	b := []byte("OpusTags")
	b = binary.LittleEndian.AppendUint32(b, uint32(len(vendor)))
	b = append(b, vendor...)
	b = binary.LittleEndian.AppendUint32(b, uint32(len(cs)))
	for _, c := range cs {
		s := c.Name + "=" + c.Value
		b = binary.LittleEndian.AppendUint32(b, uint32(len(s)))
		b = append(b, s...)
	}
	return b
}

// ---------------- observation digests (layout: coq/Check/C33.v) ----------------

func c33PagesDigest(b []byte) []byte {
	var out []byte
	off := 0
	for off < len(b) {
		l := b[off:]
		if len(l) < 27 {
			return append(append(out, 255), l...)
		}
		n := int(l[26])
		size := 0
		if len(l) >= 27+n {
			for _, s := range l[27 : 27+n] {
				size += int(s)
			}
		} else {
			// the model sums the segments that are there
			for _, s := range l[27:] {
				size += int(s)
			}
		}
		if len(l) < 27+n+size {
			return append(append(out, 255), l...)
		}
		out = append(out, l[:27+n]...)
		out = binary.BigEndian.AppendUint32(out, adler32.Checksum(l[27+n:27+n+size]))
		off += 27 + n + size
	}
	return out
}

func c33ErrClass(err error) byte {
	switch {
	case errors.Is(err, io.EOF):
		return 1
	case errors.Is(err, io.ErrUnexpectedEOF):
		return 2
	}
	s := err.Error()
	switch {
	case s == "expected and actual checksum do not match":
		return 3
	case s == "bad header signature":
		return 4
	case s == "wrong header, expected beginning of stream":
		return 5
	case s == "payload for id page must be 19 bytes":
		return 6
	case strings.HasPrefix(s, "bad payload signature"):
		return 7
	case strings.HasPrefix(s, "unsupported channel mapping family"):
		return 8
	case strings.HasPrefix(s, "bad opus tags signature"):
		return 9
	}
	return 12
}

func c33HeadObs(h *oggreader.OggHeader, err error) []byte {
	if err != nil {
		return []byte{0, c33ErrClass(err)}
	}
	b := []byte{1, h.Version, h.Channels}
	b = binary.BigEndian.AppendUint16(b, h.PreSkip)
	b = binary.BigEndian.AppendUint32(b, h.SampleRate)
	b = binary.BigEndian.AppendUint16(b, h.OutputGain)
	b = append(b, h.ChannelMap, h.StreamCount, h.CoupledCount, byte(len(h.ChannelMapping)))
	return append(b, h.ChannelMapping...)
}

func c33TagsObs(t *oggreader.OpusTags, err error) []byte {
	if err != nil {
		return []byte{0, c33ErrClass(err)}
	}
	b := []byte{1}
	b = binary.BigEndian.AppendUint32(b, uint32(len(t.Vendor)))
	b = binary.BigEndian.AppendUint32(b, adler32.Checksum([]byte(t.Vendor)))
	b = binary.BigEndian.AppendUint32(b, uint32(len(t.UserComments)))
	for _, c := range t.UserComments {
		b = binary.BigEndian.AppendUint32(b, uint32(len(c.Comment)))
		b = append(b, c.Comment...)
		b = binary.BigEndian.AppendUint32(b, uint32(len(c.Value)))
		b = append(b, c.Value...)
	}
	return b
}

type c33RPage struct {
	payload []byte
	granule uint64
	serial  uint32
	class   byte
}

type c33Read struct {
	head    *oggreader.OggHeader
	headErr error
	pages   []c33RPage
	final   error
}

func c33ReadAll(b []byte, doChecksum bool) c33Read {
	var r c33Read
	_, r.head, r.headErr = oggreader.NewWith(bytes.NewReader(b))
	rd, err := oggreader.NewWithOptions(bytes.NewReader(b), oggreader.WithDoChecksum(doChecksum))
	if err != nil {
		panic(err)
	}
	for n := 0; n <= len(b); n++ {
		payload, hdr, err := rd.ParseNextPage()
		if err != nil {
			r.final = err
			return r
		}
		var class byte
		switch t, ok := hdr.HeaderType(payload); {
		case !ok:
		case t == oggreader.HeaderOpusID:
			class = 1
		case t == oggreader.HeaderOpusTags:
			class = 2
		}
		r.pages = append(r.pages, c33RPage{payload, hdr.GranulePosition, hdr.Serial, class})
	}
	r.final = errors.New("no progress")
	return r
}

func (r c33Read) obs() []byte {
	out := c33HeadObs(r.head, r.headErr)
	out = binary.BigEndian.AppendUint32(out, uint32(len(r.pages)))
	for _, p := range r.pages {
		out = binary.BigEndian.AppendUint64(out, p.granule)
		out = binary.BigEndian.AppendUint32(out, p.serial)
		out = append(out, p.class)
		out = binary.BigEndian.AppendUint32(out, uint32(len(p.payload)))
		out = binary.BigEndian.AppendUint32(out, adler32.Checksum(p.payload))
	}
	out = append(out, c33ErrClass(r.final))
	for _, p := range r.pages {
		switch p.class {
		case 1:
			out = append(out, c33HeadObs(oggreader.ParseOpusHead(p.payload))...)
		case 2:
			out = append(out, c33TagsObs(oggreader.ParseOpusTags(p.payload))...)
		}
	}
	return out
}

// ---------------- suite "write" ----------------

func c33Variant(c c33Case) string {
	a, b := "single", "plain"
	if c.Multi {
		a = "multi"
	}
	if c.Seekable {
		b = "seekable"
	}
	return a + "-" + b
}

func c33Feed(c c33Case) string {
	if c.Reuse {
		return "reused-buffer"
	}
	return "fresh-payloads"
}

func c33Run(c c33Case) (V, Verdict) {
	w := c33Write(c)
	if w.err != "" {
		return VL{VS(w.err)}, Fail("writer-refuses-valid-configuration", w.err)
	}
	if !c.Multi && len(w.out) >= 18 {
		c33Serials.Store(c.ID, binary.LittleEndian.Uint32(w.out[14:]))
	}
	rd := c33ReadAll(w.out, true)
	obs := VL{VHex(w.statuses), VHex(c33PagesDigest(w.out)), VHex(rd.obs())}
	variant := c33Variant(c)

	// ---------- direct oracle ----------
	pages, bad := c33Walk(w.out)
	if bad != "" {
		return obs, Fail(bad, fmt.Sprintf("after %d pages", len(pages)))
	}
	// what each track must contain
	type want struct {
		packets [][]byte
		samples []uint64 // cumulative granule after each packet
	}
	tracks := c.Tracks
	if !c.Multi {
		tracks = []c33Track{tracks[0]}
		if len(pages) > 0 {
			tracks[0].Serial = pages[0].serial
		}
	}
	wants := make([]want, len(tracks))
	for i, t := range tracks {
		vendor, cs := c33EffTags(c, t)
		wants[i].packets = [][]byte{c33OpusHead(t), c33OpusTags(vendor, cs)}
		wants[i].samples = []uint64{0, 0}
	}
	accepted, bigPkt := 0, false
	for k, op := range c.Ops {
		p := op.payload()
		n, ok := c33Samples(p)
		gotErr := w.statuses[k] == 1
		if len(p) == 0 {
			if gotErr {
				return obs, Fail("empty-payload-refused", fmt.Sprintf("op %d", k))
			}
			continue
		}
		if ok == gotErr {
			return obs, Fail("opus-packet-validity-differs-from-rfc6716",
				fmt.Sprintf("op %d toc %#x len %d: refused=%v, RFC 6716 valid=%v", k, p[0], len(p), gotErr, ok))
		}
		if !ok {
			continue
		}
		wt := &wants[op.Track]
		wt.packets = append(wt.packets, p)
		wt.samples = append(wt.samples, wt.samples[len(wt.samples)-1]+n)
		accepted++
		bigPkt = bigPkt || len(p) >= 255*255
	}
	firstOfSerial := map[uint32]int{}
	for ti, t := range tracks {
		var mine []c33Page
		for pi, p := range pages {
			if p.serial == t.Serial {
				if len(mine) == 0 {
					firstOfSerial[t.Serial] = pi
				}
				mine = append(mine, p)
			}
		}
		if len(mine) == 0 {
			return obs, Fail("track-has-no-pages", fmt.Sprintf("track %d", ti))
		}
		var packets [][]byte
		var cur []byte
		open := false // a packet continues from the previous page
		var lastGranule uint64
		for k, p := range mine {
			if p.index != uint32(k) {
				return obs, Fail("page-sequence-number-gap", fmt.Sprintf("track %d page %d has sequence %d", ti, k, p.index))
			}
			if (p.htype&2 != 0) != (k == 0) {
				return obs, Fail("bos-flag-misplaced", fmt.Sprintf("track %d page %d type %#x", ti, k, p.htype))
			}
			if (p.htype&4 != 0) != (k == len(mine)-1) {
				if k == len(mine)-1 {
					return obs, Fail("last-page-without-eos-"+variant, fmt.Sprintf("track %d: last page type %#x", ti, p.htype))
				}
				return obs, Fail("eos-flag-before-last-page", fmt.Sprintf("track %d page %d of %d", ti, k, len(mine)))
			}
			if (p.htype&1 != 0) != open {
				return obs, Fail("continuation-flag-wrong", fmt.Sprintf("track %d page %d", ti, k))
			}
			off, ended := 0, 0
			for _, s := range p.segs {
				cur = append(cur, p.payload[off:off+int(s)]...)
				off += int(s)
				open = true
				if s < 255 {
					packets = append(packets, cur)
					cur, open = nil, false
					ended++
				}
			}
			switch {
			case ended == 0 && len(p.segs) > 0:
				if p.granule != ^uint64(0) {
					return obs, Fail("granule-set-on-page-without-packet-end", fmt.Sprintf("track %d page %d", ti, k))
				}
			case ended == 0: // nil page
				if p.granule < lastGranule {
					return obs, Fail("granule-decreases", fmt.Sprintf("track %d page %d", ti, k))
				}
				if len(packets) > 0 && len(packets) <= len(wants[ti].samples) && p.granule != wants[ti].samples[len(packets)-1] {
					return obs, Fail("granule-differs-from-sample-count",
						fmt.Sprintf("track %d nil page %d: %d, want %d", ti, k, p.granule, wants[ti].samples[len(packets)-1]))
				}
			default:
				if p.granule < lastGranule {
					return obs, Fail("granule-decreases", fmt.Sprintf("track %d page %d", ti, k))
				}
				if len(packets) <= len(wants[ti].samples) && p.granule != wants[ti].samples[len(packets)-1] {
					return obs, Fail("granule-differs-from-sample-count",
						fmt.Sprintf("track %d page %d: %d, want %d", ti, k, p.granule, wants[ti].samples[len(packets)-1]))
				}
				lastGranule = p.granule
			}
		}
		if open {
			return obs, Fail("stream-ends-inside-a-packet", fmt.Sprintf("track %d", ti))
		}
		if len(packets) < 2 || !bytes.Equal(packets[0], wants[ti].packets[0]) {
			return obs, Fail("first-packet-is-not-the-configured-opushead", fmt.Sprintf("track %d", ti))
		}
		if !bytes.Equal(packets[1], wants[ti].packets[1]) {
			return obs, Fail("second-packet-is-not-the-configured-opustags", fmt.Sprintf("track %d", ti))
		}
		if len(mine[0].segs) == 0 || mine[0].segs[len(mine[0].segs)-1] == 255 {
			return obs, Fail("opushead-not-alone-on-first-page", fmt.Sprintf("track %d", ti))
		}
		if len(packets) != len(wants[ti].packets) {
			return obs, Fail("packets-read-differ-from-packets-written",
				fmt.Sprintf("track %d: %d packets in file, %d written", ti, len(packets)-2, len(wants[ti].packets)-2))
		}
		for k := range packets {
			if !bytes.Equal(packets[k], wants[ti].packets[k]) {
				return obs, Fail("packets-read-differ-from-packets-written", fmt.Sprintf("track %d packet %d", ti, k-2))
			}
		}
	}
	// BOS pages of all streams come before anything else, in track order
	for ti, t := range tracks {
		if firstOfSerial[t.Serial] != ti {
			return obs, Fail("bos-pages-not-grouped-at-start", fmt.Sprintf("track %d starts at page %d", ti, firstOfSerial[t.Serial]))
		}
	}
	for _, p := range pages {
		known := false
		for _, t := range tracks {
			known = known || t.Serial == p.serial
		}
		if !known {
			return obs, Fail("page-with-unknown-serial", fmt.Sprintf("%d", p.serial))
		}
	}
	// OggReader sees the same pages
	if rd.headErr != nil {
		return obs, Fail("reader-refuses-written-file", rd.headErr.Error())
	}
	if !bytes.Equal(c33HeadObs(rd.head, nil), c33HeadObs(c33WantHead(tracks[0]), nil)) {
		return obs, Fail("reader-header-differs-from-configuration", fmt.Sprintf("%+v", *rd.head))
	}
	if !errors.Is(rd.final, io.EOF) || len(rd.pages) != len(pages) {
		return obs, Fail("reader-pages-differ-from-file", fmt.Sprintf("%d of %d pages, then %v", len(rd.pages), len(pages), rd.final))
	}
	joined := map[uint32][][]byte{}
	curJ := map[uint32][]byte{}
	for k, p := range rd.pages {
		if !bytes.Equal(p.payload, pages[k].payload) || p.granule != pages[k].granule || p.serial != pages[k].serial {
			return obs, Fail("reader-pages-differ-from-file", fmt.Sprintf("page %d", k))
		}
		if len(pages[k].segs) == 0 {
			continue
		}
		curJ[p.serial] = append(curJ[p.serial], p.payload...)
		if p.granule != ^uint64(0) {
			joined[p.serial] = append(joined[p.serial], curJ[p.serial])
			curJ[p.serial] = nil
		}
	}
	for ti, t := range tracks {
		got := joined[t.Serial]
		if len(got) != len(wants[ti].packets) {
			return obs, Fail("reader-join-differs-from-packets-written", fmt.Sprintf("track %d", ti))
		}
		for k := range got {
			if !bytes.Equal(got[k], wants[ti].packets[k]) {
				return obs, Fail("reader-join-differs-from-packets-written", fmt.Sprintf("track %d packet %d", ti, k))
			}
		}
		h, err := oggreader.ParseOpusHead(got[0])
		if err != nil || !bytes.Equal(c33HeadObs(h, nil), c33HeadObs(c33WantHead(t), nil)) {
			return obs, Fail("parsed-opushead-differs-from-configuration", fmt.Sprintf("track %d: %v", ti, err))
		}
		tg, err := oggreader.ParseOpusTags(got[1])
		vendor, cs := c33EffTags(c, t)
		if err != nil || tg.Vendor != vendor || len(tg.UserComments) != len(cs) {
			return obs, Fail("parsed-opustags-differ-from-configuration", fmt.Sprintf("track %d: %v", ti, err))
		}
		for k := range cs {
			if tg.UserComments[k].Comment != cs[k].Name || tg.UserComments[k].Value != cs[k].Value {
				return obs, Fail("parsed-opustags-differ-from-configuration", fmt.Sprintf("track %d comment %d", ti, k))
			}
		}
	}
	size := "small"
	if bigPkt {
		size = "multipage"
	}
	v := Pass(fmt.Sprintf("%s/%s/tracks%d/%s/pkts%s", variant, c33Feed(c), len(tracks), size, c32Bucket33(accepted)),
		accepted >= 1 && (len(tracks) >= 2 || bigPkt || accepted >= 3))
	return obs, v
}

func c32Bucket33(n int) string {
	switch {
	case n == 0:
		return "0"
	case n <= 3:
		return "1-3"
	case n <= 10:
		return "4-10"
	}
	return "11+"
}

func c33WantHead(t c33Track) *oggreader.OggHeader {
	h := &oggreader.OggHeader{Version: 1, Channels: t.Channels, PreSkip: 3840, SampleRate: t.Rate, ChannelMap: t.Family}
	if t.Family != 0 {
		h.StreamCount, h.CoupledCount, h.ChannelMapping = t.Streams, t.Coupled, string(t.Mapping)
	}
	return h
}

func c33Coq(c c33Case) string {
	var b []byte
	var flags byte
	if c.Multi {
		flags |= 1
	}
	if c.Seekable {
		flags |= 2
	}
	b = append(b, flags, byte(len(c.Tracks)))
	for _, t := range c.Tracks {
		serial := t.Serial
		if !c.Multi {
			v, ok := c33Serials.Load(c.ID)
			if !ok {
				return ""
			}
			serial = v.(uint32)
		}
		b = binary.BigEndian.AppendUint32(b, serial)
		b = binary.BigEndian.AppendUint32(b, t.Rate)
		b = append(b, t.Family, t.Channels, t.Streams, t.Coupled, byte(len(t.Mapping)))
		b = append(b, t.Mapping...)
		vendor, cs := c33EffTags(c, t)
		if t.VGenLen > 0 {
			b = append(b, 1)
			b = binary.BigEndian.AppendUint32(b, uint32(t.VGenLen))
			b = append(b, t.VSeed)
		} else {
			if len(vendor) > 0xffff {
				return ""
			}
			b = append(b, 0)
			b = binary.BigEndian.AppendUint16(b, uint16(len(vendor)))
			b = append(b, vendor...)
		}
		b = binary.BigEndian.AppendUint16(b, uint16(len(cs)))
		for _, cm := range cs {
			if len(cm.Name) > 0xffff || len(cm.Value) > 0xffff {
				return ""
			}
			b = binary.BigEndian.AppendUint16(b, uint16(len(cm.Name)))
			b = append(b, cm.Name...)
			b = binary.BigEndian.AppendUint16(b, uint16(len(cm.Value)))
			b = append(b, cm.Value...)
		}
	}
	for _, op := range c.Ops {
		b = append(b, byte(op.Track))
		if op.GenLen > 0 {
			b = append(b, 1)
			b = binary.BigEndian.AppendUint32(b, uint32(op.GenLen))
			b = append(b, op.Toc, op.B1, op.Seed)
		} else {
			p := op.payload()
			if len(p) > 0xffff {
				return ""
			}
			b = append(b, 0)
			b = binary.BigEndian.AppendUint16(b, uint16(len(p)))
			b = append(b, p...)
		}
	}
	return CoqHex(b)
}

// ---------------- generator ----------------

var c33Words = []string{"pion", "libopus 1.4", "Lavf60.3.100", "ünïcødé", "日本語", "a=b", "", "x", "encoder"}

func c33Text(r *Rand) string {
	if r.Chance(1, 3) {
		return Pick(r, c33Words)
	}
	n := r.Range(0, 24)
	b := make([]byte, n)
	for i := range b {
		b[i] = byte(r.Range(32, 126))
	}
	return string(b)
}

func c33Name(r *Rand) string {
	n := r.Range(1, 10)
	b := make([]byte, n)
	for i := range b {
		ch := byte(r.Range(0x20, 0x7d))
		if ch == '=' {
			ch = 'E'
		}
		b[i] = ch
	}
	return string(b)
}

func c33Comments(r *Rand) []c33Comment {
	var cs []c33Comment
	for n := r.Intn(3); n > 0; n-- {
		cs = append(cs, c33Comment{c33Name(r), c33Text(r)})
	}
	return cs
}

// a valid Opus packet of the wanted length (len >= 1), or an invalid one
func c33GenPacket(r *Rand, big bool) c33Op {
	toc := byte(r.Intn(256))
	b1 := byte(0)
	if toc&3 == 3 {
		_, _ = c33Samples([]byte{toc, 1})
		per, _ := c33Samples([]byte{toc &^ 3})
		maxFrames := int(5760 / per)
		switch {
		case r.Chance(1, 12):
			b1 = byte(r.Intn(256)) // anything, often invalid
		default:
			b1 = byte(r.Range(1, min(maxFrames, 48))) | byte(r.Intn(4))<<6
		}
	} else {
		b1 = byte(r.Intn(256))
	}
	if big {
		n := Pick(r, []int{255 * 255, 255*255 - 1, 255*255 + 1, 255*255 + 254, 255*255 + 255, 2 * 255 * 255, 2*255*255 + 17, 70000})
		return c33Op{GenLen: n, Toc: toc, B1: b1, Seed: byte(r.Range(1, 255))}
	}
	var n int
	switch x := r.Intn(20); {
	case x < 12:
		n = r.Range(1, 24)
	case x < 15:
		n = r.Range(24, 120)
	case x < 18:
		n = Pick(r, []int{254, 255, 256, 509, 510, 511, 765})
	default:
		n = r.Range(120, 600)
	}
	if n >= 200 {
		return c33Op{GenLen: n, Toc: toc, B1: b1, Seed: byte(r.Range(1, 255))}
	}
	p := r.Bytes(n)
	p[0] = toc
	if n > 1 {
		p[1] = b1
	}
	return c33Op{Hex: hex.EncodeToString(p)}
}

func c33GenTrack(r *Rand, multi bool, k int) c33Track {
	t := c33Track{SSRC: uint32(1000 + k), Serial: uint32(r.U64()), Family: 0, Channels: byte(r.Range(1, 2)), Streams: 1}
	t.Rate = Pick(r, []uint32{48000, 48000, 44100, 16000, 8000, uint32(r.U64())})
	if t.Channels == 2 {
		t.Coupled = 1
	}
	if !multi {
		return t
	}
	switch r.Intn(6) {
	case 0:
		t.Family, t.Channels, t.Coupled, t.Mapping = 1, 1, 0, []byte{0}
	case 1:
		t.Family, t.Channels, t.Coupled, t.Mapping = 1, 2, 1, []byte{0, 1}
	case 2:
		t.Family, t.Channels, t.Coupled, t.Mapping = 2, 1, 0, []byte{0}
	case 3:
		t.Family = 255
		t.Coupled = byte(r.Intn(2))
		n := r.Range(1, 8)
		t.Mapping = make([]byte, n)
		for i := range t.Mapping {
			t.Mapping[i] = Pick(r, []byte{0, 255, t.Coupled}) // t.Coupled is 0 or 1: index of the second decoded channel
		}
		t.Channels = byte(n)
	}
	if r.Chance(1, 2) {
		t.Vendor = c33Text(r)
	}
	t.Comments = c33Comments(r)
	return t
}

func c33Gen(r *Rand, i int) c33Case { return c33GenVariant(r, i, r.Chance(3, 5), r.Bool()) }

func c33GenVariant(r *Rand, i int, multi, seekable bool) c33Case {
	c := c33Case{ID: r.U64(), Multi: multi, Seekable: seekable}
	n := 1
	if c.Multi {
		n = r.Range(1, 4)
		if r.Chance(1, 3) {
			c.WVendor = c33Text(r)
		}
		if r.Chance(1, 3) {
			c.WComments = c33Comments(r)
		}
	}
	seen := map[uint32]bool{}
	for k := 0; k < n; k++ {
		t := c33GenTrack(r, c.Multi, k)
		for seen[t.Serial] {
			t.Serial++
		}
		seen[t.Serial] = true
		c.Tracks = append(c.Tracks, t)
	}
	nops := r.Range(0, 12)
	if r.Chance(1, 8) {
		nops = r.Range(12, 40)
	}
	big := i%36 == 7 // a few multi-page packets per run
	for k := 0; k < nops; k++ {
		switch {
		case r.Chance(1, 15):
			c.Ops = append(c.Ops, c33Op{Track: r.Intn(n)}) // empty RTP payload
		default:
			op := c33GenPacket(r, big && k == nops/2)
			op.Track = r.Intn(n)
			c.Ops = append(c.Ops, op)
		}
	}
	if big && c.Multi && r.Bool() {
		c.Tracks[0].VGenLen, c.Tracks[0].VSeed = Pick(r, []int{255*255 - 16, 255*255 - 15, 66000}), byte(r.Range(1, 25))
		c.Note = "multi-page comment header"
	}
	// packet feeding: a rewritable output makes Close rebuild each stream's last
	// page from what the writer remembered, so every seekable case goes through
	// the reused receive buffer; half of the others do as well
	c.Reuse = seekable || r.Bool()
	return c
}

func c33Shrink(c c33Case) []c33Case {
	var out []c33Case
	for i := range c.Ops {
		d := c
		d.ID = c.ID ^ uint64(i+1)<<32
		d.Ops = append(append([]c33Op{}, c.Ops[:i]...), c.Ops[i+1:]...)
		out = append(out, d)
	}
	return out
}

func c33Corpus() []c33Case {
	one := c33Track{SSRC: 7, Rate: 48000, Channels: 2, Streams: 1, Coupled: 1}
	two := c33Track{SSRC: 8, Serial: 77, Rate: 48000, Family: 255, Channels: 3, Streams: 1, Coupled: 1, Mapping: []byte{0, 1, 255},
		Vendor: "v2", Comments: []c33Comment{{"TITLE", "x=y"}}}
	pk := func(t int, h string) c33Op { return c33Op{Track: t, Hex: h} }
	first := one
	first.Serial = 5
	return []c33Case{
		// witness of the repaired defect: single-track writer, non-seekable output
		// (before fix 3ad4cd0 the last page carried no end-of-stream flag)
		{ID: 1, Multi: false, Seekable: false, Tracks: []c33Track{one}, Ops: []c33Op{pk(0, "78010203")}, Note: "eos-single-plain"},
		{ID: 2, Multi: false, Seekable: false, Tracks: []c33Track{one}, Note: "eos-single-plain-no-packets"},
		{ID: 3, Multi: false, Seekable: true, Tracks: []c33Track{one}, Ops: []c33Op{pk(0, "78010203"), pk(0, "fb05aa")}},
		{ID: 4, Multi: true, Seekable: false, Tracks: []c33Track{first, two}, Ops: []c33Op{pk(0, "7801"), pk(1, "fc"), pk(1, "ff00"), pk(0, "ff3f")}},
		{ID: 5, Multi: true, Seekable: true, Tracks: []c33Track{first, two}, Ops: []c33Op{pk(1, "7801"), pk(0, "fc"), pk(1, "")}},
		{ID: 6, Multi: true, Seekable: true, Tracks: []c33Track{first, two}, Note: "no packets at all"},
		// exact multiples of 255 and of 255*255
		{ID: 7, Multi: false, Seekable: false, Tracks: []c33Track{one}, Ops: []c33Op{{GenLen: 255, Toc: 0x78, Seed: 3}, {GenLen: 510, Toc: 0x78, Seed: 5}}},
		{ID: 8, Multi: true, Seekable: true, Tracks: []c33Track{first}, Ops: []c33Op{{GenLen: 255 * 255, Toc: 0x78, Seed: 3}}},
		{ID: 9, Multi: true, Seekable: false, Tracks: []c33Track{first, two}, Ops: []c33Op{{GenLen: 2 * 255 * 255, Toc: 0x78, Seed: 9}, pk(1, "7801")}},
		// receive loop over one buffer (all tracks share it); the rewritable
		// variants rebuild every stream's last page in Close, after the buffer has
		// been overwritten / has served the other track
		{ID: 10, Multi: false, Seekable: true, Reuse: true, Tracks: []c33Track{one}, Note: "receive-loop",
			Ops: []c33Op{pk(0, "9810101010"), pk(0, "9811111111"), pk(0, "9812121212"), pk(0, "9813131313"), pk(0, "9814141414")}},
		{ID: 11, Multi: true, Seekable: true, Reuse: true, Tracks: []c33Track{first, two}, Note: "receive-loop-two-tracks",
			Ops: []c33Op{pk(0, "98202020"), pk(1, "98606060"), pk(0, "98212121"), pk(1, "98616161"), pk(0, "98222222"), pk(1, "98626262"), pk(0, "98232323")}},
		{ID: 12, Multi: true, Seekable: true, Reuse: true, Tracks: []c33Track{first, two}, Note: "receive-loop-multipage-last-packet",
			Ops: []c33Op{pk(1, "7801"), {GenLen: 255*255 + 300, Toc: 0x78, Seed: 7}, pk(1, "7802")}},
		{ID: 13, Multi: false, Seekable: false, Reuse: true, Tracks: []c33Track{one}, Note: "receive-loop-plain",
			Ops: []c33Op{pk(0, "9810101010"), pk(0, ""), pk(0, "9811111111")}},
		{ID: 14, Multi: true, Seekable: false, Reuse: true, Tracks: []c33Track{first, two}, Note: "receive-loop-plain-two-tracks",
			Ops: []c33Op{pk(0, "98202020"), pk(1, "98606060"), {Track: 1, GenLen: 600, Toc: 0x78, Seed: 11}, pk(0, "98212121")}},
	}
}

// ---------------- suite "read" ----------------

type c33Bytes struct {
	Hex  string `json:"hex"`
	Orig string `json:"orig,omitempty"` // the valid file it was derived from
	Note string `json:"note,omitempty"`
}

func c33SmallFile(r *Rand) []byte {
	for {
		c := c33Gen(r, 0)
		total := 0
		for _, op := range c.Ops {
			total += len(op.payload())
		}
		if total > 300 || len(c.Ops) > 8 {
			continue
		}
		c.Seekable = c.Seekable && c.Multi // no temp files here
		w := c33Write(c)
		if w.err == "" && len(w.out) < 1500 {
			return w.out
		}
	}
}

func c33ReadRun(in c33Bytes) (V, Verdict) {
	b, _ := hex.DecodeString(in.Hex)
	on, off := c33ReadAll(b, true), c33ReadAll(b, false)
	obs := VL{VHex(on.obs()), VHex(off.obs())}
	if on.final.Error() == "no progress" || off.final.Error() == "no progress" {
		return obs, Fail("reader-makes-no-progress", "")
	}
	// direct oracle: with checksums on, every page returned is a page of the
	// input with a valid CRC, in order, and the reader stops at the first
	// place where the input is not one
	pages, bad := c33Walk(b)
	if len(on.pages) != len(pages) {
		// a page with a foreign capture pattern or version but a correct CRC is
		// accepted by ParseNextPage (it checks neither); the walker stops there
		if !(len(on.pages) > len(pages) && (bad == "capture-pattern-missing" || bad == "stream-structure-version-not-zero")) {
			return obs, Fail("reader-pages-differ-from-valid-prefix", fmt.Sprintf("reader %d, walker %d (%s)", len(on.pages), len(pages), bad))
		}
	}
	for k := 0; k < len(pages) && k < len(on.pages); k++ {
		if !bytes.Equal(on.pages[k].payload, pages[k].payload) || on.pages[k].granule != pages[k].granule {
			return obs, Fail("reader-page-differs-from-input", fmt.Sprintf("page %d", k))
		}
	}
	if bad == "" && !errors.Is(on.final, io.EOF) {
		return obs, Fail("reader-error-on-valid-file", on.final.Error())
	}
	if bad == "page-crc-invalid" && c33ErrClass(on.final) != 3 {
		return obs, Fail("corrupt-page-not-reported-as-checksum-mismatch", on.final.Error())
	}
	return obs, Pass(fmt.Sprintf("%s/%d", map[string]string{"": "valid"}[bad]+bad, c33ErrClass(on.final)), len(on.pages) > 0 || bad != "")
}

func c33ReadGen(r *Rand, _ int) c33Bytes {
	b := c33SmallFile(r)
	orig := hex.EncodeToString(b)
	b = append([]byte(nil), b...)
	note := ""
	switch r.Intn(7) {
	case 0, 1:
		b = b[:r.Intn(len(b)+1)]
		note = "truncate"
	case 2, 3:
		i := r.Intn(len(b))
		b[i] ^= byte(1 << r.Intn(8))
		note = fmt.Sprintf("bit-flip@%d", i)
	case 4:
		i := r.Intn(min(len(b), 47))
		b[i] = byte(r.Intn(256))
		note = fmt.Sprintf("id-page-byte@%d", i)
	case 5:
		b = append(b, r.Bytes(r.Range(1, 40))...)
		note = "trailing-bytes"
	case 6:
		note = "valid"
	}
	return c33Bytes{Hex: hex.EncodeToString(b), Orig: orig, Note: note}
}

// ---------------- suite "toc" ----------------

func c33TocB1s() []byte {
	var out []byte
	for i := 0; i < 64; i++ {
		out = append(out, byte(i))
	}
	return append(out, 64, 129, 255)
}

func c33TocRun(toc int) (V, Verdict) {
	var obs []byte
	entry := func(p []byte) (uint64, bool) {
		out := &c33Plain{}
		w, err := oggwriter.NewWith(out, 48000, 2)
		if err != nil {
			panic(err)
		}
		if err := w.WriteRTP(&rtp.Packet{Payload: p}); err != nil {
			return 0, false
		}
		_ = w.Close()
		pages, bad := c33Walk(out.b)
		if bad != "" || len(pages) < 3 {
			panic("toc: " + bad)
		}
		return pages[2].granule, true
	}
	check := func(p []byte) *Verdict {
		got, ok := entry(p)
		want, wok := c33Samples(p)
		if ok {
			obs = append(obs, byte(got/120)) // every Opus frame size is a multiple of 120 samples
			if got%120 != 0 || got/120 >= 255 {
				obs = append(obs, 254)
			}
		} else {
			obs = append(obs, 255)
		}
		if ok != wok || got != want {
			v := Fail("sample-count-differs-from-rfc6716", fmt.Sprintf("packet %x: %d/%v, RFC 6716 gives %d/%v", p, got, ok, want, wok))
			return &v
		}
		return nil
	}
	var bad *Verdict
	if v := check([]byte{byte(toc)}); v != nil {
		bad = v
	}
	for _, b1 := range c33TocB1s() {
		if v := check([]byte{byte(toc), b1}); v != nil && bad == nil {
			bad = v
		}
	}
	if bad != nil {
		return VHex(obs), *bad
	}
	return VHex(obs), Pass(fmt.Sprintf("code%d", toc&3), true)
}

// ---------------- suite "cfg": what NewTrack accepts ----------------
//
// A sequence of NewTrack calls on one multi-track writer (plain output), then
// Close without a packet.  The model side is new_track_checked / add_tracks
// (validateChannelMapping, defaultChannelMapping, validateOpusTags, duplicate
// SSRC / serial); byte strings are hex because vendors and values may be
// malformed UTF-8.

type c33CfgComment struct {
	Name  string `json:"n"` // hex
	Value string `json:"v"` // hex
}

type c33CfgTrack struct {
	SSRC     uint32          `json:"ssrc"`
	Serial   uint32          `json:"serial"`
	Rate     uint32          `json:"rate"`
	Family   uint8           `json:"family"`   // 0: WithChannelCount(Channels), else WithChannelMapping
	Channels uint16          `json:"channels"` // family 0 only
	Streams  uint8           `json:"streams"`
	Coupled  uint8           `json:"coupled"`
	Mapping  string          `json:"mapping,omitempty"` // hex
	Vendor   string          `json:"vendor,omitempty"`  // hex
	Comments []c33CfgComment `json:"comments,omitempty"`
}

type c33Cfg struct {
	Tracks []c33CfgTrack `json:"tracks"`
	Note   string        `json:"note,omitempty"`
}

func c33Unhex(s string) []byte { b, _ := hex.DecodeString(s); return b }

func c33CfgClass(err error) byte {
	if err == nil {
		return 0
	}
	s := err.Error()
	switch {
	case strings.HasPrefix(s, "invalid channel count"):
		return 1
	case strings.HasPrefix(s, "invalid channel mapping"):
		return 2
	case strings.HasPrefix(s, "invalid OpusTags"):
		return 3
	case s == "duplicate Ogg track SSRC":
		return 4
	case s == "duplicate Ogg track serial":
		return 5
	}
	return 9
}

// Vorbis comment field names: 0x20..0x7D without '=' (and not empty)
func c33NameOK(name []byte) bool {
	if len(name) == 0 {
		return false
	}
	for _, b := range name {
		if b < 0x20 || b > 0x7d || b == '=' {
			return false
		}
	}
	return true
}

// the rule book, restated: RFC 7845 section 5.1.1 (mapping table entries index a
// decoded channel or are 255, coupled <= streams, 1..255 channels, family 0 is
// mono or stereo, family 1 in Vorbis order) narrowed to what the doc comment of
// WithChannelMapping promises (one stream only; family 1 therefore mono/stereo,
// family 2 zero-order ambisonics without the non-diegetic pair), RFC 7845
// section 5.2 / Vorbis comments (UTF-8 vendor and values, field names 0x20..0x7D
// without '='), and one SSRC / one serial per track.  "" = must be accepted.
func c33CfgReason(t c33CfgTrack, ssrcs, serials map[uint32]bool) string {
	if ssrcs[t.SSRC] {
		return "duplicate-ssrc"
	}
	m := c33Unhex(t.Mapping)
	switch t.Family {
	case 0:
		if t.Channels != 1 && t.Channels != 2 {
			return "invalid-channel-count"
		}
	case 1, 2, 255:
		if len(m) == 0 || len(m) > 255 {
			return "invalid-channel-count"
		}
		if t.Streams != 1 || t.Coupled > t.Streams {
			return "invalid-channel-mapping"
		}
		for _, ch := range m {
			if ch != 255 && int(ch) >= int(t.Streams)+int(t.Coupled) {
				return "invalid-channel-mapping"
			}
		}
		if t.Family == 1 && !(len(m) == 1 && t.Coupled == 0 && m[0] == 0) &&
			!(len(m) == 2 && t.Coupled == 1 && m[0] == 0 && m[1] == 1) {
			return "invalid-channel-mapping"
		}
		if t.Family == 2 && !(len(m) == 1 && t.Coupled == 0 && m[0] == 0) {
			return "invalid-channel-mapping"
		}
	default:
		return "invalid-channel-mapping"
	}
	if !utf8.Valid(c33Unhex(t.Vendor)) {
		return "invalid-opustags"
	}
	for _, c := range t.Comments {
		if !c33NameOK(c33Unhex(c.Name)) || !utf8.Valid(c33Unhex(c.Value)) {
			return "invalid-opustags"
		}
	}
	if serials[t.Serial] {
		return "duplicate-serial"
	}
	return ""
}

func (t c33CfgTrack) asTrack() c33Track {
	out := c33Track{SSRC: t.SSRC, Serial: t.Serial, Rate: t.Rate, Family: t.Family, Streams: t.Streams, Coupled: t.Coupled}
	if t.Family == 0 {
		out.Channels, out.Streams, out.Coupled = byte(t.Channels), 1, byte(t.Channels-1)
	} else {
		out.Mapping = c33Unhex(t.Mapping)
		out.Channels = byte(len(out.Mapping))
	}
	return out
}

func c33CfgRun(c c33Cfg) (V, Verdict) {
	out := &c33Plain{}
	w, err := oggwriter.NewWriter(out)
	if err != nil {
		panic(err)
	}
	classes := make([]byte, len(c.Tracks))
	for i, t := range c.Tracks {
		opts := []oggwriter.TrackOption{oggwriter.WithSerial(t.Serial), oggwriter.WithSampleRate(t.Rate)}
		if t.Family == 0 {
			opts = append(opts, oggwriter.WithChannelCount(t.Channels))
		} else {
			opts = append(opts, oggwriter.WithChannelMapping(t.Family, t.Streams, t.Coupled, c33Unhex(t.Mapping)))
		}
		opts = append(opts, oggwriter.WithVendor(string(c33Unhex(t.Vendor))))
		if len(t.Comments) > 0 {
			ucs := make([]oggwriter.UserComment, len(t.Comments))
			for k, cm := range t.Comments {
				ucs[k] = oggwriter.UserComment{Comment: string(c33Unhex(cm.Name)), Value: string(c33Unhex(cm.Value))}
			}
			opts = append(opts, oggwriter.WithUserComments(ucs...))
		}
		_, err := w.NewTrack(t.SSRC, opts...)
		classes[i] = c33CfgClass(err)
	}
	closeErr := w.Close()
	obs := VL{VHex(classes), VHex(c33PagesDigest(out.b)), VHex(c33ReadAll(out.b, true).obs())}

	// ---------- direct oracle ----------
	ssrcs, serials := map[uint32]bool{}, map[uint32]bool{}
	var acc []c33CfgTrack
	nref := 0
	for i, t := range c.Tracks {
		reason := c33CfgReason(t, ssrcs, serials)
		switch {
		case reason == "" && classes[i] != 0:
			return obs, Fail("valid-configuration-refused", fmt.Sprintf("track %d: refused with class %d", i, classes[i]))
		case reason != "" && classes[i] == 0:
			return obs, Fail(reason+"-accepted", fmt.Sprintf("track %d", i))
		}
		if classes[i] == 0 {
			ssrcs[t.SSRC], serials[t.Serial] = true, true
			acc = append(acc, t)
		} else {
			nref++
		}
	}
	if closeErr != nil {
		return obs, Fail("close-error", closeErr.Error())
	}
	// the closed file: BOS pages of the accepted tracks in order with their
	// OpusHead, then their OpusTags, then one nil EOS page each; nothing else
	pages, bad := c33Walk(out.b)
	if bad != "" {
		return obs, Fail(bad, fmt.Sprintf("after %d pages", len(pages)))
	}
	if len(pages) != 3*len(acc) {
		return obs, Fail("page-count-differs-from-accepted-tracks", fmt.Sprintf("%d pages for %d accepted tracks", len(pages), len(acc)))
	}
	for k, t := range acc {
		id, tg, eos := pages[k], pages[len(acc)+k], pages[2*len(acc)+k]
		if id.serial != t.Serial || id.htype != 2 || id.index != 0 || id.granule != 0 {
			return obs, Fail("bos-pages-not-grouped-at-start", fmt.Sprintf("page %d: serial %d type %#x", k, id.serial, id.htype))
		}
		if !bytes.Equal(id.payload, c33OpusHead(t.asTrack())) {
			return obs, Fail("opushead-differs-from-accepted-configuration", fmt.Sprintf("track serial %d: %x", t.Serial, id.payload))
		}
		var cs []c33Comment
		for _, cm := range t.Comments {
			cs = append(cs, c33Comment{string(c33Unhex(cm.Name)), string(c33Unhex(cm.Value))})
		}
		if tg.serial != t.Serial || tg.htype != 0 || tg.index != 1 || !bytes.Equal(tg.payload, c33OpusTags(string(c33Unhex(t.Vendor)), cs)) {
			return obs, Fail("opustags-differ-from-accepted-configuration", fmt.Sprintf("track serial %d", t.Serial))
		}
		if eos.serial != t.Serial || eos.htype != 4 || eos.index != 2 || len(eos.payload) != 0 {
			return obs, Fail("last-page-without-eos-multi-plain", fmt.Sprintf("track serial %d: type %#x", t.Serial, eos.htype))
		}
		h, err := oggreader.ParseOpusHead(id.payload)
		if err != nil || !bytes.Equal(c33HeadObs(h, nil), c33HeadObs(c33WantHead(t.asTrack()), nil)) {
			return obs, Fail("parsed-opushead-differs-from-configuration", fmt.Sprintf("track serial %d: %v", t.Serial, err))
		}
	}
	return obs, Pass(fmt.Sprintf("accepted%s/refused%s", c32Bucket33(len(acc)), c32Bucket33(nref)), len(acc) >= 1 && nref >= 1)
}

func c33CfgCoq(c c33Cfg) string {
	if len(c.Tracks) > 255 {
		return ""
	}
	b := []byte{byte(len(c.Tracks))}
	for _, t := range c.Tracks {
		m, v := c33Unhex(t.Mapping), c33Unhex(t.Vendor)
		if len(m) > 0xffff || len(v) > 0xffff || len(t.Comments) > 0xffff {
			return ""
		}
		b = binary.BigEndian.AppendUint32(b, t.SSRC)
		b = binary.BigEndian.AppendUint32(b, t.Serial)
		b = binary.BigEndian.AppendUint32(b, t.Rate)
		b = append(b, t.Family)
		b = binary.BigEndian.AppendUint16(b, t.Channels)
		b = append(b, t.Streams, t.Coupled)
		b = binary.BigEndian.AppendUint16(b, uint16(len(m)))
		b = append(b, m...)
		b = binary.BigEndian.AppendUint16(b, uint16(len(v)))
		b = append(b, v...)
		b = binary.BigEndian.AppendUint16(b, uint16(len(t.Comments)))
		for _, cm := range t.Comments {
			n, val := c33Unhex(cm.Name), c33Unhex(cm.Value)
			if len(n) > 0xffff || len(val) > 0xffff {
				return ""
			}
			b = binary.BigEndian.AppendUint16(b, uint16(len(n)))
			b = append(b, n...)
			b = binary.BigEndian.AppendUint16(b, uint16(len(val)))
			b = append(b, val...)
		}
	}
	return CoqHex(b)
}

// malformed and borderline UTF-8 (Unicode table 3-7)
var c33BadUTF8 = []string{"80", "bf", "c0", "c080", "c1bf", "c2", "c220", "e0", "e080", "e08080", "e09fbf", "eda080", "edbfbf",
	"e282", "e28220", "f0", "f08080", "f0808080", "f08fbfbf", "f4908080", "f5808080", "f8", "ff", "f09f98", "41c3"}
var c33GoodUTF8 = []string{"", "41", "c280", "dfbf", "e0a080", "ed9fbf", "ee8080", "efbfbf", "f0908080", "f48fbfbf", "e282ac", "f09f9880",
	"70696f6e", "c3bc6ec3af63c3b864c3a9", "e697a5e69cace8aa9e", "00", "7f"}

func c33CfgGenText(r *Rand, bad bool) string {
	if bad {
		return hex.EncodeToString(r.Bytes(r.Intn(3))) + Pick(r, c33BadUTF8) + Pick(r, []string{"", "41", "e282ac"})
	}
	s := ""
	for n := r.Intn(4); n > 0; n-- {
		s += Pick(r, c33GoodUTF8)
	}
	return s
}

func c33CfgGenName(r *Rand, bad bool) string {
	if bad {
		return Pick(r, []string{"", "3d", "413d42", "1f", "7e", "7f", "80", "410a", "c3a9", "ff", "00"})
	}
	return hex.EncodeToString([]byte(c33Name(r)))
}

func c33CfgGenTrack(r *Rand, k int, prev []c33CfgTrack) c33CfgTrack {
	t := c33CfgTrack{SSRC: uint32(5000 + k), Serial: uint32(r.U64()), Rate: Pick(r, []uint32{48000, 44100, 8000, uint32(r.U64())})}
	// a configuration that must be accepted
	switch r.Intn(6) {
	case 0, 1:
		t.Family, t.Channels = 0, uint16(r.Range(1, 2))
	case 2:
		if r.Bool() {
			t.Family, t.Streams, t.Coupled, t.Mapping = 1, 1, 0, "00"
		} else {
			t.Family, t.Streams, t.Coupled, t.Mapping = 1, 1, 1, "0001"
		}
	case 3:
		t.Family, t.Streams, t.Coupled, t.Mapping = 2, 1, 0, "00"
	default:
		t.Family, t.Streams, t.Coupled = 255, 1, byte(r.Intn(2))
		n := r.Range(1, 8)
		if r.Chance(1, 10) {
			n = Pick(r, []int{254, 255})
		}
		m := make([]byte, n)
		for i := range m {
			m[i] = Pick(r, []byte{0, 255, t.Coupled})
		}
		t.Mapping = hex.EncodeToString(m)
	}
	t.Vendor = c33CfgGenText(r, false)
	for n := r.Intn(3); n > 0; n-- {
		t.Comments = append(t.Comments, c33CfgComment{c33CfgGenName(r, false), c33CfgGenText(r, false)})
	}
	if r.Chance(11, 20) {
		return t
	}
	// one thing wrong
	switch r.Intn(13) {
	case 0:
		t.Family, t.Channels = 0, Pick(r, []uint16{0, 3, 8, 255, 256, 257, 65535})
	case 1:
		t.Family = Pick(r, []uint8{3, 4, 127, 254})
		if t.Mapping == "" {
			t.Streams, t.Mapping = 1, "00"
		}
	case 2:
		if t.Family == 0 {
			t.Family, t.Coupled = 255, 0
		}
		t.Streams = Pick(r, []uint8{0, 2, 3, 255})
		t.Mapping = "00"
	case 3:
		if t.Family == 0 {
			t.Family = 255
		}
		t.Streams, t.Coupled, t.Mapping = 1, Pick(r, []uint8{2, 3, 255}), "0001"
	case 4: // an entry that indexes no decoded channel
		t.Family, t.Streams, t.Coupled = 255, 1, byte(r.Intn(2))
		t.Mapping = hex.EncodeToString([]byte{0, 1 + t.Coupled, 255})
	case 5:
		if t.Family == 0 {
			t.Family, t.Streams = 255, 1
		}
		t.Mapping = ""
	case 6:
		t.Family, t.Streams, t.Coupled = 255, 1, 1
		t.Mapping = strings.Repeat("00", Pick(r, []int{256, 257, 300}))
	case 7: // family 1 / 2 with a layout that needs more streams or another order
		t.Family, t.Streams, t.Coupled = uint8(r.Range(1, 2)), 1, byte(r.Intn(2))
		t.Mapping = Pick(r, []string{"0100", "000102", "01", "0000", "00ff", "ff", "0001ff"})
	case 8:
		t.Vendor = c33CfgGenText(r, true)
	case 9:
		t.Comments = append(t.Comments, c33CfgComment{c33CfgGenName(r, false), c33CfgGenText(r, true)})
	case 10:
		t.Comments = append(t.Comments, c33CfgComment{c33CfgGenName(r, true), c33CfgGenText(r, false)})
	case 11:
		if len(prev) > 0 {
			t.SSRC = Pick(r, prev).SSRC
		}
	default:
		if len(prev) > 0 {
			t.Serial = Pick(r, prev).Serial
		}
	}
	return t
}

func c33CfgGen(r *Rand, _ int) c33Cfg {
	var c c33Cfg
	for k, n := 0, r.Range(1, 5); k < n; k++ {
		c.Tracks = append(c.Tracks, c33CfgGenTrack(r, k, c.Tracks))
	}
	return c
}

func c33CfgShrink(c c33Cfg) []c33Cfg {
	var out []c33Cfg
	for i := range c.Tracks {
		out = append(out, c33Cfg{Tracks: append(append([]c33CfgTrack{}, c.Tracks[:i]...), c.Tracks[i+1:]...), Note: c.Note})
	}
	return out
}

// finite slices, enumerated completely: the channel-mapping grid, every byte
// as a one-byte comment name and inside a name, the UTF-8 table
func c33CfgExhaustive() []c33Cfg {
	var out []c33Cfg
	one := func(t c33CfgTrack, note string) {
		t.SSRC, t.Serial, t.Rate = 1, 1, 48000
		out = append(out, c33Cfg{Tracks: []c33CfgTrack{t}, Note: note})
	}
	for _, fam := range []uint8{0, 1, 2, 3, 254, 255} {
		for _, streams := range []uint8{0, 1, 2} {
			for _, coupled := range []uint8{0, 1, 2} {
				for _, m := range []string{"", "00", "01", "0001", "0100", "00ff", "02", "0001ff", "000102", "ff"} {
					if fam == 0 {
						if streams == 0 && coupled == 0 { // family 0 ignores the rest: the channel counts once
							for _, ch := range []uint16{0, 1, 2, 3} {
								one(c33CfgTrack{Family: 0, Channels: ch, Vendor: "70"}, "grid")
							}
						}
						continue
					}
					one(c33CfgTrack{Family: fam, Streams: streams, Coupled: coupled, Mapping: m, Vendor: "70"}, "grid")
				}
			}
		}
	}
	for b := 0; b < 256; b++ {
		one(c33CfgTrack{Family: 0, Channels: 2, Vendor: "70", Comments: []c33CfgComment{{fmt.Sprintf("%02x", b), "76"}}}, "name-byte")
		one(c33CfgTrack{Family: 0, Channels: 2, Vendor: "70", Comments: []c33CfgComment{{fmt.Sprintf("41%02x42", b), ""}}}, "name-byte-inside")
	}
	for _, u := range append(append([]string{}, c33BadUTF8...), c33GoodUTF8...) {
		one(c33CfgTrack{Family: 0, Channels: 1, Vendor: u}, "utf8-vendor")
		one(c33CfgTrack{Family: 0, Channels: 1, Vendor: "70", Comments: []c33CfgComment{{"41", "78" + u}}}, "utf8-value")
	}
	// duplicates: refused, and a refused track registers nothing
	a := c33CfgTrack{SSRC: 1, Serial: 10, Rate: 48000, Family: 0, Channels: 2, Vendor: "70"}
	sameSerial, sameSSRC, bad, afterBad := a, a, a, a
	sameSerial.SSRC = 2
	sameSSRC.Serial = 11
	bad.SSRC, bad.Serial, bad.Channels = 3, 12, 3
	afterBad.SSRC, afterBad.Serial = 3, 12
	out = append(out, c33Cfg{Tracks: []c33CfgTrack{a, sameSerial, sameSSRC, bad, afterBad}, Note: "duplicates"})
	out = append(out, c33Cfg{Note: "no tracks"})
	return out
}

func init() {
	Register(Spec[c33Cfg]{
		ID: "C33", Suite: "cfg", CoqImports: []string{"Check.C33"},
		CoqType: "string", CoqRun: "Check.C33.run_cfg",
		Quick: 300, Thorough: 6000, Parallel: 8,
		Corpus: c33CfgExhaustive,
		Gen:    c33CfgGen, Run: c33CfgRun, Coq: c33CfgCoq, Shrink: c33CfgShrink,
	})
	for _, v := range []struct {
		name            string
		multi, seekable bool
	}{{"splain", false, false}, {"sseek", false, true}, {"mplain", true, false}, {"mseek", true, true}} {
		v := v
		Register(Spec[c33Case]{
			ID: "C33", Suite: v.name, CoqImports: []string{"Check.C33"},
			CoqType: "string", CoqRun: "Check.C33.run",
			Quick: 36, Thorough: 500, Parallel: 8,
			Corpus: func() []c33Case {
				var out []c33Case
				for _, c := range c33Corpus() {
					if c.Multi == v.multi && c.Seekable == v.seekable {
						out = append(out, c)
					}
				}
				return out
			},
			Gen: func(r *Rand, i int) c33Case { return c33GenVariant(r, i, v.multi, v.seekable) },
			Run: c33Run, Coq: c33Coq, Shrink: c33Shrink,
		})
	}
	Register(Spec[c33Bytes]{
		ID: "C33", Suite: "read", CoqImports: []string{"Check.C33"},
		CoqType: "string", CoqRun: "Check.C33.run_read",
		Quick: 60, Thorough: 1000, Parallel: 8,
		Corpus: func() []c33Bytes {
			var out []c33Bytes
			b := c33SmallFile(NewRand(11))
			for len(b) > 260 {
				b = c33SmallFile(NewRand(uint64(len(b))))
			}
			orig := hex.EncodeToString(b)
			for i := 0; i <= len(b); i += 1 + i/60 { // cuts: dense through the first page, sparser later
				out = append(out, c33Bytes{Hex: hex.EncodeToString(b[:i]), Orig: orig, Note: "prefix"})
			}
			return out
		},
		Gen: c33ReadGen, Run: c33ReadRun,
		Coq: func(in c33Bytes) string { return "\"" + in.Hex + "\"" },
	})
	Register(Spec[int]{
		ID: "C33", Suite: "toc", CoqImports: []string{"Check.C33"},
		CoqType: "Z", CoqRun: "Check.C33.run_toc",
		Exhaustive: func() []int {
			out := make([]int, 256)
			for i := range out {
				out[i] = i
			}
			return out
		},
		Run: c33TocRun, Parallel: 8,
		Coq: func(t int) string { return fmt.Sprintf("%d", t) },
	})
}
