//go:build verif_c38

package main

// C38, suite "live": the Stats objects a real, connected PeerConnection pair
// reports (GetStats) go through json.Marshal and UnmarshalStatsJSON and must
// come back equal, as the same Go type.  This ties the domain assumption of
// the stats suite ("a Stats value carries its own type's tag") to the
// collectors in the repository.

import (
	"encoding/json"
	"fmt"
	"reflect"
	"time"

	"github.com/pion/ice/v4"
	"github.com/pion/webrtc/v4"
)

type c38LiveIn struct {
	Media bool `json:"media"` // add an audio transceiver next to the data channel
}

func c38LiveAPI() *webrtc.API {
	se := webrtc.SettingEngine{}
	se.SetICEMulticastDNSMode(ice.MulticastDNSModeDisabled)
	se.SetNetworkTypes([]webrtc.NetworkType{webrtc.NetworkTypeUDP4})
	se.SetInterfaceFilter(func(name string) bool { return name == "lo" })
	se.SetIncludeLoopbackCandidate(true)
	me := &webrtc.MediaEngine{}
	if err := me.RegisterDefaultCodecs(); err != nil {
		panic(err)
	}
	return webrtc.NewAPI(webrtc.WithSettingEngine(se), webrtc.WithMediaEngine(me))
}

func c38LiveRun(in c38LiveIn) (V, Verdict) {
	api := c38LiveAPI()
	pcO, err := api.NewPeerConnection(webrtc.Configuration{})
	if err != nil {
		panic(err)
	}
	defer pcO.Close() //nolint:errcheck
	pcA, err := api.NewPeerConnection(webrtc.Configuration{})
	if err != nil {
		panic(err)
	}
	defer pcA.Close() //nolint:errcheck
	opened := make(chan struct{}, 2)
	dc, err := pcO.CreateDataChannel("c38", nil)
	if err != nil {
		panic(err)
	}
	dc.OnOpen(func() { opened <- struct{}{} })
	pcA.OnDataChannel(func(d *webrtc.DataChannel) { d.OnOpen(func() { opened <- struct{}{} }) })
	if in.Media {
		if _, err = pcO.AddTransceiverFromKind(webrtc.RTPCodecTypeAudio); err != nil {
			panic(err)
		}
	}
	offer, err := pcO.CreateOffer(nil)
	if err != nil {
		panic(err)
	}
	g := webrtc.GatheringCompletePromise(pcO)
	if err = pcO.SetLocalDescription(offer); err != nil {
		panic(err)
	}
	<-g
	if err = pcA.SetRemoteDescription(*pcO.LocalDescription()); err != nil {
		panic(err)
	}
	answer, err := pcA.CreateAnswer(nil)
	if err != nil {
		panic(err)
	}
	g = webrtc.GatheringCompletePromise(pcA)
	if err = pcA.SetLocalDescription(answer); err != nil {
		panic(err)
	}
	<-g
	if err = pcO.SetRemoteDescription(*pcA.LocalDescription()); err != nil {
		panic(err)
	}
	for i := 0; i < 2; i++ {
		select {
		case <-opened:
		case <-time.After(15 * time.Second):
			return VS("not-connected"), Fail("live-pair-did-not-connect", "data channel did not open within 15 s")
		}
	}
	types := map[string]int{}
	total := 0
	for _, pc := range []*webrtc.PeerConnection{pcO, pcA} {
		for id, st := range pc.GetStats() {
			total++
			name := reflect.TypeOf(st).Name()
			types[name]++
			enc, err := json.Marshal(st)
			if err != nil {
				return VS("marshal"), Fail("stats-marshal-error/"+name, fmt.Sprintf("%s: %v", id, err))
			}
			back, err := webrtc.UnmarshalStatsJSON(enc)
			if err != nil {
				return VS("unmarshal"), Fail("live-stats-do-not-unmarshal/"+name, fmt.Sprintf("%s: %s -> %v", id, enc, err))
			}
			if reflect.TypeOf(back) != reflect.TypeOf(st) {
				return VS("type"), Fail("stats-tag-routes-to-other-type/"+name, fmt.Sprintf("%s: %s -> %T", id, enc, back))
			}
			if !reflect.DeepEqual(back, st) {
				return VS("differs"), Fail("stats-roundtrip-differs/"+name, fmt.Sprintf("%s: %s", id, c38Diff(st, back)))
			}
		}
	}
	// the observation is fixed (the number of reported objects varies from run to run)
	return VS("ok"), Pass(fmt.Sprintf("media=%v/types>=%d", in.Media, min(len(types), 6)), total > 0)
}

func init() {
	Register(Spec[c38LiveIn]{
		ID: "C38", Suite: "live", Parallel: 2, Timeout: 40 * time.Second,
		CoqImports: []string{"Check.C38"}, CoqType: "bool", CoqRun: "Check.C38.run_live",
		Coq: func(in c38LiveIn) string { return CoqBool(in.Media) },
		Corpus: func() []c38LiveIn { return []c38LiveIn{{false}, {true}} },
		Run:    c38LiveRun,
	})
}
