//go:build verif_sig

package main

// Shared by C01, C02, C03: histories of CreateOffer / CreateAnswer /
// SetLocalDescription / SetRemoteDescription / Close over one or two real
// PeerConnections in signalling-only mode, observed after every call.

import (
	"errors"
	"fmt"
	"strconv"
	"strings"
	"sync"
	"time"

	"github.com/pion/ice/v4"
	"github.com/pion/sdp/v3"
	"github.com/pion/webrtc/v4"
	"github.com/pion/webrtc/v4/pkg/rtcerr"
)

const (
	sigCreateOffer = iota
	sigCreateAnswer
	sigSetLocal
	sigSetRemote
	sigClose
	// sigDeclare is no call: PeerConnection PC was built with trait Mut (it holds
	// for the whole history, wherever the declaration stands)
	sigDeclare
)

// traits a declaration gives a PeerConnection
const (
	traitNoAgent     = 1 // SettingEngine with address rewrite rules and NAT1To1 IPs: the ICE agent cannot be created
	traitStickyTrack = 2 // a bound VP8 track whose Unbind fails: its sender cannot be stopped once it has sent
)

// signaling states and SDP types as the integers pion uses
const (
	ssStable, ssHLO, ssHRO, ssHLP, ssHRP, ssClosed = 1, 2, 3, 4, 5, 6
	tyOffer, tyPranswer, tyAnswer, tyRollback      = 1, 2, 3, 4
)

var sigStateNames = map[int]string{0: "unknown", 1: "stable", 2: "have-local-offer", 3: "have-remote-offer",
	4: "have-local-pranswer", 5: "have-remote-pranswer", 6: "closed"}

// mutation classes of a description's SDP text (coq/Check/C01.v flags_of_mut)
const (
	mutNone = iota
	mutGarbage
	mutNoMid
	mutNoUfrag
	mutNoPwd
	mutNoFingerprint
	mutBadFingerprint
	mutBadCandidate
	mutBadCodec      // an audio section whose formats / extmap MediaEngine.updateFromRemoteDescription cannot read
	mutGoodCandidate // one valid candidate line: SetRemoteDescription calls AddRemoteCandidate
	mutInactive      // every direction attribute replaced by a=inactive: mid-matched transceivers are stopped
	mutCount
)

var sigMutNames = []string{"none", "garbage", "no-mid", "no-ufrag", "no-pwd", "no-fingerprint", "bad-fingerprint", "bad-candidate",
	"bad-codec", "good-candidate", "inactive"}

type sigOp struct {
	K   int `json:"k"`   // sigCreateOffer ... sigClose
	PC  int `json:"pc"`  // 0 or 1
	Ty  int `json:"ty"`  // SDPType put on the description (0..5; 5 = undeclared value); printed for the model on a create call: 1 = refused inside SDP generation
	Ref int `json:"ref"` // index of the create call providing the SDP text, -1 = empty text
	Mut int `json:"mut"` // mutation class; on a create call: 1 + index of the PeerConnection whose senders cannot start under the text produced
}

type sigCase struct {
	Cfg [2]int  `json:"cfg"` // what each PeerConnection carries: 0 data channel; 1 + audio transceiver; 2 + audio and video transceivers (sendrecv); 3 default codecs, a VP8 track; 4 H264 only, a video transceiver
	Ops []sigOp `json:"ops"`
}

// Coq prints the history; refused = indices of the create calls the real code
// refused for a reason inside SDP generation (the model takes that outcome as given).
func (c sigCase) Coq(refused map[int]bool) string {
	parts := make([]string, len(c.Ops))
	for i, o := range c.Ops {
		ty := o.Ty
		if o.K <= sigCreateAnswer {
			ty = 0
			if refused[i] {
				ty = 1
			}
		}
		parts[i] = fmt.Sprintf("(%s, %d, %d, %s, %d)", CoqZ(int64(o.K)), o.PC, ty, CoqZ(int64(o.Ref)), o.Mut)
	}
	return CoqList(parts)
}

type sigDesc struct {
	Ty, ID int
}

func (d *sigDesc) String() string {
	if d == nil {
		return "nil"
	}
	return fmt.Sprintf("(type %d, text %d)", d.Ty, d.ID)
}

func sigDescEq(a, b *sigDesc) bool {
	if a == nil || b == nil {
		return a == b
	}
	return *a == *b
}

// slots: pending local, current local, pending remote, current remote,
// LocalDescription(), RemoteDescription()
type sigSlots [6]*sigDesc

type sigStep struct {
	Op      sigOp
	Err     string // error class
	ErrText string
	Before  int
	After   int
	Prev    sigSlots
	Now     sigSlots
	Handed  *sigDesc // the description given to a set call
	Events  []int    // OnSignalingStateChange values that arrived during this call
}

type sigTrace struct {
	Refused map[int]bool // create calls refused inside SDP generation (class "Generate": outcome handed to the model)
	RefusedWhy string
	Steps  []sigStep
	Events [2][]int // per PC, whole history
	Late   [2][]int // events that arrived after the call they belong to was observed
}

func sigMutate(text string, mut int) string {
	lines := strings.Split(text, "\r\n")
	drop := func(prefixes ...string) string {
		var out []string
		for _, l := range lines {
			keep := true
			for _, p := range prefixes {
				if strings.HasPrefix(l, p) {
					keep = false
				}
			}
			if keep {
				out = append(out, l)
			}
		}
		return strings.Join(out, "\r\n")
	}
	switch mut {
	case mutGarbage:
		return "this is not sdp\r\n" + text
	case mutNoMid:
		return drop("a=mid:", "a=group:")
	case mutNoUfrag:
		return drop("a=ice-ufrag:")
	case mutNoPwd:
		return drop("a=ice-pwd:")
	case mutNoFingerprint:
		return drop("a=fingerprint:")
	case mutBadFingerprint:
		var out []string
		for _, l := range lines {
			if strings.HasPrefix(l, "a=fingerprint:") {
				l = "a=fingerprint:sha-256 AA:BB extra"
			}
			out = append(out, l)
		}
		return strings.Join(out, "\r\n")
	case mutBadCandidate, mutGoodCandidate:
		cand := sigBadCandidate
		if mut == mutGoodCandidate {
			cand = sigGoodCandidate
		}
		var out []string
		done := false
		for _, l := range lines {
			out = append(out, l)
			if !done && strings.HasPrefix(l, "a=mid:") {
				out = append(out, "a=candidate:"+cand)
				done = true
			}
		}
		return strings.Join(out, "\r\n")
	case mutBadCodec:
		// fails in codecsFromMediaDescription when audio was not negotiated yet,
		// in rtpExtensionsFromMediaDescription otherwise
		return text + "m=audio 9 UDP/TLS/RTP/SAVPF " + sigBadFormat + "\r\nc=IN IP4 0.0.0.0\r\na=mid:vx\r\na=" + sigBadExtmap + "\r\na=recvonly\r\n"
	case mutInactive:
		var out []string
		for _, l := range lines {
			if l == "a=sendrecv" || l == "a=sendonly" || l == "a=recvonly" {
				l = "a=inactive"
			}
			out = append(out, l)
		}
		return strings.Join(out, "\r\n")
	}
	return text
}

const (
	sigBadCandidate  = "1 1 udp notanumber 10.0.0.1 5000 typ host"
	sigGoodCandidate = "1 1 udp 2130706431 10.0.0.1 5000 typ host"
	sigBadFormat     = "abc"
	sigBadExtmap     = "extmap:zz urn:x"
)

var errSigUnbind = errors.New("sticky track: unbind refused")

// sigStickyTrack binds like a static sample track and refuses to unbind.
type sigStickyTrack struct {
	*webrtc.TrackLocalStaticSample
}

func (t sigStickyTrack) Unbind(c webrtc.TrackLocalContext) error {
	_ = t.TrackLocalStaticSample.Unbind(c)
	return errSigUnbind
}

func sigNormalize(s string) string {
	var out []string
	for _, l := range strings.Split(s, "\r\n") {
		if strings.HasPrefix(l, "a=candidate:") || l == "a=end-of-candidates" {
			continue
		}
		out = append(out, l)
	}
	return strings.Join(out, "\r\n")
}

var sigEmptyMarshal = func() string {
	b, _ := (&sdp.SessionDescription{}).Marshal()
	return string(b)
}()

func sigErrClass(err error, text string) string {
	if err == nil {
		return "ok"
	}
	var (
		e1 *rtcerr.InvalidStateError
		e2 *rtcerr.InvalidModificationError
		e3 *rtcerr.TypeError
		e4 *rtcerr.OperationError
	)
	switch {
	case errors.As(err, &e1):
		return "InvalidState"
	case errors.As(err, &e2):
		return "InvalidModification"
	case errors.As(err, &e3):
		return "Type"
	case errors.As(err, &e4):
		return "Operation"
	case errors.Is(err, webrtc.VerifErrRemoteDescriptionWithoutMid):
		return "NoMid"
	case errors.Is(err, webrtc.ErrSessionDescriptionMissingIceUfrag):
		return "NoUfrag"
	case errors.Is(err, webrtc.ErrSessionDescriptionMissingIcePwd):
		return "NoPwd"
	case errors.Is(err, webrtc.ErrSessionDescriptionNoFingerprint):
		return "NoFingerprint"
	case errors.Is(err, webrtc.ErrSessionDescriptionInvalidFingerprint):
		return "BadFingerprint"
	case errors.Is(err, webrtc.ErrSDPUnmarshalling):
		return "Parse"
	case errors.Is(err, webrtc.ErrUnsupportedCodec):
		return "Send"
	case errors.Is(err, webrtc.VerifErrAddressRewriteWithNAT1To1):
		return "Agent" // sigExec: Gather (SetLocal), AddCandidate (SetRemote), Generate (create calls)
	case errors.Is(err, errSigUnbind):
		return "Stop"
	}
	if _, perr := strconv.ParseUint(sigBadFormat, 10, 8); perr != nil && perr.Error() == err.Error() {
		return "Codec"
	}
	if xerr := (&sdp.ExtMap{}).Unmarshal(sigBadExtmap); xerr != nil && xerr.Error() == err.Error() {
		return "Codec"
	}
	// SetLocalDescription returns the parser's error unwrapped
	if perr := (&sdp.SessionDescription{}).UnmarshalString(text); perr != nil && perr.Error() == err.Error() {
		return "Parse"
	}
	if _, cerr := ice.UnmarshalCandidate(sigBadCandidate); cerr != nil && cerr.Error() == err.Error() {
		return "Candidate"
	}
	return "Other"
}

type sigPC struct {
	pc     *webrtc.PeerConnection
	mu     sync.Mutex
	events []int
	closed bool
}

func (p *sigPC) count() int { p.mu.Lock(); defer p.mu.Unlock(); return len(p.events) }

func sigNewPC(cfg int, traits map[int]bool) *sigPC {
	me := &webrtc.MediaEngine{}
	if cfg == 4 { // H264 only
		if err := me.RegisterCodec(webrtc.RTPCodecParameters{
			RTPCodecCapability: webrtc.RTPCodecCapability{MimeType: webrtc.MimeTypeH264, ClockRate: 90000,
				SDPFmtpLine: "level-asymmetry-allowed=1;packetization-mode=1;profile-level-id=42e01f"},
			PayloadType: 102}, webrtc.RTPCodecTypeVideo); err != nil {
			panic(err)
		}
	} else if err := me.RegisterDefaultCodecs(); err != nil {
		panic(err)
	}
	api := newQuietAPI(me)
	if traits[traitNoAgent] {
		se := webrtc.SettingEngine{} // as newQuietAPI, plus the inconsistency
		se.SetICEMulticastDNSMode(0 + 1)
		se.SetNetworkTypes([]webrtc.NetworkType{webrtc.NetworkTypeUDP4})
		se.SetInterfaceFilter(func(string) bool { return false })
		se.SetIncludeLoopbackCandidate(false)
		if err := se.SetICEAddressRewriteRules(webrtc.ICEAddressRewriteRule{External: []string{"192.0.2.1"}}); err != nil {
			panic(err)
		}
		se.SetNAT1To1IPs([]string{"192.0.2.1"}, webrtc.ICECandidateTypeHost)
		api = webrtc.NewAPI(webrtc.WithSettingEngine(se), webrtc.WithMediaEngine(me))
	}
	pc, err := api.NewPeerConnection(webrtc.Configuration{})
	if err != nil {
		panic(err)
	}
	if traits[traitStickyTrack] {
		tr, terr := webrtc.NewTrackLocalStaticSample(webrtc.RTPCodecCapability{MimeType: webrtc.MimeTypeVP8}, "v", "s")
		if terr != nil {
			panic(terr)
		}
		if _, err = pc.AddTrack(sigStickyTrack{tr}); err != nil {
			panic(err)
		}
	}
	switch cfg {
	case 3: // a bound VP8 track
		tr, terr := webrtc.NewTrackLocalStaticSample(webrtc.RTPCodecCapability{MimeType: webrtc.MimeTypeVP8}, "v", "s")
		if terr != nil {
			panic(terr)
		}
		if _, err = pc.AddTrack(tr); err != nil {
			panic(err)
		}
	case 4:
		if _, err = pc.AddTransceiverFromKind(webrtc.RTPCodecTypeVideo); err != nil {
			panic(err)
		}
	case 2:
		if _, err = pc.AddTransceiverFromKind(webrtc.RTPCodecTypeVideo); err != nil {
			panic(err)
		}
		fallthrough
	case 1:
		if _, err = pc.AddTransceiverFromKind(webrtc.RTPCodecTypeAudio); err != nil {
			panic(err)
		}
		fallthrough
	default:
		if _, err = pc.CreateDataChannel("d", nil); err != nil {
			panic(err)
		}
	}
	p := &sigPC{pc: pc}
	pc.OnSignalingStateChange(func(s webrtc.SignalingState) {
		p.mu.Lock()
		p.events = append(p.events, int(s))
		p.mu.Unlock()
	})
	return p
}

// sigExec runs the history on real PeerConnections.
func sigExec(c sigCase) *sigTrace {
	signalOnly(true)
	traits := [2]map[int]bool{{}, {}}
	for _, op := range c.Ops {
		if op.K == sigDeclare && op.PC >= 0 && op.PC <= 1 {
			traits[op.PC][op.Mut] = true
		}
	}
	pcs := [2]*sigPC{sigNewPC(c.Cfg[0], traits[0]), sigNewPC(c.Cfg[1], traits[1])}
	defer func() {
		for _, p := range pcs {
			drainIfOpen(p)
			_ = p.pc.Close()
		}
	}()
	ids := map[string]int{}          // text handed to a set call (exact) -> identity
	normIDs := map[string]int{}      // created text, candidate lines removed -> identity (local getters re-marshal)
	created := map[int]*string{}     // op index -> text of a successful create call
	tr := &sigTrace{Refused: map[int]bool{}}
	idOf := func(d *webrtc.SessionDescription, local bool) *sigDesc {
		if d == nil {
			return nil
		}
		n := sigNormalize(d.SDP)
		if n == "" || n == sigEmptyMarshal {
			return &sigDesc{int(d.Type), 0}
		}
		if local {
			if id, ok := normIDs[n]; ok {
				return &sigDesc{int(d.Type), id}
			}
		} else if id, ok := ids[d.SDP]; ok {
			return &sigDesc{int(d.Type), id}
		}
		return &sigDesc{int(d.Type), -2}
	}
	slots := func(p *sigPC) sigSlots {
		return sigSlots{idOf(p.pc.PendingLocalDescription(), true), idOf(p.pc.CurrentLocalDescription(), true),
			idOf(p.pc.PendingRemoteDescription(), false), idOf(p.pc.CurrentRemoteDescription(), false),
			idOf(p.pc.LocalDescription(), true), idOf(p.pc.RemoteDescription(), false)}
	}
	for i, op := range c.Ops {
		if op.PC < 0 || op.PC > 1 {
			continue
		}
		p := pcs[op.PC]
		st := sigStep{Op: op, Before: int(p.pc.SignalingState()), Prev: slots(p)}
		n0 := p.count()
		var err error
		text := ""
		switch op.K {
		case sigCreateOffer, sigCreateAnswer:
			var d webrtc.SessionDescription
			if op.K == sigCreateOffer {
				d, err = p.pc.CreateOffer(nil)
			} else {
				d, err = p.pc.CreateAnswer(nil)
			}
			if err == nil {
				t := d.SDP
				created[i] = &t
				ids[t] = 16 * (i + 1)
				normIDs[sigNormalize(t)] = 16 * (i + 1)
			}
		case sigSetLocal, sigSetRemote:
			id := 0
			if t, ok := created[op.Ref]; ok && op.Ref >= 0 {
				mut := op.Mut
				if !strings.Contains(*t, "\r\nm=") {
					mut = mutNone // texts without media sections are handed over unmutated
				}
				text = sigMutate(*t, mut)
				id = 16*(op.Ref+1) + mut
				ids[text] = id
			}
			goTy := op.Ty
			if goTy >= 5 {
				goTy = 9 // an undeclared SDPType value
			}
			d := webrtc.SessionDescription{Type: webrtc.SDPType(goTy), SDP: text}
			st.Handed = &sigDesc{op.Ty, id}
			if op.K == sigSetLocal {
				err = p.pc.SetLocalDescription(d)
			} else {
				err = p.pc.SetRemoteDescription(d)
			}
		case sigClose:
			drainIfOpen(p)
			err = p.pc.Close()
			p.closed = true
		default: // sigDeclare: no call
		}
		st.Err = sigErrClass(err, text)
		if err != nil {
			st.ErrText = err.Error()
		}
		switch {
		case op.K <= sigCreateAnswer && err != nil && st.Err != "InvalidState" && st.Err != "NoMid":
			// refused inside SDP generation (transceiver matching, agent creation, ...):
			// outside the model, which takes the outcome as given
			if tr.RefusedWhy == "" {
				tr.RefusedWhy = st.ErrText
			}
			st.Err = "Generate"
			tr.Refused[i] = true
		case st.Err == "Agent" && op.K == sigSetLocal:
			st.Err = "Gather"
		case st.Err == "Agent" && op.K == sigSetRemote:
			st.Err = "AddCandidate"
		}
		st.After = int(p.pc.SignalingState())
		if st.After != st.Before && op.K != sigClose && op.K != sigDeclare {
			// the handler runs in its own goroutine: wait for it
			deadline := time.Now().Add(10 * time.Second)
			for p.count() == n0 && time.Now().Before(deadline) {
				time.Sleep(20 * time.Microsecond)
			}
		}
		st.Now = slots(p)
		p.mu.Lock()
		st.Events = append([]int(nil), p.events[n0:]...)
		p.mu.Unlock()
		tr.Steps = append(tr.Steps, st)
	}
	time.Sleep(500 * time.Microsecond)
	for k, p := range pcs {
		p.mu.Lock()
		tr.Events[k] = append([]int(nil), p.events...)
		p.mu.Unlock()
		seen := 0
		for _, s := range tr.Steps {
			if s.Op.PC == k {
				seen += len(s.Events)
			}
		}
		if seen < len(tr.Events[k]) {
			tr.Late[k] = tr.Events[k][seen:]
		}
	}
	return tr
}

// sigRefused remembers, per input, which create calls the real code refused
// inside SDP generation (Run precedes Coq for the same input in lib.go's worker).
var sigRefused sync.Map

func sigKey(c sigCase) string { return fmt.Sprintf("%v", c) }

// sigCoq prints the case for the model.
func sigCoq(c sigCase) string {
	if _, left := sigLeftModel.Load(sigKey(c)); left {
		return "" // judged by the direct oracle only (see sigNote)
	}
	refused := map[int]bool{}
	if r, ok := sigRefused.Load(sigKey(c)); ok {
		refused = r.(map[int]bool)
	}
	return c.Coq(refused)
}

// sigLeftModel: histories the model does not cover. A failed
// mediaEngine.updateFromRemoteDescription (class Codec) leaves the MediaEngine
// partially updated (negotiated flags set before the failure); the model does
// not carry the MediaEngine, so when such a failure is later followed by a
// Send-class outcome (startRTPSenders refusing a codec) the model cannot
// predict it: those histories (about 1 in 10^4 generated ones) are judged by
// the direct oracle only and counted apart in the input distribution.
var sigLeftModel sync.Map

func sigNote(c sigCase, tr *sigTrace, v *Verdict) {
	codecFailed := false
	for _, st := range tr.Steps {
		if st.Err == "Codec" {
			codecFailed = true
		}
		if st.Err == "Send" && codecFailed {
			sigLeftModel.Store(sigKey(c), true)
			if v.OK {
				v.Class += "/left-model: send-after-codec-failure"
			}
			break
		}
	}
	if len(tr.Refused) > 0 {
		sigRefused.Store(sigKey(c), tr.Refused)
		if v.OK {
			why := tr.RefusedWhy
			if len(why) > 48 {
				why = why[:48]
			}
			v.Class += "/create-refused: " + why
		}
	}
}

func drainIfOpen(p *sigPC) {
	if !p.closed {
		drain(p.pc)
	}
}

func sigDescV(d *sigDesc) V {
	if d == nil {
		return VZ(-1)
	}
	return VZ(8*d.ID + d.Ty)
}

// observation compared with coq/Check/C01.v run_hist
func (tr *sigTrace) V() V {
	steps := make(VL, len(tr.Steps))
	for i, s := range tr.Steps {
		row := VL{VS(s.Err), VZ(s.After)}
		for _, d := range s.Now {
			row = append(row, sigDescV(d))
		}
		steps[i] = row
	}
	return VL{steps, VL{VInts(tr.Events[0]), VInts(tr.Events[1])}}
}

// ---- the specification table, second transcription (direct oracle) ----
// JSEP 3.2 / W3C 4.3.1 with the rollback edges as property C02 words them.
// key: state, local(1)/remote(0), type
var sigSpecEdges = map[[3]int]int{
	{ssStable, 1, tyOffer}: ssHLO, {ssStable, 0, tyOffer}: ssHRO,
	{ssHLO, 1, tyOffer}: ssHLO, {ssHLO, 0, tyAnswer}: ssStable, {ssHLO, 0, tyPranswer}: ssHRP, {ssHLO, 1, tyRollback}: ssStable,
	{ssHRO, 0, tyOffer}: ssHRO, {ssHRO, 1, tyAnswer}: ssStable, {ssHRO, 1, tyPranswer}: ssHLP, {ssHRO, 0, tyRollback}: ssStable,
	{ssHLP, 1, tyPranswer}: ssHLP, {ssHLP, 1, tyAnswer}: ssStable, {ssHLP, 1, tyRollback}: ssStable,
	{ssHRP, 0, tyPranswer}: ssHRP, {ssHRP, 0, tyAnswer}: ssStable, {ssHRP, 0, tyRollback}: ssStable,
}

func sigLocalBit(k int) int {
	if k == sigSetLocal {
		return 1
	}
	return 0
}

func sigSideName(k int) string {
	if k == sigSetLocal {
		return "local"
	}
	return "remote"
}

func (s sigStep) isSet() bool { return s.Op.K == sigSetLocal || s.Op.K == sigSetRemote }

func (s sigStep) describe(i int) string {
	kinds := []string{"CreateOffer", "CreateAnswer", "SetLocalDescription", "SetRemoteDescription", "Close", "(declaration)"}
	h := ""
	if s.Handed != nil {
		h = fmt.Sprintf(" type=%d text=%d(%s)", s.Handed.Ty, s.Handed.ID, sigMutNames[s.Op.Mut%mutCount])
	}
	return fmt.Sprintf("call %d pc%d %s%s from %s: %s (%s), now %s", i, s.Op.PC, kinds[s.Op.K], h,
		sigStateNames[s.Before], s.Err, s.ErrText, sigStateNames[s.After])
}

// unchanged reports whether state and the four slots are what they were
func (s sigStep) unchanged() bool {
	if s.Before != s.After {
		return false
	}
	for k := 0; k < 4; k++ {
		if !sigDescEq(s.Prev[k], s.Now[k]) {
			return false
		}
	}
	return true
}

// sigShrink: drop one call at a time, re-indexing references
func sigShrink(c sigCase) []sigCase {
	var out []sigCase
	for i := len(c.Ops) - 1; i >= 0; i-- {
		n := sigCase{Cfg: c.Cfg}
		for j, o := range c.Ops {
			if j == i {
				continue
			}
			if o.Ref == i {
				o.Ref = -1
			} else if o.Ref > i {
				o.Ref--
			}
			n.Ops = append(n.Ops, o)
		}
		out = append(out, n)
	}
	if c.Cfg != [2]int{0, 0} {
		out = append(out, sigCase{Cfg: [2]int{0, 0}, Ops: c.Ops})
	}
	return out
}

// sigVisited: distinct signaling states seen, and whether calls both succeeded and failed
func (tr *sigTrace) nonTrivial() bool {
	states := map[[2]int]bool{}
	okc, errc := 0, 0
	for _, s := range tr.Steps {
		states[[2]int{s.Op.PC, s.After}] = true
		if s.isSet() {
			if s.Err == "ok" {
				okc++
			} else {
				errc++
			}
		}
	}
	perPC := map[int]int{}
	for k := range states {
		perPC[k[0]]++
	}
	return (okc > 0 && errc > 0) || perPC[0] >= 2 || perPC[1] >= 2
}
