//go:build verif_c36

package main

import (
	"bytes"
	"encoding/binary"
	"encoding/hex"
	"errors"
	"fmt"
	"io"
	"math"
	"net"
	"strings"
	"time"

	"github.com/pion/webrtc/v4/pkg/media/rtpdump"
)

// C36: rtpdump files round-trip, the writer refuses what the format cannot
// hold, the reader rejects records whose length field is below the 8-byte
// record header.
//
// suite rw: header + packet list -> Writer -> bytes -> Reader
// suite rd: raw byte streams (valid preamble/header, records with arbitrary
//           length fields; mutated preambles) -> Reader

type c36Hdr struct {
	Sec  int64  `json:"sec"`  // time.Unix(Sec, Nsec)
	Nsec int64  `json:"nsec"` // 0..999999999
	Src  string `json:"src"`  // hex of the net.IP bytes ("" = nil)
	Port int    `json:"port"`
}
type c36Pkt struct {
	OffNs int64 `json:"off"` // time.Duration
	RTCP  bool  `json:"rtcp"`
	Pay   m1Pay `json:"pay"`
}
type c36RW struct {
	H  c36Hdr   `json:"h"`
	Ps []c36Pkt `json:"ps"`
}

func c36ErrClass(err error) string {
	switch {
	case err == nil:
		return "ok"
	case errors.Is(err, io.EOF):
		return "eof"
	case err.Error() == "malformed rtpdump":
		return "malformed"
	}
	return "refused"
}

func c36IsIPv4(ip []byte) bool {
	if len(ip) == 4 {
		return true
	}
	if len(ip) != 16 {
		return false
	}
	for i := 0; i < 10; i++ {
		if ip[i] != 0 {
			return false
		}
	}
	return ip[10] == 0xff && ip[11] == 0xff
}

func c36Last4(ip []byte) []byte { return ip[len(ip)-4:] }

// what the format can hold, in the property's words
func c36HdrCause(h c36Hdr) string {
	src, _ := hex.DecodeString(h.Src)
	switch {
	case !c36IsIPv4(src):
		return "non-ipv4-source"
	case h.Sec < 0 || h.Sec > math.MaxUint32:
		return "unrepresentable-start"
	}
	return ""
}
func c36PktCause(p c36Pkt) string {
	n := p.Pay.Size()
	switch {
	case n > 65527:
		return "oversize-payload"
	case n == 0 && !p.RTCP:
		return "empty-rtp-payload"
	case p.OffNs < 0 || p.OffNs/1e6 > math.MaxUint32:
		return "out-of-range-offset"
	}
	return ""
}

func c36ReadAll(data []byte) (hdr rtpdump.Header, pkts []rtpdump.Packet, openErr, endErr error) {
	rd, hdr, err := rtpdump.NewReader(bytes.NewReader(data))
	if err != nil {
		return hdr, nil, err, nil
	}
	for i := 0; i < len(data)/8+2; i++ {
		p, err := rd.Next()
		if err != nil {
			return hdr, pkts, nil, err
		}
		pkts = append(pkts, p)
	}
	return hdr, pkts, nil, errors.New("reader does not terminate")
}

func c36VHdr(h rtpdump.Header) V {
	return VL{VZ(h.Start.Unix()), VZ(int64(h.Start.Nanosecond())), VHex(h.Source), VZ(int64(h.Port))}
}
func c36VPkt(p rtpdump.Packet) V {
	return VL{VZ(int64(p.Offset)), VB(p.IsRTCP), m1Digest(p.Payload)}
}
func c36VRead(data []byte) (V, rtpdump.Header, []rtpdump.Packet, error, error) {
	hdr, pkts, openErr, endErr := c36ReadAll(data)
	if openErr != nil {
		return VL{VS("err"), VS(c36ErrClass(openErr))}, hdr, nil, openErr, nil
	}
	pv := make(VL, len(pkts))
	for i := range pkts {
		pv[i] = c36VPkt(pkts[i])
	}
	return VL{VS("ok"), VL{c36VHdr(hdr), pv, VS(c36ErrClass(endErr))}}, hdr, pkts, nil, endErr
}

func c36RunRW(in c36RW) (V, Verdict) {
	src, _ := hex.DecodeString(in.H.Src)
	hdr := rtpdump.Header{Start: time.Unix(in.H.Sec, in.H.Nsec).UTC(), Port: uint16(in.H.Port)}
	if len(src) > 0 {
		hdr.Source = net.IP(src)
	}
	var fail *Verdict
	flag := func(sig, what string) {
		if fail == nil {
			v := Fail(sig, what)
			fail = &v
		}
	}
	var buf bytes.Buffer
	w, err := rtpdump.NewWriter(&buf, hdr)
	hcause := c36HdrCause(in.H)
	if err != nil {
		if hcause == "" {
			flag("writer-refuses-representable-header", fmt.Sprintf("NewWriter(%+v): %v", in.H, err))
		}
		if buf.Len() != 0 {
			flag("refused-header-left-bytes", fmt.Sprintf("NewWriter failed but wrote %d bytes", buf.Len()))
		}
		rv, _, _, _, _ := c36VRead(buf.Bytes())
		v := Pass("unfit-header:"+hcause, false)
		if fail != nil {
			v = *fail
		}
		return VL{VS("refused"), m1Digest(buf.Bytes()), rv}, v
	}
	if hcause != "" {
		flag("writer-accepts-"+hcause, fmt.Sprintf("NewWriter accepted %+v; wrote %q...", in.H, buf.Bytes()[:min(24, buf.Len())]))
	}
	var accepted []c36Pkt
	acc := make(VL, len(in.Ps))
	causes := map[string]bool{}
	maxLen := 0
	for i, p := range in.Ps {
		before := buf.Len()
		payload := p.Pay.Bytes()
		err := w.WritePacket(rtpdump.Packet{Offset: time.Duration(p.OffNs), IsRTCP: p.RTCP, Payload: payload})
		cause := c36PktCause(p)
		acc[i] = VB(err == nil)
		if err == nil {
			accepted = append(accepted, p)
			maxLen = max(maxLen, len(payload))
			if cause != "" {
				flag("writer-accepts-"+cause, fmt.Sprintf("packet %d (payload %d bytes, offset %d ns, rtcp=%v) accepted; record header % x",
					i, len(payload), p.OffNs, p.RTCP, buf.Bytes()[before:min(before+8, buf.Len())]))
			}
		} else {
			causes[cause] = true
			if cause == "" {
				flag("writer-refuses-representable-packet", fmt.Sprintf("packet %d: %v", i, err))
			}
			if buf.Len() != before {
				flag("refused-packet-left-bytes", fmt.Sprintf("packet %d refused but %d bytes written", i, buf.Len()-before))
			}
		}
	}
	rv, rh, rps, openErr, endErr := c36VRead(buf.Bytes())
	// the reader must return exactly what the writer accepted (to the format's
	// resolution: microseconds for the start, milliseconds for offsets)
	if hcause == "" {
		switch {
		case openErr != nil:
			flag("roundtrip-header-rejected", fmt.Sprintf("NewReader on the writer's output: %v", openErr))
		case !rh.Start.Equal(time.Unix(in.H.Sec, in.H.Nsec/1000*1000)) || !rh.Source.Equal(net.IP(c36Last4(src))) || int(rh.Port) != in.H.Port:
			flag("roundtrip-header-differs", fmt.Sprintf("wrote %+v, read %v %v %d", in.H, rh.Start, rh.Source, rh.Port))
		default:
			same := len(rps) == len(accepted)
			for i := 0; same && i < len(rps); i++ {
				a := accepted[i]
				same = int64(rps[i].Offset) == a.OffNs/1e6*1e6 && rps[i].IsRTCP == a.RTCP && bytes.Equal(rps[i].Payload, a.Pay.Bytes())
			}
			if !same {
				flag("roundtrip-packets-differ", fmt.Sprintf("accepted %d packets, read back %d (or contents differ)", len(accepted), len(rps)))
			} else if !errors.Is(endErr, io.EOF) {
				flag("roundtrip-no-clean-eof", fmt.Sprintf("after the last packet: %v", endErr))
			}
		}
	}
	obs := VL{VS("ok"), acc, m1Digest(buf.Bytes()), rv}
	if fail != nil {
		return obs, *fail
	}
	class := "fit"
	if hcause != "" {
		class = "unfit-header:" + hcause
	}
	var cs []string
	for _, c := range []string{"oversize-payload", "empty-rtp-payload", "out-of-range-offset"} {
		if causes[c] {
			cs = append(cs, c)
		}
	}
	if len(cs) > 0 {
		class += "/refused:" + strings.Join(cs, "+")
	}
	class += fmt.Sprintf("/pk%d/max%s", min(len(accepted), 8)/2*2, c36Bucket(maxLen))
	v := Pass(class, len(accepted) >= 1)
	return obs, v
}

func c36Bucket(n int) string {
	switch {
	case n == 0:
		return "0"
	case n <= 48:
		return "<=48"
	case n <= 1500:
		return "<=1500"
	case n < 65520:
		return "<65520"
	}
	return ">=65520"
}

func c36CoqRW(in c36RW) string {
	ps := make([]string, len(in.Ps))
	for i, p := range in.Ps {
		ps[i] = fmt.Sprintf("(%s, %s, %s)", CoqZ(p.OffNs), CoqBool(p.RTCP), p.Pay.Coq())
	}
	return fmt.Sprintf("((%s, %s, \"%s\", %d), %s)", CoqZ(in.H.Sec), CoqZ(in.H.Nsec), in.H.Src, in.H.Port, CoqList(ps))
}

var c36Sizes = []int{1, 2, 11, 12, 13, 47, 200, 1200, 1500, 65519, 65520, 65526, 65527}
var c36BadSizes = []int{65528, 65529, 65530, 65531, 65535, 65536, 65537, 65540}

func c36GenHdr(r *Rand) c36Hdr {
	h := c36Hdr{Sec: int64(r.U64() % (1 << 32)), Nsec: int64(r.Intn(1000000)) * 1000, Port: r.Intn(65536)}
	ip := r.Bytes(4)
	switch r.Intn(8) {
	case 0:
		ip = []byte{byte(r.Intn(10)), byte(r.Intn(100)), byte(100 + r.Intn(156)), byte(r.Intn(256))}
	case 1:
		ip = Pick(r, [][]byte{{0, 0, 0, 0}, {255, 255, 255, 255}, {127, 0, 0, 1}, {9, 99, 100, 199}})
	}
	if r.Chance(1, 4) {
		ip = append([]byte{0, 0, 0, 0, 0, 0, 0, 0, 0, 0, 0xff, 0xff}, ip...)
	}
	h.Src = hex.EncodeToString(ip)
	switch r.Intn(12) {
	case 0:
		h.Nsec = int64(r.Intn(1000000000)) // sub-microsecond part: truncated by the format
	case 1:
		h.Sec = Pick(r, []int64{0, 1, math.MaxUint32, math.MaxUint32 - 1})
	case 2:
		h.Port = Pick(r, []int{0, 1, 9, 10, 99, 100, 999, 1000, 9999, 10000, 65535})
	}
	return h
}

func c36GenPkt(r *Rand, big bool) c36Pkt {
	p := c36Pkt{OffNs: int64(r.Intn(100000)) * 1e6, RTCP: r.Chance(1, 3)}
	n := r.Range(1, 64)
	switch {
	case r.Chance(1, 8):
		n = Pick(r, c36Sizes[:9])
	case r.Chance(1, 4):
		n = r.Range(64, 1500)
	}
	p.Pay = m1RandPay(r, n)
	switch r.Intn(16) {
	case 0:
		p.OffNs = int64(r.U64()%(1<<32)) * 1e6
	case 1:
		p.OffNs = Pick(r, []int64{0, 1e6, math.MaxUint32 * 1e6})
	case 2:
		p.OffNs += int64(r.Intn(1000000)) // sub-millisecond part: truncated by the format
	}
	return p
}

// big: cases around the 65527-byte limit (their own suite: they cost about a
// second each on the model side)
func c36GenRW(r *Rand, big bool) c36RW {
	in := c36RW{H: c36GenHdr(r)}
	n := r.Range(0, 6)
	if big {
		n = r.Range(1, 3)
	}
	for k := 0; k < n; k++ {
		in.Ps = append(in.Ps, c36GenPkt(r, false))
	}
	if big {
		k := r.Intn(len(in.Ps))
		if r.Chance(1, 2) {
			in.Ps[k].Pay = m1RandPay(r, Pick(r, c36Sizes[len(c36Sizes)-4:]))
		} else {
			in.Ps[k].Pay = m1RandPay(r, Pick(r, c36BadSizes))
		}
		return in
	}
	// one case in five leaves what the format can hold
	if r.Chance(1, 5) {
		switch r.Intn(5) {
		case 0: // IPv6, nil or odd-length source
			ip := Pick(r, [][]byte{nil, r.Bytes(16), {1, 2, 3}, r.Bytes(5), append(make([]byte, 12), r.Bytes(4)...)})
			in.H.Src = hex.EncodeToString(ip)
		case 1:
			// outside the 32-bit seconds field, incl. instants where time.Time.UnixNano
			// is undefined (before 1678 / after 2262) and whose wrapped value may land
			// back inside the representable range
			in.H.Sec = Pick(r, []int64{-1, -1 << 31, math.MaxUint32 + 1, 1 << 33, -62135596800, 1 << 40,
				9223372037, 9223372036 + int64(r.Intn(1<<20)), 20000000000, 18446744074, 18446744073 + int64(r.U64()%(1<<32)),
				-9223372037, -9223372036 - int64(r.U64()%(1<<32)), 253402300799, int64(r.U64() % (1 << 38))})
		default:
			if len(in.Ps) == 0 {
				in.Ps = append(in.Ps, c36GenPkt(r, false))
			}
			k := r.Intn(len(in.Ps))
			switch r.Intn(2) {
			case 0:
				in.Ps[k].Pay = m1Pay{}
				in.Ps[k].RTCP = r.Chance(1, 3)
			case 1:
				in.Ps[k].OffNs = Pick(r, []int64{-1, -1e6, -5e9, (math.MaxUint32 + 1) * 1e6, 1 << 62, math.MinInt64})
			}
		}
	}
	return in
}

func c36ShrinkRW(in c36RW) []c36RW {
	var out []c36RW
	for i := range in.Ps {
		c := in
		c.Ps = append(append([]c36Pkt{}, in.Ps[:i]...), in.Ps[i+1:]...)
		out = append(out, c)
	}
	for i, p := range in.Ps {
		if p.OffNs != 0 {
			c := in
			c.Ps = append([]c36Pkt{}, in.Ps...)
			c.Ps[i].OffNs = 0
			out = append(out, c)
		}
	}
	if in.H.Sec != 0 || in.H.Nsec != 0 {
		c := in
		c.H.Sec, c.H.Nsec = 0, 0
		out = append(out, c)
	}
	return out
}

// ---------- suite rd: raw streams ----------

type c36Rec struct {
	Len  int   `json:"len"`  // length field
	Plen int   `json:"plen"` // packet-length field
	Off  int64 `json:"off"`  // offset field (ms)
	Body m1Pay `json:"body"` // bytes that follow the 8-byte record header
}
type c36RD struct {
	Pre      string   `json:"pre"`       // hex: everything before the first record
	PreValid bool     `json:"pre_valid"` // Pre is a canonical preamble + 16-byte header
	Recs     []c36Rec `json:"recs"`
	Tail     string   `json:"tail"` // hex, trailing bytes (truncated record header etc.)
}

func c36RecHdr(rc c36Rec) []byte {
	b := make([]byte, 8)
	binary.BigEndian.PutUint16(b[0:], uint16(rc.Len))
	binary.BigEndian.PutUint16(b[2:], uint16(rc.Plen))
	binary.BigEndian.PutUint32(b[4:], uint32(rc.Off))
	return b
}

func (in c36RD) raw() []byte {
	pre, _ := hex.DecodeString(in.Pre)
	out := append([]byte{}, pre...)
	for _, rc := range in.Recs {
		out = append(out, c36RecHdr(rc)...)
		out = append(out, rc.Body.Bytes()...)
	}
	tail, _ := hex.DecodeString(in.Tail)
	return append(out, tail...)
}

func c36CoqRD(in c36RD) string {
	parts := []string{"(PHex \"" + in.Pre + "\")"}
	for _, rc := range in.Recs {
		parts = append(parts, "(PHex \""+hex.EncodeToString(c36RecHdr(rc))+"\")")
		if rc.Body.Size() > 0 {
			parts = append(parts, rc.Body.Coq())
		}
	}
	if in.Tail != "" {
		parts = append(parts, "(PHex \""+in.Tail+"\")")
	}
	return CoqList(parts)
}

func c36RunRD(in c36RD) (V, Verdict) {
	raw := in.raw()
	obs, _, pkts, openErr, endErr := c36VRead(raw)
	if !in.PreValid {
		return obs, Pass("preamble-mutated/"+c36ErrClass(openErr), false)
	}
	if openErr != nil {
		return obs, Fail("reader-rejects-valid-header", fmt.Sprintf("NewReader: %v", openErr))
	}
	// independent walk over the records, in the property's words
	pre, _ := hex.DecodeString(in.Pre)
	rest := raw[len(pre):]
	k := 0
	short := false
	for {
		if len(rest) == 0 {
			if k != len(pkts) || !errors.Is(endErr, io.EOF) {
				return obs, Fail("reader-end-differs", fmt.Sprintf("stream ends after %d whole records; reader returned %d packets then %v", k, len(pkts), endErr))
			}
			break
		}
		stop := ""
		var L int
		if len(rest) < 8 {
			stop = "truncated-record-header"
		} else if L = int(binary.BigEndian.Uint16(rest)); L < 8 {
			stop = "length-below-header"
			short = true
		} else if len(rest) < L {
			stop = "truncated-payload"
		}
		if stop != "" {
			if len(pkts) > k {
				sig := "reader-accepts-" + stop
				return obs, Fail(sig, fmt.Sprintf("record %d (length field %d, %d bytes left): reader returned a packet with %d payload bytes",
					k, L, len(rest), len(pkts[k].Payload)))
			}
			if len(pkts) < k || endErr == nil {
				return obs, Fail("reader-end-differs", fmt.Sprintf("%d whole records, reader returned %d packets then %v", k, len(pkts), endErr))
			}
			break
		}
		if len(pkts) <= k {
			return obs, Fail("reader-rejects-valid-record", fmt.Sprintf("record %d (length field %d): %v", k, L, endErr))
		}
		p := pkts[k]
		plen := int(binary.BigEndian.Uint16(rest[2:]))
		off := int64(binary.BigEndian.Uint32(rest[4:]))
		if int64(p.Offset) != off*1e6 || p.IsRTCP != (plen == 0) || !bytes.Equal(p.Payload, rest[8:L]) {
			return obs, Fail("reader-packet-differs", fmt.Sprintf("record %d", k))
		}
		rest = rest[L:]
		k++
	}
	class := fmt.Sprintf("records%d/%s", min(k, 6)/2*2, c36ErrClass(endErr))
	if short {
		class += "/short-length"
	}
	return obs, Pass(class, k >= 1 || short)
}

func c36Pre(ip [4]byte, port int, hdr []byte) string {
	s := fmt.Sprintf("#!rtpplay1.0 %d.%d.%d.%d/%d\n", ip[0], ip[1], ip[2], ip[3], port)
	return hex.EncodeToString(append([]byte(s), hdr...))
}

func c36GenPre(r *Rand) string {
	hdr := r.Bytes(16)
	if r.Chance(1, 2) { // plausible header
		binary.BigEndian.PutUint32(hdr[4:], uint32(r.Intn(1000000)))
	}
	ip := [4]byte{byte(r.U64()), byte(r.U64()), byte(r.U64()), byte(r.U64())}
	if r.Chance(1, 3) {
		ip = [4]byte{byte(r.Intn(10)), byte(r.Intn(10)), byte(r.Intn(100)), byte(r.Intn(10))}
	}
	port := r.Intn(65536)
	if r.Chance(1, 3) {
		port = r.Intn(10)
	}
	return c36Pre(ip, port, hdr)
}

func c36GenRec(r *Rand) c36Rec {
	n := r.Range(0, 40)
	if r.Chance(1, 6) {
		n = r.Range(41, 1500)
	}
	rc := c36Rec{Len: n + 8, Plen: n, Off: int64(r.U64() % (1 << 32)), Body: m1RandPay(r, n)}
	if r.Chance(1, 3) {
		rc.Plen = 0
	}
	if r.Chance(1, 4) {
		rc.Plen = r.Intn(65536)
	}
	return rc
}

// big: a hostile record followed by more than 64 KiB, so that a wrapped
// length could be "satisfied" (own suite, see c36GenRW)
func c36GenRD(r *Rand, big bool) c36RD {
	in := c36RD{Pre: c36GenPre(r), PreValid: true}
	n := r.Range(0, 5)
	if big {
		n = r.Range(0, 2)
	}
	for k := 0; k < n; k++ {
		in.Recs = append(in.Recs, c36GenRec(r))
	}
	c := r.Intn(10)
	if big {
		c = 0
	}
	switch c {
	case 0, 1, 2: // a record with a hostile length field, anywhere
		rc := c36GenRec(r)
		switch r.Intn(4) {
		case 0, 1:
			rc.Len = r.Intn(16)
		case 2:
			rc.Len = r.Intn(65536)
		case 3:
			rc.Len = rc.Body.Size() + 8 + r.Range(-8, 8)
			if rc.Len < 0 {
				rc.Len = 0
			}
		}
		if big {
			rc.Body = m1RandPay(r, 65536+r.Intn(64))
		}
		k := r.Intn(len(in.Recs) + 1)
		in.Recs = append(in.Recs[:k], append([]c36Rec{rc}, in.Recs[k:]...)...)
	case 3: // truncated tail
		in.Tail = hex.EncodeToString(r.Bytes(r.Range(1, 7)))
	case 4: // mutated preamble
		raw, _ := hex.DecodeString(in.Pre)
		switch r.Intn(6) {
		case 0:
			raw[r.Intn(len(raw)-16)] = byte(r.U64())
		case 1:
			raw = raw[:r.Intn(len(raw))]
			in.Recs = nil
		case 2:
			raw = append([]byte(Pick(r, []string{"\n", "x", "#!rtpplay1.0 1.2.3.4/5\n", "\r\n", "1234"})), raw...)
		case 3:
			s := Pick(r, []string{"#!rtpplay1.0 1234.1.1.1/1\n", "#!rtpplay1.0 1.1.1.1/123456\n", "#!rtpplay1.0 1.1.1/1\n",
				"#!rtpplay1.0 1.1.1.1/\n", "#!rtpplay1.0 999.999.999.999/99999\n", "#!rtpplay1.0 1.1.1.1/1\r\n", "#!rtpplay1,0 1.1.1.1/1\n",
				"#!rtpplay1.0 <nil>/5\n", "#!rtpplay1.0  1.1.1.1/1\n", "#!rtpplay1.0 1.1.1.1/1 \n"})
			raw = append([]byte(s), raw[len(raw)-16:]...)
		case 4:
			i := bytes.IndexByte(raw, '\n')
			raw[i] = Pick(r, []byte{' ', '\r', 0, '0'})
		case 5:
			raw = append(raw[:13], raw[14:]...)
		}
		in.Pre = hex.EncodeToString(raw)
		in.PreValid = false
	}
	return in
}

func init() {
	v4 := "c0a80001"
	okH := c36Hdr{Sec: 1553475661, Nsec: 250000000, Src: v4, Port: 5004}
	one := func(p c36Pkt) c36RW { return c36RW{H: okH, Ps: []c36Pkt{p}} }
	rw := Spec[c36RW]{
		ID: "C36", Suite: "rw", CoqImports: []string{"Common.Media1Util", "Check.C36"},
		CoqType: "Check.C36.rw_in", CoqRun: "Check.C36.run_rw",
		Quick: 500, Thorough: 6000, Parallel: 8,
		Corpus: func() []c36RW {
			return []c36RW{
				// witnesses of the design probes (repaired: fixed: lines in known/C36.txt)
				{H: c36Hdr{Sec: 9, Src: "20010db8000000000000000000000001", Port: 5}, // IPv6 source: "<nil>"
					Ps: []c36Pkt{{OffNs: 1e6, Pay: m1Lit([]byte{9})}}},
				{H: c36Hdr{Sec: 9, Src: "", Port: 5}},
				{H: c36Hdr{Sec: -1, Src: v4, Port: 5}, Ps: []c36Pkt{{OffNs: 1e6, Pay: m1Lit([]byte{9})}}},
				{H: c36Hdr{Sec: 1 << 32, Src: v4, Port: 5}},
				{H: c36Hdr{Sec: -62135596800, Src: v4, Port: 5}},                         // zero time.Time
				one(c36Pkt{OffNs: (math.MaxUint32 + 1) * 1e6, Pay: m1Lit([]byte{1, 2})}), // offset wraps to 0
				one(c36Pkt{OffNs: -1e6, Pay: m1Lit([]byte{1, 2})}),
				one(c36Pkt{OffNs: 0, RTCP: false, Pay: m1Pay{}}), // empty RTP payload reads back as RTCP
				one(c36Pkt{OffNs: 0, RTCP: true, Pay: m1Pay{}}),
				// the pinned tests' round trip
				{H: c36Hdr{Sec: 9, Src: "02020202", Port: 2222}, Ps: []c36Pkt{
					{OffNs: 1e6, Pay: m1Lit([]byte{9})}, {OffNs: 999e6, RTCP: true, Pay: m1Lit([]byte{9})}}},
			}
		},
		Gen: func(r *Rand, i int) c36RW { return c36GenRW(r, false) },
		Run: c36RunRW, Coq: c36CoqRW, Shrink: c36ShrinkRW,
	}
	Register(rw)
	rwb := rw
	rwb.Suite, rwb.Quick, rwb.Thorough = "rwb", 16, 200
	rwb.Corpus = func() []c36RW {
		out := []c36RW{one(c36Pkt{OffNs: 5e6, Pay: m1Pay{Len: 65530, A: 1, B: 1}})} // design probe: length field wraps to 2
		type sz struct {
			n    int
			rtcp bool
		}
		for _, c := range []sz{{65526, false}, {65527, false}, {65527, true}, {65528, false}, {65528, true},
			{65535, false}, {65536, false}, {65536, true}, {65537, false}, {65540, false}} {
			out = append(out, c36RW{H: okH, Ps: []c36Pkt{
				{OffNs: 1e6, RTCP: !c.rtcp, Pay: m1Lit([]byte{7, 7})},
				{OffNs: 2e6, RTCP: c.rtcp, Pay: m1Pay{Len: c.n, A: c.n & 255, B: 3}},
				{OffNs: 3e6, RTCP: c.rtcp, Pay: m1Lit([]byte{8})},
			}})
		}
		return out
	}
	rwb.Gen = func(r *Rand, i int) c36RW { return c36GenRW(r, true) }
	Register(rwb)

	pre := c36Pre([4]byte{10, 0, 0, 1}, 5004, make([]byte, 16))
	rd := Spec[c36RD]{
		ID: "C36", Suite: "rd", CoqImports: []string{"Common.Media1Util", "Check.C36"},
		CoqType: "list pspec", CoqRun: "Check.C36.run_rd",
		Quick: 600, Thorough: 8000, Parallel: 8,
		Corpus: func() []c36RD {
			var out []c36RD
			// every length field 0..15: alone, and after a good record
			for L := 0; L <= 15; L++ {
				out = append(out,
					c36RD{Pre: pre, PreValid: true, Recs: []c36Rec{{Len: L, Plen: 1, Off: 7, Body: m1Lit(make([]byte, max(L-8, 0)))}}},
					c36RD{Pre: pre, PreValid: true, Recs: []c36Rec{
						{Len: 10, Plen: 2, Off: 1, Body: m1Lit([]byte{1, 2})},
						{Len: L, Plen: 3, Off: 2, Body: m1Lit([]byte{1, 2, 3, 4, 5, 6, 7, 8, 9})}}},
				)
			}
			return out
		},
		Gen: func(r *Rand, i int) c36RD { return c36GenRD(r, false) },
		Run: c36RunRD, Coq: c36CoqRD,
		Shrink: func(in c36RD) []c36RD {
			var out []c36RD
			for i := range in.Recs {
				c := in
				c.Recs = append(append([]c36Rec{}, in.Recs[:i]...), in.Recs[i+1:]...)
				out = append(out, c)
			}
			return out
		},
	}
	Register(rd)
	rdb := rd
	rdb.Suite, rdb.Quick, rdb.Thorough = "rdb", 12, 200
	rdb.Corpus = func() []c36RD {
		// design probe: length field 4 swallows 65532 bytes as payload
		out := []c36RD{{Pre: pre, PreValid: true, Recs: []c36Rec{
			{Len: 4, Plen: 4, Off: 1, Body: m1Pay{Len: 65532 + 16, A: 0, B: 0}}}}}
		// every length field 0..9 followed by plenty of bytes
		for L := 0; L <= 9; L++ {
			out = append(out, c36RD{Pre: pre, PreValid: true, Recs: []c36Rec{{Len: L, Plen: 0, Off: 7, Body: m1Pay{Len: 65600, A: L, B: 1}}}})
		}
		return out
	}
	rdb.Gen = func(r *Rand, i int) c36RD { return c36GenRD(r, true) }
	Register(rdb)
}
