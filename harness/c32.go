//go:build verif_c32

package main

import (
	"bytes"
	"encoding/binary"
	"encoding/hex"
	"errors"
	"fmt"
	"hash/adler32"
	"io"
	"math/big"
	"strings"

	"github.com/pion/rtp"
	"github.com/pion/rtp/codecs"
	"github.com/pion/webrtc/v4/pkg/media/ivfreader"
	"github.com/pion/webrtc/v4/pkg/media/ivfwriter"
)

// C32: IVFWriter output read back by IVFReader.
//
// suite "stream": a packet stream (built from random frames by pion's
// payloaders, optionally perturbed) is written through IVFWriter twice, over
// an io.WriteSeeker and over a plain io.Writer; both files are read with
// IVFReader.  The model gets the same packets as descriptors (what pion/rtp's
// depacketizers return for each packet).
// suite "read": IVFReader over truncated / corrupted files.

type c32Pkt struct {
	TS      uint32 `json:"ts"`
	Marker  bool   `json:"m"`
	Payload string `json:"p"` // hex of the RTP payload
}

type c32Frame struct {
	Hex string `json:"f"`  // what the file must contain for this frame
	TS  uint32 `json:"ts"` // RTP timestamp of all its packets
}

type c32Case struct {
	Codec  int      `json:"codec"` // 0 VP8, 1 VP9, 2 AV1
	W      uint16   `json:"w"`
	H      uint16   `json:"h"`
	Num    uint32   `json:"num"`
	Den    uint32   `json:"den"`
	Direct bool     `json:"direct"`
	Pkts   []c32Pkt `json:"pkts"`
	// ground truth of the generator, used by the direct oracle only:
	// Clean = unperturbed stream, Want = frames from the first keyframe on
	Clean bool       `json:"clean"`
	Want  []c32Frame `json:"want,omitempty"`
	// Reuse: each writer is fed from ONE receive buffer that is overwritten as
	// soon as WriteRTP has returned (mediafeed_util.go)
	Reuse bool   `json:"reuse,omitempty"`
	Note  string `json:"note,omitempty"`
}

var c32Mime = []string{"video/VP8", "video/VP9", "video/AV1"}
var c32FourCC = []string{"VP80", "VP90", "AV01"}

// in-memory io.WriteSeeker
type c32Seekable struct {
	b   []byte
	pos int64
}

func (m *c32Seekable) Write(p []byte) (int, error) {
	end := m.pos + int64(len(p))
	if end > int64(len(m.b)) {
		m.b = append(m.b, make([]byte, end-int64(len(m.b)))...)
	}
	copy(m.b[m.pos:], p)
	m.pos = end
	return len(p), nil
}

func (m *c32Seekable) Seek(off int64, whence int) (int64, error) {
	switch whence {
	case io.SeekStart:
		m.pos = off
	case io.SeekCurrent:
		m.pos += off
	case io.SeekEnd:
		m.pos = int64(len(m.b)) + off
	}
	if m.pos < 0 {
		return 0, errors.New("negative position")
	}
	return m.pos, nil
}

// plain io.Writer (nothing else)
type c32Plain struct{ b []byte }

func (m *c32Plain) Write(p []byte) (int, error) { m.b = append(m.b, p...); return len(p), nil }

func c32ErrClass(err error) string {
	switch {
	case err == nil:
		return "ok"
	case errors.Is(err, io.EOF):
		return "EOF"
	}
	s := err.Error()
	switch {
	case s == "incomplete frame header":
		return "incomplete-frame-header"
	case s == "incomplete frame data":
		return "incomplete-frame-data"
	case s == "incomplete file header":
		return "incomplete-file-header"
	case s == "IVF signature mismatch":
		return "signature"
	case strings.HasPrefix(s, "IVF version unknown"):
		return "version"
	case s == "invalid media timebase":
		return "timebase"
	}
	return "other:" + s
}

type c32Read struct {
	err    string // class of NewWith's error, "" when it succeeded
	hdr    *ivfreader.IVFFileHeader
	frames [][]byte
	sizes  []uint32
	times  []uint64
	final  string
}

func c32ReadFile(b []byte) c32Read {
	r, hdr, err := ivfreader.NewWith(bytes.NewReader(b))
	if err != nil {
		return c32Read{err: c32ErrClass(err)}
	}
	out := c32Read{hdr: hdr}
	for n := 0; ; n++ {
		payload, fh, err := r.ParseNextFrame()
		if err != nil {
			out.final = c32ErrClass(err)
			return out
		}
		out.frames = append(out.frames, payload)
		out.sizes = append(out.sizes, fh.FrameSize)
		out.times = append(out.times, fh.Timestamp)
		if n > len(b) {
			out.final = "no-progress"
			return out
		}
	}
}

var c32ClassByte = map[string]byte{"EOF": 1, "incomplete-file-header": 2, "signature": 3, "version": 4, "timebase": 5,
	"incomplete-frame-header": 6, "incomplete-frame-data": 7, "no-progress": 8}

func c32Class(s string) byte {
	if b, ok := c32ClassByte[s]; ok {
		return b
	}
	return 10
}

// compact form of the reader observation (layout: coq/Check/C32.v)
func (r c32Read) V() V {
	if r.err != "" {
		return VHex([]byte{0, c32Class(r.err)})
	}
	h := r.hdr
	b := []byte{1}
	b = append(b, []byte(h.FourCC)...)
	b = binary.BigEndian.AppendUint16(b, h.Width)
	b = binary.BigEndian.AppendUint16(b, h.Height)
	b = binary.BigEndian.AppendUint32(b, h.TimebaseDenominator)
	b = binary.BigEndian.AppendUint32(b, h.TimebaseNumerator)
	b = binary.BigEndian.AppendUint32(b, h.NumFrames)
	b = binary.BigEndian.AppendUint32(b, uint32(len(r.frames)))
	for i := range r.frames {
		b = binary.BigEndian.AppendUint32(b, adler32.Checksum(r.frames[i]))
		b = binary.BigEndian.AppendUint32(b, r.sizes[i])
		b = binary.BigEndian.AppendUint64(b, r.times[i])
	}
	return VHex(append(b, c32Class(r.final)))
}

// independent walk over the IVF layout (direct oracle)
type c32Walk struct {
	fourcc           string
	w, h             uint16
	den, num, frames uint32
	payload          [][]byte
	pts              []uint64
	tail             int // bytes left over after the last complete frame
	ok               bool
}

func c32WalkFile(b []byte) c32Walk {
	var w c32Walk
	if len(b) < 32 || string(b[0:4]) != "DKIF" || b[4] != 0 || b[5] != 0 {
		return w
	}
	w.ok = true
	w.fourcc = string(b[8:12])
	w.w = uint16(b[12]) | uint16(b[13])<<8
	w.h = uint16(b[14]) | uint16(b[15])<<8
	w.den = binary.LittleEndian.Uint32(b[16:])
	w.num = binary.LittleEndian.Uint32(b[20:])
	w.frames = binary.LittleEndian.Uint32(b[24:])
	off := 32
	for len(b)-off >= 12 {
		size := int(binary.LittleEndian.Uint32(b[off:]))
		if size > len(b)-off-12 {
			break
		}
		w.pts = append(w.pts, binary.LittleEndian.Uint64(b[off+4:]))
		w.payload = append(w.payload, b[off+12:off+12+size])
		off += 12 + size
	}
	w.tail = len(b) - off
	return w
}

var c32Two64 = new(big.Int).Lsh(big.NewInt(1), 64)

// the PTS the property states: direct mode: (ts - first) mod 2^32;
// otherwise ((1000 * ((ts - first) mod 2^32)) / 90000) * num / den
func c32WantPTS(c c32Case, ts, first uint32) uint64 {
	d := new(big.Int).SetUint64(uint64(ts - first))
	if c.Direct {
		return d.Uint64()
	}
	ms := new(big.Int).Div(new(big.Int).Mul(d, big.NewInt(1000)), big.NewInt(90000))
	x := new(big.Int).Mul(ms, new(big.Int).SetUint64(uint64(c.Num)))
	x.Mod(x, c32Two64)
	x.Div(x, new(big.Int).SetUint64(uint64(c.Den)))
	return x.Uint64()
}

func c32WantTime(c c32Case, pts uint64) uint64 {
	x := new(big.Int).Mul(new(big.Int).SetUint64(pts), new(big.Int).SetUint64(uint64(c.Den)))
	x.Mod(x, c32Two64)
	x.Div(x, new(big.Int).SetUint64(uint64(c.Num)))
	return x.Uint64()
}

func c32Opts(c c32Case) []ivfwriter.Option {
	o := []ivfwriter.Option{ivfwriter.WithCodec(c32Mime[c.Codec]), ivfwriter.WithWidthAndHeight(c.W, c.H),
		ivfwriter.WithFrameRate(c.Num, c.Den)}
	if c.Direct {
		o = append(o, ivfwriter.WithDirectPTS())
	}
	return o
}

func c32Run(c c32Case) (V, Verdict) {
	seek := &c32Seekable{}
	plain := &c32Plain{}
	ws, errS := ivfwriter.NewWith(seek, c32Opts(c)...)
	wp, errP := ivfwriter.NewWith(plain, c32Opts(c)...)
	if (errS == nil) != (errP == nil) {
		return VS("new-differs"), Fail("constructor-depends-on-output-kind", fmt.Sprintf("%v vs %v", errS, errP))
	}
	if errS != nil {
		// NewWith refused (zero denominator); the header was already written
		v := Pass(fmt.Sprintf("%s/new-refused", c32FourCC[c.Codec]), false)
		if c.Den != 0 {
			v = Fail("constructor-refuses-valid-options", errS.Error())
		}
		return VL{VHex([]byte{1}), VHex(seek.b), c32Head(plain.b), VB(true), c32ReadFile(seek.b).V()}, v
	}
	statuses := []byte{0}
	nerr := 0
	// one feeder (one receive buffer) per writer: a frame is assembled from
	// several packets, so whatever the writer keeps between WriteRTP calls must
	// be its own copy
	feedS, feedP := &mfFeeder{reuse: c.Reuse}, &mfFeeder{reuse: c.Reuse}
	for _, p := range c.Pkts {
		raw, _ := hex.DecodeString(p.Payload)
		h := rtp.Header{Version: 2, Timestamp: p.TS, Marker: p.Marker}
		e1 := feedS.feed(ws.WriteRTP, h, raw)
		e2 := feedP.feed(wp.WriteRTP, h, raw)
		if (e1 == nil) != (e2 == nil) {
			return VS("write-differs"), Fail("write-depends-on-output-kind", fmt.Sprintf("%v vs %v", e1, e2))
		}
		if e1 != nil {
			statuses = append(statuses, 1)
			nerr++
		} else {
			statuses = append(statuses, 0)
		}
	}
	if err := ws.Close(); err != nil {
		return VS("close"), Fail("close-error", err.Error())
	}
	if err := wp.Close(); err != nil {
		return VS("close"), Fail("close-error", err.Error())
	}
	rs, rp := c32ReadFile(seek.b), c32ReadFile(plain.b)
	obs := VL{VHex(statuses), VHex(seek.b), c32Head(plain.b), VB(c32SameBody(seek.b, plain.b)), rs.V()}

	// ---------------- direct oracle ----------------
	codec := c32FourCC[c.Codec]
	cleanTag := "perturbed"
	if c.Clean {
		cleanTag = "clean"
	}
	if c.Reuse {
		cleanTag += "/reused-buffer"
	} else {
		cleanTag += "/fresh-payloads"
	}
	ws1, wp1 := c32WalkFile(seek.b), c32WalkFile(plain.b)
	if !ws1.ok || !wp1.ok || ws1.tail != 0 || wp1.tail != 0 {
		return obs, Fail("written-file-not-well-formed", fmt.Sprintf("tail %d/%d", ws1.tail, wp1.tail))
	}
	// header as configured
	for _, w := range []c32Walk{ws1, wp1} {
		if w.fourcc != codec || w.w != c.W || w.h != c.H || w.den != c.Den || w.num != c.Num {
			return obs, Fail("header-field-differs-from-options",
				fmt.Sprintf("fourcc %q %dx%d %d/%d, configured %q %dx%d %d/%d", w.fourcc, w.w, w.h, w.num, w.den,
					codec, c.W, c.H, c.Num, c.Den))
		}
	}
	if ws1.frames != uint32(len(ws1.payload)) {
		return obs, Fail("frame-count-field-wrong-on-seekable-output",
			fmt.Sprintf("header says %d, file has %d frames", ws1.frames, len(ws1.payload)))
	}
	if len(seek.b) != len(plain.b) || !bytes.Equal(seek.b[:24], plain.b[:24]) || !bytes.Equal(seek.b[28:], plain.b[28:]) {
		return obs, Fail("outputs-differ-beyond-count-field", "seekable and plain outputs differ outside bytes 24..27")
	}
	if c.Num == 0 {
		// the writer accepts a zero numerator, the reader refuses such a file
		if rs.err != "timebase" {
			return obs, Fail("reader-accepts-zero-timebase", rs.err)
		}
		return obs, Pass(codec+"/zero-numerator", false)
	}
	// the reader returns what is in the file
	for _, pr := range []struct {
		r c32Read
		w c32Walk
	}{{rs, ws1}, {rp, wp1}} {
		r, w := pr.r, pr.w
		if r.err != "" || r.final != "EOF" {
			return obs, Fail("reader-error-on-written-file", r.err+"/"+r.final)
		}
		if r.hdr.FourCC != w.fourcc || r.hdr.Width != w.w || r.hdr.Height != w.h ||
			r.hdr.TimebaseDenominator != w.den || r.hdr.TimebaseNumerator != w.num || r.hdr.NumFrames != w.frames {
			return obs, Fail("reader-header-differs-from-file", fmt.Sprintf("%+v", *r.hdr))
		}
		if len(r.frames) != len(w.payload) {
			return obs, Fail("reader-frame-count-differs-from-file", fmt.Sprintf("%d vs %d", len(r.frames), len(w.payload)))
		}
		for k := range r.frames {
			if !bytes.Equal(r.frames[k], w.payload[k]) || int(r.sizes[k]) != len(w.payload[k]) {
				return obs, Fail("reader-frame-differs-from-file", fmt.Sprintf("frame %d", k))
			}
			if r.times[k] != c32WantTime(c, w.pts[k]) {
				return obs, Fail("reader-timestamp-differs-from-pts-conversion",
					fmt.Sprintf("frame %d: pts %d gives %d, want %d", k, w.pts[k], r.times[k], c32WantTime(c, w.pts[k])))
			}
		}
	}
	multi := false
	if c.Clean {
		if nerr != 0 {
			return obs, Fail("write-error-on-valid-stream", fmt.Sprintf("%d packets refused", nerr))
		}
		if len(ws1.payload) != len(c.Want) {
			return obs, Fail("frames-read-differ-from-frames-written",
				fmt.Sprintf("file has %d frames, %d were sent from the first keyframe on", len(ws1.payload), len(c.Want)))
		}
		for k, want := range c.Want {
			wb, _ := hex.DecodeString(want.Hex)
			if !bytes.Equal(ws1.payload[k], wb) {
				return obs, Fail("frames-read-differ-from-frames-written",
					fmt.Sprintf("frame %d: %d bytes read, %d written", k, len(ws1.payload[k]), len(wb)))
			}
			if p := c32WantPTS(c, want.TS, c.Want[0].TS); ws1.pts[k] != p {
				return obs, Fail("pts-differs-from-stated-computation",
					fmt.Sprintf("frame %d ts %d first %d: pts %d, want %d", k, want.TS, c.Want[0].TS, ws1.pts[k], p))
			}
		}
	}
	perTS := map[uint32]int{}
	for _, p := range c.Pkts {
		perTS[p.TS]++
		if perTS[p.TS] > 1 {
			multi = true
		}
	}
	v := Pass(fmt.Sprintf("%s/%s/frames%s", codec, cleanTag, c32Bucket(len(ws1.payload))), len(ws1.payload) >= 2 && multi)
	return obs, v
}

func c32Head(b []byte) V { return VHex(b[:min(32, len(b))]) }
func c32SameBody(a, b []byte) bool {
	return len(a) >= 32 && len(b) >= 32 && bytes.Equal(a[32:], b[32:])
}

func c32Bucket(n int) string {
	switch {
	case n == 0:
		return "0"
	case n == 1:
		return "1"
	case n <= 5:
		return "2-5"
	case n <= 15:
		return "6-15"
	}
	return "16+"
}

// ---------------- descriptors for the model ----------------

func c32Coq(c c32Case) string {
	var av1 codecs.AV1Depacketizer
	out := []byte{byte(c.Codec)}
	out = binary.BigEndian.AppendUint16(out, c.W)
	out = binary.BigEndian.AppendUint16(out, c.H)
	out = binary.BigEndian.AppendUint32(out, c.Num)
	out = binary.BigEndian.AppendUint32(out, c.Den)
	if c.Direct {
		out = append(out, 1)
	} else {
		out = append(out, 0)
	}
	for _, p := range c.Pkts {
		raw, _ := hex.DecodeString(p.Payload)
		var flags byte
		var payload []byte
		if p.Marker {
			flags |= 1
		}
		if len(raw) == 0 {
			flags |= 2
		} else {
			switch c.Codec {
			case 0:
				var v codecs.VP8Packet
				if _, err := v.Unmarshal(raw); err != nil {
					flags |= 4
				} else {
					if v.S == 1 {
						flags |= 8
					}
					payload = v.Payload
				}
			case 1:
				var v codecs.VP9Packet
				if _, err := v.Unmarshal(raw); err != nil {
					flags |= 4
				} else {
					if v.B {
						flags |= 8
					}
					if v.P {
						flags |= 16
					}
					payload = v.Payload
				}
			case 2:
				got, err := av1.Unmarshal(raw)
				if err != nil {
					flags |= 4
				} else {
					if av1.N {
						flags |= 16
					}
					payload = got
				}
			}
		}
		if len(payload) > 0xffff {
			return "" // outside the serialization (never generated)
		}
		out = binary.BigEndian.AppendUint32(out, p.TS)
		out = append(out, flags)
		out = binary.BigEndian.AppendUint16(out, uint16(len(payload)))
		out = append(out, payload...)
	}
	return CoqHex(out)
}

// ---------------- generator ----------------

func c32Leb128(n int) []byte {
	var out []byte
	for {
		b := byte(n & 0x7f)
		n >>= 7
		if n != 0 {
			out = append(out, b|0x80)
		} else {
			return append(out, b)
		}
	}
}

type c32OBU struct {
	typ     byte
	ext     bool
	extByte byte
	payload []byte
}

// low-overhead bitstream form: header (has_size_field = 1), leb128 size, payload
func (o c32OBU) withSize() []byte {
	h := []byte{o.typ<<3 | 0x02}
	if o.ext {
		h[0] |= 0x04
		h = append(h, o.extByte)
	}
	h = append(h, c32Leb128(len(o.payload))...)
	return append(h, o.payload...)
}

func c32Size(r *Rand) int {
	switch x := r.Intn(40); {
	case x < 28:
		return r.Range(1, 12)
	case x < 38:
		return r.Range(12, 60)
	}
	return r.Range(60, 700)
}

// one frame: bytes handed to the payloader, bytes the file must contain, keyframe?
func c32GenFrame(r *Rand, codec int, key, vp9flex bool) (in, want []byte, isKey bool) {
	n := c32Size(r)
	switch codec {
	case 0:
		b := r.Bytes(n)
		if key {
			b[0] &^= 1
		} else {
			b[0] |= 1
		}
		return b, b, key
	case 1:
		if vp9flex {
			// flexible mode: the payloader never sets P, every frame passes as a keyframe
			b := r.Bytes(n)
			return b, b, true
		}
		var b []byte
		if key {
			b = append([]byte{0x82, 0x49, 0x83, 0x42}, r.Bytes(5+n)...)
		} else {
			b = append([]byte{0x84 | byte(r.Intn(4))}, r.Bytes(n)...)
		}
		return b, b, key
	default:
		var obus []c32OBU
		ext, extByte := r.Chance(1, 4), byte(r.Intn(256))
		if r.Chance(1, 2) {
			obus = append(obus, c32OBU{typ: 2}) // temporal delimiter: removed by the payloader
		}
		if key {
			obus = append(obus, c32OBU{typ: 1, payload: r.Bytes(r.Range(1, 12))})
		}
		k := r.Range(1, 3)
		for i := 0; i < k; i++ {
			typ := Pick(r, []byte{3, 4, 5, 6, 6, 6, 15})
			sz := c32Size(r) / k
			if r.Chance(1, 10) {
				sz = 0
			}
			o := c32OBU{typ: typ, payload: r.Bytes(sz), ext: ext, extByte: extByte}
			if ext && r.Chance(1, 4) {
				o.extByte = byte(r.Intn(256))
			}
			obus = append(obus, o)
		}
		want = []byte{0x12, 0x00}
		for _, o := range obus {
			in = append(in, o.withSize()...)
			if o.typ != 2 && o.typ != 8 {
				want = append(want, o.withSize()...)
			}
		}
		return in, want, key
	}
}

func c32Gen(r *Rand, i int) c32Case { return c32GenCodec(r, r.Intn(3)) }

func c32GenCodec(r *Rand, codec int) c32Case {
	c := c32Case{Codec: codec, W: uint16(r.Intn(65536)), H: uint16(r.Intn(65536)), Clean: true}
	c.Direct = r.Chance(1, 3)
	switch x := r.Intn(12); {
	case x < 4:
		c.Num, c.Den = 1, 30
	case x < 6:
		c.Num, c.Den = 1, 90000
	case x < 8:
		c.Num, c.Den = uint32(r.Range(1, 1001)), uint32(r.Range(1, 60000))
	case x < 10:
		c.Num, c.Den = uint32(r.U64()), uint32(r.U64())
		if c.Num == 0 {
			c.Num = 1
		}
		if c.Den == 0 {
			c.Den = 1
		}
	case x == 10:
		c.Num, c.Den = uint32(r.Range(0, 1)), uint32(r.Range(1, 30))
	default:
		c.Num, c.Den = uint32(r.Range(1, 30)), uint32(r.Range(0, 1))
	}
	nframes := r.Range(1, 10)
	if r.Chance(1, 8) {
		nframes = r.Range(10, 40)
	}
	var mtu int
	switch x := r.Intn(4); {
	case x < 2:
		mtu = r.Range(4, 16)
	case x == 2:
		mtu = r.Range(16, 60)
	default:
		mtu = r.Range(60, 1200)
	}
	vp9flex := r.Bool()
	vp8 := &codecs.VP8Payloader{EnablePictureID: r.Bool()}
	pid := uint16(r.Intn(0x8000))
	vp9 := &codecs.VP9Payloader{FlexibleMode: vp9flex, InitialPictureIDFn: func() uint16 { return pid }}
	av1 := &codecs.AV1Payloader{}
	ts := uint32(r.U64())
	if r.Chance(1, 4) {
		ts = uint32(0xffffffff - uint32(r.Intn(200000)))
	}
	leadNonKey := 0
	if r.Chance(1, 4) {
		leadNonKey = r.Range(1, 3)
	}
	seenKey := false
	for f := 0; f < nframes; f++ {
		key := f == leadNonKey || (f > leadNonKey && r.Chance(1, 8))
		in, want, isKey := c32GenFrame(r, c.Codec, key, vp9flex)
		if r.Chance(1, 10) {
			mtu = r.Range(4, 1200)
		}
		var payloads [][]byte
		switch c.Codec {
		case 0:
			payloads = vp8.Payload(uint16(mtu), in)
		case 1:
			payloads = vp9.Payload(uint16(mtu), in)
		default:
			payloads = av1.Payload(uint16(mtu), in)
		}
		for i, p := range payloads {
			c.Pkts = append(c.Pkts, c32Pkt{TS: ts, Marker: i == len(payloads)-1, Payload: hex.EncodeToString(p)})
		}
		if len(payloads) > 0 {
			seenKey = seenKey || isKey
			if seenKey {
				c.Want = append(c.Want, c32Frame{Hex: hex.EncodeToString(want), TS: ts})
			}
		}
		switch x := r.Intn(10); {
		case x < 6:
			ts += 3000
		case x < 9:
			ts += uint32(r.Intn(200000))
		default:
			ts -= uint32(r.Intn(5000)) // out-of-order timestamp: the subtraction wraps
		}
	}
	if r.Chance(1, 4) && len(c.Pkts) > 0 {
		c32Perturb(r, &c)
	}
	c.Reuse = r.Chance(2, 3)
	return c
}

func c32Perturb(r *Rand, c *c32Case) {
	c.Clean, c.Want = false, nil
	for n := r.Range(1, 3); n > 0 && len(c.Pkts) > 0; n-- {
		i := r.Intn(len(c.Pkts))
		switch r.Intn(7) {
		case 0: // lose a packet
			c.Pkts = append(c.Pkts[:i:i], c.Pkts[i+1:]...)
			c.Note += "drop;"
		case 1: // lose a marker
			c.Pkts[i].Marker = false
			c.Note += "unmark;"
		case 2: // marker in mid-frame
			c.Pkts[i].Marker = true
			c.Note += "mark;"
		case 3: // empty RTP payload
			c.Pkts = append(c.Pkts[:i:i], append([]c32Pkt{{TS: c.Pkts[i].TS, Marker: r.Bool()}}, c.Pkts[i:]...)...)
			c.Note += "empty;"
		case 4: // garbage
			g := c32Pkt{TS: uint32(r.U64()), Marker: r.Bool(), Payload: hex.EncodeToString(r.Bytes(r.Range(1, 4)))}
			c.Pkts = append(c.Pkts[:i:i], append([]c32Pkt{g}, c.Pkts[i:]...)...)
			c.Note += "garbage;"
		case 5: // payload descriptor only (VP8: 0x10 / 0x00)
			g := c32Pkt{TS: c.Pkts[i].TS, Marker: r.Bool(), Payload: Pick(r, []string{"10", "00", "9080", "08", "0c"})}
			c.Pkts = append(c.Pkts[:i:i], append([]c32Pkt{g}, c.Pkts[i:]...)...)
			c.Note += "header-only;"
		case 6: // truncate a packet
			raw, _ := hex.DecodeString(c.Pkts[i].Payload)
			if len(raw) > 1 {
				c.Pkts[i].Payload = hex.EncodeToString(raw[:r.Range(1, len(raw)-1)])
			}
			c.Note += "truncate;"
		}
	}
}

func c32Shrink(c c32Case) []c32Case {
	var out []c32Case
	if c.Clean {
		return out // ground truth would no longer match
	}
	for i := range c.Pkts {
		d := c
		d.Pkts = append(append([]c32Pkt{}, c.Pkts[:i]...), c.Pkts[i+1:]...)
		out = append(out, d)
	}
	return out
}

func c32Corpus() []c32Case {
	vp8Key := "10" + "9c01020304"   // S=1, keyframe (bit 0 of first octet clear)
	vp8Cont := "00" + "0506"        // continuation
	vp8Inter := "10" + "9d0708"     // S=1, interframe
	return []c32Case{
		// witness of the repaired defect: VP8 payload descriptor with nothing behind it
		// (before fix 73900d2: index out of range in writeVP8)
		{Codec: 0, W: 640, H: 480, Num: 1, Den: 30, Note: "vp8-header-only-packet",
			Pkts: []c32Pkt{{TS: 1000, Marker: false, Payload: "10"}}},
		{Codec: 0, W: 640, H: 480, Num: 1, Den: 30, Note: "vp8-header-only-after-keyframe",
			Pkts: []c32Pkt{{TS: 1000, Payload: vp8Key}, {TS: 1000, Marker: true, Payload: "00"},
				{TS: 1000, Marker: true, Payload: vp8Cont}}},
		// plain two-frame stream, timestamps crossing 2^32
		{Codec: 0, W: 640, H: 480, Num: 1, Den: 30, Clean: true,
			Pkts: []c32Pkt{{TS: 4294967000, Payload: vp8Key}, {TS: 4294967000, Marker: true, Payload: vp8Cont},
				{TS: 2704, Marker: true, Payload: vp8Inter}},
			Want: []c32Frame{{Hex: "9c010203040506", TS: 4294967000}, {Hex: "9d0708", TS: 2704}}},
		// interframes before the keyframe are not written
		{Codec: 0, W: 1, H: 2, Num: 1, Den: 90000, Direct: true, Clean: true,
			Pkts: []c32Pkt{{TS: 10, Marker: true, Payload: vp8Inter}, {TS: 3010, Marker: true, Payload: vp8Key},
				{TS: 6010, Marker: true, Payload: vp8Inter}},
			Want: []c32Frame{{Hex: "9c01020304", TS: 3010}, {Hex: "9d0708", TS: 6010}}},
		// witness of the repaired defect: an AV1 OBU split over two packets, fed out
		// of one receive buffer (before the fix AV1Depacketizer kept the first
		// fragment as a sub-slice of the caller's payload: the file had the filler
		// bytes in its place and the second packet was refused)
		{Codec: 2, W: 640, H: 480, Num: 1, Den: 30, Clean: true, Reuse: true, Note: "av1-fragmented-obu-receive-loop",
			Pkts: []c32Pkt{{TS: 9000, Payload: "58" + "080102"}, {TS: 9000, Marker: true, Payload: "90" + "0304"},
				{TS: 12000, Marker: true, Payload: "10" + "30aabb"}},
			Want: []c32Frame{{Hex: "1200" + "0a0401020304", TS: 9000}, {Hex: "1200" + "3202aabb", TS: 12000}}},
		// zero denominator: NewWith refuses after writing the header
		{Codec: 2, W: 3, H: 4, Num: 1, Den: 0, Note: "zero-denominator"},
		// zero numerator: written, refused by the reader
		{Codec: 1, W: 3, H: 4, Num: 0, Den: 30, Note: "zero-numerator"},
	}
}

// ---------------- suite "read": the reader on damaged files ----------------

type c32Bytes struct {
	Hex  string `json:"hex"`
	Note string `json:"note,omitempty"`
}

func c32ReadRun(in c32Bytes) (V, Verdict) {
	b, _ := hex.DecodeString(in.Hex)
	r := c32ReadFile(b)
	obs := r.V()
	// direct oracle: what the reader returned are consecutive records of the
	// input, and it stopped for a reason visible in the input
	w := c32WalkFile(b)
	if r.err != "" {
		wantErr := w.ok && (w.den == 0 || w.num == 0)
		if w.ok && !wantErr {
			return obs, Fail("reader-refuses-well-formed-header", r.err)
		}
		return obs, Pass("refused:"+r.err, true)
	}
	if !w.ok {
		return obs, Fail("reader-accepts-malformed-header", "")
	}
	if r.final == "no-progress" {
		return obs, Fail("reader-makes-no-progress", "")
	}
	if len(r.frames) != len(w.payload) {
		return obs, Fail("reader-frame-count-differs-from-file", fmt.Sprintf("%d vs %d", len(r.frames), len(w.payload)))
	}
	for k := range r.frames {
		if !bytes.Equal(r.frames[k], w.payload[k]) {
			return obs, Fail("reader-frame-differs-from-file", fmt.Sprintf("frame %d", k))
		}
	}
	// a clean EOF needs the file to end at a record boundary.  The one
	// exception in the code as written: a file cut right after a 12-byte frame
	// header reads as EOF too (io.ReadFull returns io.EOF when it reads nothing).
	if r.final == "EOF" && w.tail != 0 && w.tail != 12 {
		return obs, Fail("reader-reports-eof-inside-a-record", fmt.Sprintf("%d bytes left", w.tail))
	}
	if r.final != "EOF" && w.tail == 0 {
		return obs, Fail("reader-error-at-record-boundary", r.final)
	}
	return obs, Pass("frames"+c32Bucket(len(r.frames))+"/"+r.final, len(r.frames) > 0 || r.final != "EOF")
}

func c32ValidFile(r *Rand) []byte {
	c := c32Gen(r, 0)
	for c.Den == 0 || len(c.Pkts) > 60 {
		c = c32Gen(r, 0)
	}
	seek := &c32Seekable{}
	w, err := ivfwriter.NewWith(seek, c32Opts(c)...)
	if err != nil {
		panic(err)
	}
	for _, p := range c.Pkts {
		raw, _ := hex.DecodeString(p.Payload)
		_ = w.WriteRTP(&rtp.Packet{Header: rtp.Header{Timestamp: p.TS, Marker: p.Marker}, Payload: raw})
	}
	_ = w.Close()
	return seek.b
}

func c32ReadGen(r *Rand, _ int) c32Bytes {
	b := c32ValidFile(r)
	note := ""
	switch r.Intn(6) {
	case 0, 1:
		b = b[:r.Intn(len(b)+1)]
		note = "truncate"
	case 2:
		i := r.Intn(32)
		b[i] ^= byte(1 << r.Intn(8))
		note = "header-bit"
	case 3:
		b = b[:min(len(b), 32+r.Intn(14))]
		note = "cut-near-first-frame"
	case 4: // a size field pointing past the end
		if len(b) >= 44 {
			binary.LittleEndian.PutUint32(b[32:], uint32(len(b)+r.Intn(1000)))
		}
		note = "size-past-end"
	case 5:
		t := r.Bytes(r.Range(1, 20))
		if len(t) >= 4 {
			t[2], t[3] = 0, 0 // size field < 65536: the reader allocates FrameSize bytes before reading
		}
		b = append(b, t...)
		note = "trailing-bytes"
	}
	return c32Bytes{Hex: hex.EncodeToString(b), Note: note}
}

func init() {
	for codec, name := range []string{"vp8", "vp9", "av1"} {
		codec := codec
		Register(Spec[c32Case]{
			ID: "C32", Suite: name, CoqImports: []string{"Check.C32"},
			CoqType: "string", CoqRun: "Check.C32.run",
			Quick: 80, Thorough: 1000, Parallel: 8,
			Corpus: func() []c32Case {
				var out []c32Case
				for _, c := range c32Corpus() {
					if c.Codec == codec {
						out = append(out, c)
						if c.Clean && !c.Reuse { // the same stream out of the reused receive buffer
							c.Reuse, c.Note = true, c.Note+"receive-loop"
							out = append(out, c)
						}
					}
				}
				// receive-loop witnesses: clean multi-packet streams of this codec
				// (frames assembled across several WriteRTP calls) out of one buffer
				for k, n := uint64(1), 0; n < 3 && k < 400; k++ {
					c := c32GenCodec(NewRand(0xc32<<20+k), codec)
					if !c.Clean || len(c.Want) < 2 || len(c.Pkts) < 2*len(c.Want) || len(c.Pkts) > 60 || c.Num == 0 || c.Den == 0 {
						continue
					}
					c.Reuse, c.Note = true, "receive-loop"
					out = append(out, c)
					n++
				}
				return out
			},
			Gen: func(r *Rand, _ int) c32Case { return c32GenCodec(r, codec) },
			Run: c32Run, Coq: c32Coq, Shrink: c32Shrink,
		})
	}
	Register(Spec[c32Bytes]{
		ID: "C32", Suite: "read", CoqImports: []string{"Check.C32"},
		CoqType: "string", CoqRun: "Check.C32.run_read",
		Quick: 100, Thorough: 1500, Parallel: 8,
		Corpus: func() []c32Bytes {
			var out []c32Bytes
			b := c32ValidFile(NewRand(7))
			for len(b) > 400 {
				b = c32ValidFile(NewRand(uint64(len(b))))
			}
			for i := 0; i <= len(b) && i <= 60; i++ { // every cut through header and first frame
				out = append(out, c32Bytes{Hex: hex.EncodeToString(b[:i]), Note: "prefix"})
			}
			return out
		},
		Gen: c32ReadGen, Run: c32ReadRun,
		Coq: func(in c32Bytes) string { return "\"" + in.Hex + "\"" },
	})
}
