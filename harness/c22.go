//go:build verif_c22

package main

import (
	"fmt"
	"sync"
	"time"

	"github.com/pion/webrtc/v4"
)

// C22: updateConnectionState vs the W3C aggregate.
// input: list of ops; op = [ice, dtls] or [-1, 0] (set the closed flag).

type c22Op [2]int

// second, independent transcription of W3C webrtc-pc 4.3.3 (direct oracle)
func c22W3C(closed bool, ice, dtls int) int {
	const (
		iNew, iChecking, iConnected, iCompleted, iDisconnected, iFailed, iClosed = 1, 2, 3, 4, 5, 6, 7
		dNew, dConnecting, dConnected, dClosed, dFailed                         = 1, 2, 3, 4, 5
		pNew, pConnecting, pConnected, pDisconnected, pFailed, pClosed          = 1, 2, 3, 4, 5, 6
	)
	switch {
	case closed:
		return pClosed
	case ice == iFailed || dtls == dFailed:
		return pFailed
	case ice == iDisconnected:
		return pDisconnected
	case (ice == iNew || ice == iClosed) && (dtls == dNew || dtls == dClosed):
		return pNew
	case ice == iNew || ice == iChecking || dtls == dNew || dtls == dConnecting:
		return pConnecting
	case (ice == iConnected || ice == iCompleted || ice == iClosed) && (dtls == dConnected || dtls == dClosed):
		return pConnected
	}
	return -1 // spec leaves it undefined (undeclared enum values only)
}

func c22Run(ops []c22Op) (V, Verdict) {
	api := newQuietAPI(nil)
	pc, err := api.NewPeerConnection(webrtc.Configuration{})
	if err != nil {
		panic(err)
	}
	var mu sync.Mutex
	var log []int
	done := false
	pc.OnConnectionStateChange(func(s webrtc.PeerConnectionState) {
		mu.Lock()
		defer mu.Unlock()
		if !done {
			log = append(log, int(s))
		}
	})
	count := func() int { mu.Lock(); defer mu.Unlock(); return len(log) }

	verdict := Pass("history", false)
	closed := false
	expectLog := []int{}
	prev := int(pc.ConnectionState())
	changes := 0
	for k, op := range ops {
		if op[0] == -1 {
			pc.VerifSetClosedFlag()
			closed = true
			continue
		}
		before := int(pc.ConnectionState())
		n0 := count()
		pc.VerifUpdateConnectionState(webrtc.ICEConnectionState(op[0]), webrtc.DTLSTransportState(op[1]))
		after := int(pc.ConnectionState())
		if after != before { // handler runs in its own goroutine: wait for it
			deadline := time.Now().Add(2 * time.Second)
			for count() == n0 && time.Now().Before(deadline) {
				time.Sleep(20 * time.Microsecond)
			}
		}
		// direct oracle, clause 1: value = W3C aggregate (declared values only)
		want := c22W3C(closed, op[0], op[1])
		if want >= 0 && after != want && verdict.OK {
			verdict = Fail("aggregate-differs-from-w3c",
				fmt.Sprintf("op %d closed=%v ice=%d dtls=%d: state %d, W3C says %d", k, closed, op[0], op[1], after, want))
		}
		if want >= 0 && want != prev {
			expectLog = append(expectLog, want)
			prev = want
			changes++
		} else if want < 0 {
			if after != prev {
				expectLog = append(expectLog, after)
				changes++
			}
			prev = after
		}
	}
	time.Sleep(300 * time.Microsecond)
	final := int(pc.ConnectionState())
	mu.Lock()
	got := append([]int(nil), log...)
	done = true
	mu.Unlock()
	_ = pc.Close()
	// clause 2: handler invoked only on change, with the new value
	if verdict.OK {
		same := len(got) == len(expectLog)
		for i := 0; same && i < len(got); i++ {
			same = got[i] == expectLog[i]
		}
		if !same {
			verdict = Fail("handler-log-differs", fmt.Sprintf("handler saw %v, changes were %v", got, expectLog))
		}
	}
	verdict.NonTrivial = changes >= 1
	verdict.Class = fmt.Sprintf("len%d/changes%d", len(ops)/4*4, min(changes, 5))
	return VL{VZ(final), VInts(got)}, verdict
}

func c22Coq(ops []c22Op) string {
	parts := make([]string, len(ops))
	for i, op := range ops {
		parts[i] = fmt.Sprintf("(%s, %s)", CoqZ(int64(op[0])), CoqZ(int64(op[1])))
	}
	return CoqList(parts)
}

func init() {
	// every (closed, ice, dtls) cell incl. the zero value and one value past the end
	Register(Spec[[]c22Op]{
		ID: "C22", Suite: "cells", CoqImports: []string{"Check.C22"},
		CoqType: "list (Z * Z)", CoqRun: "Check.C22.run",
		Exhaustive: func() [][]c22Op {
			var out [][]c22Op
			for c := 0; c < 2; c++ {
				for i := 0; i <= 8; i++ {
					for d := 0; d <= 6; d++ {
						var ops []c22Op
						if c == 1 {
							ops = append(ops, c22Op{-1, 0})
						}
						out = append(out, append(ops, c22Op{i, d}))
					}
				}
			}
			return out
		},
		Run: c22Run, Coq: c22Coq, Parallel: 8,
	})
	Register(Spec[[]c22Op]{
		ID: "C22", Suite: "hist", CoqImports: []string{"Check.C22"},
		CoqType: "list (Z * Z)", CoqRun: "Check.C22.run",
		Quick: 600, Thorough: 20000, Parallel: 16,
		Corpus: func() [][]c22Op {
			return [][]c22Op{
				{{2, 1}, {2, 1}, {3, 3}, {5, 3}, {-1, 0}, {7, 4}},
				{{3, 3}, {3, 3}, {4, 3}, {6, 3}, {3, 3}},
			}
		},
		Gen: func(r *Rand, i int) []c22Op {
			n := r.Range(1, 14)
			ops := make([]c22Op, 0, n)
			for k := 0; k < n; k++ {
				switch {
				case r.Chance(1, 12):
					ops = append(ops, c22Op{-1, 0})
				case r.Chance(1, 3) && len(ops) > 0 && ops[len(ops)-1][0] >= 0:
					ops = append(ops, ops[len(ops)-1]) // repeat: must not re-fire
				default:
					ops = append(ops, c22Op{r.Range(1, 7), r.Range(1, 5)})
				}
			}
			return ops
		},
		Shrink: func(ops []c22Op) [][]c22Op {
			var out [][]c22Op
			for i := range ops {
				c := append(append([]c22Op{}, ops[:i]...), ops[i+1:]...)
				out = append(out, c)
			}
			return out
		},
		Run: c22Run, Coq: c22Coq,
	})
}
