//go:build verif_c37

package main

import "fmt"

// Model side of C37: readers that have a Gallina model (coq/Check/C37.v).
var c37CoqImports = []string{"Check.C37"}

const c37CoqRun = "Check.C37.run"

var c37Modelled = map[string]bool{"ivf": true, "oggnew": true, "oggcrc": true, "oggnocrc": true, "opushead": true, "opustags": true, "rtpdump": true, "h264": true, "h264sei": true, "h265": true, "h265sei": true}

func c37CoqModel(in c37In) string {
	if !c37Modelled[in.Reader] {
		return ""
	}
	return fmt.Sprintf("(%s, %s, %d)", CoqString(in.Reader), CoqString(in.Hex), in.Chunk)
}
