//go:build verif_c37

package main

// Model side of C37: filled in once the reader models of the media builders are merged.
var c37CoqImports = []string{}

const c37CoqRun = "(fun _ => VL [])"

func c37CoqModel(in c37In) string { return "" }
