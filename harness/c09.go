//go:build verif_c09

package main

import (
	"fmt"
)

// C09: a transceiver's mid never changes once set; in every later generated
// offer or answer an m-section keeps its mid and position; new sections are
// appended; a fresh mid never equals a mid of an earlier local or remote
// description.  "Earlier description" = a description that was applied on this
// peer (SetLocalDescription / SetRemoteDescription succeeded): an offer that
// was created and dropped does not pin positions (JSEP).

type c09Applied struct {
	what string   // "local offer", "remote answer", ...
	mids []string // "" where a section has no mid
	app  []bool   // section is m=application
}

func c09Index(mids []string, m string) int {
	for i, x := range mids {
		if x == m {
			return i
		}
	}
	return -1
}

// a description that becomes applied must itself be consistent with the ones
// applied before (shared mids at the same index, none of their mids missing):
// otherwise the remote is not a JSEP peer, or the application applied an offer
// created before a later exchange (pion keeps pc.lastOffer across exchanges and
// accepts it; C01/C03 territory). From then on the history is outside C09's
// quantifier and only clause (1) is checked.
func c09Consistent(applied []c09Applied, a c09Applied) bool {
	for _, b := range applied {
		for j, m := range b.mids {
			if m == "" {
				continue
			}
			if i := c09Index(a.mids, m); i != j {
				return false
			}
		}
	}
	return true
}

// oracle over one peer's log; returns the first failure (signature, text)
func c09Peer(entries []jEntry) (sig, what string, compared int, outside bool) {
	var applied []c09Applied
	lastCreated := map[string]*lDesc{}
	for k := range entries {
		e := &entries[k]
		// (1) mids and kinds of existing transceivers never change; the list only grows
		if len(e.Trs) < len(e.Before) {
			return "transceiver-removed", fmt.Sprintf("call %d (%s): %d transceivers before, %d after", k, e.Op.Op, len(e.Before), len(e.Trs)), compared, outside
		}
		for i, b := range e.Before {
			if b.Mid != "" && e.Trs[i].Mid != b.Mid {
				return "transceiver-mid-changed", fmt.Sprintf("call %d (%s): transceiver %d mid %q -> %q", k, e.Op.Op, i, b.Mid, e.Trs[i].Mid), compared, outside
			}
			if b.Kind != e.Trs[i].Kind {
				return "transceiver-kind-changed", fmt.Sprintf("call %d (%s): transceiver %d", k, e.Op.Op, i), compared, outside
			}
		}
		if e.Local != nil && e.Status == "ok" && outside {
			lastCreated[e.Op.Op] = e.Local
		}
		if e.Local != nil && e.Status == "ok" && !outside {
			d := e.Local
			mids := make([]string, len(d.Secs))
			for i, s := range d.Secs {
				if s.HasMid {
					mids[i] = s.Mid
				}
			}
			// (4) fresh mids of this offer are new with respect to every applied description
			if e.Op.Op == "offer" {
				for i, t := range e.Trs {
					fresh := i >= len(e.Before) || e.Before[i].Mid == ""
					if !fresh || t.Mid == "" {
						continue
					}
					for j, u := range e.Trs {
						if j != i && u.Mid == t.Mid {
							if c09Wrapped(e.Trs) {
								// greaterMid++ went past MaxInt64: the numbering restarts at MinInt64 and
								// repeats itself at the next CreateOffer (C06's greater-mid-overflow)
								return "greater-mid-overflow", fmt.Sprintf("call %d: CreateOffer gave transceiver %d the mid %q of transceiver %d after the counter wrapped", k, i, t.Mid, j), compared, outside
							}
							return "fresh-mid-equals-existing-transceiver-mid", fmt.Sprintf("call %d: CreateOffer gave transceiver %d the mid %q of transceiver %d", k, i, t.Mid, j), compared, outside
						}
					}
					for _, a := range applied {
						if x := c09Index(a.mids, t.Mid); x >= 0 {
							cause := "fresh-mid-reuses-earlier-mid"
							switch {
							case a.what == "local offer" && a.app[x]:
								// the mid Itoa(len) of a data section this peer appended is not
								// reserved: greaterMid never learns it
								cause = "fresh-mid-equals-local-data-section-mid"
							case c09Index(e.PendingMids, t.Mid) >= 0:
								// CreateOffer scans the current remote description only
								cause = "fresh-mid-equals-pending-remote-mid"
							}
							return cause, fmt.Sprintf("call %d: fresh mid %q already in an earlier %s %v", k, t.Mid, a.what, a.mids), compared, outside
						}
					}
				}
				// a data section this offer appended (not the remote's, not in any applied description as application)
				if n := len(d.Secs); n > 0 && d.Secs[n-1].Kind == "application" && d.Secs[n-1].HasMid {
					dm := d.Secs[n-1].Mid
					known := false
					for _, m := range e.RemoteAppMids {
						known = known || m == dm
					}
					if !known {
						for _, a := range applied {
							if i := c09Index(a.mids, dm); i >= 0 && !a.app[i] {
								return "data-mid-equals-existing-mid", fmt.Sprintf("call %d: appended data section takes mid %q, which an earlier %s uses for another section %v", k, dm, a.what, a.mids), compared, outside
							}
						}
					}
				}
			}
			// (2)+(3) position of every mid shared with an applied description
			for _, a := range applied {
				for i, m := range mids {
					if m == "" || c09Index(mids, m) != i {
						continue
					}
					j := c09Index(a.mids, m)
					if j < 0 {
						continue
					}
					compared++
					if i != j {
						cause := "position-changed"
						switch {
						case e.Op.Op == "offer" && len(e.PendingMids) > 0 && e.RemoteSecs == nil:
							// no current remote description yet: CreateOffer uses generateUnmatchedSDP
							// (transceiver order) although a remote offer is pending
							cause = "offer-ignores-pending-remote-offer"
						case c09Unusable(e.RemoteSecs):
							// a section of the remote description with unknown media type or without
							// direction attribute is skipped by generateMatchedSDP: left out of an
							// answer, and in an offer its transceiver is listed after all others
							cause = "unusable-remote-section-skipped"
						case c09HasDup(mids):
							cause = "position-shifted-by-duplicate-mid"
						}
						return cause, fmt.Sprintf("call %d (%s): mid %q at index %d of %v, but at index %d of an earlier %s %v", k, e.Op.Op, m, i, mids, j, a.what, a.mids), compared, outside
					}
				}
			}
			lastCreated[e.Op.Op] = d
		}
		// descriptions that became applied
		if e.Status == "ok" && e.InModel {
			switch e.Op.Op {
			case "sld":
				key := "answer" // pranswer and answer both apply the last created answer
				if e.Op.Ty == "offer" {
					key = "offer"
				}
				if d := lastCreated[key]; d != nil {
					a := c09Applied{what: "local " + key}
					for _, s := range d.Secs {
						m := ""
						if s.HasMid {
							m = s.Mid
						}
						a.mids = append(a.mids, m)
						a.app = append(a.app, s.Kind == "application")
					}
					outside = outside || !c09Consistent(applied, a)
					applied = append(applied, a)
				}
			case "srd", "srdext", "srdmirror", "srdpeer":
				a := c09Applied{what: "remote " + e.Op.Ty}
				for _, s := range e.Op.Desc.Secs {
					a.mids = append(a.mids, s.Mid)
					a.app = append(a.app, s.Kind == "application")
				}
				outside = outside || !c09Consistent(applied, a)
				applied = append(applied, a)
			}
		}
	}
	return "", "", compared, outside
}

func c09Wrapped(trs []jTr) bool {
	for _, t := range trs {
		if t.Mid == "-9223372036854775808" {
			return true
		}
	}
	return false
}

func c09Unusable(secs []jSec) bool {
	for _, r := range secs {
		known := r.Kind == "audio" || r.Kind == "video" || r.Kind == "application"
		if !known || (r.Kind != "application" && r.Dir == "") {
			return true
		}
	}
	return false
}

func c09HasDup(mids []string) bool {
	seen := map[string]bool{}
	for _, m := range mids {
		if m != "" && seen[m] {
			return true
		}
		seen[m] = true
	}
	return false
}

func c09Run(c jCase) (V, Verdict) {
	log := jsepRun(c)
	jCoqCache.Store(jKey(c), jsepCoq(log))
	v := Pass("", false)
	total, descs := 0, 0
	outside := false
	for pi := range log.Peers {
		for k := range log.Peers[pi] {
			if log.Peers[pi][k].Local != nil {
				descs++
			}
		}
		sig, what, n, out := c09Peer(log.Peers[pi])
		total += n
		outside = outside || out
		if sig != "" && v.OK {
			v = Fail(sig, fmt.Sprintf("peer %d %s", pi, what))
		}
	}
	if sig, what := log.projFailure(); sig != "" && v.OK {
		v = Fail(sig, what)
	}
	if v.OK {
		v.NonTrivial = descs >= 2 && total >= 2
		v.Class = fmt.Sprintf("peers%d/descs%d/compared%d", c.Peers, min(descs, 5), min(total/4*4, 16))
		if outside {
			v.Class += "/inconsistent-description-applied"
		}
	}
	return log.V(), v
}

func c09Corpus() []jCase {
	sec := func(k, m, d string) jSec { return jSec{Kind: k, Mid: m, Dir: d, Codec: true} }
	return append([]jCase{
		// the C06 witness: the appended data section reuses the remote's mid "1"
		{Peers: 1, Ops: []jOp{
			{Op: "srd", Ty: "offer", Desc: &jDesc{Secs: []jSec{sec("audio", "1", "sendrecv")}, Group: jStr("BUNDLE 1")}},
			{Op: "answer"}, {Op: "sld", Ty: "answer"}, {Op: "dc"}, {Op: "offer"}}},
		// a dropped section shifts the position of a later mid in the answer
		{Peers: 1, Ops: []jOp{
			{Op: "srd", Ty: "offer", Desc: &jDesc{Secs: []jSec{sec("audio", "0", "sendrecv"), sec("text", "1", "sendrecv"), sec("video", "2", "sendrecv")}, Group: jStr("BUNDLE 0 1 2")}},
			{Op: "answer"}}},
		// CreateOffer while a remote offer is pending: fresh mid "0" is the pending offer's mid
		{Peers: 1, Ops: []jOp{
			{Op: "add", Kind: "audio", Dir: "recvonly"},
			{Op: "srd", Ty: "offer", Desc: &jDesc{Secs: []jSec{sec("video", "0", "sendrecv")}, Group: jStr("BUNDLE 0")}},
			{Op: "offer"}}},
		// re-offer before the answer arrived: the new transceiver takes the data section's mid
		{Peers: 1, Ops: []jOp{
			{Op: "dc"}, {Op: "offer"}, {Op: "sld", Ty: "offer"}, {Op: "add", Kind: "audio", Dir: "sendrecv"}, {Op: "offer"}}},
		// remote offer [40, 41(message)] pending; AddTransceiver; CreateOffer: fresh mid "41"
		{Peers: 1, Ops: []jOp{
			{Op: "srd", Ty: "offer", Desc: &jDesc{Secs: []jSec{sec("audio", "40", "sendrecv"), sec("message", "41", "sendonly")}, Group: jStr("BUNDLE 40 41")}},
			{Op: "add", Kind: "video", Dir: "recvonly"}, {Op: "offer"}}},
		// CreateOffer while the first remote offer is pending lists transceivers in creation order
		{Peers: 1, Ops: []jOp{
			{Op: "add", Kind: "video", Dir: "recvonly"},
			{Op: "srd", Ty: "offer", Desc: &jDesc{Secs: []jSec{sec("audio", "7", "sendrecv")}, Group: jStr("BUNDLE 7")}},
			{Op: "offer"}}},
		// greaterMid wraps around after a remote mid MaxInt64-1: the second offer repeats a mid
		{Peers: 1, Ops: []jOp{
			{Op: "srd", Ty: "offer", Desc: &jDesc{Secs: []jSec{sec("video", "9223372036854775806", "sendrecv")}, Group: jStr("BUNDLE 9223372036854775806")}},
			{Op: "answer"}, {Op: "sld", Ty: "answer"},
			{Op: "add", Kind: "audio", Dir: "recvonly"}, {Op: "add", Kind: "audio", Dir: "recvonly"}, {Op: "offer"},
			{Op: "add", Kind: "audio", Dir: "recvonly"}, {Op: "offer"}}},
		// stale descriptions (Coq: ex_stale_offer, ex_stale_answer): an offer created before a remote
		// exchange and applied after it; an answer created for an earlier remote offer
		{Peers: 1, Ops: []jOp{
			{Op: "add", Kind: "audio", Dir: "sendrecv"}, {Op: "offer"},
			{Op: "srd", Ty: "offer", Desc: &jDesc{Secs: []jSec{sec("video", "v", "sendonly")}, Group: jStr("BUNDLE v")}},
			{Op: "answer"}, {Op: "sld", Ty: "answer"}, {Op: "sld", Ty: "offer"}}},
		{Peers: 1, Ops: []jOp{
			{Op: "srd", Ty: "offer", Desc: &jDesc{Secs: []jSec{sec("audio", "a", "sendrecv")}, Group: jStr("BUNDLE a")}},
			{Op: "answer"}, {Op: "sld", Ty: "answer"},
			{Op: "srd", Ty: "offer", Desc: &jDesc{Secs: []jSec{sec("audio", "a", "sendrecv"), sec("video", "b", "sendonly")}, Group: jStr("BUNDLE a b")}},
			{Op: "sld", Ty: "answer"}}},
		// three rounds, both sides offering, additions on both sides
		{Peers: 2, Ops: []jOp{
			{P: 0, Op: "add", Kind: "audio", Dir: "sendrecv"}, {P: 0, Op: "add", Kind: "video", Dir: "sendrecv"}, {P: 0, Op: "dc"},
			{P: 0, Op: "offer"}, {P: 0, Op: "sld", Ty: "offer"}, {P: 1, Op: "srdpeer", Ty: "offer"},
			{P: 1, Op: "answer"}, {P: 1, Op: "sld", Ty: "answer"}, {P: 0, Op: "srdpeer", Ty: "answer"},
			{P: 1, Op: "add", Kind: "video", Dir: "sendonly"}, {P: 1, Op: "add", Kind: "audio", Dir: "recvonly"},
			{P: 1, Op: "offer"}, {P: 1, Op: "sld", Ty: "offer"}, {P: 0, Op: "srdpeer", Ty: "offer"},
			{P: 0, Op: "answer"}, {P: 0, Op: "sld", Ty: "answer"}, {P: 1, Op: "srdpeer", Ty: "answer"},
			{P: 0, Op: "stop", Idx: 1}, {P: 0, Op: "add", Kind: "audio", Dir: "sendonly"},
			{P: 0, Op: "offer"}, {P: 0, Op: "sld", Ty: "offer"}, {P: 1, Op: "srdpeer", Ty: "offer"},
			{P: 1, Op: "answer"}, {P: 1, Op: "sld", Ty: "answer"}, {P: 0, Op: "srdpeer", Ty: "answer"}}},
	}, jCorpusOps()...)
}

func init() {
	signalOnly(true)
	imports := []string{"Model.JsepMid", "Check.JsepMidRun", "Check.C09"}
	Register(Spec[jCase]{
		ID: "C09", Suite: "pair", CoqImports: imports,
		CoqType: "list (list op)", CoqRun: jRunName("C09"),
		Quick: 110, Thorough: 2000, Parallel: 8,
		Corpus: c09Corpus,
		Gen: func(r *Rand, i int) jCase {
			if i%3 == 0 {
				return jGenPair(r, 0)
			}
			return jGenPair(r, 10)
		},
		Run: c09Run, Coq: jCoqOf, Shrink: jShrink,
	})
	Register(Spec[jCase]{
		ID: "C09", Suite: "synth", CoqImports: imports,
		CoqType: "list (list op)", CoqRun: jRunName("C09"),
		Quick: 140, Thorough: 3000, Parallel: 8,
		Gen: func(r *Rand, i int) jCase {
			if i%3 == 0 {
				return jGenSynth(r, 0)
			}
			return jGenSynth(r, 10)
		},
		Run: c09Run, Coq: jCoqOf, Shrink: jShrink,
	})
	Register(Spec[jCase]{
		ID: "C09", Suite: "hostile", CoqImports: imports,
		CoqType: "list (list op)", CoqRun: jRunName("C09"),
		Quick: 70, Thorough: 1200, Parallel: 8,
		Gen: func(r *Rand, i int) jCase { return jGenSynth(r, 30) },
		Run: c09Run, Coq: jCoqOf, Shrink: jShrink,
	})
}
